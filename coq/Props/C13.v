(* C13 -- The confidence threshold only demotes low-confidence MCS results.
   Thresholds and confidences are the order-preserving integer keys of the float64 values
   (numpy compares the float32 score with the Python float threshold in float64). *)
From Coq Require Import String ZArith List Bool.
From SynRBL Require Import Base.Dict Model.Comp Model.Matcher Model.Pipeline Proofs.PipelineProofs.
Import ListNotations.
Open Scope string_scope.

(* solved exactly when the confidence reaches the threshold; otherwise the issue is the
   threshold message *)
Theorem C13_threshold_exact : forall O db ban fuel t tmsg ins rows st,
  run O db ban fuel t tmsg ins = Done (rows, st) ->
  forall r, In r rows -> sby r = Some M_MCS ->
    exists c, conf r = Some c /\ (solved r = true <-> (c >= t)%Z) /\
              (solved r = false -> issue r = Some tmsg).
Proof. exact conf_threshold_exact. Qed.

(* same input, two thresholds: identical confidences, reactions, methods and rules; rows of the
   other methods and declined rows identical; raising t never solves an unsolved row *)
Theorem C13_two_thresholds : forall O db ban fuel t t' m m' ins rows rows' st st',
  run O db ban fuel t m ins = Done (rows, st) -> run O db ban fuel t' m' ins = Done (rows', st') ->
  Forall2 (fun r r' =>
    conf r = conf r' /\ rxn r = rxn r' /\ rinput r = rinput r' /\ sby r = sby r' /\ rules r = rules r' /\
    (sby r <> Some M_MCS -> r = r') /\
    ((t <= t')%Z -> solved r' = true -> solved r = true)) rows rows'.
Proof. exact conf_two_thresholds. Qed.

(* The confidence lying in [0,1] is the scoring model's contract (oracle assumption A5),
   checked on every scored row by the harness.  The model raises (the batch is lost) where the
   source asserts an empty issue before demoting; both theorems are about completed runs. *)

Print Assumptions C13_threshold_exact.
Print Assumptions C13_two_thresholds.
