(* C19 -- The rule database stays consistent under any sequence of edits.
   atoms = RDKit's parse of a SMILES (oracle, universally quantified); T = symbol table. *)
From Coq Require Import String ZArith List Bool Lia.
From SynRBL Require Import Base.Dict Model.Comp Model.Matcher Model.RuleDB Proofs.CompProofs Proofs.RuleDBProofs
  Gen.GenSymbols Gen.GenRules.
Import ListNotations.
Open Scope string_scope. Open Scope Z_scope.

Notation T := (atomic_symbols ++ rdkit_symbols)%list.

(* the invariant: unique formulas, unique SMILES, every record valid with the composition of
   its SMILES and an explicit charge entry *)
Theorem C19_inv_empty : forall atoms, Inv atoms T [].
Proof. intros; apply inv_empty. Qed.
Theorem C19_inv_step : forall atoms db o, Inv atoms T db -> Inv atoms T (step atoms T db o).
Proof. intros; now apply inv_step. Qed.
Theorem C19_inv_every_history : forall atoms ops db,
  Inv atoms T db -> Inv atoms T (fold_left (step atoms T) ops db).
Proof. intros; now apply inv_reachable. Qed.

(* rejected additions: exactly for one of the three reasons, and nothing changes *)
Theorem C19_reject_iff : forall atoms db f s,
  add_entry atoms T db f s = None <->
  (In f (map eformula db) \/ In s (map esmiles db) \/ valid atoms s = false).
Proof. intros; apply add_entry_reject_iff. Qed.
Theorem C19_reject_is_noop : forall atoms db f s,
  add_entry atoms T db f s = None -> step atoms T db (Add f s) = db.
Proof. intros atoms db f s H. unfold step. now rewrite H. Qed.
Theorem C19_accept_appends_true_record : forall atoms db f s db',
  Inv atoms T db -> add_entry atoms T db f s = Some db' ->
  db' = (db ++ [{| eformula := f; esmiles := s; ecomp := comp_of atoms T s |}])%list.
Proof. intros atoms db f s db' I H. now destruct (add_entry_inv atoms T db f s db' I H). Qed.
Theorem C19_bulk_reports_only_rejected : forall atoms es db f s,
  In (f, s) (snd (add_entries atoms T db es)) -> In (f, s) es.
Proof. intros atoms es. apply add_entries_reports_rejected. Qed.
Theorem C19_bulk_all_rejected_noop : forall atoms es db,
  (forall f s, In (f, s) es -> add_entry atoms T db f s = None) ->
  add_entries atoms T db es = (db, es).
Proof. intros atoms es. apply add_entries_all_rejected_noop. Qed.
(* a removal deletes only the named entry *)
Theorem C19_remove_only_named : forall db f, NoDup (map eformula db) ->
  forall d, In d (remove_entry db f) <-> (In d db /\ eformula d <> f).
Proof. intros db f ND d. exact (remove_only_named (fun _ => None) db f ND d). Qed.
Theorem C19_remove_absent_noop : forall db f, ~ In f (map eformula db) -> remove_entry db f = db.
Proof. exact remove_absent_noop. Qed.

(* generated-data obligation: the shipped databases satisfy the invariant they are the
   starting point of (duplicate-freedom; the composition clause is C08.db_records_true) *)
Theorem C19_shipped_databases_duplicate_free :
  nodupb (map rformula rules_manager) = true /\ nodupb (map rsmiles rules_manager) = true /\
  nodupb (map rformula automated_rules) = true /\ nodupb (map rsmiles automated_rules) = true.
Proof. repeat split; vm_compute; reflexivity. Qed.

(* non-vacuity: a concrete two-step history from the empty database *)
Example history :
  let atoms := fun s => if String.eqb s "O" then Some ([8;1;1], 0) else if String.eqb s "[OH-]" then Some ([8;1], -1) else None in
  map esmiles (fold_left (step atoms T) [Add "H2O" "O"; Add "H2O" "OO"; Add "x" "XX"; AddMany [("OH-","[OH-]");("w","O")]; Remove "H2O"] []) = ["[OH-]"].
Proof. vm_compute. reflexivity. Qed.

Print Assumptions C19_inv_empty.
Print Assumptions C19_inv_step.
Print Assumptions C19_inv_every_history.
Print Assumptions C19_reject_iff.
Print Assumptions C19_reject_is_noop.
Print Assumptions C19_accept_appends_true_record.
Print Assumptions C19_bulk_reports_only_rejected.
Print Assumptions C19_bulk_all_rejected_noop.
Print Assumptions C19_remove_only_named.
Print Assumptions C19_remove_absent_noop.
Print Assumptions C19_shipped_databases_duplicate_free.
