(* C09 -- Fragment merging conserves atoms and its reported rules explain the result.
   Model: Model/Merge.v (merge_two_mols on atom/bond lists, first-applicable rule selection, MergeRule.apply's
   bookkeeping incl. the swap of the two boundaries, _merge_one_compound); rule lists regenerated from the
   three JSON files on every run (Gen/GenMerge.v).  Whether a rule's conditions hold and what its actions
   do to a fragment are oracles (actions are assumed to keep the atoms); sanitisation/validity is RDKit's.
   Proved for every oracle:
     - merging keeps exactly the atoms of both fragments (hence carbon and heavy-atom counts add up) and adds at
       most one bond -- none for a restriction rule;
     - cutting the single bond (u, v) that joins atoms 0..n-1 to the rest and merging the two parts again at u
       and v-n with that bond type restores the atom list and the bond multiset (C09_cut_and_merge_restores);
     - the applied rule is applicable and is the FIRST applicable rule of the list;
     - completing one open fragment ends with no open boundary whenever it ends, it always ends within as many
       iterations as there are boundaries, and the atoms of the result are those of the fragment plus those of
       the compounds of the expansion rules it reports, all of which are in its rule list.
   Reconstruction for an arbitrary atom numbering of the fragments is decided by the correspondence
   (canonical SMILES of the merged product vs the original, RDKit), not proved. *)
From Coq Require Import String List Bool Arith Permutation.
From SynRBL Require Import Model.Merge Proofs.MergeProofs Gen.GenMerge.
Import ListNotations.
Open Scope string_scope.

Theorem C09_merge_conserves_atoms : forall g1 g2 i j bt s,
  matoms (merge_two_mols g1 g2 i j bt) = (matoms g1 ++ matoms g2)%list /\
  count_sym s (merge_two_mols g1 g2 i j bt) = count_sym s g1 + count_sym s g2 /\
  length (mbonds (merge_two_mols g1 g2 i j bt)) = length (mbonds g1) + length (mbonds g2) + match bt with Some _ => 1 | None => 0 end.
Proof. intros. split; [apply merge_atoms|split; [apply count_sym_merge|apply merge_bond_count]]. Qed.

Theorem C09_cut_and_merge_restores : forall g n u v t, n <= length (matoms g) ->
  filter (fun b => Nat.eqb (side n b) 2) (mbonds g) = [(u, v, t)] -> n <= v ->
  let m := merge_two_mols (left_part n g) (right_part n g) u (v - n) (Some t) in
  matoms m = matoms g /\ Permutation (mbonds m) (mbonds g).
Proof. exact cut_merge. Qed.

Theorem C09_first_applicable_rule : forall mcond rules x y r, select_rule mcond rules x y = Some r ->
  exists pre post, rules = (pre ++ r :: post)%list /\ applicable mcond r x y = true /\
                   forallb (fun r' => negb (applicable mcond r' x y)) pre = true.
Proof. exact select_rule_first. Qed.

Theorem C09_applied_rule_keeps_atoms : forall mcond mact, (forall name s x, matoms (mact name s x) = matoms (cmol (fst x))) ->
  forall r x y, Permutation (matoms (cmol (apply_rule mcond mact r x y))) (matoms (cmol (fst x)) ++ matoms (cmol (fst y))).
Proof. exact apply_rule_atoms. Qed.

Theorem C09_completion_explained_by_reported_rules : forall mcond econd mact,
  (forall name s x, matoms (mact name s x) = matoms (cmol (fst x))) ->
  forall rules erules fuel c used res used', merge_one mcond econd mact rules erules fuel c used = MOk res used' ->
  cbounds res = [] /\
  exists new, used' = (used ++ new)%list /\
    Permutation (matoms (cmol res)) (matoms (cmol c) ++ flat_map (fun e => matoms (ecompound e)) new) /\
    (forall e, In e new -> In (ename e) (crules res)) /\ (forall n, In n (crules c) -> In n (crules res)).
Proof. exact merge_one_spec. Qed.

Theorem C09_completion_terminates : forall mcond econd mact rules erules fuel c used, length (cbounds c) <= fuel ->
  merge_one mcond econd mact rules erules fuel c used <> MFuel.
Proof. exact merge_one_terminates. Qed.

(* generated obligations on the current rule files: every expansion compound has its boundary atom, the
   restriction rules form no bond, the list ends with an unconditional-by-name default *)
Theorem C09_generated_rule_tables_wellformed :
  forallb (fun e => Nat.ltb (eindex e) (length (matoms (ecompound e)))) expand_rules = true /\
  existsb (fun r => match mbond r with None => true | Some _ => false end) merge_rules = true /\
  match last merge_rules {| mname := ""; mbond := None |} with {| mname := n; mbond := Some 1 |} => String.eqb n "default single bond" | _ => false end = true.
Proof. repeat split; vm_compute; reflexivity. Qed.

(* non-vacuity: ethyl acetate cut at the ester C-O bond (atoms C C O | O C C, block numbering) *)
Definition ester : mgraph := {| matoms := ["C"; "C"; "O"; "O"; "C"; "C"]; mbonds := [(0, 1, 1); (1, 2, 2); (1, 3, 1); (3, 4, 1); (4, 5, 1)] |}.
Example C09_example :
  filter (fun b => Nat.eqb (side 3 b) 2) (mbonds ester) = [(1, 3, 1)] /\
  merge_two_mols (left_part 3 ester) (right_part 3 ester) 1 0 (Some 1) =
    {| matoms := ["C"; "C"; "O"; "O"; "C"; "C"]; mbonds := [(0, 1, 1); (1, 2, 2); (3, 4, 1); (4, 5, 1); (1, 3, 1)] |}.
Proof. split; vm_compute; reflexivity. Qed.

Print Assumptions C09_merge_conserves_atoms.
Print Assumptions C09_cut_and_merge_restores.
Print Assumptions C09_first_applicable_rule.
Print Assumptions C09_applied_rule_keeps_atoms.
Print Assumptions C09_completion_explained_by_reported_rules.
Print Assumptions C09_completion_terminates.
Print Assumptions C09_generated_rule_tables_wellformed.
