(* C20 -- Tautomer standardisation conserves atoms and returns valid SMILES.
   Model: Model/Standardize.v.  The chemistry (fgutils' group query, RDKit's bond edits, sanitisation,
   canonical SMILES) is an oracle; modelled and proved: the control flow of __call__ and the atom picking
   of the two step functions.
   Proved for every oracle: a molecule without enol/hemiketal group is only canonicalised; with exactly
   one such group exactly one step is applied, on fresh indices, and if the chemistry oracle conserves
   the composition on that step so does the result, which is an output of the canonicaliser (never one of
   the error messages); idempotence once no rewritable group is left; the (repaired) enol picking finds
   the oxygen-bearing carbon for EVERY order in which the three atoms are listed (all atom orders).
   The full statement is REFUTED: the group list is computed once and goes stale after the first rewrite
   (C20_refuted_stale_list: OC(O)O gains H2, with the implementation's recorded answers); error messages
   are fed on as SMILES and make the final canonicalisation raise (C20_refuted_error_message_raises:
   enolates, alkoxy hemiketals) -- recorded known findings.  The pinned tree also chose the enol carbon by
   INDEX distance 1 from the oxygen (C20_old_pick_refuted), so vinyl alcohol written as C(=C)O raised:
   repaired in /repo (fix: commit in known_findings.json). *)
From Coq Require Import String List Bool Arith.
From SynRBL Require Import Model.Standardize Proofs.StandardizeProofs.
Import ListNotations.
Open Scope string_scope.

Theorem C20_no_group_only_canonicalised : forall O s gs, query O s = Some gs ->
  forallb (fun g => negb (rewriting g)) gs = true -> standardize O s = canon O s.
Proof. exact no_group_identity. Qed.

Theorem C20_partial_single_group_conserves : forall O (C : Type) (comp : string -> option C),
  (forall s r, canon O s = Some r -> comp r = comp s /\ comp r <> None) ->
  forall s pre g post r, query O s = Some (pre ++ g :: post)%list ->
  forallb (fun g => negb (rewriting g)) pre = true -> forallb (fun g => negb (rewriting g)) post = true -> rewriting g = true ->
  comp (if String.eqb (fst g) "hemiketal" then step_hemi O s (snd g) else step_enol O s (snd g)) = comp s ->
  standardize O s = Some r -> comp r = comp s /\ comp r <> None.
Proof. exact single_group_conserves. Qed.

Theorem C20_result_is_never_an_error_message : forall O s r, standardize O s = Some r -> exists s', canon O s' = Some r.
Proof. exact result_is_canonical. Qed.

Theorem C20_idempotent_when_no_group_left : forall O s r gs, standardize O s = Some r -> query O r = Some gs ->
  forallb (fun g => negb (rewriting g)) gs = true -> canon O r = Some r -> standardize O r = Some r.
Proof. exact idempotent. Qed.

Theorem C20_enol_pick_all_atom_orders : forall sym bonded c1 c2 o,
  is_o sym o = true -> is_o sym c1 = false -> is_o sym c2 = false -> bonded c2 o = true -> bonded c1 o = false ->
  forall l, In l [[c1; c2; o]; [c1; o; c2]; [c2; c1; o]; [c2; o; c1]; [o; c1; c2]; [o; c2; c1]] -> enol_pick sym bonded l = Some (c1, c2, o).
Proof. exact enol_pick_order_independent. Qed.

(* the pinned tree's picking on vinyl alcohol written as C(=C)O: atoms 0 (C, carries O), 1 (C), 2 (O) *)
Theorem C20_old_pick_refuted :
  let sym := fun i => if Nat.eqb i 2 then "O" else "C" in
  let bonded := fun i j => (Nat.eqb i 0 && Nat.eqb j 2) || (Nat.eqb i 2 && Nat.eqb j 0) || (Nat.eqb i 0 && Nat.eqb j 1) || (Nat.eqb i 1 && Nat.eqb j 0) in
  enol_pick_old sym [0; 1; 2] = Some (0, 1, 2) /\ enol_pick sym bonded [0; 1; 2] = Some (1, 0, 2).
Proof. split; reflexivity. Qed.

(* the stale group list: answers recorded from the implementation for orthocarbonic acid.  Each step, applied
   to fresh indices of its own input, conserves the composition; the run does not (CH4O3 -> CH6O3) *)
Definition tbl {A} (l : list (string * A)) (d : A) (s : string) : A :=
  match find (fun p => String.eqb (fst p) s) l with Some p => snd p | None => d end.
Definition Ostale : soracle :=
  {| query := tbl [("OC(O)O", Some [("hemiketal", [0; 1; 3]); ("hemiketal", [1; 2; 3])]); ("O.O=CO", Some [("carboxylic_acid", [1; 2; 3])]);
                   ("C=O.O.O", Some [("aldehyde", [0; 1])])] None;
     step_enol := fun s _ => s;
     step_hemi := fun s idx => if String.eqb s "OC(O)O" then "O.O=CO" else if String.eqb s "O.O=CO" then "C=O.O.O" else "Invalid atom indices provided. Please check the input.";
     canon := tbl [("C=O.O.O", Some "C=O.O.O"); ("O.O=CO", Some "O.O=CO"); ("OC(O)O", Some "OC(O)O")] None |}.
Definition formula (s : string) : option (nat * nat * nat) :=      (* C, H, O counts of the strings of this witness *)
  tbl [("OC(O)O", Some (1, 4, 3)); ("O.O=CO", Some (1, 4, 3)); ("C=O.O.O", Some (1, 6, 3))] None s.
Theorem C20_refuted_stale_list :
  standardize Ostale "OC(O)O" = Some "C=O.O.O" /\ formula "OC(O)O" = Some (1, 4, 3) /\ formula "C=O.O.O" = Some (1, 6, 3) /\
  formula (step_hemi Ostale "OC(O)O" [0; 1; 3]) = formula "OC(O)O".
Proof. repeat split; reflexivity. Qed.

(* an error message is fed on as a SMILES: the run raises (enolate C=C[O-], recorded answers) *)
Definition Oenolate : soracle :=
  {| query := tbl [("C=C[O-]", Some [("enol", [0; 1; 2])])] None;
     step_enol := fun _ _ => "Error in sanitizing molecule: Explicit valence for atom # 2 O, 2, is greater than permitted";
     step_hemi := fun s _ => s; canon := fun _ => None |}.
Theorem C20_refuted_error_message_raises : standardize Oenolate "C=C[O-]" = None.
Proof. reflexivity. Qed.

Print Assumptions C20_no_group_only_canonicalised.
Print Assumptions C20_partial_single_group_conserves.
Print Assumptions C20_result_is_never_an_error_message.
Print Assumptions C20_idempotent_when_no_group_left.
Print Assumptions C20_enol_pick_all_atom_orders.
Print Assumptions C20_old_pick_refuted.
Print Assumptions C20_refuted_stale_list.
Print Assumptions C20_refuted_error_message_raises.
