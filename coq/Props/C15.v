(* C15 -- Atom-map removal keeps every molecule chemically identical; no map number survives.
   Model: Model/Aam.v (the two re.sub passes as deterministic scanners).
   Proved at full strength: no ':' followed by a digit is left in the result (C15_no_map_survives), for
   EVERY input string.  The exact effect of the second pass is proved as three equations
   (C15_copies_other_characters, C15_bracket_group, C15_non_organic_bracket_atoms_verbatim): apart from
   the removed ":n" the output differs from the input ONLY in bracket groups "[u]", "[uH]", "[uHn]" with
   u one or two organic-subset symbols, which are replaced by u -- every bracket atom that carries an
   isotope, a chirality mark, a charge, an aromatic or non-organic symbol is returned verbatim.
   "Chemically identical" therefore reduces to one oracle question: does the un-bracketed atom u get
   the same hydrogen count implicitly?  RDKit answers (correspondence); for normal valences yes.  It is
   FALSE for hypervalent hydrides and for a ring-closure digit after an aromatic-bond colon
   (C15_refuted_*: the model's output for three witnesses; the check shows with RDKit that the
   molecules differ) -- recorded known findings, the regular expressions cannot know valence. *)
From Coq Require Import String Ascii List Bool Arith.
From SynRBL Require Import Base.Strs Model.Aam Proofs.AamProofs.
Import ListNotations.
Open Scope string_scope.

Theorem C15_no_map_survives : forall s, no_colon_digit (remove_atom_mapping s) = true.
Proof. exact no_map_survives. Qed.

Theorem C15_copies_other_characters : forall c t, Ascii.eqb c lbr = false -> pass2 (String c t) = String c (pass2 t).
Proof. exact pass2_other. Qed.

Theorem C15_bracket_group : forall w r, has_char rbr w = false ->
  pass2 (String lbr (w ++ String rbr r)) =
  if negb (has_char lbr w) && organic12 (strip_h w) then strip_h w ++ pass2 r
  else String lbr (pass2 (w ++ String rbr r)).
Proof. exact pass2_bracket. Qed.

Theorem C15_non_organic_bracket_atoms_verbatim : forall w r,
  has_char rbr w = false -> has_char lbr w = false -> organic12 (strip_h w) = false ->
  pass2 (String lbr (w ++ String rbr r)) = String lbr (w ++ String rbr (pass2 r)).
Proof. exact pass2_bracket_kept. Qed.

(* non-vacuity: what stays and what is rewritten *)
Example C15_example :
  map remove_atom_mapping ["[CH3:1][OH:2]"; "[Na+:3].[Cl-:4]"; "[13CH3:1]Br"; "[C@@H:1](F)(Cl)Br"; "[nH:1]1cccc1"; "[NH4+:7]"; "C[Se:2]C"]
  = ["CO"; "[Na+].[Cl-]"; "[13CH3]Br"; "[C@@H](F)(Cl)Br"; "[nH]1cccc1"; "[NH4+]"; "C[Se]C"] /\
  organic12 (strip_h "13CH3") = false /\ organic12 (strip_h "C@@H") = false /\ organic12 (strip_h "Na+") = false /\
  organic12 (strip_h "CH3") = true.
Proof. repeat split; vm_compute; reflexivity. Qed.

(* refutations of "chemically identical": the explicit hydrogen count of a hypervalent hydride is dropped,
   a ring-closure digit after an aromatic-bond colon is eaten *)
Theorem C15_refuted_PH2 : remove_atom_mapping "O=[PH2:1]O" = "O=PO".
Proof. vm_compute. reflexivity. Qed.
Theorem C15_refuted_SH4 : remove_atom_mapping "[SH4:1]" = "S".
Proof. vm_compute. reflexivity. Qed.
Theorem C15_refuted_ring_closure : remove_atom_mapping "c:1ccccc:1" = "cccccc".
Proof. vm_compute. reflexivity. Qed.

Print Assumptions C15_no_map_survives.
Print Assumptions C15_copies_other_characters.
Print Assumptions C15_bracket_group.
Print Assumptions C15_non_organic_bracket_atoms_verbatim.
Print Assumptions C15_refuted_PH2.
Print Assumptions C15_refuted_SH4.
Print Assumptions C15_refuted_ring_closure.
