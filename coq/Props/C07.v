(* C07 -- Element, hydrogen and charge accounting of a SMILES is exact.
   Statements only; every proof is `exact <lemma of Proofs/CompProofs.v>` or a computation
   on the table generated from /repo.  T = RSMIDecomposer.atomic_symbols as it is now. *)
From Coq Require Import String ZArith List Bool Lia Permutation.
From SynRBL Require Import Base.Dict Model.Comp Proofs.CompProofs Gen.GenSymbols.
Import ListNotations.
Open Scope string_scope. Open Scope Z_scope.

(* the table of the source, then the fallback the source uses for every other atomic number
   (atom.GetSymbol(), i.e. RDKit's periodic table, generated as an oracle table) *)
Notation T := (atomic_symbols ++ rdkit_symbols)%list.

(* generated-data obligation: re-checked against the current table on every run *)
Theorem sym_table_injective_1_118 : tbl_ok T = true.
Proof. vm_compute. reflexivity. Qed.

(* composition = true atom counts (elements 1..118), true charge, no stored zero *)
Theorem C07_decompose_exact : forall zs q,
  (forall x, In x zs -> 1 <= x <= 118) ->
  (forall z, 1 <= z <= 118 ->
     getd (decompose T zs q) (sym T z) = Z.of_nat (count_occ Z.eq_dec zs z)) /\
  getd (decompose T zs q) "Q" = q /\
  wf (decompose T zs q) /\ nodupk (decompose T zs q) /\
  (forall k, In k (keys (decompose T zs q)) -> k = "Q" \/ exists z, In z zs /\ k = sym T z).
Proof. exact (decompose_exact T sym_table_injective_1_118). Qed.

(* additive over the components of a mixture, independent of atom order *)
Theorem C07_decompose_additive : forall zs1 zs2 q1 q2 k,
  no_q_atom T zs1 -> no_q_atom T zs2 ->
  getd (decompose T (zs1 ++ zs2) (q1 + q2)) k =
  getd (decompose T zs1 q1) k + getd (decompose T zs2 q2) k.
Proof. exact (decompose_additive T). Qed.
Theorem C07_decompose_perm : forall zs zs' q k,
  Permutation zs zs' -> getd (decompose T zs q) k = getd (decompose T zs' q) k.
Proof. exact (decompose_perm T). Qed.

(* verdicts and difference formula *)
Theorem C07_balance_iff : forall r p, wf r -> wf p ->
  (compare_dicts r p = Balance <-> forall k, getd r k = getd p k).
Proof. exact compare_balance_iff. Qed.
Theorem C07_products_sound : forall r p, nodupk r -> nodupk p ->
  compare_dicts r p = Products -> forall k, getd r k = getd p k + getd (diff_dicts r p) k.
Proof. exact compare_products_sound. Qed.
Theorem C07_reactants_sound : forall r p, nodupk r -> nodupk p ->
  compare_dicts r p = Reactants -> forall k, getd p k = getd r k + getd (diff_dicts r p) k.
Proof. exact compare_reactants_sound. Qed.
Theorem C07_diff_abs : forall r p k, nodupk r -> nodupk p ->
  Z.abs (getd (diff_dicts r p) k) = Z.abs (getd r k - getd p k).
Proof. exact diff_abs. Qed.
Theorem C07_verdict_exact_when_charge_equal : forall r p,
  wf r -> wf p -> pos r -> pos p -> getd r "Q" = getd p "Q" ->
  match compare_dicts r p with
  | Balance => forall k, getd r k = getd p k
  | Products => (forall k, getd r k >= getd p k) /\ ~ (forall k, getd r k = getd p k)
  | Reactants => (forall k, getd r k <= getd p k) /\ ~ (forall k, getd r k = getd p k)
  | Both => ~ (forall k, getd r k >= getd p k) /\ ~ (forall k, getd r k <= getd p k)
  end.
Proof. exact compare_spec. Qed.
(* the signed re-classification of the rule-based stage *)
Theorem C07_classify_sound : forall r p d v, nodupk r -> nodupk p -> wf r -> wf p ->
  classify r p = (d, v) ->
  match v with
  | Balance => forall k, getd r k = getd p k
  | Products => forall k, getd r k = getd p k + getd d k
  | Reactants => forall k, getd p k = getd r k + getd d k
  | Both => forall k, getd r k = getd p k + getd d k
  end.
Proof. exact classify_sound. Qed.
Theorem C07_carbon_label : forall cr cp,
  (carbon_label cr cp = CBalanced <-> cr = cp) /\
  (carbon_label cr cp = CProducts <-> cr > cp) /\
  (carbon_label cr cp = CReactants <-> cr < cp).
Proof. exact carbon_label_spec. Qed.

(* Both defects the first version of this file refuted (atomic numbers above 86 collapsing
   onto "Unknown"; the dummy atom counted under the charge key) were repaired in /repo
   (see known_findings.json, "fixed"); the statements above are now the full ones and the
   two former witnesses are kept as regression examples. *)
Example U_and_Th_differ : decompose T [92] 0 <> decompose T [90] 0.
Proof. vm_compute. discriminate. Qed.
Example dummy_atom_is_not_charge : getd (decompose T [0] 0) "Q" = 0.
Proof. vm_compute. reflexivity. Qed.

(* non-vacuity: ethanol, acetate, glycine zwitterion (atoms after AddHs) *)
Example ethanol : decompose T [6;6;8;1;1;1;1;1;1] 0 = [("C",2);("O",1);("H",6)].
Proof. vm_compute. reflexivity. Qed.
Example acetate : decompose T [6;6;8;8;1;1;1] (-1) = [("C",2);("O",2);("H",3);("Q",-1)].
Proof. vm_compute. reflexivity. Qed.
Example premises_hold : wf (decompose T [6;6;8;1;1;1;1;1;1] 0) /\ pos (decompose T [7;6;6;8;8;1;1;1;1;1] 0).
Proof. split; [apply decompose_wf | apply decompose_pos]. Qed.
Example verdicts :
  compare_dicts [("C",2);("H",6);("O",1)] [("C",2);("H",4)] = Products /\
  diff_dicts [("C",2);("H",6);("O",1)] [("C",2);("H",4)] = [("H",2);("O",1)] /\
  classify [("C",2);("H",6)] [("C",2);("H",4);("O",1)] = ([("H",2);("O",-1)], Both).
Proof. vm_compute. repeat split. Qed.

Print Assumptions sym_table_injective_1_118.
Print Assumptions C07_decompose_exact.
Print Assumptions C07_decompose_additive.
Print Assumptions C07_decompose_perm.
Print Assumptions C07_balance_iff.
Print Assumptions C07_products_sound.
Print Assumptions C07_reactants_sound.
Print Assumptions C07_diff_abs.
Print Assumptions C07_verdict_exact_when_charge_equal.
Print Assumptions C07_classify_sound.
Print Assumptions C07_carbon_label.
