(* C01 -- A reaction reported as solved is balanced in every element and in charge.
   Full statement: every solved row r of a completed run has bal O (rxn r) = true (which, by
   C04_good_means_equal_compositions and C07, is equality of the true compositions).
   It is FALSE of the faithful model: the reagent post-processing overwrites a validated
   reaction and the final validation pass never re-examines solved rows (C01_refuted, replayed
   on the implementation by the check).  What holds (C01_partial): every solved row was found
   balanced by the validator on exactly the reaction it returns, unless post-processing
   replaced a validated reaction of a rule-based / mcs-based row. *)
From Coq Require Import String ZArith List Bool.
From SynRBL Require Import Base.Dict Model.Comp Model.Matcher Model.Pipeline
  Proofs.PipelineProofs Proofs.RowLocal Proofs.Balanced Proofs.RunLevel.
Import ListNotations.
Open Scope string_scope.

Theorem C01_partial : forall O db ban fuel t tmsg ins rows st,
  run O db ban fuel t tmsg ins = Done (rows, st) ->
  Forall2 (fun s r =>
    solved r = true ->
    bal O (rxn r) = true \/
    (solved (before_pp O db ban fuel (fresh 0 s)) = true /\
     sby (before_pp O db ban fuel (fresh 0 s)) <> Some M_INPUT /\
     pp O (rxn (before_pp O db ban fuel (fresh 0 s))) <> None)) (admitted O ins) rows.
Proof. exact run_solved_validated. Qed.

(* the refutation: an imputed, validated reaction X>>W.M is replaced by a template output X>>Z
   that the comparator does not find balanced, and the row stays solved *)
Definition Obad : oracles :=
  {| strip := fun s => s; parse_ok := fun _ => true;
     decomp := fun s => if String.eqb s "X" then [("C",1);("H",4)]%Z else if String.eqb s "W.M" then [("C",1);("H",4)]%Z
                        else if String.eqb s "W" then [("C",1);("H",2)]%Z else [("C",1);("O",1)]%Z;
     ccount := fun s => if String.eqb s "M" then 0%Z else 1%Z;
     mcs_state := fun _ => (false, ""); impute := fun _ => ImpOk "M" ["r"];
     pp := fun s => if String.eqb s "X>>W.M" then Some "X>>Z" else None;
     confidence := fun _ _ => 1%Z |}.
Theorem C01_refuted : exists O db ban fuel t tmsg ins rows st r,
  run O db ban fuel t tmsg ins = Done (rows, st) /\ In r rows /\ solved r = true /\ bal O (rxn r) = false.
Proof.
  exists Obad, [], [], 10, 0%Z, "m", ["X>>W"].
  eexists. eexists. eexists. split; [vm_compute; reflexivity|]. split; [left; reflexivity|]. split; reflexivity.
Qed.

Print Assumptions C01_partial.
Print Assumptions C01_refuted.
