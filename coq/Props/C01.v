(* C01 -- A reaction reported as solved is balanced in every element and in charge.
   FULL statement, proved for every oracle, database, threshold and input list, on the model of the
   (repaired) pipeline: every solved row r of a completed run has bal O (rxn r) = true, i.e. the comparator
   finds the two sides of exactly the reaction the row returns balanced; by C07 (Balance <=> equal
   compositions; decompose exact for all 118 elements and charge) that is true element-and-charge balance.
   History: the pinned tree violated the property -- the reagent post-processing overwrote a validated
   reaction with a template output that may be unbalanced, and the final validation never re-examines
   solved rows (validation-set row 4098, KMnO4 template).  Repaired in /repo by a fix: commit (a row whose
   validated reaction a template replaced falls back to it unless the reaction it carries after the second
   rule-based run is found balanced); the model follows the repaired code (stage `restore`).  The old
   design is kept below as C01_old_design_refuted. *)
From Coq Require Import String ZArith List Bool.
From SynRBL Require Import Base.Dict Model.Comp Model.Matcher Model.Pipeline
  Proofs.PipelineProofs Proofs.RowLocal Proofs.Balanced Proofs.RunLevel.
Import ListNotations.
Open Scope string_scope.

Theorem C01_solved_rows_are_balanced : forall O db ban fuel t tmsg ins rows st,
  run O db ban fuel t tmsg ins = Done (rows, st) ->
  Forall2 (fun s r => solved r = true -> bal O (rxn r) = true) (kept_inputs O ins) rows.
Proof. exact run_solved_validated. Qed.

(* the same, per row *)
Theorem C01_per_row : forall O db ban fuel i s,
  solved (F O db ban fuel (fresh i s)) = true -> bal O (rxn (F O db ban fuel (fresh i s))) = true.
Proof. exact solved_rows_validated. Qed.

(* an imputed, validated reaction X>>W.M whose template output X>>Z the comparator does not find balanced *)
Definition Obad : oracles :=
  {| strip := fun s => s; parse_ok := fun _ => true;
     decomp := fun s => if String.eqb s "X" then [("C",1);("H",4)]%Z else if String.eqb s "W.M" then [("C",1);("H",4)]%Z
                        else if String.eqb s "W" then [("C",1);("H",2)]%Z else [("C",1);("O",1)]%Z;
     ccount := fun s => if String.eqb s "M" then 0%Z else 1%Z;
     mcs_state := fun _ => (false, ""); impute := fun _ => ImpOk "M" ["r"];
     pp := fun s => if String.eqb s "X>>W.M" then Some "X>>Z" else None;
     confidence := fun _ _ => 1%Z |}.
(* non-vacuity of the repaired pipeline on that oracle: the row falls back to the validated reaction *)
Example C01_example : exists rows st,
  run Obad [] [] 10 0%Z "m" ["X>>W"] = Done (rows, st) /\ map (fun r => (rxn r, solved r, bal Obad (rxn r))) rows = [("X>>W.M", true, true)].
Proof. eexists. eexists. split; vm_compute; reflexivity. Qed.
(* the pinned tree's last stages (no fall-back): the same row stayed solved with the unbalanced template output *)
Definition F_old (O : oracles) (db : list rule) (ban : list string) (fuel : nat) (r : row) : row :=
  validate O M_MCS true true (Some FINAL_MSG) (rb_row O db ban fuel (post_process O (before_pp O db ban fuel r))).
Theorem C01_old_design_refuted :
  let r := F_old Obad [] [] 10 (fresh 0 "X>>W") in solved r = true /\ rxn r = "X>>Z" /\ bal Obad (rxn r) = false.
Proof. repeat split; vm_compute; reflexivity. Qed.

Print Assumptions C01_solved_rows_are_balanced.
Print Assumptions C01_per_row.
Print Assumptions C01_old_design_refuted.
