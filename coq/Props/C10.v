(* C10 -- MCS search reports genuine, correctly attributed, largest common substructures.
   Model: Model/McsSelect.v (job outcomes, get_largest_condition, MCSSearch.find's attachment by id).
   Proved for EVERY job outcome function (any pattern sizes, time-outs, failures, any number >= 1 of
   conditions) and every batch whose unsolved rows have distinct ids:
     - the stage is a map of a per-row function that reads only that row's own jobs (no mixing of
       reactions; position k gets the result computed from row k's id) -- C10_results_attached_to_their_reaction;
     - what is attached to a row is one of its OWN job results and its total number of matched atoms is
       the largest among the conditions tried for that row -- C10_retained_is_own_and_largest;
     - nothing is retained only for a tie at the maximum whose first patterns are all empty (in particular
       when every condition found nothing) -- C10_skip_characterisation.
   Oracle level (RDKit's contract, checked on every reported pair by the correspondence, not proved):
   the reported molecule list is the multiset of molecules of the carbon-richer side and each reported
   pattern is contained in the molecule it is attributed to. *)
From Coq Require Import String List Bool Arith.
From SynRBL Require Import Model.McsSelect Proofs.McsProofs.
Import ListNotations.

Theorem C10_retained_is_own_and_largest : forall col d, select col = Some d -> In d col /\ forall e, In e col -> total e <= total d.
Proof. exact select_spec. Qed.

Theorem C10_skip_characterisation : forall col, select col = None -> col = [] \/
  exists a b, In a col /\ In b col /\ (forall e, In e col -> total e <= total a) /\ total b = total a.
Proof. exact select_none. Qed.

Theorem C10_results_attached_to_their_reaction : forall nconds f, 0 < nconds -> forall rows,
  NoDup (map sid (filter unsolved rows)) ->
  forall k r, nth_opt rows k = Some r -> nth_opt (find nconds f rows) k = Some (find_row nconds f r).
Proof. exact find_is_map. Qed.

Theorem C10_attached_data_is_the_rows_own : forall nconds, 0 < nconds -> forall f r d, smcs (find_row nconds f r) = Some (Some d) -> ssolved r = false ->
  (exists c, c < nconds /\ d = job_data (sid r) c (f (sid r) c)) /\
  (forall c, c < nconds -> total (job_data (sid r) c (f (sid r) c)) <= total d) /\
  sissue (find_row nconds f r) = Some (missue d).
Proof. exact find_row_attaches_own. Qed.

(* non-vacuity: three conditions, two reactions; the second reaction's first condition timed out *)
Example C10_example :
  let f := fun id c => match id, c with
                       | 7, 0 => JOk [3; 2] 2 | 7, 1 => JOk [4; 1] 2 | 7, 2 => JOk [2] 2
                       | 9, 0 => JTimeout | 9, 1 => JOk [6] 1 | _, _ => JFailed "x" end in
  let rows := [ {| sid := 7; ssolved := false; smcs := None; sissue := None |};
                {| sid := 8; ssolved := true; smcs := None; sissue := None |};
                {| sid := 9; ssolved := false; smcs := None; sissue := None |} ] in
  map (fun r => option_map (option_map (fun d => (mid d, mcond d, total d))) (smcs r)) (find 3 f rows)
  = [Some (Some (7, 1, 5)); None; Some (Some (9, 1, 6))].
Proof. vm_compute. reflexivity. Qed.

Print Assumptions C10_retained_is_own_and_largest.
Print Assumptions C10_skip_characterisation.
Print Assumptions C10_results_attached_to_their_reaction.
Print Assumptions C10_attached_data_is_the_rows_own.
