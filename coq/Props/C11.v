(* C11 -- MCS-stage timeouts and failures are contained to the affected reaction.
   A fault pattern is just another job-outcome function (Model/McsSelect.v: JTimeout, JFailed, JUncertain
   for any subset of (reaction, condition) jobs) and, downstream, another answer of the pipeline model's
   mcs_state / impute oracles.  Proved for EVERY outcome function:
     - no row is lost (C11_no_row_lost); solved rows pass the stage untouched;
     - every affected row leaves the stage either with "No MCS identified." and no data, or with data that
       is one of its own job results (C11_affected_row_shape);
     - non-interference: if two outcome functions agree on one row's jobs, that row's result is the
       same, whatever happens to the other rows' jobs (C11_fault_noninterference);
   and for every answer of the downstream oracles (Props/C03, C01, C06 -- restated here on purpose):
     - every row of the completed batch is either solved (and then validated, C01_partial) or returns its
       input unchanged with a reason (C11_declined_unchanged_with_reason), and each row equals the row it
       gets alone (C11_rows_independent).
   PARTIAL on the runtime: WHICH jobs time out under load, and the worker thread that keeps running
   after pool.terminate() and may write into a record already returned, cannot be exhibited by the model;
   the check injects faults at the realistic points and compares records again after a grace period. *)
From Coq Require Import String ZArith List Bool Arith.
From SynRBL Require Import Model.McsSelect Proofs.McsProofs Model.Pipeline Model.Matcher Proofs.PipelineProofs Proofs.RowLocal Proofs.RunLevel.
Import ListNotations.

Theorem C11_no_row_lost : forall nconds f rows, length (find nconds f rows) = length rows.
Proof. exact find_length. Qed.

Theorem C11_solved_rows_untouched : forall nconds f r, ssolved r = true -> find_row nconds f r = r.
Proof. exact find_row_solved_untouched. Qed.

Theorem C11_affected_row_shape : forall nconds f r, ssolved r = false ->
  (smcs (find_row nconds f r) = Some None /\ sissue (find_row nconds f r) = Some "No MCS identified."%string) \/
  (exists d, smcs (find_row nconds f r) = Some (Some d) /\ mid d = sid r).
Proof. exact find_row_shape. Qed.

Theorem C11_fault_noninterference : forall nconds f f', 0 < nconds -> forall rows,
  NoDup (map sid (filter unsolved rows)) ->
  forall k r, nth_opt rows k = Some r -> (forall c, f (sid r) c = f' (sid r) c) ->
  nth_opt (find nconds f rows) k = nth_opt (find nconds f' rows) k.
Proof.
  intros nconds f f' P rows N k r H A.
  rewrite (find_is_map nconds f P rows N k r H), (find_is_map nconds f' P rows N k r H). f_equal.
  now apply find_row_local.
Qed.

(* downstream, for every answer of the stage (mcs_state) and of the imputation (impute) *)
Theorem C11_declined_unchanged_with_reason : forall O db ban fuel t tmsg ins rows st,
  (forall a b, (confidence O a b >= t)%Z) -> run O db ban fuel t tmsg ins = Done (rows, st) ->
  forall r, In r rows -> solved r = false -> rxn r = rinput r /\ exists s, issue r = Some s /\ s <> ""%string.
Proof. exact declined_untouched. Qed.

Theorem C11_rows_independent : forall O db ban fuel t tmsg ins1 ins2 rows1 rows2 st1 st2 s i j r1 r2,
  run O db ban fuel t tmsg ins1 = Done (rows1, st1) -> run O db ban fuel t tmsg ins2 = Done (rows2, st2) ->
  nth_error (kept_inputs O ins1) i = Some s -> nth_error (kept_inputs O ins2) j = Some s ->
  nth_error rows1 i = Some r1 -> nth_error rows2 j = Some r2 -> set_rid r1 0 = set_rid r2 0.
Proof. exact run_row_independent_of_batch. Qed.

Print Assumptions C11_no_row_lost.
Print Assumptions C11_affected_row_shape.
Print Assumptions C11_fault_noninterference.
Print Assumptions C11_declined_unchanged_with_reason.
Print Assumptions C11_rows_independent.
