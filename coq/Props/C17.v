(* C17 -- Benchmark comparison ignores molecule order and SMILES spelling.
   Model: Model/Normalize.v (normalize_smiles, wc_similarity; the per-molecule leaf normalisation and the
   fingerprint similarity are oracles).  The theorems hold for EVERY leaf oracle with the stated
   contract (idempotent, returns one molecule without '.' or '>'; equivalent spellings have equal
   images -- RDKit's canonical SMILES, validated by the correspondence) and every symmetric
   fingerprint oracle with values in [0, ONE].
   History: with the original two-component sort key (atom count, character sum) the order theorem
   was false (C17_old_key_refuted: the isomers CCCO / CCOC tie, the result depends on the input
   order); the repository was repaired with a total tie-break (fix: commit recorded in
   known_findings.json) and the model follows the repaired code. *)
From Coq Require Import String Ascii List Bool Arith NArith ZArith Permutation.
From SynRBL Require Import Base.Strs Model.Normalize Proofs.StrProofs Proofs.NormalizeProofs.
Import ListNotations.
Open Scope string_scope.

Theorem C17_order_and_spelling_independent : forall ntok, (forall t, nogt (ntok t) = true) ->
  forall a b a' b', nogt a = true -> nogt b = true -> nogt a' = true -> nogt b' = true ->
  Permutation (map ntok (comps a)) (map ntok (comps a')) -> Permutation (map ntok (comps b)) (map ntok (comps b')) ->
  normalize ntok (a ++ ">>" ++ b) = normalize ntok (a' ++ ">>" ++ b').
Proof. intros ntok H a b a' b'. exact (normalize_order_independent ntok a b a' b'). Qed.

Theorem C17_idempotent : forall ntok,
  (forall t, ntok (ntok t) = ntok t) -> (forall t, dotfree (ntok t) = true) -> (forall t, nogt (ntok t) = true) ->
  forall a b, nogt a = true -> nogt b = true ->
  normalize ntok (normalize ntok (a ++ ">>" ++ b)) = normalize ntok (a ++ ">>" ++ b).
Proof. exact normalize_idempotent. Qed.

Theorem C17_identical_variants_have_similarity_one : forall ntok fp ONE e r,
  normalize ntok e = normalize ntok r -> wc_similarity ntok fp ONE e r = Some ONE.
Proof. exact wc_similarity_one. Qed.

Theorem C17_similarity_symmetric : forall ntok fp ONE, (forall x y, fp x y = fp y x) ->
  forall e r, wc_similarity ntok fp ONE e r = wc_similarity ntok fp ONE r e.
Proof. exact wc_similarity_symmetric. Qed.

Theorem C17_similarity_in_unit_interval : forall ntok fp ONE, (forall x y, (0 <= fp x y <= ONE)%Z) ->
  forall e r v, wc_similarity ntok fp ONE e r = Some v -> (0 <= v <= ONE)%Z.
Proof. exact wc_similarity_range. Qed.

(* the sort key of the repaired code is a total order: the fact everything above rests on *)
Theorem C17_key_total_order : (forall x y, kge x y = true \/ kge y x = true) /\
  (forall x y, kge x y = true -> kge y x = true -> x = y) /\ (forall x y z, kge x y = true -> kge y z = true -> kge x z = true).
Proof. split; [exact kge_total|split; [exact kge_antisym|exact kge_trans]]. Qed.

(* non-vacuity: the anagram isomers, both orders, with the identity as leaf normalisation *)
Example C17_example :
  normalize (fun t => t) "CCCO.CCOC>>CCOC.CCCO" = normalize (fun t => t) "CCOC.CCCO>>CCCO.CCOC" /\
  normalize (fun t => t) "CCCO.CCOC>>CCOC.CCCO" = "CCOC.CCCO>>CCOC.CCCO".
Proof. split; vm_compute; reflexivity. Qed.

(* the key the code used before the repair: not antisymmetric, the result depended on the input order *)
Definition kge_old (x y : string) : bool :=
  match Nat.compare (count_atoms x) (count_atoms y) with
  | Gt => true | Lt => false
  | Eq => match N.compare (sum_ord x) (sum_ord y) with Lt => false | _ => true end
  end.
Theorem C17_old_key_refuted :
  dotjoin (sortg kge_old ["CCCO"; "CCOC"]) <> dotjoin (sortg kge_old ["CCOC"; "CCCO"]).
Proof. vm_compute. discriminate. Qed.

Print Assumptions C17_order_and_spelling_independent.
Print Assumptions C17_idempotent.
Print Assumptions C17_identical_variants_have_similarity_one.
Print Assumptions C17_similarity_symmetric.
Print Assumptions C17_similarity_in_unit_interval.
Print Assumptions C17_key_total_order.
Print Assumptions C17_old_key_refuted.
