(* C05 -- One result row per input row, in input order, for every input form.
   Full statement: for every input list (valid and malformed strings mixed) and batch size the
   result has one row per input, in order, each describing its input.  It is FALSE of the faithful
   model (and of the code): a row whose side does not parse is filtered out, so later rows shift
   and the CLI's positional zip copies pass-through columns from the wrong row; a string without
   exactly one '>>' raises and its whole batch is lost (the two C05_refuted theorems).  C05_partial: for
   well-formed rows the statement holds for every batch size, and so does the CLI alignment. *)
From Coq Require Import String ZArith List Bool Arith.
From SynRBL Require Import Base.ListX Model.Comp Model.Matcher Model.Pipeline Model.Batch
  Proofs.PipelineProofs Proofs.RowLocal Proofs.Balanced Proofs.RunLevel Proofs.BatchProofs.
Import ListNotations.
Open Scope string_scope.

(* DataLoader: chunking loses and reorders nothing, for every batch size >= 1 *)
Theorem C05_chunks_concat : forall (n : nat) (l : list string), 0 < n -> concat (chunks n l) = l.
Proof. intros; now apply chunks_concat. Qed.
Theorem C05_chunks_sizes : forall (n : nat) (l : list string) b, 0 < n -> In b (chunks n l) -> b <> [] /\ length b <= n.
Proof. intros n l b. apply chunks_sizes. Qed.

Theorem C05_partial : forall O db ban fuel t tmsg,
  (forall b, b <> [] -> Forall (well_formed O) b -> exists rows st, run O db ban fuel t tmsg b = Done (rows, st)) ->
  forall bs ins, (forall n, bs = Some n -> 0 < n) -> Forall (well_formed O) ins ->
  Forall2 (fun s r => rinput r = strip O s) ins (fst (rebalance (run O db ban fuel t tmsg) bs ins)).
Proof. exact rebalance_one_row_per_input. Qed.

Theorem C05_cli_passthrough_aligned : forall O db ban fuel t tmsg,
  (forall b, b <> [] -> Forall (well_formed O) b -> exists rows st, run O db ban fuel t tmsg b = Done (rows, st)) ->
  forall (bs : option nat) (ins : list (string * string)),
  (forall n, bs = Some n -> 0 < n) -> Forall (well_formed O) (map snd ins) ->
  forall a s r, In ((a, s), r) (cli_passthrough ins (fst (rebalance (run O db ban fuel t tmsg) bs (map snd ins)))) ->
    rinput r = strip O s.
Proof. intros O db ban fuel t tmsg H bs ins. exact (cli_passthrough_aligned O db ban fuel t tmsg H bs ins). Qed.

(* refutations, replayed on the implementation by the check *)
Definition Om : oracles :=
  {| strip := fun s => s; parse_ok := fun s => negb (String.eqb s "XX>>C");
     decomp := fun s => if String.eqb s "C" then [("C",1);("H",4)]%Z else if String.eqb s "CC" then [("C",2);("H",6)]%Z else [];
     ccount := fun s => if String.eqb s "C" then 1%Z else if String.eqb s "CC" then 2%Z else 0%Z;
     mcs_state := fun _ => (true, "No MCS identified."); impute := fun _ => ImpFail "x"; pp := fun _ => None;
     confidence := fun _ _ => 0%Z |}.
Theorem C05_refuted_filtered :
  let out := fst (rebalance (run Om [] [] 10 0%Z "m") None ["C>>C"; "XX>>C"; "CC>>CC"]) in
  map rinput out = ["C>>C"; "CC>>CC"] /\
  (* the CLI pairs the pass-through value of input #2 with the row of input #3 *)
  map (fun p => (fst (fst p), rinput (snd p))) (cli_passthrough [("tag1","C>>C"); ("tag2","XX>>C"); ("tag3","CC>>CC")] out)
    = [("tag1","C>>C"); ("tag2","CC>>CC")].
Proof. vm_compute. split; reflexivity. Qed.
Theorem C05_refuted_batch_lost :
  fst (rebalance (run Om [] [] 10 0%Z "m") None ["C>>C"; "C"; "CC>>CC"]) = [] /\
  map rinput (fst (rebalance (run Om [] [] 10 0%Z "m") (Some 1) ["C>>C"; "C"; "CC>>CC"])) = ["C>>C"; "CC>>CC"].
Proof. vm_compute. split; reflexivity. Qed.

Print Assumptions C05_chunks_concat.
Print Assumptions C05_chunks_sizes.
Print Assumptions C05_partial.
Print Assumptions C05_cli_passthrough_aligned.
Print Assumptions C05_refuted_filtered.
Print Assumptions C05_refuted_batch_lost.
