(* C02 -- Rebalancing only adds whole molecules; the given molecules are never altered.
   Stated on the side STRINGS on purpose: "a side is a list of molecules" is exactly the abstraction
   the code breaks.  Full statement: for every row of a completed run, every '.'-component of each
   given side appears in the returned reaction's side with at least its multiplicity.  It is FALSE of
   the faithful model and of the code (C02_refuted_fused / C02_refuted_lost: RuleConstraint removes
   the substrings ".[H]" / ".[O]" / ".OO" from the whole product side string, so a given hydroperoxide
   or hydrogen peroxide written after a dot is cut or deleted).  C02_partial: for every oracle, database
   whose SMILES are not cut by a marker, threshold and input, and every row whose given product
   components (after the first) are not begun by a marker, the returned sides ARE the given sides with
   whole components appended (given molecules unchanged, in place), and input_reaction is the stripped
   input; rows rewritten by the reagent post-processing keep the post-processed sides in the same
   sense or fall back to the input. *)
From Coq Require Import String Ascii ZArith List Bool Arith.
From SynRBL Require Import Base.Dict Base.Strs Base.ListX Model.Comp Model.Matcher Model.Constraint Model.Pipeline Model.Tables
  Proofs.StrProofs Proofs.RowLocal Proofs.Balanced Proofs.RunLevel Proofs.Whole Gen.GenRules Gen.GenConst.
Import ListNotations.
Open Scope string_scope.

Theorem C02_partial : forall O db ban fuel,
  (forall r, In r db -> clean_str (rsmiles r) = true) ->
  (forall s m ru, impute O s = ImpOk m ru -> clean_str m = true) ->
  forall t tmsg ins rows st, run O db ban fuel t tmsg ins = Done (rows, st) ->
  Forall2 (fun s r => forall gl gp, s = gl ++ ">>" ++ gp -> guard gl gp ->
     rinput r = s /\
     (post_process O (before_pp O db ban fuel (fresh 0 s)) = before_pp O db ban fuel (fresh 0 s) -> appended gl gp (rxn r)) /\
     (forall cl cp, guard cl cp -> rxn (post_process O (before_pp O db ban fuel (fresh 0 s))) = cl ++ ">>" ++ cp ->
        appended cl cp (rxn r) \/ rxn r = s \/ appended gl gp (rxn r)))
    (kept_inputs O ins) rows.
Proof. exact run_only_appends. Qed.

(* generated obligation: no SMILES of the shipped database is cut by a marker (re-proved on the current file) *)
Theorem C02_shipped_db_clean : forall r, In r rules_manager -> clean_str (rsmiles r) = true.
Proof.
  assert (H : forallb (fun r => clean_str (rsmiles r)) rules_manager = true) by (vm_compute; reflexivity).
  rewrite forallb_forall in H. exact H.
Qed.

(* the splitting lemma the component view rests on *)
Theorem C02_split_app : forall a b, comps (a ++ "." ++ b) = (comps a ++ comps b)%list.
Proof. exact comps_app_dot. Qed.

(* non-vacuity: a real rule-based row (tables recorded from the implementation) satisfies the guard,
   is not post-processed, and gets whole components appended *)
Definition Oex : oracles :=
  mk [("CCBr.O>>CCO", "CCBr.O>>CCO")] [("CCBr.O>>CCO", true)]
     [("CCBr.O", [("C", 2); ("Br", 1); ("O", 1); ("H", 7)]); ("CCO", [("C", 2); ("O", 1); ("H", 6)]);
      ("CCO.[H+].[Br-]", [("C", 2); ("O", 1); ("H", 7); ("Br", 1)])]%Z
     [("CCBr", 2); ("O", 0); ("CCO", 2); ("[H+]", 0); ("[Br-]", 0)]%Z [] [] [("CCBr.O>>CCO.[H+].[Br-]", None)] [].
Example C02_example :
  guard "CCBr.O" "CCO" /\
  (exists rows st, run Oex rules_manager ban_atoms_canon 80 0%Z "m" ["CCBr.O>>CCO"] = Done (rows, st) /\
     map rxn rows = ["CCBr.O>>CCO.[H+].[Br-]"]) /\
  post_process Oex (before_pp Oex rules_manager ban_atoms_canon 80 (fresh 0 "CCBr.O>>CCO")) =
    before_pp Oex rules_manager ban_atoms_canon 80 (fresh 0 "CCBr.O>>CCO").
Proof.
  split; [repeat split; try reflexivity; discriminate|]. split; [|vm_compute; reflexivity].
  eexists. eexists. split; vm_compute; reflexivity.
Qed.

(* ---- the refutations (tables recorded from the implementation; replayed on it by the check) *)
Definition msubb (a b : list string) : bool := forallb (fun c => Nat.leb (count_eq c a) (count_eq c b)) a.
Definition Ofused : oracles :=
  mk [("CCBr.O.OOCC>>CCO.OOCC", "CCBr.O.OOCC>>CCO.OOCC")] [("CCBr.O.OOCC>>CCO.OOCC", true)]
     [("CCBr.O.OOCC", [("C", 4); ("Br", 1); ("O", 3); ("H", 13)]); ("CCO.OOCC", [("C", 4); ("O", 3); ("H", 12)]);
      ("CCBr.O.OOCC.[H].[H]", [("C", 4); ("Br", 1); ("O", 3); ("H", 15)]);
      ("CCOCC.[H+].[Br-].O.O", [("C", 4); ("O", 3); ("H", 15); ("Br", 1)]);
      ("CCBr.O.OOCC.[H][H]", [("C", 4); ("Br", 1); ("O", 3); ("H", 15)])]%Z
     [("CCBr", 2); ("O", 0); ("OOCC", 2); ("CCO", 2); ("[H]", 0); ("CCOCC", 4); ("[H+]", 0); ("[Br-]", 0); ("[H][H]", 0)]%Z [] []
     [("CCBr.O.OOCC.[H].[H]>>CCOCC.[H+].[Br-].O.O", Some "CCBr.O.OOCC.[H][H]>>CCOCC.[H+].[Br-].O.O")] [].
(* a given ethyl hydroperoxide is fused with the given ethanol into diethyl ether "CCOCC" *)
Theorem C02_refuted_fused : exists rows st r,
  run Ofused rules_manager ban_atoms_canon 80 0%Z "m" ["CCBr.O.OOCC>>CCO.OOCC"] = Done (rows, st) /\ In r rows /\
  solved r = true /\ rinput r = "CCBr.O.OOCC>>CCO.OOCC" /\ rxn r = "CCBr.O.OOCC.[H][H]>>CCOCC.[H+].[Br-].O.O" /\
  msubb (comps "CCO.OOCC") (comps (rhs (rxn r))) = false.
Proof.
  eexists. eexists. eexists. split; [vm_compute; reflexivity|]. split; [left; reflexivity|]. repeat split; reflexivity.
Qed.
Definition Olost : oracles :=
  mk [("CCBr.OO.O>>CCO.OO", "CCBr.OO.O>>CCO.OO")] [("CCBr.OO.O>>CCO.OO", true)]
     [("CCBr.OO.O", [("C", 2); ("Br", 1); ("O", 3); ("H", 9)]); ("CCO.OO", [("C", 2); ("O", 3); ("H", 8)]);
      ("CCBr.OO.O.[H].[H]", [("C", 2); ("Br", 1); ("O", 3); ("H", 11)]);
      ("CCO.[H+].[Br-].O.O", [("C", 2); ("O", 3); ("H", 11); ("Br", 1)]);
      ("CCBr.OO.O.[H][H]", [("C", 2); ("Br", 1); ("O", 3); ("H", 11)])]%Z
     [("CCBr", 2); ("OO", 0); ("O", 0); ("CCO", 2); ("[H]", 0); ("[H+]", 0); ("[Br-]", 0); ("[H][H]", 0)]%Z [] []
     [("CCBr.OO.O.[H].[H]>>CCO.[H+].[Br-].O.O", Some "CCBr.OO.O.[H][H]>>CCO.[H+].[Br-].O.O")] [].
(* a given hydrogen peroxide on the product side is deleted *)
Theorem C02_refuted_lost : exists rows st r,
  run Olost rules_manager ban_atoms_canon 80 0%Z "m" ["CCBr.OO.O>>CCO.OO"] = Done (rows, st) /\ In r rows /\
  solved r = true /\ rinput r = "CCBr.OO.O>>CCO.OO" /\ rxn r = "CCBr.OO.O.[H][H]>>CCO.[H+].[Br-].O.O" /\
  msubb (comps "CCO.OO") (comps (rhs (rxn r))) = false.
Proof.
  eexists. eexists. eexists. split; [vm_compute; reflexivity|]. split; [left; reflexivity|]. repeat split; reflexivity.
Qed.
(* both witnesses violate exactly the guard of C02_partial *)
Example C02_witnesses_outside_guard :
  forallb strict3 (tl (comps "CCO.OOCC")) = false /\ forallb strict3 (tl (comps "CCO.OO")) = false.
Proof. split; reflexivity. Qed.

Print Assumptions C02_partial.
Print Assumptions C02_shipped_db_clean.
Print Assumptions C02_split_app.
Print Assumptions C02_example.
Print Assumptions C02_refuted_fused.
Print Assumptions C02_refuted_lost.
