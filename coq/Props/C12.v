(* C12 -- Result caching is transparent across runs, configurations and crashes.
   Model: Model/Cache.v (the cache logic of Balancer.rebalance / CacheManager over an abstract pipeline,
   hash and configuration).  Theorem (full strength, for the repaired code): for EVERY pipeline function,
   every injective hash of (configuration, batch), and EVERY history of completed runs, runs killed while
   an entry is being written (leaving nothing, an unreadable file -- empty / any truncated prefix -- or the
   complete entry) and foreign non-result files, a completed cached run returns exactly the per-batch
   results of the uncached run (lost batches included), hence the same rows and merged statistics.
   The pinned tree violated this twice (key ignored the configuration; an unreadable entry raised
   JSONDecodeError out of rebalance; entries were written in place): repaired in /repo by one fix: commit
   (key covers the configuration, write-then-rename, unreadable entry = miss); C12_old_design_refuted_*
   keep the two refutations of the old design.
   Assumptions (oracle level): the hash is injective (SHA-256 collision freedom, A7); the pipeline is a
   function of (configuration, batch) -- C06; JSON round-trips the public columns (checked on every hit). *)
From Coq Require Import List Bool NArith ZArith String.
From SynRBL Require Import Model.Cache Proofs.CacheProofs Model.Pipeline Model.Matcher.
Import ListNotations.

Theorem C12_cache_transparent : forall (Cfg Batch Res : Type) (pipeline : Cfg -> Batch -> option Res) (key : Cfg -> Batch -> N),
  (forall c b c' b', key c b = key c' b' -> c = c' /\ b = b') ->
  forall (evs : list (event Cfg Batch Res)) c bs,
  fst (fst (run_cached Cfg Batch Res pipeline key c (fold_left (step Cfg Batch Res pipeline key) evs []) bs))
  = run_uncached Cfg Batch Res pipeline c bs.
Proof. exact cache_transparent. Qed.

(* instantiated with the pipeline model: configuration = (threshold key, threshold message) *)
Definition pipe_of (O : oracles) (db : list rule) (ban : list string) (fuel : nat) (c : Z * string) (b : list string) : option (list row * stats) :=
  match run O db ban fuel (fst c) (snd c) b with Done x => Some x | Raised _ => None end.
Corollary C12_for_the_pipeline_model : forall O db ban fuel (key : Z * string -> list string -> N),
  (forall c b c' b', key c b = key c' b' -> c = c' /\ b = b') ->
  forall evs c bs,
  fst (fst (run_cached _ _ _ (pipe_of O db ban fuel) key c (fold_left (step _ _ _ (pipe_of O db ban fuel) key) evs []) bs))
  = map (pipe_of O db ban fuel c) bs.
Proof. intros. now apply cache_transparent. Qed.

(* non-vacuity: a hit really happens, and an unreadable entry is recomputed and repaired *)
Example C12_example :
  let pl := fun (c : bool) (b : nat) => Some (if c then b + 100 else b)%nat in
  let key := fun (c : bool) (b : nat) => N.of_nat (2 * b + (if c then 1 else 0))%nat in
  snd (fst (run_cached bool nat nat pl key true (step bool nat nat pl key [] (Completed _ _ _ true [1; 2]%nat)) [2; 3]%nat)) = [Hit; Miss] /\
  snd (fst (run_cached bool nat nat pl key true
        (fold_left (step bool nat nat pl key) [Completed _ _ _ true [1; 2]%nat; Killed _ _ _ true [] 2%nat LeavesUnreadable] []) [2%nat])) = [Miss] /\
  fst (fst (run_cached bool nat nat pl key false (step bool nat nat pl key [] (Completed _ _ _ true [1; 2]%nat)) [2%nat])) = [Some 2%nat].
Proof. repeat split; vm_compute; reflexivity. Qed.

(* the design the pinned tree had: key = hash of the batch only; an unreadable entry aborts the run *)
Section Old.
Variables Cfg Batch Res : Type.
Variable pipeline : Cfg -> Batch -> option Res.
Variable key_old : Batch -> N.
Inductive old_out := Ret (r : option Res) | Raises.
Definition old_batch (refs : list N) (c : Cfg) (st : fsys Res) (b : Batch) : old_out :=
  match (if memN (key_old b) refs then lookup Res st (key_old b) else None) with
  | Some (Good r) => Ret (Some r)
  | Some Unreadable => Raises                       (* json.load raised JSONDecodeError out of rebalance *)
  | _ => Ret (pipeline c b)
  end.
End Old.
Theorem C12_old_design_refuted_configuration :
  let pl := fun (c : bool) (b : nat) => Some (if c then b + 100 else b)%nat in
  let key_old := fun (b : nat) => N.of_nat b in
  (* a run with configuration false stored batch 2; a run with configuration true is served that entry *)
  old_batch bool nat nat pl key_old [2%N] true [(2%N, Good 2%nat)] 2%nat = Ret nat (Some 2%nat) /\ pl true 2%nat = Some 102%nat.
Proof. split; reflexivity. Qed.
Theorem C12_old_design_refuted_crash :
  let pl := fun (c : bool) (b : nat) => Some b in
  old_batch bool nat nat pl (fun b => N.of_nat b) [2%N] true [(2%N, Unreadable)] 2%nat = Raises nat.
Proof. reflexivity. Qed.

Print Assumptions C12_cache_transparent.
Print Assumptions C12_for_the_pipeline_model.
Print Assumptions C12_old_design_refuted_configuration.
Print Assumptions C12_old_design_refuted_crash.
