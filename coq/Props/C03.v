(* C03 -- A declined reaction is returned untouched and with a reason.
   run O db ban fuel t tmsg ins is the pipeline model (Model/Pipeline.v); the statements hold for
   every oracle record O (whatever RDKit, the MCS machinery, the templates and the scoring model
   answer), every rule database, ban list, solver fuel and input list.  The default threshold is
   0, whose key is 0, and every confidence key is >= 0 (A5) -- hence the first hypothesis. *)
From Coq Require Import String ZArith List Bool.
From SynRBL Require Import Base.Dict Model.Comp Model.Matcher Model.Pipeline Proofs.PipelineProofs Proofs.RowLocal Proofs.Balanced Proofs.RunLevel Proofs.Declined Model.Impute Proofs.ImputeProofs Base.Strs Proofs.CompProofs Proofs.WaterFact Gen.GenSymbols.
Import ListNotations.
Open Scope string_scope.

Theorem C03_declined_untouched : forall O db ban fuel t tmsg ins rows st,
  (forall a b, (confidence O a b >= t)%Z) ->
  run O db ban fuel t tmsg ins = Done (rows, st) ->
  forall r, In r rows -> solved r = false ->
    rxn r = rinput r /\ exists s, issue r = Some s /\ s <> "".
Proof. exact declined_untouched. Qed.

Theorem C03_solved_named : forall O db ban fuel t tmsg ins rows st,
  run O db ban fuel t tmsg ins = Done (rows, st) ->
  forall r, In r rows -> solved r = true ->
    sby r = Some M_INPUT \/ sby r = Some M_RB \/ sby r = Some M_MCS.
Proof. exact solved_named. Qed.

(* The two remaining clauses.  They need facts about what the oracles answer (hypotheses, validated on every
   recorded run by the check):
     (H1) impute_reaction succeeds only when the search left an empty issue (it raises otherwise);
     (H2) the water molecules that the both-side shortcut inserts never balance a reaction by themselves
          (a consequence of C07's additivity: a "Both" verdict has a deficit in an element other than O);
     (H3) impute_reaction refuses reactant-side carbon imbalance.
   With them the pipeline is deterministic enough: a row that is unsolved after the rule-based validation and
   whose reaction the imputation did not extend is still unsolved after the second rule-based run and the
   final validation (Proofs/Declined.late_unsolved). *)
Theorem C03_solved_rows_have_empty_or_absent_issue : forall O db ban fuel,
  (forall s m ru, impute O s = ImpOk m ru -> snd (mcs_state O s) = "") ->
  (forall r, bal O (rxn (rb_water O r)) = true -> rxn (rb_water O r) = rxn r) ->
  forall t tmsg ins rows st, run O db ban fuel t tmsg ins = Done (rows, st) ->
  forall r, In r rows -> solved r = true -> issue r = None \/ issue r = Some "".
Proof. exact run_solved_issue_empty. Qed.

Theorem C03_carbon_deficit_declined : forall O db ban fuel,
  (forall r, bal O (rxn (rb_water O r)) = true -> rxn (rb_water O r) = rxn r) ->
  forall t tmsg ins rows st, run O db ban fuel t tmsg ins = Done (rows, st) ->
  Forall2 (fun s r => carbon_of O s = CReactants ->
                      (forall m ru, impute O s = ImpOk m ru -> carbon_of O s <> CReactants) -> solved r = false)
          (kept_inputs O ins) rows.
Proof. intros O db ban fuel H2. exact (run_carbon_deficit_declined O db ban fuel H2). Qed.

(* H1 and H3 discharged: impute_reaction's control flow is modelled (Model/Impute.v; the answers of build_compounds + merge, of
   the SMILES standardizers and of is_carbon_balanced stay oracles I), and for every oracle record whose impute field is that
   function -- refine O I -- the two facts hold by construction (Proofs/ImputeProofs.v).  The check compares the modelled
   control flow with every recorded impute_reaction call.  Only H2 remains a hypothesis. *)
Theorem C03_solved_rows_have_empty_or_absent_issue_refined : forall O I db ban fuel,
  (forall r, bal (refine O I) (rxn (rb_water (refine O I) r)) = true -> rxn (rb_water (refine O I) r) = rxn r) ->
  forall t tmsg ins rows st, run (refine O I) db ban fuel t tmsg ins = Done (rows, st) ->
  forall r, In r rows -> solved r = true -> issue r = None \/ issue r = Some "".
Proof.
  intros O I db ban fuel H2. exact (run_solved_issue_empty (refine O I) db ban fuel (refined_impute_needs_empty_issue O I) H2).
Qed.

Theorem C03_carbon_deficit_declined_refined : forall O I db ban fuel,
  (forall r, bal (refine O I) (rxn (rb_water (refine O I) r)) = true -> rxn (rb_water (refine O I) r) = rxn r) ->
  forall t tmsg ins rows st, run (refine O I) db ban fuel t tmsg ins = Done (rows, st) ->
  Forall2 (fun s r => carbon_of O s = CReactants -> solved r = false) (kept_inputs (refine O I) ins) rows.
Proof.
  intros O I db ban fuel H2 t tmsg ins rows st H.
  eapply Forall2_impl; [|exact (run_carbon_deficit_declined (refine O I) db ban fuel H2 t tmsg ins rows st H)].
  intros s r X CD. apply X; [exact CD|]. intros m ru. apply refined_impute_refuses_deficit.
Qed.

(* non-vacuity: a run with a declined row and a solved row (tiny oracle tables) *)
Definition O0 : oracles :=
  {| strip := fun s => s; parse_ok := fun _ => true;
     decomp := fun s => if String.eqb s "C" then [("C",1);("H",4)]%Z else if String.eqb s "CC" then [("C",2);("H",6)]%Z else [];
     ccount := fun s => if String.eqb s "C" then 1%Z else if String.eqb s "CC" then 2%Z else 0%Z;
     mcs_state := fun _ => (true, "No MCS identified."); impute := fun _ => ImpFail "x"; pp := fun _ => None;
     confidence := fun _ _ => 0%Z |}.
Example run_has_both :
  option_map (map (fun r => (rxn r, solved r, sby r, issue r)))
    (match run O0 [] [] 10 0%Z "m" ["C>>C"; "C>>CC"] with Done (rows, _) => Some rows | Raised _ => None end) =
  Some [("C>>C", true, Some M_INPUT, None); ("C>>CC", false, None, Some "No MCS identified.")].
Proof. vm_compute. reflexivity. Qed.

(* H2 discharged as well (Proofs/WaterFact.v): it follows from two facts about the composition oracle that are C07 THEOREMS for the real
   decompose -- (A) every composition dictionary is well-formed (unique keys, no zero entry, positive element counts) and (B) appending n
   water molecules to a side adds n x {H:2, O:1} to its composition.  With the modelled control flow of impute_reaction the two clauses
   then need no hypothesis about the pipeline's own behaviour at all. *)
Theorem C03_remaining_clauses_from_composition_facts : forall O I db ban fuel,
  (forall s, nodupk (decomp O s) /\ wf (decomp O s) /\ pos (decomp O s)) ->
  (forall p n k, getd (decomp O (p ++ repeat_str ".O" n)) k = (getd (decomp O p) k + Z.of_nat n * water k)%Z) ->
  forall t tmsg ins rows st, run (refine O I) db ban fuel t tmsg ins = Done (rows, st) ->
  (forall r, In r rows -> solved r = true -> issue r = None \/ issue r = Some "") /\
  Forall2 (fun s r => carbon_of O s = CReactants -> solved r = false) (kept_inputs (refine O I) ins) rows.
Proof.
  intros O I db ban fuel A B t tmsg ins rows st H.
  pose proof (water_never_balances (refine O I) A B) as H2.
  split.
  - exact (C03_solved_rows_have_empty_or_absent_issue_refined O I db ban fuel H2 t tmsg ins rows st H).
  - exact (C03_carbon_deficit_declined_refined O I db ban fuel H2 t tmsg ins rows st H).
Qed.

(* ... and (A), (B) are consequences of C07's theorems about decompose for every reading `par` of SMILES strings as atom lists that reads
   appended water molecules as appended O, H, H atoms (RDKit's reading is validated against decompose by C07's correspondence) *)
Theorem C03_composition_facts_are_C07_theorems : forall (tbl : list (Z * string)) (par : string -> list Z * Z),
  sym tbl 1%Z = "H" -> sym tbl 8%Z = "O" ->
  (forall p n, par (p ++ repeat_str ".O" n) = ((fst (par p) ++ waters n)%list, snd (par p))) ->
  (forall s, no_q_atom tbl (fst (par s))) ->
  (forall s, nodupk (decomp_of tbl par s) /\ wf (decomp_of tbl par s) /\ pos (decomp_of tbl par s)) /\
  (forall p n k, getd (decomp_of tbl par (p ++ repeat_str ".O" n)) k = (getd (decomp_of tbl par p) k + Z.of_nat n * water k)%Z).
Proof.
  intros tbl par H1 H8 PW NQ. split.
  - intros s. apply facts_A.
  - intros p n k. apply (facts_B tbl H1 H8 par PW NQ).
Qed.
Example generated_table_reads_H_and_O : sym (Gen.GenSymbols.atomic_symbols ++ Gen.GenSymbols.rdkit_symbols) 1%Z = "H" /\ sym (Gen.GenSymbols.atomic_symbols ++ Gen.GenSymbols.rdkit_symbols) 8%Z = "O".
Proof. split; vm_compute; reflexivity. Qed.

(* non-vacuity of the refined theorems: a refined oracle record whose run has an MCS-solved row (empty issue) and a declined
   carbon-deficit row *)
Definition O1 : oracles :=
  {| strip := fun s => s; parse_ok := fun _ => true;
     decomp := fun s => if String.eqb s "A" then [("C",2);("H",6)]%Z else if String.eqb s "B" then [("C",1);("H",4)]%Z
                        else if String.eqb s "B.M" then [("C",2);("H",6)]%Z else [];
     ccount := fun s => if String.eqb s "A" then 2%Z else 1%Z;
     mcs_state := fun _ => (false, ""); impute := fun _ => ImpFail "unused"; pp := fun _ => None; confidence := fun _ _ => 1%Z |}.
Definition I1 : impute_oracles :=
  {| merged_raw := fun _ => Ok2 ("m", ["r"]); standardized := fun _ => Ok2 "M"; carbon_balanced_after := fun _ => true |}.
Example refined_run_has_both :
  option_map (map (fun r => (rxn r, solved r, sby r, issue r)))
    (match run (refine O1 I1) [] [] 10 0%Z "m" ["A>>B"; "B>>A"] with Done (rows, _) => Some rows | Raised _ => None end) =
  Some [("A>>B.M", true, Some M_MCS, Some ""); ("B>>A", false, None, Some MSG_DEFICIT)].
Proof. vm_compute. reflexivity. Qed.

Print Assumptions C03_declined_untouched.
Print Assumptions C03_solved_named.
Print Assumptions C03_solved_rows_have_empty_or_absent_issue.
Print Assumptions C03_carbon_deficit_declined.
Print Assumptions C03_solved_rows_have_empty_or_absent_issue_refined.
Print Assumptions C03_carbon_deficit_declined_refined.
Print Assumptions C03_remaining_clauses_from_composition_facts.
Print Assumptions C03_composition_facts_are_C07_theorems.
