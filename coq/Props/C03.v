Theorem placeholder : True. Proof. exact I. Qed. Print Assumptions placeholder.
