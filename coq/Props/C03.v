(* C03 -- A declined reaction is returned untouched and with a reason.
   run O db ban fuel t tmsg ins is the pipeline model (Model/Pipeline.v); the statements hold for
   every oracle record O (whatever RDKit, the MCS machinery, the templates and the scoring model
   answer), every rule database, ban list, solver fuel and input list.  The default threshold is
   0, whose key is 0, and every confidence key is >= 0 (A5) -- hence the first hypothesis. *)
From Coq Require Import String ZArith List Bool.
From SynRBL Require Import Base.Dict Model.Comp Model.Matcher Model.Pipeline Proofs.PipelineProofs.
Import ListNotations.
Open Scope string_scope.

Theorem C03_declined_untouched : forall O db ban fuel t tmsg ins rows st,
  (forall a b, (confidence O a b >= t)%Z) ->
  run O db ban fuel t tmsg ins = Done (rows, st) ->
  forall r, In r rows -> solved r = false ->
    rxn r = rinput r /\ exists s, issue r = Some s /\ s <> "".
Proof. exact declined_untouched. Qed.

Theorem C03_solved_named : forall O db ban fuel t tmsg ins rows st,
  run O db ban fuel t tmsg ins = Done (rows, st) ->
  forall r, In r rows -> solved r = true ->
    sby r = Some M_INPUT \/ sby r = Some M_RB \/ sby r = Some M_MCS.
Proof. exact solved_named. Qed.

(* Not proved here (kept visible; decided by the correspondence + oracle run only):
   - a solved row has an empty or absent issue: immediate for rows solved before the search
     (no stage has written the column yet); for mcs-based rows it needs the oracle fact
     "impute_reaction succeeds only on an empty issue" plus a determinism argument for rows
     whose imputation failed;
   - a carbon-deficit reaction is always declined: needs the oracle fact "impute_reaction
     refuses reactant-side carbon imbalance" and that appended water carries no carbon. *)

(* non-vacuity: a run with a declined row and a solved row (tiny oracle tables) *)
Definition O0 : oracles :=
  {| strip := fun s => s; parse_ok := fun _ => true;
     decomp := fun s => if String.eqb s "C" then [("C",1);("H",4)]%Z else if String.eqb s "CC" then [("C",2);("H",6)]%Z else [];
     ccount := fun s => if String.eqb s "C" then 1%Z else if String.eqb s "CC" then 2%Z else 0%Z;
     mcs_state := fun _ => (true, "No MCS identified."); impute := fun _ => ImpFail "x"; pp := fun _ => None;
     confidence := fun _ _ => 0%Z |}.
Example run_has_both :
  option_map (map (fun r => (rxn r, solved r, sby r, issue r)))
    (match run O0 [] [] 10 0%Z "m" ["C>>C"; "C>>CC"] with Done (rows, _) => Some rows | Raised _ => None end) =
  Some [("C>>C", true, Some M_INPUT, None); ("C>>CC", false, None, Some "No MCS identified.")].
Proof. vm_compute. reflexivity. Qed.

Print Assumptions C03_declined_untouched.
Print Assumptions C03_solved_named.
