(* C06 -- A reaction's result does not depend on its batch context.
   alone O db ban fuel t tmsg s is the pipeline on the single reaction s. *)
From Coq Require Import String ZArith List Bool.
From SynRBL Require Import Base.Dict Model.Comp Model.Matcher Model.Pipeline
  Model.Batch Proofs.PipelineProofs Proofs.RowLocal Proofs.Balanced Proofs.RunLevel Proofs.BatchProofs Proofs.StatsAdd.
Import ListNotations.
Open Scope string_scope.

(* every row of a completed run is the row its reaction gets alone (up to the id column) *)
Theorem C06_rows_are_alone_results : forall O db ban fuel t tmsg ins rows st,
  run O db ban fuel t tmsg ins = Done (rows, st) ->
  Forall2 (fun s r => exists r1, alone O db ban fuel t tmsg s = Done r1 /\ r = set_rid r1 (rid r))
          (kept_inputs O ins) rows.
Proof. exact run_rows_are_alone_results. Qed.

(* hence: same reaction in two batches (any other rows, any order, any batch size) => same row *)
Theorem C06_row_independent_of_batch : forall O db ban fuel t tmsg ins1 ins2 rows1 rows2 st1 st2 s i j r1 r2,
  run O db ban fuel t tmsg ins1 = Done (rows1, st1) -> run O db ban fuel t tmsg ins2 = Done (rows2, st2) ->
  nth_error (kept_inputs O ins1) i = Some s -> nth_error (kept_inputs O ins2) j = Some s ->
  nth_error rows1 i = Some r1 -> nth_error rows2 j = Some r2 ->
  set_rid r1 0 = set_rid r2 0.
Proof. exact run_row_independent_of_batch. Qed.

(* the id-based write-back of the rule-based stage is a map once ids are positions *)
Theorem C06_rule_based_is_row_local : forall O db ban fuel rows,
  ids_from 0 rows -> rule_based O db ban fuel rows = map (rb_row O db ban fuel) rows.
Proof. exact rule_based_is_map. Qed.

(* second sentence of the property.  The seven counters of a completed batch are a function of its input
   list (sums of per-reaction indicators) ... *)
Theorem C06_statistics_are_a_function_of_the_input : forall O db ban fuel t tmsg ins rows st,
  run O db ban fuel t tmsg ins = Done (rows, st) -> st = stats_fun O db ban fuel t ins.
Proof. exact run_stats_are_a_function. Qed.
(* ... hence additive over concatenation ... *)
Theorem C06_statistics_additive : forall O db ban fuel t tmsg a b ra sa rb sb rab sab,
  run O db ban fuel t tmsg a = Done (ra, sa) -> run O db ban fuel t tmsg b = Done (rb, sb) ->
  run O db ban fuel t tmsg (a ++ b)%list = Done (rab, sab) -> sab = add_stats sa sb.
Proof. exact run_stats_additive. Qed.
(* ... and the merged statistics of Balancer.rebalance do not depend on the batch size / partition: for every
   batch size they are the statistics of the whole input as one batch (well-formed inputs, completed batches) *)
Theorem C06_statistics_partition_independent : forall O db ban fuel t tmsg,
  (forall b, b <> [] -> Forall (well_formed O) b -> exists rows st, run O db ban fuel t tmsg b = Done (rows, st)) ->
  forall bs ins, (forall n, bs = Some n -> 0 < n) -> Forall (well_formed O) ins ->
  snd (rebalance (run O db ban fuel t tmsg) bs ins) = stats_fun O db ban fuel t ins.
Proof. exact rebalance_stats_partition_independent. Qed.

(* What the model cannot exhibit: wall-clock effects -- MCS time-outs under load, worker scheduling in joblib
   process pools; the oracles are functions of the row's strings, which is exactly the assumption timing can
   break (rows whose recorded oracle answers conflict are reported as timing_unstable). *)

Print Assumptions C06_rows_are_alone_results.
Print Assumptions C06_row_independent_of_batch.
Print Assumptions C06_rule_based_is_row_local.
Print Assumptions C06_statistics_are_a_function_of_the_input.
Print Assumptions C06_statistics_additive.
Print Assumptions C06_statistics_partition_independent.
