(* C04 -- An already balanced reaction passes through unchanged as input-balanced.
   good O s := the validator's verdict on s is Balance and its carbon label is balanced; by C07
   (compare_balance_iff, decompose_exact) the verdict is Balance exactly when the two sides have
   equal true compositions in every element 1..118 and in charge.  kept_inputs O ins = the stripped
   inputs whose sides parse (the rows the run returns, in order). *)
From Coq Require Import String ZArith List Bool.
From SynRBL Require Import Base.Dict Model.Comp Model.Matcher Model.Pipeline
  Proofs.CompProofs Proofs.PipelineProofs Proofs.RowLocal Proofs.Balanced Proofs.RunLevel.
Import ListNotations.
Open Scope string_scope.

Theorem C04_balanced_passthrough_and_converse : forall O db ban fuel t tmsg ins rows st,
  run O db ban fuel t tmsg ins = Done (rows, st) ->
  Forall2 (fun s r =>
    (good O s = true -> solved r = true /\ sby r = Some M_INPUT /\ rxn r = s /\ rinput r = s) /\
    (sby r = Some M_INPUT -> good O s = true /\ rxn r = s)) (kept_inputs O ins) rows.
Proof. exact run_balanced_passthrough. Qed.

(* the verdict is about true compositions: Balance <=> equal in every key (C07) *)
Theorem C04_good_means_equal_compositions : forall O s,
  wf (decomp O (lhs s)) -> wf (decomp O (rhs s)) ->
  (bal O s = true <-> forall k, getd (decomp O (lhs s)) k = getd (decomp O (rhs s)) k).
Proof.
  intros O s W1 W2. unfold bal. rewrite <- (compare_balance_iff _ _ W1 W2).
  destruct (compare_dicts _ _); simpl; split; intros; congruence.
Qed.

Print Assumptions C04_balanced_passthrough_and_converse.
Print Assumptions C04_good_means_equal_compositions.
