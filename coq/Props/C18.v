(* C18 -- Run statistics agree with the returned rows (one pipeline batch; additivity over
   batches is C06's stats_additive). *)
From Coq Require Import String ZArith List Bool Arith.
From SynRBL Require Import Base.Dict Model.Comp Model.Matcher Model.Pipeline Proofs.PipelineProofs Proofs.RowLocal Proofs.Balanced Proofs.RunLevel Proofs.StatsAdd Proofs.StatsBounds Base.Strs Proofs.CompProofs Proofs.WaterFact.
Open Scope nat_scope.
Import ListNotations.
Open Scope string_scope.

Theorem C18_stats_agree : forall O db ban fuel t tmsg ins rows st,
  run O db ban fuel t tmsg ins = Done (rows, st) ->
  reaction_cnt st = length ins /\
  balanced_cnt st = count_if is_input_row rows /\
  confident_cnt st = count_if (fun r => solved r && is_mcs_row r) rows /\
  mcs_applied st = count_if (fun r => negb (early r)) rows /\
  rb_solved st <= rb_applied st /\ mcs_solved st <= mcs_applied st.
Proof. exact stats_agree. Qed.

(* A batch that raises contributes neither rows nor statistics (C05's finding): reaction_cnt then undercounts
   the input rows of a multi-batch run. *)

(* the last clause: no solved count falls below the number of rows finally attributed to that method.
   Needs one oracle fact (H2 of Props/C03: the water molecules inserted by the both-side shortcut never
   balance a reaction by themselves; validated on every recorded batch): then a row labelled rule-based had
   a completion accepted by the constraint, and a row labelled mcs-based had a successful imputation. *)
Theorem C18_solved_counts_bound_attributed_rows : forall O db ban fuel,
  (forall r, bal O (rxn (rb_water O r)) = true -> rxn (rb_water O r) = rxn r) ->
  forall t tmsg ins rows st, run O db ban fuel t tmsg ins = Done (rows, st) ->
  count_if (is_m M_RB) rows <= rb_solved st /\ count_if (is_m M_MCS) rows <= mcs_solved st.
Proof. exact run_solved_counts_bound_attributed. Qed.

(* the same without a hypothesis on the pipeline: the oracle fact follows (Proofs/WaterFact.v) from two facts about the composition
   oracle that are C07 theorems for the real decompose (well-formed dictionaries; appended water adds n x {H:2, O:1}) *)
Theorem C18_solved_counts_bound_from_composition_facts : forall O db ban fuel,
  (forall s, nodupk (decomp O s) /\ wf (decomp O s) /\ pos (decomp O s)) ->
  (forall p n k, getd (decomp O (p ++ repeat_str ".O" n)) k = (getd (decomp O p) k + Z.of_nat n * water k)%Z) ->
  forall t tmsg ins rows st, run O db ban fuel t tmsg ins = Done (rows, st) ->
  count_if (is_m M_RB) rows <= rb_solved st /\ count_if (is_m M_MCS) rows <= mcs_solved st.
Proof.
  intros O db ban fuel A B. exact (run_solved_counts_bound_attributed O db ban fuel (water_never_balances O A B)).
Qed.

(* and the counters are a function of the input list, additive over any partition into batches (see Props/C06) *)
Theorem C18_statistics_are_a_function_of_the_input : forall O db ban fuel t tmsg ins rows st,
  run O db ban fuel t tmsg ins = Done (rows, st) -> st = stats_fun O db ban fuel t ins.
Proof. exact run_stats_are_a_function. Qed.

Print Assumptions C18_stats_agree.
Print Assumptions C18_solved_counts_bound_attributed_rows.
Print Assumptions C18_solved_counts_bound_from_composition_facts.
Print Assumptions C18_statistics_are_a_function_of_the_input.
