(* C18 -- Run statistics agree with the returned rows (one pipeline batch; additivity over
   batches is C06's stats_additive). *)
From Coq Require Import String ZArith List Bool Arith.
From SynRBL Require Import Base.Dict Model.Comp Model.Matcher Model.Pipeline Proofs.PipelineProofs.
Import ListNotations.
Open Scope string_scope.

Theorem C18_stats_agree : forall O db ban fuel t tmsg ins rows st,
  run O db ban fuel t tmsg ins = Done (rows, st) ->
  reaction_cnt st = length ins /\
  balanced_cnt st = count_if is_input_row rows /\
  confident_cnt st = count_if (fun r => solved r && is_mcs_row r) rows /\
  mcs_applied st = count_if (fun r => negb (early r)) rows /\
  rb_solved st <= rb_applied st /\ mcs_solved st <= mcs_applied st.
Proof. exact stats_agree. Qed.

(* Kept visible, not proved: rb_solved >= number of rows finally attributed to rule-based and
   mcs_solved >= number of rows finally attributed to mcs-based (they need "water alone never
   balances" and the id = position plumbing).  A batch that raises contributes neither rows nor
   statistics (C05's finding): reaction_cnt then undercounts the input rows. *)

Print Assumptions C18_stats_agree.
