(* C14 -- Composition-determined outcomes ignore how the SMILES is written.
   A different atom order / aromatic-or-kekulised form / atom-map numbering of the same molecules, or a
   different order of the molecules within a side, changes the composition dictionaries at most in the
   ORDER of their entries (C07: decompose is permutation invariant and additive), and leaves the carbon
   sums unchanged.  Proved here for every oracle, database and fuel: under exactly that hypothesis
   (entry-wise equal dictionaries, `geq`) the input check gives the same answer, the rule-based stage
   gives the same verdict, inserts the same number of water molecules, computes an equivalent difference
   formula, and the solver returns the SAME ranked list of completions -- hence the same molecules are
   proposed for the same side.
   Not proved (kept visible; decided by the metamorphic correspondence only): RuleConstraint's redox
   rewrite inspects the side STRINGS for the markers ".[H]", ".[O]", ".OO" and for the four
   no-constraint atoms, so it is spelling/order sensitive exactly where C02's guard is violated
   (known finding C14/marker-position-sensitive, same mechanism as C02/replace-on-side-string);
   the reagent post-processing is excluded by the statement. *)
From Coq Require Import String ZArith List Bool Arith.
From SynRBL Require Import Base.Dict Base.Strs Base.ListX Model.Comp Model.Matcher Model.Constraint Model.Pipeline
  Proofs.CompProofs Proofs.Balanced Proofs.RunLevel Proofs.Spelling Gen.GenSymbols.
Import ListNotations.
Open Scope string_scope. Open Scope Z_scope.

Theorem C14_verdict_and_formula : forall (r p r' p' : dict),
  nodupk r -> nodupk r' -> nodupk p -> nodupk p' -> geq r r' -> geq p p' ->
  compare_dicts r p = compare_dicts r' p' /\
  snd (classify r p) = snd (classify r' p') /\ geq (fst (classify r p)) (fst (classify r' p')).
Proof.
  intros r p r' p' Nr Nr' Np Np' Hr Hp. split; [now apply compare_dicts_geq|].
  destruct (classify_geq r r' p p' Nr Nr' Np Np' Hr Hp) as [A [B _]]. auto.
Qed.

Theorem C14_solver_ignores_entry_order : forall fuel db d d',
  nodupk d -> nodupk d' -> geq d d' -> match_all fuel db d = match_all fuel db d'.
Proof. exact match_all_geq. Qed.

Theorem C14_rule_based_stage : forall (O : oracles) (r r' : row),
  geq (decomp O (lhs (rxn r))) (decomp O (lhs (rxn r'))) -> geq (decomp O (rhs (rxn r))) (decomp O (rhs (rxn r'))) ->
  nodupk (decomp O (lhs (rxn r))) /\ nodupk (decomp O (lhs (rxn r'))) ->
  nodupk (decomp O (rhs (rxn r))) /\ nodupk (decomp O (rhs (rxn r'))) ->
  let '(rx, p, v, d) := rb_classify O r in let '(rx', p', v', d') := rb_classify O r' in
  v = v' /\ geq d d' /\ nodupk d /\ nodupk d' /\
  (exists add, rx = rxn r ++ add /\ rx' = rxn r' ++ add /\ p = rhs (rxn r) ++ add /\ p' = rhs (rxn r') ++ add)%string /\
  forall fuel db, match_all fuel db d = match_all fuel db d'.
Proof.
  intros O r r' HL HR NL NR.
  pose proof (rb_classify_spelling O r r' HL HR NL NR) as H.
  destruct (rb_classify O r) as [[[rx p] v] d]. destruct (rb_classify O r') as [[[rx' p'] v'] d'].
  destruct H as [E [G [M1 [M2 X]]]]. repeat split; auto. intros. now apply match_all_geq.
Qed.

(* the input check; with C04 (a row is input-balanced iff its stripped input is `good`) the
   input-balanced outcome is spelling independent *)
Theorem C14_input_balanced : forall O s s',
  geq (decomp O (lhs s)) (decomp O (lhs s')) -> geq (decomp O (rhs s)) (decomp O (rhs s')) ->
  carbon_of O s = carbon_of O s' -> good O s = good O s'.
Proof. exact good_spelling. Qed.

(* the hypothesis is what C07 delivers: atom order does not change any entry *)
Theorem C14_hypothesis_from_atom_order : forall tbl zs zs' q k,
  Permutation.Permutation zs zs' -> getd (decompose tbl zs q) k = getd (decompose tbl zs' q) k.
Proof. intros. now apply decompose_perm. Qed.

(* non-vacuity: two entry orders of one composition, a real completion *)
Example C14_example :
  geq [("C", 2); ("H", 5); ("Br", 1)] [("Br", 1); ("H", 5); ("C", 2)] /\
  compare_dicts [("C", 2); ("H", 5); ("Br", 1)] [("C", 2); ("H", 6); ("O", 1)] =
  compare_dicts [("Br", 1); ("H", 5); ("C", 2)] [("O", 1); ("C", 2); ("H", 6)].
Proof.
  split; [|reflexivity]. intros k. cbn [get].
  destruct (String.eqb k "C") eqn:E1; destruct (String.eqb k "H") eqn:E2; destruct (String.eqb k "Br") eqn:E3; try reflexivity;
  repeat match goal with H : String.eqb _ _ = true |- _ => apply String.eqb_eq in H; subst end; discriminate.
Qed.

Print Assumptions C14_verdict_and_formula.
Print Assumptions C14_solver_ignores_entry_order.
Print Assumptions C14_rule_based_stage.
Print Assumptions C14_input_balanced.
Print Assumptions C14_hypothesis_from_atom_order.
