(* C08 -- Rule-based completions add up exactly to the imbalance they are asked to fill.
   Statements only.  DB = the rule database the pipeline loads now, AUTO = the second
   shipped database, both regenerated from /repo on every run. *)
From Coq Require Import String ZArith List Bool Lia.
From SynRBL Require Import Base.Dict Base.Strs Base.ListX Model.Comp Model.Matcher Model.Constraint
  Proofs.CompProofs Proofs.MatcherProofs Proofs.MatcherTermination Proofs.ConstraintProofs Proofs.StrProofs Proofs.Whole Proofs.ConstraintSum Gen.GenSymbols Gen.GenRules Gen.GenConst.
Import ListNotations.
Open Scope string_scope. Open Scope Z_scope.

Notation T := (atomic_symbols ++ rdkit_symbols)%list.

(* ---- generated-data obligations, re-proved against the current files on every run *)
(* every record: unique keys, an explicit charge entry, at least one element, every element
   count positive (this is also what makes the solver terminate) *)
Definition record_wf (r : rule) : bool :=
  nodupkb (rcomp r) && mem (rcomp r) "Q" &&
  existsb (fun kv => negb (String.eqb (fst kv) "Q")) (rcomp r) &&
  forallb (fun kv => String.eqb (fst kv) "Q" || (snd kv >? 0)) (rcomp r).
(* recorded composition = decompose of the SMILES' true atoms and charge *)
Definition record_true (r : rule) (a : list Z * Z) : bool :=
  deqb (rcomp r) (decompose T (fst a) (snd a)).
Fixpoint forallb2 {A B} (f : A -> B -> bool) (l : list A) (m : list B) : bool :=
  match l, m with
  | [], [] => true
  | x :: l', y :: m' => f x y && forallb2 f l' m'
  | _, _ => false
  end.
(* an elemental dihalogen / interhalogen: exactly two atoms, both halogens, neutral *)
Definition is_dihalogen (a : list Z * Z) : bool :=
  match fst a with
  | [x; y] => (snd a =? 0) && existsb (Z.eqb x) [9; 17; 35; 53; 85] && existsb (Z.eqb y) [9; 17; 35; 53; 85]
  | _ => false
  end.

Theorem db_wf : forallb record_wf rules_manager = true /\ forallb record_wf automated_rules = true.
Proof. split; vm_compute; reflexivity. Qed.
Theorem db_records_true :
  forallb2 record_true rules_manager rules_manager_atoms = true /\
  forallb2 record_true automated_rules automated_rules_atoms = true.
Proof. split; vm_compute; reflexivity. Qed.
Theorem ban_list_covers_db_dihalogens :
  forallb2 (fun r a => implb (is_dihalogen a) (banned ban_atoms_canon (rsmiles r)))
    (rules_manager ++ automated_rules) (rules_manager_atoms ++ automated_rules_atoms) = true.
Proof. vm_compute; reflexivity. Qed.

(* ---- the solver, for every database with unique keys per record and every imbalance *)
Theorem C08_completions_sum_exactly : forall fuel db diff res,
  (forall r, In r db -> nodupk (rcomp r)) -> nodupk diff ->
  match_all fuel db diff = Some res ->
  forall sol, In sol res ->
    (forall k, getd diff k = psum sol k) /\
    (forall it, In it sol -> In (fst it) db /\ snd it >= 0).
Proof. exact match_all_sound. Qed.
Theorem C08_multiplicities_positive : forall rules,
  (forall r, In r rules -> comp_positive (rcomp r)) ->
  forall fuel data p sols, dfs fuel rules data p = Some sols ->
  forall sol, In sol sols ->
    exists ext, sol = (p ++ ext)%list /\ forall it, In it ext -> snd it >= 1.
Proof. exact dfs_ratios_positive. Qed.

(* the search terminates: with a well-formed database (db_wf above) every applied rule removes at least one atom, so more
   fuel than the imbalance has atoms is always enough, and min() of an empty sequence cannot happen; the model's None
   (Python: RecursionError / ValueError) is then impossible *)
Theorem C08_solver_terminates : forall fuel db diff,
  forallb record_wf db = true -> nodupk diff -> (forall k, k <> "Q" -> getd diff k >= 0) ->
  atoms_of diff < Z.of_nat fuel ->
  exists res, match_all fuel db diff = Some res.
Proof. exact match_all_terminates_b. Qed.
Example hcl_atoms : atoms_of [("H",1);("Cl",1)] = 2.
Proof. vm_compute. reflexivity. Qed.

(* appending the completion to the lighter side balances the reaction: with C07's
   classify_sound (r = p + d for Products, p = r + d for Reactants) and additivity *)
Theorem C08_completion_balances : forall r p d sol,
  (forall k, getd r k = getd p k + getd d k) -> (forall k, getd d k = psum sol k) ->
  forall k, getd r k = getd p k + psum sol k.
Proof. intros r p d sol H1 H2 k. rewrite H1, H2. reflexivity. Qed.

(* ---- accepted completions carry no banned product *)
Theorem C08_accepted_has_no_banned : forall ban r p r' p',
  constraint_fit ban r p = Some (r', p') ->
  (forall b, In b ban -> contains b p' = false) /\ Nat.even (count ".[H]" r') = true.
Proof. exact accepted_has_no_banned. Qed.

(* ---- the redox rewrite of accepted completions keeps the imbalance: for every composition oracle cmp that gives [H], [O], water and
   H2O2 their true compositions, every product side whose first component is a non-empty non-marker and whose markers after a dot are
   whole components (std), and every accepted entry, products' - reactants' = products - reactants in every element and in charge.
   (The pinned code violated this for two or more peroxides; repaired in /repo, the model follows the repaired code.) *)
Theorem C08_constraint_rewrite_keeps_imbalance : forall (cmp : string -> string -> Z),
  (forall k, cmp "[H]" k = if String.eqb k "H" then 1 else 0) -> (forall k, cmp "[O]" k = if String.eqb k "O" then 1 else 0) ->
  (forall k, cmp "O" k = if String.eqb k "H" then 2 else if String.eqb k "O" then 1 else 0) ->
  (forall k, cmp "OO" k = if String.eqb k "H" then 2 else if String.eqb k "O" then 2 else 0) ->
  forall ban r p r' p', std p -> constraint_fit ban r p = Some (r', p') ->
  forall k, imbalance cmp r' p' k = imbalance cmp r p k.
Proof. intros cmp H1 H2 H3 H4 ban r p r' p'. exact (constraint_fit_keeps_imbalance cmp H1 H2 H3 H4 ban r p r' p'). Qed.
(* non-vacuity: two peroxide completions after acetic acid are a std side, and the repaired rewrite compensates both *)
Example two_peroxides_std : std "CC(=O)O.OO.OO".
Proof.
  exists "CC(=O)O", ["OO"; "OO"]. split; [reflexivity|]. split; [reflexivity|]. split; [discriminate|]. split.
  - simpl. intros [H|[H|[H|[]]]]; discriminate.
  - intros m [<-|[<-|[<-|[]]]]; (constructor; [|constructor; [|constructor]]); (split; [reflexivity|]);
      first [left; reflexivity | right; reflexivity].
Qed.
Example two_peroxides_rewritten : constraint_fit ban_atoms_canon "CCO" "CC(=O)O.OO.OO" = Some ("CCO.[H].[H].[H].[H]", "CC(=O)O.O.O.O.O").
Proof. vm_compute. reflexivity. Qed.

(* non-vacuity: HCl is completed by the shipped database; the hypotheses hold for it *)
Example hcl : option_map (map render_path) (match_all 20 rules_manager [("H",1);("Cl",1)]) =
  Some [[("[H+]",1);("[Cl-]",1)]].
Proof. vm_compute. reflexivity. Qed.
Example shipped_db_meets_hypotheses : forall r, In r rules_manager -> nodupk (rcomp r).
Proof.
  intros r I. apply nodupkb_spec.
  pose proof (proj1 db_wf) as W. rewrite forallb_forall in W. specialize (W r I).
  unfold record_wf in W. repeat (apply andb_prop in W as [W ?]). exact W.
Qed.

Print Assumptions db_wf.
Print Assumptions db_records_true.
Print Assumptions ban_list_covers_db_dihalogens.
Print Assumptions C08_completions_sum_exactly.
Print Assumptions C08_multiplicities_positive.
Print Assumptions C08_completion_balances.
Print Assumptions C08_accepted_has_no_banned.
Print Assumptions C08_solver_terminates.
Print Assumptions C08_constraint_rewrite_keeps_imbalance.
