(* C16 -- Functional-group recognition depends only on the molecular graph.
   Model: Model/FGMatch.v (pattern_match = the recursive matcher _fits with the neighbour permutations,
   check_functional_group), patterns regenerated from functional_group_config on every run (Gen/GenFG.v).
   First sentence of the property, FULL strength: for every molecule graph, every isomorphic renumbering
   (any bijection of atoms, any order of the neighbour lists), every pattern / configuration and every fuel,
   the matcher's answer at the corresponding atom is the same (C16_renumbering_invariant).
   Second sentence: "a positive match is a real occurrence" is REFUTED (the C16_refuted theorems): the matcher passes
   its visited lists down but not across sibling branches and never checks ring closure, so 1,3-dioxetane
   is recognised as an acetal (the same carbon used twice) and tropylium-ol as a phenol (a 7-ring accepted
   for the 6-ring pattern) although no injective embedding exists (Model/FGMatch.occurs_at) -- recorded
   known findings.  The other half HOLDS and is proved (C16_every_occurrence_is_recognised): on well-formed graphs every
   real occurrence (Model/FGMatch.occurs_at; more generally every injective symbol- and bond-preserving embedding,
   C16_embedding_is_recognised) is recognised.  So the recogniser answers true on a superset of the real occurrences.
   The correspondence also compares every call with RDKit's substructure search. *)
From Coq Require Import String List Bool Arith Permutation.
From SynRBL Require Import Model.FGMatch Proofs.FGProofs Proofs.FGComplete Gen.GenFG.
Import ListNotations.
Open Scope string_scope.

Theorem C16_pattern_match_renumbering_invariant : forall G G' P pi,
  (forall x y, pi x = pi y -> x = y) -> (forall x, sym G' (pi x) = sym G x) ->
  (forall x, Permutation (nbrs G' (pi x)) (map pi (nbrs G x))) -> (forall x y, bond G' (pi x) (pi y) = bond G x y) ->
  forall a, pattern_match G' P (pi a) = pattern_match G P a.
Proof. exact pattern_match_iso. Qed.

Theorem C16_renumbering_invariant : forall G G' pi c a,
  (forall x y, pi x = pi y -> x = y) -> (forall x, sym G' (pi x) = sym G x) ->
  (forall x, Permutation (nbrs G' (pi x)) (map pi (nbrs G x))) -> (forall x y, bond G' (pi x) (pi y) = bond G x y) ->
  check_functional_group G' c (pi a) = check_functional_group G c a.
Proof. exact check_functional_group_iso. Qed.

(* completeness: every real occurrence is recognised *)
Theorem C16_embedding_is_recognised : forall G P (f : nat -> nat),
  (forall p q, p < size P -> q < size P -> f p = f q -> p = q) ->
  (forall p, p < size P -> sym G (f p) = sym P p) ->
  (forall p q, p < size P -> In q (nbrs P p) -> In (f q) (nbrs G (f p)) /\ bond G (f p) (f q) = bond P p q) ->
  (forall p q, p < size P -> In q (nbrs P p) -> q < size P) -> (forall p, p < size P -> NoDup (nbrs P p)) ->
  forall pa, pa < size P -> pattern_match G P (f pa) = true.
Proof. exact pattern_match_complete. Qed.
Theorem C16_every_occurrence_is_recognised : forall G P anchor,
  pwfb P = true -> gwfb G = true -> occurs_at G P anchor = true -> pattern_match G P anchor = true.
Proof. exact occurs_at_complete. Qed.
(* generated obligation: every pattern, group and anti-pattern of the current configuration is a well-formed graph *)
Definition structures : list graph :=
  flat_map (fun c => (map fst (fg_patterns (snd c)) ++ map snd (fg_patterns (snd c)) ++ fg_anti (snd c))%list) fg_configs.
Theorem generated_patterns_wf : forallb pwfb structures = true.
Proof. vm_compute. reflexivity. Qed.

Definition cfg (name : string) : fgconfig :=
  match find (fun p => String.eqb (fst p) name) fg_configs with Some p => snd p | None => {| fg_patterns := []; fg_anti := [] |} end.
Definition first_pattern (name : string) : graph :=
  match fg_patterns (cfg name) with pg :: _ => fst pg | [] => mkgraph [] [] [] end.

(* non-vacuity / sanity on the generated configurations: phenol's oxygen is a phenol and not an alcohol;
   the same molecule numbered backwards gives the same answers *)
Definition phenol : graph := mkgraph ["O"; "C"; "C"; "C"; "C"; "C"; "C"] [[1]; [0; 2; 6]; [1; 3]; [2; 4]; [3; 5]; [4; 6]; [5; 1]]
  [(0, 1, 1); (1, 2, 12); (2, 3, 12); (3, 4, 12); (4, 5, 12); (5, 6, 12); (6, 1, 12)].
Definition phenol_rev : graph := mkgraph ["C"; "C"; "C"; "C"; "C"; "C"; "O"] [[1; 5]; [2; 0]; [3; 1]; [4; 2]; [5; 3]; [6; 4; 0]; [5]]
  [(6, 5, 1); (5, 4, 12); (4, 3, 12); (3, 2, 12); (2, 1, 12); (1, 0, 12); (0, 5, 12)].
Example C16_example :
  check_functional_group phenol (cfg "phenol") 0 = true /\ check_functional_group phenol (cfg "alcohol") 0 = false /\
  check_functional_group phenol_rev (cfg "phenol") 6 = true /\ check_functional_group phenol_rev (cfg "alcohol") 6 = false /\
  occurs_at phenol (first_pattern "phenol") 0 = true /\ gwfb phenol = true /\ pwfb (first_pattern "phenol") = true.
Proof. repeat split; vm_compute; reflexivity. Qed.

(* 1,3-dioxetane C1OCO1 : the acetal pattern COCOC has three carbons, the molecule two *)
Definition dioxetane : graph := mkgraph ["C"; "O"; "C"; "O"] [[1; 3]; [0; 2]; [1; 3]; [2; 0]] [(0, 1, 1); (1, 2, 1); (2, 3, 1); (3, 0, 1)].
Theorem C16_refuted_non_injective :
  pattern_match dioxetane (first_pattern "acetal") 1 = true /\ occurs_at dioxetane (first_pattern "acetal") 1 = false /\
  check_functional_group dioxetane (cfg "acetal") 1 = true.
Proof. repeat split; vm_compute; reflexivity. Qed.

(* tropylium-ol O[c+]1cccccc1 : a seven-membered aromatic ring is accepted for phenol's six-membered one *)
Definition tropyliumol : graph := mkgraph ["O"; "C"; "C"; "C"; "C"; "C"; "C"; "C"] [[1]; [0; 2; 7]; [1; 3]; [2; 4]; [3; 5]; [4; 6]; [5; 7]; [6; 1]]
  [(0, 1, 1); (1, 2, 12); (2, 3, 12); (3, 4, 12); (4, 5, 12); (5, 6, 12); (6, 7, 12); (7, 1, 12)].
Theorem C16_refuted_ring_closure :
  pattern_match tropyliumol (first_pattern "phenol") 0 = true /\ occurs_at tropyliumol (first_pattern "phenol") 0 = false /\
  check_functional_group tropyliumol (cfg "phenol") 0 = true.
Proof. repeat split; vm_compute; reflexivity. Qed.

Print Assumptions C16_pattern_match_renumbering_invariant.
Print Assumptions C16_renumbering_invariant.
Print Assumptions C16_refuted_non_injective.
Print Assumptions C16_refuted_ring_closure.
Print Assumptions C16_embedding_is_recognised.
Print Assumptions C16_every_occurrence_is_recognised.
Print Assumptions generated_patterns_wf.
