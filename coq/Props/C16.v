(* C16 -- Functional-group recognition depends only on the molecular graph.
   Model: Model/FGMatch.v (pattern_match = the recursive matcher _fits with the neighbour permutations,
   check_functional_group), patterns regenerated from functional_group_config on every run (Gen/GenFG.v).
   First sentence of the property, FULL strength: for every molecule graph, every isomorphic renumbering
   (any bijection of atoms, any order of the neighbour lists), every pattern / configuration and every fuel,
   the matcher's answer at the corresponding atom is the same (C16_renumbering_invariant).
   Second sentence: "a positive match is a real occurrence" is REFUTED (the C16_refuted theorems): the matcher passes
   its visited lists down but not across sibling branches and never checks ring closure, so 1,3-dioxetane
   is recognised as an acetal (the same carbon used twice) and tropylium-ol as a phenol (a 7-ring accepted
   for the 6-ring pattern) although no injective embedding exists (Model/FGMatch.occurs_at) -- recorded
   known findings.  "Every occurrence is found" (completeness) is not proved; the correspondence compares
   every call with RDKit's substructure search and reports a missed occurrence as a violation. *)
From Coq Require Import String List Bool Arith Permutation.
From SynRBL Require Import Model.FGMatch Proofs.FGProofs Gen.GenFG.
Import ListNotations.
Open Scope string_scope.

Theorem C16_pattern_match_renumbering_invariant : forall G G' P pi,
  (forall x y, pi x = pi y -> x = y) -> (forall x, sym G' (pi x) = sym G x) ->
  (forall x, Permutation (nbrs G' (pi x)) (map pi (nbrs G x))) -> (forall x y, bond G' (pi x) (pi y) = bond G x y) ->
  forall a, pattern_match G' P (pi a) = pattern_match G P a.
Proof. exact pattern_match_iso. Qed.

Theorem C16_renumbering_invariant : forall G G' pi c a,
  (forall x y, pi x = pi y -> x = y) -> (forall x, sym G' (pi x) = sym G x) ->
  (forall x, Permutation (nbrs G' (pi x)) (map pi (nbrs G x))) -> (forall x y, bond G' (pi x) (pi y) = bond G x y) ->
  check_functional_group G' c (pi a) = check_functional_group G c a.
Proof. exact check_functional_group_iso. Qed.

Definition cfg (name : string) : fgconfig :=
  match find (fun p => String.eqb (fst p) name) fg_configs with Some p => snd p | None => {| fg_patterns := []; fg_anti := [] |} end.
Definition first_pattern (name : string) : graph :=
  match fg_patterns (cfg name) with pg :: _ => fst pg | [] => mkgraph [] [] [] end.

(* non-vacuity / sanity on the generated configurations: phenol's oxygen is a phenol and not an alcohol;
   the same molecule numbered backwards gives the same answers *)
Definition phenol : graph := mkgraph ["O"; "C"; "C"; "C"; "C"; "C"; "C"] [[1]; [0; 2; 6]; [1; 3]; [2; 4]; [3; 5]; [4; 6]; [5; 1]]
  [(0, 1, 1); (1, 2, 12); (2, 3, 12); (3, 4, 12); (4, 5, 12); (5, 6, 12); (6, 1, 12)].
Definition phenol_rev : graph := mkgraph ["C"; "C"; "C"; "C"; "C"; "C"; "O"] [[1; 5]; [2; 0]; [3; 1]; [4; 2]; [5; 3]; [6; 4; 0]; [5]]
  [(6, 5, 1); (5, 4, 12); (4, 3, 12); (3, 2, 12); (2, 1, 12); (1, 0, 12); (0, 5, 12)].
Example C16_example :
  check_functional_group phenol (cfg "phenol") 0 = true /\ check_functional_group phenol (cfg "alcohol") 0 = false /\
  check_functional_group phenol_rev (cfg "phenol") 6 = true /\ check_functional_group phenol_rev (cfg "alcohol") 6 = false /\
  occurs_at phenol (first_pattern "phenol") 0 = true.
Proof. repeat split; vm_compute; reflexivity. Qed.

(* 1,3-dioxetane C1OCO1 : the acetal pattern COCOC has three carbons, the molecule two *)
Definition dioxetane : graph := mkgraph ["C"; "O"; "C"; "O"] [[1; 3]; [0; 2]; [1; 3]; [2; 0]] [(0, 1, 1); (1, 2, 1); (2, 3, 1); (3, 0, 1)].
Theorem C16_refuted_non_injective :
  pattern_match dioxetane (first_pattern "acetal") 1 = true /\ occurs_at dioxetane (first_pattern "acetal") 1 = false /\
  check_functional_group dioxetane (cfg "acetal") 1 = true.
Proof. repeat split; vm_compute; reflexivity. Qed.

(* tropylium-ol O[c+]1cccccc1 : a seven-membered aromatic ring is accepted for phenol's six-membered one *)
Definition tropyliumol : graph := mkgraph ["O"; "C"; "C"; "C"; "C"; "C"; "C"; "C"] [[1]; [0; 2; 7]; [1; 3]; [2; 4]; [3; 5]; [4; 6]; [5; 7]; [6; 1]]
  [(0, 1, 1); (1, 2, 12); (2, 3, 12); (3, 4, 12); (4, 5, 12); (5, 6, 12); (6, 7, 12); (7, 1, 12)].
Theorem C16_refuted_ring_closure :
  pattern_match tropyliumol (first_pattern "phenol") 0 = true /\ occurs_at tropyliumol (first_pattern "phenol") 0 = false /\
  check_functional_group tropyliumol (cfg "phenol") 0 = true.
Proof. repeat split; vm_compute; reflexivity. Qed.

Print Assumptions C16_pattern_match_renumbering_invariant.
Print Assumptions C16_renumbering_invariant.
Print Assumptions C16_refuted_non_injective.
Print Assumptions C16_refuted_ring_closure.
