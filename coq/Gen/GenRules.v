(* GENERATED from synrbl/SynRuleImputer/rules_manager.json.gz (as loaded by RuleBasedMethod) and Data/Rules/automated_rules.json.gz by harness/gen_data.py on every run -- do not edit *)
From Coq Require Import String ZArith List.
Import ListNotations.
Open Scope string_scope.

From SynRBL Require Import Base.Dict Model.Matcher.
Open Scope Z_scope.

Definition rules_manager : list rule :=
  [ {| rformula := "O"; rsmiles := "[O]"; rcomp := [("O", 1%Z); ("Q", 0%Z)]; rabsq := 0%Z |};
    {| rformula := "Cl2"; rsmiles := "ClCl"; rcomp := [("Cl", 2%Z); ("Q", 0%Z)]; rabsq := 0%Z |};
    {| rformula := "N3-"; rsmiles := "[N-]=[N+]=[N-]"; rcomp := [("N", 3%Z); ("Q", (-1)%Z)]; rabsq := 3%Z |};
    {| rformula := "H"; rsmiles := "[H]"; rcomp := [("Q", 0%Z); ("H", 1%Z)]; rabsq := 0%Z |};
    {| rformula := "F2"; rsmiles := "FF"; rcomp := [("Q", 0%Z); ("F", 2%Z)]; rabsq := 0%Z |};
    {| rformula := "Br2"; rsmiles := "BrBr"; rcomp := [("Q", 0%Z); ("Br", 2%Z)]; rabsq := 0%Z |};
    {| rformula := "I2"; rsmiles := "II"; rcomp := [("Q", 0%Z); ("I", 2%Z)]; rabsq := 0%Z |};
    {| rformula := "H+"; rsmiles := "[H+]"; rcomp := [("Q", 1%Z); ("H", 1%Z)]; rabsq := 1%Z |};
    {| rformula := "Na+"; rsmiles := "[Na+]"; rcomp := [("Q", 1%Z); ("Na", 1%Z)]; rabsq := 1%Z |};
    {| rformula := "Li+"; rsmiles := "[Li+]"; rcomp := [("Q", 1%Z); ("Li", 1%Z)]; rabsq := 1%Z |};
    {| rformula := "K+"; rsmiles := "[K+]"; rcomp := [("Q", 1%Z); ("K", 1%Z)]; rabsq := 1%Z |};
    {| rformula := "Ca2+"; rsmiles := "[Ca+2]"; rcomp := [("Q", 2%Z); ("Ca", 1%Z)]; rabsq := 2%Z |};
    {| rformula := "Mg2+"; rsmiles := "[Mg+2]"; rcomp := [("Q", 2%Z); ("Mg", 1%Z)]; rabsq := 2%Z |};
    {| rformula := "Ba2+"; rsmiles := "[Ba+2]"; rcomp := [("Q", 2%Z); ("Ba", 1%Z)]; rabsq := 2%Z |};
    {| rformula := "Al3+"; rsmiles := "[Al+3]"; rcomp := [("Q", 3%Z); ("Al", 1%Z)]; rabsq := 3%Z |};
    {| rformula := "Zn2+"; rsmiles := "[Zn+2]"; rcomp := [("Q", 2%Z); ("Zn", 1%Z)]; rabsq := 2%Z |};
    {| rformula := "Cu2+"; rsmiles := "[Cu+2]"; rcomp := [("Q", 2%Z); ("Cu", 1%Z)]; rabsq := 2%Z |};
    {| rformula := "Cu+"; rsmiles := "[Cu+]"; rcomp := [("Q", 1%Z); ("Cu", 1%Z)]; rabsq := 1%Z |};
    {| rformula := "F-"; rsmiles := "[F-]"; rcomp := [("Q", (-1)%Z); ("F", 1%Z)]; rabsq := 1%Z |};
    {| rformula := "Cl-"; rsmiles := "[Cl-]"; rcomp := [("Q", (-1)%Z); ("Cl", 1%Z)]; rabsq := 1%Z |};
    {| rformula := "Br-"; rsmiles := "[Br-]"; rcomp := [("Q", (-1)%Z); ("Br", 1%Z)]; rabsq := 1%Z |};
    {| rformula := "I-"; rsmiles := "[I-]"; rcomp := [("Q", (-1)%Z); ("I", 1%Z)]; rabsq := 1%Z |};
    {| rformula := "N2"; rsmiles := "N#N"; rcomp := [("Q", 0%Z); ("N", 2%Z)]; rabsq := 0%Z |};
    {| rformula := "O2"; rsmiles := "O=O"; rcomp := [("Q", 0%Z); ("O", 2%Z)]; rabsq := 0%Z |};
    {| rformula := "S^2-"; rsmiles := "[S-2]"; rcomp := [("Q", (-2)%Z); ("S", 1%Z)]; rabsq := 2%Z |};
    {| rformula := "H3N"; rsmiles := "N"; rcomp := [("N", 1%Z); ("H", 3%Z); ("Q", 0%Z)]; rabsq := 0%Z |};
    {| rformula := "H2O"; rsmiles := "O"; rcomp := [("O", 1%Z); ("H", 2%Z); ("Q", 0%Z)]; rabsq := 0%Z |};
    {| rformula := "H2O2"; rsmiles := "OO"; rcomp := [("O", 2%Z); ("H", 2%Z); ("Q", 0%Z)]; rabsq := 0%Z |};
    {| rformula := "H4N+"; rsmiles := "[NH4+]"; rcomp := [("N", 1%Z); ("H", 4%Z); ("Q", 1%Z)]; rabsq := 1%Z |};
    {| rformula := "OH-"; rsmiles := "[OH-]"; rcomp := [("Q", (-1)%Z); ("H", 1%Z); ("O", 1%Z)]; rabsq := 1%Z |};
    {| rformula := "NO2-"; rsmiles := "O=N[O-]"; rcomp := [("Q", (-1)%Z); ("O", 2%Z); ("N", 1%Z)]; rabsq := 1%Z |};
    {| rformula := "NO3-"; rsmiles := "[N+](=O)([O-])[O-]"; rcomp := [("Q", (-1)%Z); ("O", 3%Z); ("N", 1%Z)]; rabsq := 3%Z |};
    {| rformula := "NH2-"; rsmiles := "[NH2-]"; rcomp := [("Q", (-1)%Z); ("H", 2%Z); ("N", 1%Z)]; rabsq := 1%Z |};
    {| rformula := "SO4^2-"; rsmiles := "[O-]S(=O)(=O)[O-]"; rcomp := [("Q", (-2)%Z); ("S", 1%Z); ("O", 4%Z)]; rabsq := 2%Z |};
    {| rformula := "PO4^3-"; rsmiles := "[O-]P(=O)([O-])[O-]"; rcomp := [("Q", (-3)%Z); ("P", 1%Z); ("O", 4%Z)]; rabsq := 3%Z |};
    {| rformula := "SO3 2-"; rsmiles := "[O-]S(=O)[O-]"; rcomp := [("Q", (-2)%Z); ("S", 1%Z); ("O", 3%Z)]; rabsq := 2%Z |};
    {| rformula := "IO3-"; rsmiles := "[O-]I(=O)=O"; rcomp := [("O", 3%Z); ("I", 1%Z); ("Q", (-1)%Z)]; rabsq := 5%Z |};
    {| rformula := "H3NO"; rsmiles := "NO"; rcomp := [("N", 1%Z); ("O", 1%Z); ("H", 3%Z); ("Q", 0%Z)]; rabsq := 0%Z |};
    {| rformula := "H4NO+"; rsmiles := "[NH3+]O"; rcomp := [("N", 1%Z); ("O", 1%Z); ("H", 4%Z); ("Q", 1%Z)]; rabsq := 1%Z |};
    {| rformula := "B(OH)3"; rsmiles := "B(O)(O)O"; rcomp := [("Q", 0%Z); ("B", 1%Z); ("O", 3%Z); ("H", 3%Z)]; rabsq := 0%Z |};
    {| rformula := "H3BO2"; rsmiles := "B(O)(O)"; rcomp := [("Q", 0%Z); ("B", 1%Z); ("O", 2%Z); ("H", 3%Z)]; rabsq := 0%Z |};
    {| rformula := "CO2"; rsmiles := "C=O"; rcomp := [("C", 1%Z); ("O", 1%Z); ("H", 2%Z); ("Q", 0%Z)]; rabsq := 0%Z |};
    {| rformula := "SOCl2"; rsmiles := "O=S(Cl)Cl"; rcomp := [("O", 1%Z); ("S", 1%Z); ("Cl", 2%Z); ("Q", 0%Z)]; rabsq := 0%Z |};
    {| rformula := "H4N2O2S"; rsmiles := "NS(N)(=O)=O"; rcomp := [("N", 2%Z); ("S", 1%Z); ("O", 2%Z); ("H", 4%Z); ("Q", 0%Z)]; rabsq := 0%Z |};
    {| rformula := "HClO3S"; rsmiles := "O=S(=O)(O)Cl"; rcomp := [("O", 3%Z); ("S", 1%Z); ("Cl", 1%Z); ("H", 1%Z); ("Q", 0%Z)]; rabsq := 0%Z |};
    {| rformula := "B(OH)2Cl"; rsmiles := "B(O)(O)Cl"; rcomp := [("Q", 0%Z); ("B", 1%Z); ("O", 2%Z); ("H", 2%Z); ("Cl", 1%Z)]; rabsq := 0%Z |};
    {| rformula := "B(OH)2Br"; rsmiles := "B(O)(O)Br"; rcomp := [("Q", 0%Z); ("B", 1%Z); ("O", 2%Z); ("H", 2%Z); ("Br", 1%Z)]; rabsq := 0%Z |};
    {| rformula := "B(OH)2I"; rsmiles := "B(O)(O)I"; rcomp := [("Q", 0%Z); ("B", 1%Z); ("O", 2%Z); ("H", 2%Z); ("I", 1%Z)]; rabsq := 0%Z |};
    {| rformula := "H2ClNO2S"; rsmiles := "NS(=O)(=O)Cl"; rcomp := [("N", 1%Z); ("S", 1%Z); ("O", 2%Z); ("Cl", 1%Z); ("H", 2%Z); ("Q", 0%Z)]; rabsq := 0%Z |} ].
(* oracle columns: atoms after AddHs and net charge of each record's SMILES, read from RDKit *)
Definition rules_manager_atoms : list (list Z * Z) :=
  [ ([8%Z], 0%Z);
    ([17%Z; 17%Z], 0%Z);
    ([7%Z; 7%Z; 7%Z], (-1)%Z);
    ([1%Z], 0%Z);
    ([9%Z; 9%Z], 0%Z);
    ([35%Z; 35%Z], 0%Z);
    ([53%Z; 53%Z], 0%Z);
    ([1%Z], 1%Z);
    ([11%Z], 1%Z);
    ([3%Z], 1%Z);
    ([19%Z], 1%Z);
    ([20%Z], 2%Z);
    ([12%Z], 2%Z);
    ([56%Z], 2%Z);
    ([13%Z], 3%Z);
    ([30%Z], 2%Z);
    ([29%Z], 2%Z);
    ([29%Z], 1%Z);
    ([9%Z], (-1)%Z);
    ([17%Z], (-1)%Z);
    ([35%Z], (-1)%Z);
    ([53%Z], (-1)%Z);
    ([7%Z; 7%Z], 0%Z);
    ([8%Z; 8%Z], 0%Z);
    ([16%Z], (-2)%Z);
    ([7%Z; 1%Z; 1%Z; 1%Z], 0%Z);
    ([8%Z; 1%Z; 1%Z], 0%Z);
    ([8%Z; 8%Z; 1%Z; 1%Z], 0%Z);
    ([7%Z; 1%Z; 1%Z; 1%Z; 1%Z], 1%Z);
    ([8%Z; 1%Z], (-1)%Z);
    ([8%Z; 7%Z; 8%Z], (-1)%Z);
    ([7%Z; 8%Z; 8%Z; 8%Z], (-1)%Z);
    ([7%Z; 1%Z; 1%Z], (-1)%Z);
    ([8%Z; 16%Z; 8%Z; 8%Z; 8%Z], (-2)%Z);
    ([8%Z; 15%Z; 8%Z; 8%Z; 8%Z], (-3)%Z);
    ([8%Z; 16%Z; 8%Z; 8%Z], (-2)%Z);
    ([8%Z; 53%Z; 8%Z; 8%Z], (-1)%Z);
    ([7%Z; 8%Z; 1%Z; 1%Z; 1%Z], 0%Z);
    ([7%Z; 8%Z; 1%Z; 1%Z; 1%Z; 1%Z], 1%Z);
    ([5%Z; 8%Z; 8%Z; 8%Z; 1%Z; 1%Z; 1%Z], 0%Z);
    ([5%Z; 8%Z; 8%Z; 1%Z; 1%Z; 1%Z], 0%Z);
    ([6%Z; 8%Z; 1%Z; 1%Z], 0%Z);
    ([8%Z; 16%Z; 17%Z; 17%Z], 0%Z);
    ([7%Z; 16%Z; 7%Z; 8%Z; 8%Z; 1%Z; 1%Z; 1%Z; 1%Z], 0%Z);
    ([8%Z; 16%Z; 8%Z; 8%Z; 17%Z; 1%Z], 0%Z);
    ([5%Z; 8%Z; 8%Z; 17%Z; 1%Z; 1%Z], 0%Z);
    ([5%Z; 8%Z; 8%Z; 35%Z; 1%Z; 1%Z], 0%Z);
    ([5%Z; 8%Z; 8%Z; 53%Z; 1%Z; 1%Z], 0%Z);
    ([7%Z; 16%Z; 8%Z; 8%Z; 17%Z; 1%Z; 1%Z], 0%Z) ].

Definition automated_rules : list rule :=
  [ {| rformula := "H3N"; rsmiles := "N"; rcomp := [("N", 1%Z); ("H", 3%Z); ("Q", 0%Z)]; rabsq := 0%Z |};
    {| rformula := "H2O"; rsmiles := "O"; rcomp := [("O", 1%Z); ("H", 2%Z); ("Q", 0%Z)]; rabsq := 0%Z |};
    {| rformula := "N3-"; rsmiles := "[N-]=[N+]=[N-]"; rcomp := [("N", 3%Z); ("Q", (-1)%Z)]; rabsq := 3%Z |};
    {| rformula := "H4N2"; rsmiles := "NN"; rcomp := [("N", 2%Z); ("H", 4%Z); ("Q", 0%Z)]; rabsq := 0%Z |};
    {| rformula := "HO4S-"; rsmiles := "O=S([O-])OO"; rcomp := [("O", 4%Z); ("S", 1%Z); ("H", 1%Z); ("Q", (-1)%Z)]; rabsq := 1%Z |};
    {| rformula := "H3NO"; rsmiles := "NO"; rcomp := [("N", 1%Z); ("O", 1%Z); ("H", 3%Z); ("Q", 0%Z)]; rabsq := 0%Z |};
    {| rformula := "H4N+"; rsmiles := "[NH4+]"; rcomp := [("N", 1%Z); ("H", 4%Z); ("Q", 1%Z)]; rabsq := 1%Z |};
    {| rformula := "HI"; rsmiles := "I"; rcomp := [("I", 1%Z); ("H", 1%Z); ("Q", 0%Z)]; rabsq := 0%Z |};
    {| rformula := "H2O2"; rsmiles := "OO"; rcomp := [("O", 2%Z); ("H", 2%Z); ("Q", 0%Z)]; rabsq := 0%Z |};
    {| rformula := "H4N2O2S"; rsmiles := "NS(N)(=O)=O"; rcomp := [("N", 2%Z); ("S", 1%Z); ("O", 2%Z); ("H", 4%Z); ("Q", 0%Z)]; rabsq := 0%Z |};
    {| rformula := "HBr"; rsmiles := "Br"; rcomp := [("Br", 1%Z); ("H", 1%Z); ("Q", 0%Z)]; rabsq := 0%Z |};
    {| rformula := "HClO3S"; rsmiles := "O=S(=O)(O)Cl"; rcomp := [("O", 3%Z); ("S", 1%Z); ("Cl", 1%Z); ("H", 1%Z); ("Q", 0%Z)]; rabsq := 0%Z |};
    {| rformula := "HCl"; rsmiles := "Cl"; rcomp := [("Cl", 1%Z); ("H", 1%Z); ("Q", 0%Z)]; rabsq := 0%Z |};
    {| rformula := "Cl2O2S"; rsmiles := "O=S(=O)(Cl)Cl"; rcomp := [("O", 2%Z); ("S", 1%Z); ("Cl", 2%Z); ("Q", 0%Z)]; rabsq := 0%Z |};
    {| rformula := "H2ClNO2S"; rsmiles := "NS(=O)(=O)Cl"; rcomp := [("N", 1%Z); ("S", 1%Z); ("O", 2%Z); ("Cl", 1%Z); ("H", 2%Z); ("Q", 0%Z)]; rabsq := 0%Z |};
    {| rformula := "Cl2"; rsmiles := "ClCl"; rcomp := [("Cl", 2%Z); ("Q", 0%Z)]; rabsq := 0%Z |};
    {| rformula := "H4NO+"; rsmiles := "[NH3+]O"; rcomp := [("N", 1%Z); ("O", 1%Z); ("H", 4%Z); ("Q", 1%Z)]; rabsq := 1%Z |} ].
(* oracle columns: atoms after AddHs and net charge of each record's SMILES, read from RDKit *)
Definition automated_rules_atoms : list (list Z * Z) :=
  [ ([7%Z; 1%Z; 1%Z; 1%Z], 0%Z);
    ([8%Z; 1%Z; 1%Z], 0%Z);
    ([7%Z; 7%Z; 7%Z], (-1)%Z);
    ([7%Z; 7%Z; 1%Z; 1%Z; 1%Z; 1%Z], 0%Z);
    ([8%Z; 16%Z; 8%Z; 8%Z; 8%Z; 1%Z], (-1)%Z);
    ([7%Z; 8%Z; 1%Z; 1%Z; 1%Z], 0%Z);
    ([7%Z; 1%Z; 1%Z; 1%Z; 1%Z], 1%Z);
    ([53%Z; 1%Z], 0%Z);
    ([8%Z; 8%Z; 1%Z; 1%Z], 0%Z);
    ([7%Z; 16%Z; 7%Z; 8%Z; 8%Z; 1%Z; 1%Z; 1%Z; 1%Z], 0%Z);
    ([35%Z; 1%Z], 0%Z);
    ([8%Z; 16%Z; 8%Z; 8%Z; 17%Z; 1%Z], 0%Z);
    ([17%Z; 1%Z], 0%Z);
    ([8%Z; 16%Z; 8%Z; 17%Z; 17%Z], 0%Z);
    ([7%Z; 16%Z; 8%Z; 8%Z; 17%Z; 1%Z; 1%Z], 0%Z);
    ([17%Z; 17%Z], 0%Z);
    ([7%Z; 8%Z; 1%Z; 1%Z; 1%Z; 1%Z], 1%Z) ].
