(* GENERATED from synrbl/SynMCSImputer/merge_rules.json, expand_rules.json, compound_rules.json (as loaded by MergeRule/ExpandRule/CompoundRule.get_all) by harness/gen_data.py on every run -- do not edit *)
From Coq Require Import String ZArith List.
Import ListNotations.
Open Scope string_scope.

From SynRBL Require Import Model.Merge.

Definition merge_rules : list mrule :=
  [ {| mname := "phosphor double bond change"; mbond := (Some 2%nat) |};
    {| mname := "phosphor double bond"; mbond := (Some 2%nat) |};
    {| mname := "phosphor single bond"; mbond := (Some 1%nat) |};
    {| mname := "nitrogen double bond"; mbond := (Some 2%nat) |};
    {| mname := "S bond restriction"; mbond := None |};
    {| mname := "bond restriction"; mbond := None |};
    {| mname := "default single bond"; mbond := (Some 1%nat) |} ].
Definition expand_rules : list erule :=
  [ {| ename := "C-O Ether break"; ecompound := {| matoms := ["I"]; mbonds := [] |}; eindex := 0%nat |};
    {| ename := "C-S Thioether break"; ecompound := {| matoms := ["I"]; mbonds := [] |}; eindex := 0%nat |};
    {| ename := "C-O Ester break"; ecompound := {| matoms := ["O"]; mbonds := [] |}; eindex := 0%nat |};
    {| ename := "C-S Thioester break"; ecompound := {| matoms := ["O"]; mbonds := [] |}; eindex := 0%nat |};
    {| ename := "C-N Amide break"; ecompound := {| matoms := ["O"]; mbonds := [] |}; eindex := 0%nat |};
    {| ename := "form M-OH"; ecompound := {| matoms := ["O"]; mbonds := [] |}; eindex := 0%nat |};
    {| ename := "append O when next to O or N"; ecompound := {| matoms := ["O"]; mbonds := [] |}; eindex := 0%nat |};
    {| ename := "append O to C-C bond"; ecompound := {| matoms := ["O"]; mbonds := [] |}; eindex := 0%nat |} ].
Definition compound_rule_names : list string := ["fix_alcohol_catalyst"; "remove_water_catalyst"].
