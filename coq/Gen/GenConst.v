(* GENERATED from synrbl/rule_based.py (ban list handed to RuleConstraint, after Chem.CanonSmiles), synrbl/balancing.py (columns) by harness/gen_data.py on every run -- do not edit *)
From Coq Require Import String ZArith List.
Import ListNotations.
Open Scope string_scope.

Definition ban_atoms_canon : list string := ["[O].[O]"; "FF"; "ClCl"; "BrBr"; "II"; "ClBr"; "ClI"; "BrI"].
Definition ban_atoms_reactants : list string := [".[H]"].
Definition balancer_columns : list string := ["input_reaction"; "reaction"; "solved"; "solved_by"; "confidence"; "rules"; "issue"].
Definition mcs_condition_count : nat := 3.
