Base/Dict.vo Base/Dict.glob Base/Dict.v.beautified Base/Dict.required_vo: Base/Dict.v 
Base/Dict.vio: Base/Dict.v 
Base/Dict.vos Base/Dict.vok Base/Dict.required_vos: Base/Dict.v 
Gen/GenSymbols.vo Gen/GenSymbols.glob Gen/GenSymbols.v.beautified Gen/GenSymbols.required_vo: Gen/GenSymbols.v 
Gen/GenSymbols.vio: Gen/GenSymbols.v 
Gen/GenSymbols.vos Gen/GenSymbols.vok Gen/GenSymbols.required_vos: Gen/GenSymbols.v 
Model/Comp.vo Model/Comp.glob Model/Comp.v.beautified Model/Comp.required_vo: Model/Comp.v Base/Dict.vo
Model/Comp.vio: Model/Comp.v Base/Dict.vio
Model/Comp.vos Model/Comp.vok Model/Comp.required_vos: Model/Comp.v Base/Dict.vos
Proofs/CompProofs.vo Proofs/CompProofs.glob Proofs/CompProofs.v.beautified Proofs/CompProofs.required_vo: Proofs/CompProofs.v Base/Dict.vo Model/Comp.vo
Proofs/CompProofs.vio: Proofs/CompProofs.v Base/Dict.vio Model/Comp.vio
Proofs/CompProofs.vos Proofs/CompProofs.vok Proofs/CompProofs.required_vos: Proofs/CompProofs.v Base/Dict.vos Model/Comp.vos
Props/C07.vo Props/C07.glob Props/C07.v.beautified Props/C07.required_vo: Props/C07.v Base/Dict.vo Model/Comp.vo Proofs/CompProofs.vo Gen/GenSymbols.vo
Props/C07.vio: Props/C07.v Base/Dict.vio Model/Comp.vio Proofs/CompProofs.vio Gen/GenSymbols.vio
Props/C07.vos Props/C07.vok Props/C07.required_vos: Props/C07.v Base/Dict.vos Model/Comp.vos Proofs/CompProofs.vos Gen/GenSymbols.vos
