(* Balancer.__run_pipeline, stage by stage, on row records.  Every call into RDKit / the MCS
   machinery / xgboost is a field of the oracle record; the theorems quantify over it. *)
From Coq Require Import String ZArith List Bool Arith.
From SynRBL Require Import Base.Dict Base.Strs Base.ListX Model.Comp Model.Matcher Model.Constraint.
Import ListNotations.
Open Scope string_scope.

Record row := mkRow {
  rid : nat;                       (* int(id); preprocess numbers the surviving rows 0,1,.. *)
  rxn : string;                    (* reaction column *)
  rinput : string;                 (* input_reaction *)
  solved : bool;
  sby : option string;             (* solved_by, None = key absent *)
  issue : option string;           (* None = key absent *)
  carbon : clabel;                 (* carbon_balance_check of the last carbon-checking pass *)
  mcs : option bool;               (* None = key absent, Some false = None, Some true = search data *)
  rules : option (list string);
  conf : option Z                  (* order key of the float64 confidence *)
}.

Definition set_rxn (r : row) (s : string) : row :=
  mkRow (rid r) s (rinput r) (solved r) (sby r) (issue r) (carbon r) (mcs r) (rules r) (conf r).
Definition set_solved (r : row) (b : bool) (m : option string) : row :=
  mkRow (rid r) (rxn r) (rinput r) b m (issue r) (carbon r) (mcs r) (rules r) (conf r).
Definition set_issue (r : row) (i : option string) : row :=
  mkRow (rid r) (rxn r) (rinput r) (solved r) (sby r) i (carbon r) (mcs r) (rules r) (conf r).
Definition set_carbon (r : row) (c : clabel) : row :=
  mkRow (rid r) (rxn r) (rinput r) (solved r) (sby r) (issue r) c (mcs r) (rules r) (conf r).
Definition set_mcs (r : row) (m : option bool) (i : option string) : row :=
  mkRow (rid r) (rxn r) (rinput r) (solved r) (sby r) i (carbon r) m (rules r) (conf r).
Definition set_imputed (r : row) (s : string) (ru : list string) : row :=
  mkRow (rid r) s (rinput r) (solved r) (sby r) (issue r) (carbon r) (mcs r) (Some ru) (conf r).
Definition set_conf (r : row) (c : Z) : row :=
  mkRow (rid r) (rxn r) (rinput r) (solved r) (sby r) (issue r) (carbon r) (mcs r) (rules r) (Some c).

Inductive imp_result := ImpOk (merged : string) (rule_names : list string) | ImpFail (msg : string).

Record oracles := {
  strip : string -> string;                 (* remove_atom_mapping (modelled in Model/Aam.v) *)
  parse_ok : string -> bool;                (* both sides of the stripped reaction parse *)
  decomp : string -> dict;                  (* RSMIDecomposer.decompose of a side string *)
  ccount : string -> Z;                     (* carbon atoms of one component *)
  mcs_state : string -> bool * string;      (* MCSSearch.find on this reaction: (mcs is None, issue) *)
  impute : string -> imp_result;            (* impute_reaction on this reaction: the merged (standardised) SMILES that is
                                               appended as "{reaction}.{merged}", or the exception text *)
  pp : string -> option string;             (* PostProcess: Some c = labelled and curated to c *)
  confidence : string -> string -> Z        (* input_reaction -> reaction -> key of the score *)
}.

Record stats := mkStats {
  reaction_cnt : nat; balanced_cnt : nat; rb_applied : nat; rb_solved : nat;
  mcs_applied : nat; mcs_solved : nat; confident_cnt : nat }.

Inductive outcome (A : Type) := Done (a : A) | Raised (where_ : string).
Arguments Done {A} a. Arguments Raised {A} where_.

Definition M_INPUT := "input-balanced".
Definition M_RB := "rule-based".
Definition M_MCS := "mcs-based".
Definition FINAL_MSG := "Final reaction is unbalanced.".

Section Pipe.
Variable OR : oracles.
Variable db : list rule.          (* the database RuleBasedMethod loads *)
Variable ban : list string.       (* the canonicalised ban list *)
Variable fuel : nat.              (* solver fuel *)

Definition lhs (s : string) : string := nth 0 (split ">>" s) "".
Definition rhs (s : string) : string := nth 1 (split ">>" s) "".

(* ---- preprocess *)
Definition one_sep (s : string) : bool := Nat.eqb (length (split ">>" s)) 2.
Fixpoint number (i : nat) (l : list string) : list row :=
  match l with
  | [] => []
  | s :: t => mkRow i s s false None None CBalanced None None None :: number (S i) t
  end.
Definition preprocess (ins : list string) : outcome (list row) :=
  let ss := map (strip OR) ins in
  if negb (forallb one_sep ss) then Raised "can_parse: not exactly one '>>'"
  else match filter (parse_ok OR) ss with
       | [] => Raised "data_splitter: no parsable row left"
       | ok => Done (number 0 ok)
       end.

(* ---- Validator.check *)
Definition carbon_of (s : string) : clabel :=
  carbon_label (sumZ (map (ccount OR) (comps (lhs s)))) (sumZ (map (ccount OR) (comps (rhs s)))).
Definition is_cbal (c : clabel) : bool := match c with CBalanced => true | _ => false end.
Definition validate (method : string) (check_carbon override : bool) (msg : option string) (r : row) : row :=
  let b := compare_dicts (decomp OR (lhs (rxn r))) (decomp OR (rhs (rxn r))) in
  let r1 := if check_carbon then set_carbon r (carbon_of (rxn r)) else r in
  let r2 := if verdict_eqb b Balance && is_cbal (carbon r1) && negb (solved r1)
            then set_solved r1 true (Some method) else r1 in
  if override && negb (solved r2) then
    let r3 := set_rxn r2 (rinput r2) in
    match msg, issue r3 with
    | Some m, Some i => if String.eqb i "" then set_issue r3 (Some m) else r3
    | _, _ => r3
    end
  else r2.

(* ---- RuleBasedMethod.run, per row *)
(* classification + the in-place water step; returns the (possibly extended) reaction, the
   products string handed on, the verdict and the difference formula *)
Definition rb_classify (r : row) : string * string * verdict * dict :=
  let l := lhs (rxn r) in let p := rhs (rxn r) in
  let '(d, v) := classify (decomp OR l) (decomp OR p) in
  match v with
  | Both =>
    match get d "O" with
    | None => (rxn r, p, v, d)
    | Some w =>
      let add := repeat_str ".O" (Z.to_nat w) in
      let d1 := del d "O" in
      let h := (getd d1 "H" - 2 * w)%Z in
      if (h >=? 0)%Z then (rxn r ++ add, p ++ add, Products, set d1 "H" h)
      else (rxn r ++ add, p ++ add, Reactants, set d1 "H" (- h)%Z)
    end
  | _ => (rxn r, p, v, d)
  end.
Definition is_rp (v : verdict) : bool := match v with Products | Reactants => true | _ => false end.
(* Some new_reaction when the row ends up in certain_reactions *)
Definition rb_solve (r : row) : option string :=
  let '(rx, p, v, d) := rb_classify r in
  if is_cbal (carbon r) && is_rp v then
    match single_impute fuel db d (match v with Products => true | _ => false end) (lhs (rxn r)) p with
    | Some (Some (r1, p1)) =>
      match constraint_fit ban r1 p1 with
      | Some (r2, p2) => Some (r2 ++ ">>" ++ p2)
      | None => None
      end
    | _ => None
    end
  else None.
Definition rb_water (r : row) : row := let '(rx, _, _, _) := rb_classify r in set_rxn r rx.

Fixpoint upd_nth {A} (n : nat) (f : A -> A) (l : list A) : list A :=
  match l with
  | [] => []
  | x :: t => match n with O => f x :: t | S k => x :: upd_nth k f t end
  end.
(* certain reactions are written back through int(id) *)
Definition certain (rows : list row) : list (nat * string) :=
  flat_map (fun r => match rb_solve r with Some s => [(rid r, s)] | None => [] end) rows.
Definition write_back (rows : list row) (cs : list (nat * string)) : list row :=
  fold_left (fun rs c => upd_nth (fst c) (fun r => set_rxn r (snd c)) rs) cs rows.
Definition rule_based (rows : list row) : list row :=
  write_back (map rb_water rows) (certain rows).

Definition count_if {A} (f : A -> bool) (l : list A) : nat := length (filter f l).
Definition rb_verdict (r : row) : verdict := let '(_, _, v, _) := rb_classify r in v.
Definition rb_balanced_cnt (rows : list row) : nat :=
  count_if (fun r => is_cbal (carbon r) && verdict_eqb (rb_verdict r) Balance) rows.
Definition rb_applied_cnt (rows : list row) : nat :=
  count_if (fun r => is_cbal (carbon r) && is_rp (rb_verdict r)) rows.
Definition rb_solved_cnt (rows : list row) : nat := length (certain rows).

(* ---- MCSSearch.find and MCSBasedMethod.run *)
Definition mcs_find (r : row) : row :=
  if solved r then r
  else let '(none, iss) := mcs_state OR (rxn r) in set_mcs r (Some (negb none)) (Some iss).
Definition mcs_impute (r : row) : row :=
  match mcs r with
  | Some true =>
    match impute OR (rxn r) with
    | ImpOk s ru => set_imputed r (rxn r ++ "." ++ s) ru
    | ImpFail m => set_issue r (Some m)
    end
  | _ => r
  end.
Definition has_mcs_key (r : row) : bool := match mcs r with Some _ => true | None => false end.
Definition mcs_solved_one (r : row) : bool :=
  match mcs r with
  | Some true => match impute OR (rxn r) with ImpOk _ _ => true | ImpFail _ => false end
  | _ => false
  end.

(* ---- post processing of the reagent templates *)
Definition post_process (r : row) : row :=
  match sby r with
  | Some m => if String.eqb m M_INPUT then r
              else match pp OR (rxn r) with Some c => set_rxn r c | None => r end
  | None => r
  end.

(* ---- Balancer.__restore_unbalanced: a row whose validated reaction a reagent template replaced falls back
   to that reaction unless the reaction it carries after the second rule-based run is found balanced *)
Definition pp_fires (r : row) : bool :=
  match sby r with
  | Some m => negb (String.eqb m M_INPUT) && match pp OR (rxn r) with Some _ => true | None => false end
  | None => false
  end.
Definition balanced_rxn (s : string) : bool :=
  Nat.eqb (length (split ">>" s)) 2 && verdict_eqb (compare_dicts (decomp OR (lhs s)) (decomp OR (rhs s))) Balance.
Definition restore (before after : row) : row :=
  if pp_fires before && negb (balanced_rxn (rxn after)) then set_rxn after (rxn before) else after.
Fixpoint map2 {A B C} (f : A -> B -> C) (l : list A) (m : list B) : list C :=
  match l, m with x :: l', y :: m' => f x y :: map2 f l' m' | _, _ => [] end.

(* ---- ConfidencePredictor.predict with threshold key t *)
Definition is_mcs_row (r : row) : bool :=
  match sby r with Some m => String.eqb m M_MCS | None => false end.
Definition conf_one (t : Z) (tmsg : string) (r : row) : outcome row :=
  if is_mcs_row r then
    let c := confidence OR (rinput r) (rxn r) in
    let r1 := set_conf r c in
    if (c >=? t)%Z then Done r1
    else match issue r1 with
         | Some "" => Done (set_issue (set_solved r1 false (sby r1)) (Some tmsg))
         | _ => Raised "assert: issue column has value for a solved reaction"
         end
  else Done r.
Fixpoint all_done {A} (l : list (outcome A)) : outcome (list A) :=
  match l with
  | [] => Done []
  | Raised w :: _ => Raised w
  | Done a :: t => match all_done t with Done t' => Done (a :: t') | Raised w => Raised w end
  end.
Definition conf_success (t : Z) (r : row) : bool :=
  is_mcs_row r && (confidence OR (rinput r) (rxn r) >=? t)%Z.

(* ---- the pipeline *)
Definition stages_before_conf (rows0 : list row) : list row * stats :=
  let r1 := map (validate M_INPUT true false None) rows0 in
  let r2 := rule_based r1 in
  let r3 := map (validate M_RB false true None) r2 in
  let r4 := map mcs_find r3 in
  let r5 := map mcs_impute r4 in
  let r6 := map (validate M_MCS true false None) r5 in
  let r7 := map post_process r6 in
  let r8 := map2 restore r6 (rule_based r7) in
  let r9 := map (validate M_MCS true true (Some FINAL_MSG)) r8 in
  (r9, mkStats 0 (rb_balanced_cnt r1) (rb_applied_cnt r1) (rb_solved_cnt r1)
               (count_if has_mcs_key r4) (count_if mcs_solved_one r4) 0).

Definition run (t : Z) (tmsg : string) (ins : list string) : outcome (list row * stats) :=
  match preprocess ins with
  | Raised w => Raised w
  | Done rows0 =>
    let '(r9, st) := stages_before_conf rows0 in
    match all_done (map (conf_one t tmsg) r9) with
    | Raised w => Raised w
    | Done r10 =>
      Done (r10, mkStats (length ins) (balanced_cnt st) (rb_applied st) (rb_solved st)
                         (mcs_applied st) (mcs_solved st) (count_if (conf_success t) r9))
    end
  end.
End Pipe.
