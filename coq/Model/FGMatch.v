(* synrbl.SynUtils.functional_group_utils: pattern_match (the recursive matcher _fits with
   get_mapping_permutations) and check_functional_group, on labelled graphs.  A molecule or pattern is
   given by its atom symbols, its neighbour lists (in RDKit's order) and its bond types (RDKit's
   BondType as a number).  Only the boolean answers are modelled (the functional-group rules use only
   those). *)
From Coq Require Import String List Bool Arith.
Import ListNotations.
Open Scope string_scope.

Record graph := { size : nat; sym : nat -> string; nbrs : nat -> list nat; bond : nat -> nat -> nat }.

Definition memn (x : nat) (l : list nat) : bool := existsb (Nat.eqb x) l.
Fixpoint remove1 (x : nat) (l : list nat) : list nat :=
  match l with [] => [] | y :: t => if Nat.eqb x y then t else y :: remove1 x t end.

(* get_mapping_permutations + the loop over the mappings, as far as the boolean goes: is there an
   injective assignment of the pattern neighbours pn to available molecule neighbours such that ok holds? *)
Fixpoint assign (ok : nat -> nat -> bool) (pn avail : list nat) : bool :=
  match pn with
  | [] => true
  | p :: ps => existsb (fun x => ok p x && assign ok ps (remove1 x avail)) avail
  end.

Section Match.
Variables G P : graph.          (* molecule, pattern *)

Fixpoint fits (fuel : nat) (a pa : nat) (va vp : list nat) : bool :=
  match fuel with
  | O => false
  | S f =>
    let va' := a :: va in
    let vp' := pa :: vp in
    let an := filter (fun x => negb (memn x va')) (nbrs G a) in
    let pn := filter (fun x => negb (memn x vp')) (nbrs P pa) in
    String.eqb (sym G a) (sym P pa) &&
    match pn with
    | [] => true
    | _ => Nat.leb (length pn) (length an) &&
           assign (fun p x => String.eqb (sym P p) (sym G x) && Nat.eqb (bond G a x) (bond P pa p) && fits f x p va' vp') pn an
    end
  end.

(* pattern_match(mol, anchor, pattern_mol): any pattern atom may sit on the anchor *)
Definition pattern_match (anchor : nat) : bool :=
  existsb (fun pa => fits (S (size P)) anchor pa [] []) (seq 0 (size P)).
End Match.

(* FGConfig: patterns with their group sub-patterns, anti-patterns (already sorted by size, descending) *)
Record fgconfig := { fg_patterns : list (graph * graph); fg_anti : list graph }.
Definition check_functional_group (G : graph) (c : fgconfig) (index : nat) : bool :=
  existsb (fun pg => pattern_match G (fst pg) index && pattern_match G (snd pg) index) (fg_patterns c) &&
  negb (existsb (fun ap => pattern_match G ap index) (fg_anti c)).

(* graphs as finite tables (what the translator and the harness write) *)
Fixpoint nth_def {A} (l : list A) (n : nat) (d : A) : A := match l, n with [], _ => d | x :: _, O => x | _ :: t, S k => nth_def t k d end.
Fixpoint lookb (l : list (nat * nat * nat)) (a b : nat) : nat :=
  match l with [] => 0 | (x, y, t) :: r => if (Nat.eqb a x && Nat.eqb b y) || (Nat.eqb a y && Nat.eqb b x) then t else lookb r a b end.
Definition mkgraph (syms : list string) (nb : list (list nat)) (bonds : list (nat * nat * nat)) : graph :=
  {| size := length syms; sym := fun i => nth_def syms i "?"; nbrs := fun i => nth_def nb i []; bond := lookb bonds |}.

(* ---- the reference notion the property speaks of: a real occurrence of the pattern containing the anchor =
   an INJECTIVE map of the pattern's atoms into the molecule's atoms that preserves symbols and maps every
   pattern bond onto a molecule bond of the same type, with the anchor in its image.  Executable (backtracking
   over the pattern atoms in index order); used as the specification in the refutation theorems. *)
Section Reference.
Variables G P : graph.
Definition compatible (m : list (nat * nat)) (p x : nat) : bool :=
  String.eqb (sym P p) (sym G x) && negb (existsb (fun q => Nat.eqb (snd q) x) m) &&
  forallb (fun q => let b := bond P p (fst q) in Nat.eqb b 0 || Nat.eqb b (bond G x (snd q))) m.
Fixpoint embed (todo : list nat) (m : list (nat * nat)) (anchor : nat) : bool :=
  match todo with
  | [] => existsb (fun q => Nat.eqb (snd q) anchor) m
  | p :: ps => existsb (fun x => compatible m p x && embed ps ((p, x) :: m) anchor) (seq 0 (size G))
  end.
Definition occurs_at (anchor : nat) : bool := embed (seq 0 (size P)) [] anchor.
End Reference.
