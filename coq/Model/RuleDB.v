(* RuleImputeManager: add_entry / add_entries / remove_entry on the compound database. *)
From Coq Require Import String ZArith List Bool.
From SynRBL Require Import Base.Dict Model.Comp.
Import ListNotations.
Open Scope string_scope. Open Scope Z_scope.

Record entry := { eformula : string; esmiles : string; ecomp : dict }.

Section RuleDB.
(* oracle: RDKit's parse of a SMILES -- atoms after AddHs and net charge, None = invalid *)
Variable atoms : string -> option (list Z * Z).
Variable tbl : list (Z * string).

Definition with_q (d : dict) : dict := if mem d "Q" then d else set d "Q" 0.
Definition comp_of (s : string) : dict :=
  match atoms s with Some (zs, q) => with_q (decompose tbl zs q) | None => with_q [] end.
Definition valid (s : string) : bool := match atoms s with Some _ => true | None => false end.

(* add_entry: None = ValueError (nothing changed) *)
Definition add_entry (db : list entry) (f s : string) : option (list entry) :=
  if existsb (fun d => String.eqb (eformula d) f) db then None
  else if existsb (fun d => String.eqb (esmiles d) s) db then None
  else if negb (valid s) then None
  else Some (db ++ [{| eformula := f; esmiles := s; ecomp := comp_of s |}])%list.

(* add_entries: returns the database and the rejected entries, in order *)
Fixpoint add_entries (db : list entry) (es : list (string * string)) : list entry * list (string * string) :=
  match es with
  | [] => (db, [])
  | (f, s) :: t =>
    match add_entry db f s with
    | Some db' => add_entries db' t
    | None => let '(db', rej) := add_entries db t in (db', (f, s) :: rej)
    end
  end.

(* remove_entry: the first record with that formula *)
Fixpoint remove_entry (db : list entry) (f : string) : list entry :=
  match db with
  | [] => []
  | d :: t => if String.eqb (eformula d) f then t else d :: remove_entry t f
  end.

Inductive op := Add (f s : string) | AddMany (es : list (string * string)) | Remove (f : string).
Definition step (db : list entry) (o : op) : list entry :=
  match o with
  | Add f s => match add_entry db f s with Some db' => db' | None => db end
  | AddMany es => fst (add_entries db es)
  | Remove f => remove_entry db f
  end.
End RuleDB.
