(* SyntheticRuleMatcher (select="all", ranking="ion_priority") and SyntheticRuleImputer.single_impute. *)
From Coq Require Import String ZArith List Bool.
From SynRBL Require Import Base.Dict Base.Strs Base.ListX.
Import ListNotations.
Open Scope string_scope. Open Scope Z_scope.

(* a database record; rabsq = sum over atoms of |formal charge| (what calculate_net_charge
   computes from the SMILES with RDKit; an oracle column written by the translator) *)
Record rule := { rformula : string; rsmiles : string; rcomp : dict; rabsq : Z }.

Definition path := list (rule * Z).

(* __init__: rules sorted by composition size (stable, descending); data gets an explicit
   charge entry and loses its other zero entries *)
Definition sort_rules (rs : list rule) : list rule :=
  sort_desc (fun r => Z.of_nat (length (rcomp r))) rs.
Definition init_data (d : dict) : dict :=
  let d1 := if mem d "Q" then d else set d "Q" 0 in
  filter (fun kv => negb (snd kv =? 0) || String.eqb (fst kv) "Q") d1.

Definition can_match (c data : dict) : bool :=
  forallb (fun kv =>
    if String.eqb (fst kv) "Q" then true
    else match get data (fst kv) with Some x => x >=? snd kv | None => false end) c.

(* the generator expression inside min(...) *)
Fixpoint ratios (c data : dict) : list Z :=
  match c with
  | [] => []
  | (k, v) :: t =>
    if String.eqb k "Q" then ratios t data
    else (if v =? 0 then 0 else getd data k / v) :: ratios t data
  end.

Definition sub1 (nd : dict) (k : string) (v ratio : Z) : dict :=
  match get nd k with
  | Some x => let y := x - v * ratio in
              if (y =? 0) && negb (String.eqb k "Q") then del nd k else set nd k y
  | None => nd
  end.
Definition subtract (c data : dict) (ratio : Z) : dict :=
  fold_left (fun nd kv => sub1 nd (fst kv) (snd kv) ratio) c data.

Inductive applied := NotApplicable | MinOfEmpty | Applied (nd : dict) (ratio : Z).
Definition apply_rule (data : dict) (r : rule) : applied :=
  if can_match (rcomp r) data then
    match ratios (rcomp r) data with
    | [] => MinOfEmpty                       (* Python: ValueError, min() of an empty sequence *)
    | x :: t => let ratio := Z.abs (zmin_list x t) in Applied (subtract (rcomp r) data ratio) ratio
    end
  else NotApplicable.

Definition exit_py (d : dict) : bool := Nat.eqb (length d) 1 && (getd d "Q" =? 0).

(* all solutions in Python's order; None = fuel exhausted (Python: RecursionError) or min([]) *)
Fixpoint dfs (fuel : nat) (rules : list rule) (data : dict) (p : path) : option (list path) :=
  match fuel with
  | O => None
  | S f =>
    if exit_py data then Some [p]
    else concat_opt (map (fun r =>
           match apply_rule data r with
           | NotApplicable => Some []
           | MinOfEmpty => None
           | Applied nd ratio => dfs f rules nd (p ++ [(r, ratio)])%list
           end) rules)
  end.

(* remove_overlapping_solutions: same frozenset of (smiles, ratio) pairs *)
Definition item_eqb (a b : rule * Z) : bool :=
  String.eqb (rsmiles (fst a)) (rsmiles (fst b)) && (snd a =? snd b).
Definition subset_items (a b : path) : bool := forallb (fun x => existsb (item_eqb x) b) a.
Definition same_solution (a b : path) : bool := subset_items a b && subset_items b a.
Definition remove_overlapping (sols : list path) : list path := dedup_by same_solution [] sols.

Definition shortest (sols : list path) : list path :=
  match sols with
  | [] => []
  | s :: t =>
    let m := fold_left (fun a x => Nat.min a (length x)) t (length s) in
    filter (fun x => Nat.eqb (length x) m) sols
  end.
Definition ion_key (s : path) : Z := fold_left (fun a it => a + rabsq (fst it) * snd it) s 0.
Definition rank_ion (sols : list path) : list path := sort_desc ion_key (shortest sols).

Definition match_all (fuel : nat) (db : list rule) (diff : dict) : option (list path) :=
  match dfs fuel (sort_rules db) (init_data diff) [] with
  | None => None
  | Some sols => Some (rank_ion (remove_overlapping sols))
  end.

(* get_and_validate_smiles: ".".join of every smiles repeated Ratio times *)
Definition solution_parts (s : path) : list string :=
  flat_map (fun it => repeat (rsmiles (fst it)) (Z.to_nat (snd it))) s.
Definition solution_smiles (s : path) : string := join "." (solution_parts s).

(* SyntheticRuleImputer.single_impute on the two side strings: None = abnormal termination,
   Some None = no new_reaction key, Some (Some (r, p)) = the extended sides.
   (The RDKit validity test of the joined SMILES is an oracle that the correspondence
   check observes to be always true for database compounds.) *)
Definition single_impute (fuel : nat) (db : list rule) (diff : dict) (to_products : bool)
    (r p : string) : option (option (string * string)) :=
  match match_all fuel db diff with
  | None => None
  | Some [] => Some None
  | Some (s :: _) =>
    match s with
    | [] => Some None
    | _ => let smi := solution_smiles s in
           Some (Some (if to_products then (r, p ++ "." ++ smi) else (r ++ "." ++ smi, p)))
    end
  end.

(* what the correspondence compares: the rendered ranked list *)
Definition render_path (s : path) : list (string * Z) := map (fun it => (rsmiles (fst it), snd it)) s.
