(* synrbl.SynMCSImputer.mcs_based_method.impute_reaction: its control flow.  What build_compounds + merge return
   (or raise), what the SMILES standardizer returns (or raises) and whether the imputed reaction is carbon
   balanced are oracles; the order of the checks and the messages are modelled.  This refines the black-box
   `impute` oracle of Model/Pipeline.v: an oracle record whose `impute` field has this form satisfies, by
   construction, the two facts about impute_reaction that C03 needs (it fails unless the search left an empty
   issue; it refuses reactant-side carbon imbalance). *)
From Coq Require Import String ZArith List Bool.
From SynRBL Require Import Base.Dict Base.Strs Model.Comp Model.Pipeline.
Import ListNotations.
Open Scope string_scope.

Inductive outcome2 (A : Type) := Ok2 (a : A) | Fail2 (msg : string).
Arguments Ok2 {A} a. Arguments Fail2 {A} msg.

Definition NL : string := String (Ascii.ascii_of_nat 10) "".
Definition MSG_PREV : string := "Skip reaction because of previous issue." ++ NL.
Definition MSG_DEFICIT : string := "Skipped because of reactants imbalance.".
Definition MSG_CARBON : string := "Failed to impute the correct structure. Carbon atom count in reactants and products does not match.".

Record impute_oracles := {
  merged_raw : string -> outcome2 (string * list string);   (* build_compounds + "Empty compound set." + merge: (SMILES, rule names) or the exception text *)
  standardized : string -> outcome2 string;                 (* the SMILES standardizers applied to the merged SMILES *)
  carbon_balanced_after : string -> bool                    (* is_carbon_balanced of the imputed reaction *)
}.

Definition is_deficit (c : clabel) : bool := match c with CReactants => true | _ => false end.

Definition impute_reaction (I : impute_oracles) (issue : string) (carbon : clabel) (rxn : string) : imp_result :=
  if negb (String.eqb issue "") then ImpFail (MSG_PREV ++ issue)
  else match merged_raw I rxn with
       | Fail2 m => ImpFail m
       | Ok2 (raw, rules) =>
         if is_deficit carbon then ImpFail MSG_DEFICIT
         else match standardized I raw with
              | Fail2 m => ImpFail m
              | Ok2 merged => if carbon_balanced_after I (rxn ++ "." ++ merged) then ImpOk merged rules else ImpFail MSG_CARBON
              end
       end.

(* the pipeline oracle record with its impute field computed by impute_reaction *)
Definition refine (O : oracles) (I : impute_oracles) : oracles :=
  {| strip := strip O; parse_ok := parse_ok O; decomp := decomp O; ccount := ccount O; mcs_state := mcs_state O;
     impute := fun s => impute_reaction I (snd (mcs_state O s)) (carbon_of O s) s;
     pp := pp O; confidence := confidence O |}.
