(* Oracle records built from finite answer tables: how recorded answers of a real run (and the
   witnesses of the refutation theorems) are turned into the oracle argument of Model/Pipeline.run. *)
From Coq Require Import String ZArith List Bool.
From SynRBL Require Import Base.Dict Base.Strs Model.Pipeline.
Import ListNotations.
Open Scope string_scope. Open Scope Z_scope.

Fixpoint look {A} (l : list (string * A)) (dflt : A) (s : string) : A :=
  match l with [] => dflt | (k, v) :: t => if String.eqb s k then v else look t dflt s end.
Fixpoint look2 {A} (l : list (string * string * A)) (dflt : A) (a b : string) : A :=
  match l with [] => dflt | (k1, k2, v) :: t => if String.eqb a k1 && String.eqb b k2 then v else look2 t dflt a b end.
Definition mk (st : list (string * string)) (pa : list (string * bool)) (de : list (string * dict)) (cc : list (string * Z))
   (ms : list (string * (bool * string))) (im : list (string * imp_result)) (pq : list (string * option string))
   (cf : list (string * string * Z)) : oracles :=
  {| strip := fun s => look st s s; parse_ok := look pa false; decomp := look de []; ccount := look cc 0;
     mcs_state := look ms (true, "ORACLE-MISSING"); impute := look im (ImpFail "ORACLE-MISSING"); pp := look pq None;
     confidence := look2 cf (-1) |}.
