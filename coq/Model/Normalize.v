(* synrbl.SynUtils.chem_utils: normalize_smiles and wc_similarity (the benchmark's comparison).
   The leaf normalisation of one molecule (remove_stereo_chemistry, remove_atom_mapping, RDKit
   canonical SMILES) is the oracle `ntok`; fingerprints/similarities are the oracle `fp` (values are
   order-preserving integer keys of the float64 results).  Strings are ASCII (canonical SMILES). *)
From Coq Require Import String Ascii List Bool Arith NArith ZArith.
From SynRBL Require Import Base.Strs.
Import ListNotations.
Open Scope string_scope.

(* count_atoms: len(re.findall("(B|C|N|O|P|S|F|Cl|Br|I|c|n|o)", s)).  "C" precedes "Cl" and "B"
   precedes "Br" in the alternation, so every match is a single character of this set. *)
Definition atom_chars : string := "BCNOPSFIcno".
Fixpoint in_str (c : ascii) (s : string) : bool :=
  match s with EmptyString => false | String d t => Ascii.eqb c d || in_str c t end.
Fixpoint count_atoms (s : string) : nat :=
  match s with EmptyString => 0 | String c t => (if in_str c atom_chars then 1 else 0) + count_atoms t end.
Fixpoint sum_ord (s : string) : N :=
  match s with EmptyString => 0%N | String c t => (N_of_ascii c + sum_ord t)%N end.

(* the sort key (count_atoms(x), sum(ord(c) for c in x), x), compared as Python compares tuples *)
Definition kge (x y : string) : bool :=
  match Nat.compare (count_atoms x) (count_atoms y) with
  | Gt => true | Lt => false
  | Eq => match N.compare (sum_ord x) (sum_ord y) with
          | Gt => true | Lt => false
          | Eq => String.leb y x
          end
  end.

(* list.sort(key=..., reverse=True): stable, descending *)
Section Sort.
Context {A : Type} (ge : A -> A -> bool).
Fixpoint insertg (x : A) (l : list A) : list A :=
  match l with
  | [] => [x]
  | y :: t => if ge y x then y :: insertg x t else x :: y :: t
  end.
Definition sortg (l : list A) : list A := fold_left (fun acc x => insertg x acc) l [].
End Sort.

Fixpoint tailstr (l : list string) : string :=
  match l with [] => "" | c :: t => String "."%char (c ++ tailstr t) end.
Definition dotjoin (l : list string) : string := match l with [] => "" | c :: t => c ++ tailstr t end.

Section Norm.
Variable ntok : string -> string.

Definition normalize_side (s : string) : string := dotjoin (sortg kge (map ntok (comps s))).
Definition normalize (s : string) : string := join ">>" (map normalize_side (split ">>" s)).

(* wc_similarity *)
Variable fp : string -> string -> Z.      (* similarity of the two molecule sets written as dot-joined SMILES ("" = empty molecule) *)
Variable ONE : Z.
Definition diff_pairs (l1 l2 : list string) : list (string * string) :=
  filter (fun p => negb (String.eqb (fst p) (snd p))) (combine l1 l2).
Definition diff_fp (s1 s2 : string) : Z :=
  let d := diff_pairs (comps (normalize s1)) (comps (normalize s2)) in
  fp (join "." (map fst d)) (join "." (map snd d)).
(* None = ValueError (a normal form without exactly one ">>") *)
Definition wc_similarity (e r : string) : option Z :=
  let ne := normalize e in let nr := normalize r in
  if String.eqb ne nr then Some ONE
  else match split ">>" ne, split ">>" nr with
       | [ee; ep], [re; rp] => Some (Z.min (diff_fp ee re) (diff_fp ep rp))
       | _, _ => None
       end.
End Norm.
