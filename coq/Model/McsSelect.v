(* The MCS stage's bookkeeping: one search job per (reaction, condition) with any outcome, the
   per-reaction selection of the largest result (ExtractMCS.get_largest_condition), the fragment
   analysis job, and MCSSearch.find's attachment of results to rows by id.  What a search finds is an
   oracle: a job outcome carries only the atom counts of its patterns (what the selection looks at). *)
From Coq Require Import String List Bool Arith.
Import ListNotations.
Open Scope string_scope.

Inductive job :=
| JOk (pattern_atoms : list nat) (nsorted : nat)    (* mcs_results (atoms per SMARTS), number of sorted reactants *)
| JUncertain                                          (* len(reactant_mol_list) != len(sorted_reactants) *)
| JFailed (msg : string)                              (* exception inside the analyzer *)
| JTimeout.                                           (* the 2 s thread wait expired *)

Record mcsdata := { mid : nat; mcond : nat; mres : list nat; msorted : nat; missue : string }.
Definition job_data (id cond : nat) (j : job) : mcsdata :=
  match j with
  | JOk ps n => {| mid := id; mcond := cond; mres := ps; msorted := n; missue := "" |}
  | JUncertain => {| mid := id; mcond := cond; mres := []; msorted := 0; missue := "Uncertian MCS." |}
  | JFailed m => {| mid := id; mcond := cond; mres := []; msorted := 0; missue := "MCS identification failed. " ++ m |}
  | JTimeout => {| mid := id; mcond := cond; mres := []; msorted := 0; missue := "MCS search terminated by timeout." |}
  end.

Definition total (d : mcsdata) : nat := fold_left Nat.add (mres d) 0.
Definition first_atoms (d : mcsdata) : nat := match mres d with [] => 0 | a :: _ => a end.

(* ---- get_largest_condition at one index: the entries of the conditions that have this index, in condition order *)
(* first pass: (max so far, tied entries in order) *)
Definition pass1 (col : list mcsdata) : nat * list mcsdata :=
  fold_left (fun st d => let '(mx, tied) := st in
                         if Nat.ltb mx (total d) then (total d, [d])
                         else if Nat.eqb (total d) mx then (mx, (tied ++ [d])%list) else (mx, tied)) col (0, []).
(* second pass over the tied entries: strictly larger first pattern wins, first such entry kept *)
Definition pass2 (tied : list mcsdata) : option mcsdata :=
  snd (fold_left (fun st d => let '(mx, w) := st in
                              if Nat.ltb mx (first_atoms d) then (first_atoms d, Some d) else (mx, w)) tied (0, None)).
Definition select (col : list mcsdata) : option mcsdata :=
  match snd (pass1 col) with
  | [] => None
  | [d] => Some d
  | tied => pass2 tied
  end.

Fixpoint nth_opt {A} (l : list A) (n : nat) : option A :=
  match l, n with [], _ => None | x :: _, O => Some x | _ :: t, S k => nth_opt t k end.
Definition column (conds : list (list mcsdata)) (idx : nat) : list mcsdata :=
  flat_map (fun c => match nth_opt c idx with Some d => [d] | None => [] end) conds.
Definition min_length (conds : list (list mcsdata)) : nat :=
  match conds with [] => 0 | c :: t => fold_left (fun m x => Nat.min m (length x)) t (length c) end.
Definition get_largest_condition (conds : list (list mcsdata)) : list mcsdata :=
  flat_map (fun idx => match select (column conds idx) with Some d => [d] | None => [] end) (seq 0 (min_length conds)).

(* ---- MCSSearch.find *)
Record srow := { sid : nat; ssolved : bool; smcs : option (option mcsdata); sissue : option string }.
(* smcs: None = key absent, Some None = None, Some (Some d) = search data *)
Definition seed (r : srow) : srow :=
  if ssolved r then r else {| sid := sid r; ssolved := false; smcs := Some None; sissue := Some "No MCS identified." |}.
Fixpoint attach_at (rows : list srow) (idx : nat) (d : mcsdata) : list srow :=
  match rows, idx with
  | [], _ => []
  | r :: t, O => {| sid := sid r; ssolved := ssolved r; smcs := Some (Some d); sissue := Some (missue d) |} :: t
  | r :: t, S k => r :: attach_at t k d
  end.
(* id2idx_map: the LAST unsolved row with that id *)
Fixpoint id2idx (rows : list srow) (i : nat) (id : nat) : option nat :=
  match rows with
  | [] => None
  | r :: t => match id2idx t (S i) id with
              | Some k => Some k
              | None => if negb (ssolved r) && Nat.eqb (sid r) id then Some i else None
              end
  end.
Section Find.
Variable nconds : nat.
Variable f : nat -> nat -> job.            (* outcome of the search job (reaction id, condition index) *)
Definition conditions (rows : list srow) : list (list mcsdata) :=
  map (fun c => map (fun r => job_data (sid r) c (f (sid r) c)) (filter (fun r => negb (ssolved r)) rows)) (seq 0 nconds).
Definition find (rows : list srow) : list srow :=
  let seeded := map seed rows in
  if Nat.eqb (length (filter (fun r => negb (ssolved r)) rows)) 0 then seeded
  else fold_left (fun rs d => match id2idx rows 0 (mid d) with Some k => attach_at rs k d | None => rs end)
                 (get_largest_condition (conditions rows)) seeded.

(* the same stage, one row at a time *)
Definition find_row (r : srow) : srow :=
  if ssolved r then r
  else match select (map (fun c => job_data (sid r) c (f (sid r) c)) (seq 0 nconds)) with
       | Some d => {| sid := sid r; ssolved := false; smcs := Some (Some d); sissue := Some (missue d) |}
       | None => seed r
       end.
End Find.
