(* RuleConstraint: the string-level redox rewrite and the ban filters, as written in
   synthetic_rule_constraint.py (substring tests and str.replace on the dot-joined side
   strings -- deliberately not on component lists: that is what the code does). *)
From Coq Require Import String List Bool Arith.
From SynRBL Require Import Base.Strs.
Import ListNotations.
Open Scope string_scope.

Definition no_constraint : list string := ["[Na]"; "[K]"; "[Li]"; "[H-]"].

Definition after (products : string) (unit extra : string) (n : nat) : string :=
  if String.eqb products "" then repeat_str unit n else products ++ repeat_str extra n.

(* reduction_oxidation_rules_modify on one entry: (reactants, products) -> (reactants, products) *)
Definition modify_h (r p : string) : string * string :=
  if contains ".[H]" p then
    let rs := map strip_colon_digits (comps r) in
    if existsb (fun x => mem_str x no_constraint) rs then (r, p)
    else if Nat.even (count_eq "[H]" (comps p)) then
      let hc := Nat.div2 (count ".[H]" p) in
      let p1 := replace ".[H]" "" p in
      (r ++ repeat_str ".[O]" hc, after p1 "O" ".O" hc)
    else (r, p)
  else (r, p).
Definition modify_o (r p : string) : string * string :=
  if contains ".[O]" p then
    if Nat.even (count_eq "[O]" (comps p)) then (r, p)
    else
      let oc := count ".[O]" p in
      let p1 := replace ".[O]" "" p in
      (r ++ repeat_str ".[H].[H]" oc, after p1 "O" ".O" oc)
  else if contains ".OO" p then
    (* every removed peroxide is compensated (repaired in /repo: the pinned code compensated for one only) *)
    let n := count ".OO" p in
    let p1 := replace ".OO" "" p in
    (r ++ repeat_str ".[H].[H]" n, if String.eqb p1 "" then "O" ++ repeat_str ".O" (2 * n - 1) else p1 ++ repeat_str ".O" (2 * n))
  else (r, p).
Definition modify (r p : string) : string * string :=
  let '(r1, p1) := modify_h r p in modify_o r1 p1.

(* remove_banned_reactions *)
Definition banned (ban : list string) (p : string) : bool := existsb (fun b => contains b p) ban.
Definition reactants_ok (r : string) : bool := Nat.even (count ".[H]" r).
Definition accepts (ban : list string) (r p : string) : bool :=
  negb (banned ban p) && reactants_ok r.

(* fit on one entry: Some new_reaction when certain *)
Definition constraint_fit (ban : list string) (r p : string) : option (string * string) :=
  let '(r1, p1) := modify r p in
  if accepts ban r1 p1 then Some (r1, p1) else None.
