(* synrbl.SynChemImputer.molecule_standardizer.MoleculeStandardizer.
   Chemistry is an oracle (fgutils' functional-group query, RDKit's bond edits + sanitisation + canonical
   SMILES); modelled here: the control flow of __call__ (the group list is computed ONCE and iterated
   while the SMILES -- and with it the atom numbering -- is rewritten; step functions return either a SMILES
   or an error MESSAGE, both plain strings, and the message is fed on as if it were a SMILES) and the
   index logic by which the two step functions pick their atoms. *)
From Coq Require Import String List Bool Arith.
Import ListNotations.
Open Scope string_scope.

(* ---- atom picking.  sym = element symbol of an atom of the current molecule, bonded = adjacency *)
Section Pick.
Variable sym : nat -> string.
Variable bonded : nat -> nat -> bool.

(* standardize_enol: o = the last oxygen of the list; among the others, c2 = the last one bonded to o
   (repaired code; the pinned code took "index differs from o's by exactly 1"), c1 = the last other one *)
Definition last_such (f : nat -> bool) (l : list nat) : option nat :=
  fold_left (fun acc i => if f i then Some i else acc) l None.
Definition is_o (i : nat) : bool := String.eqb (sym i) "O".
Definition enol_pick (idxs : list nat) : option (nat * nat * nat) :=
  match last_such is_o idxs with
  | None => None                       (* Python: abs(i - None) raises TypeError -- also no result *)
  | Some o =>
    let rest := filter (fun i => negb (is_o i)) idxs in
    match last_such (fun i => bonded i o) rest, last_such (fun i => negb (bonded i o)) rest with
    | Some c2, Some c1 => Some (c1, c2, o)
    | _, _ => None                     (* "Invalid atom indices provided." *)
    end
  end.
(* the pinned tree's choice, kept for the refutation *)
Definition adjacent_index (i o : nat) : bool := Nat.eqb (i - o) 1 || Nat.eqb (o - i) 1.
Definition enol_pick_old (idxs : list nat) : option (nat * nat * nat) :=
  match last_such is_o idxs with
  | None => None
  | Some o =>
    let rest := filter (fun i => negb (is_o i)) idxs in
    match last_such (fun i => adjacent_index i o) rest, last_such (fun i => negb (adjacent_index i o)) rest with
    | Some c2, Some c1 => Some (c1, c2, o)
    | _, _ => None
    end
  end.

(* standardize_hemiketal: c = the last carbon, o1 = the first oxygen, o2 = the last of the later oxygens *)
Definition is_c (i : nat) : bool := String.eqb (sym i) "C".
Definition hemi_pick (idxs : list nat) : option (nat * nat * nat) :=
  match last_such is_c idxs, filter is_o idxs with
  | Some c, o1 :: o :: more => match last_such (fun _ => true) (o :: more) with Some o2 => Some (c, o1, o2) | None => None end
  | _, _ => None
  end.
End Pick.

(* ---- control flow of __call__ *)
Record soracle := {
  query : string -> option (list (string * list nat));   (* FGQuery.get; None = it raises (e.g. on an error message) *)
  step_enol : string -> list nat -> string;               (* standardize_enol: a SMILES or an error message *)
  step_hemi : string -> list nat -> string;
  canon : string -> option string                         (* Chem.CanonSmiles; None = it raises *)
}.
(* the loop body; None = an exception escaped *)
Definition one_group (O : soracle) (cur : option string) (g : string * list nat) : option string :=
  match cur with
  | None => None
  | Some s =>
    if String.eqb (fst g) "hemiketal" then
      let s' := step_hemi O s (snd g) in match query O s' with Some _ => Some s' | None => None end
    else if String.eqb (fst g) "enol" then
      let s' := step_enol O s (snd g) in match query O s' with Some _ => Some s' | None => None end
    else Some s
  end.
Definition standardize (O : soracle) (s : string) : option string :=
  match query O s with
  | None => None
  | Some groups => match fold_left (one_group O) groups (Some s) with
                   | Some s' => canon O s'
                   | None => None
                   end
  end.
Definition rewriting (g : string * list nat) : bool := String.eqb (fst g) "hemiketal" || String.eqb (fst g) "enol".
