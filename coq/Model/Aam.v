(* synrbl.SynUtils.chem_utils.remove_atom_mapping: two re.sub passes, as deterministic scanners with
   Python's leftmost / non-overlapping semantics.
     pass 1:  re.sub(r":\d+", "", s)                                   (Base.Strs.strip_colon_digits)
     pass 2:  re.sub(r"\[(?P<atom>(B|C|N|O|P|S|F|Cl|Br|I){1,2})(?:H\d?)?\]", r"\g<atom>", s)
   A pass-2 match at a '[' must end at the FIRST ']' after it (no alternative can consume ']' or '['),
   the text between is  u ++ (optional "H" or "H"+digit)  with u one or two organic-subset symbols, and
   that decomposition is unique, so backtracking order is unobservable.  Strings are ASCII. *)
From Coq Require Import String Ascii List Bool Arith.
From SynRBL Require Import Base.Strs.
Import ListNotations.
Open Scope string_scope.

Definition lbr : ascii := "["%char.
Definition rbr : ascii := "]"%char.

(* text up to the first ']' (exclusive); None when there is none *)
Fixpoint close (s : string) : option string :=
  match s with
  | EmptyString => None
  | String c t => if Ascii.eqb c rbr then Some EmptyString
                  else match close t with Some w => Some (String c w) | None => None end
  end.
Fixpoint has_char (a : ascii) (s : string) : bool :=
  match s with EmptyString => false | String c t => Ascii.eqb a c || has_char a t end.

(* number of organic-subset symbols u is made of; None when u is not such a concatenation *)
Definition one_letter (c : ascii) : bool :=
  existsb (Ascii.eqb c) ["B"; "C"; "N"; "O"; "P"; "S"; "F"; "I"]%char.
Fixpoint count_syms (u : string) : option nat :=
  match u with
  | EmptyString => Some 0
  | String c t =>
    match t with
    | String d t' =>
      if (Ascii.eqb c "C" && Ascii.eqb d "l") || (Ascii.eqb c "B" && Ascii.eqb d "r")
      then option_map S (count_syms t')
      else if one_letter c then option_map S (count_syms t) else None
    | EmptyString => if one_letter c then Some 1 else None
    end
  end.
Definition organic12 (u : string) : bool :=
  match count_syms u with Some 1 | Some 2 => true | _ => false end.

(* drop a trailing "H" or "H"+digit *)
Definition strip_h (w : string) : string :=
  match rev_acc w "" with
  | String d (String h r) => if is_digit d && Ascii.eqb h "H" then srev r
                             else if Ascii.eqb d "H" then srev (String h r) else w
  | String h EmptyString => if Ascii.eqb h "H" then "" else w
  | EmptyString => w
  end.

Fixpoint pass2_go (skip : nat) (s : string) : string :=
  match s with
  | EmptyString => EmptyString
  | String c t =>
    match skip with
    | S k => pass2_go k t
    | O =>
      if Ascii.eqb c lbr then
        match close t with
        | Some w => if negb (has_char lbr w) && organic12 (strip_h w)
                    then strip_h w ++ pass2_go (S (String.length w)) t
                    else String c (pass2_go 0 t)
        | None => String c (pass2_go 0 t)
        end
      else String c (pass2_go 0 t)
    end
  end.
Definition pass2 (s : string) : string := pass2_go 0 s.

Definition remove_atom_mapping (s : string) : string := pass2 (strip_colon_digits s).

(* no ':' is immediately followed by a digit *)
Fixpoint no_colon_digit (s : string) : bool :=
  match s with
  | EmptyString => true
  | String c t => negb (Ascii.eqb c ":" && match t with String d _ => is_digit d | EmptyString => false end) && no_colon_digit t
  end.
