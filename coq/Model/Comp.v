(* Composition accounting: RSMIDecomposer.decompose, RSMIComparator.{check_keys,
   compare_dicts,diff_dicts}, BothSideReact.{enforce_product_side,
   reverse_values_if_negative_except_Q}, CheckCarbonBalance's three-way label.
   Definitions only; proofs are in Proofs/CompProofs.v. *)
From Coq Require Import String ZArith List Bool.
From SynRBL Require Import Base.Dict.
Import ListNotations.
Open Scope string_scope. Open Scope Z_scope.

(* atomic number -> symbol through the table generated from
   RSMIDecomposer.atomic_symbols, with the source's "Unknown" fallback *)
Fixpoint lookup (tbl : list (Z * string)) (z : Z) : option string :=
  match tbl with
  | [] => None
  | (z', s) :: t => if Z.eqb z z' then Some s else lookup t z
  end.
Definition sym (tbl : list (Z * string)) (z : Z) : string :=
  match lookup tbl z with Some s => s | None => "Unknown" end.

(* decompose: zs = atomic numbers of all atoms after AddHs (in atom order),
   q = Chem.GetFormalCharge *)
Definition count_atoms (tbl : list (Z * string)) (zs : list Z) : dict :=
  fold_left (fun d z => incr d (sym tbl z) 1) zs [].
Definition decompose (tbl : list (Z * string)) (zs : list Z) (q : Z) : dict :=
  let d := count_atoms tbl zs in
  if q =? 0 then d else set d "Q" q.

Inductive verdict := Balance | Products | Reactants | Both.
Definition verdict_eqb (a b : verdict) : bool :=
  match a, b with
  | Balance, Balance | Products, Products | Reactants, Reactants | Both, Both => true
  | _, _ => false
  end.

Definition check_keys (d1 d2 : dict) : bool := forallb (fun k => mem d1 k) (keys d2).
Definition same_keys (d1 d2 : dict) : bool := check_keys d1 d2 && check_keys d2 d1.
Definition all_cmp (f : Z -> Z -> bool) (ks : list string) (r p : dict) : bool :=
  forallb (fun k => f (getd r k) (getd p k)) ks.

Definition compare_dicts (r p : dict) : verdict :=
  if negb (same_keys r p) then
    if check_keys r p && negb (check_keys p r) then
      if all_cmp Z.geb (keys p) r p then Products else Both
    else if check_keys p r && negb (check_keys r p) then
      if all_cmp Z.leb (keys r) r p then Reactants else Both
    else Both
  else
    if all_cmp Z.eqb (keys r) r p then Balance
    else if all_cmp Z.geb (keys r) r p then Products
    else if all_cmp Z.leb (keys r) r p then Reactants
    else Both.

Definition diff_f1 (p : dict) (k : string) (v : Z) : option Z :=
  match get p k with
  | Some w => let x := Z.abs (v - w) in if x =? 0 then None else Some x
  | None => if v =? 0 then None else Some v
  end.
Definition diff_f2 (r : dict) (k : string) (w : Z) : option Z :=
  if negb (mem r k) && negb (w =? 0) then Some w else None.
Definition diff_dicts (r p : dict) : dict :=
  fold_left (upd (diff_f2 r)) p (fold_left (upd (diff_f1 p)) r []).

(* BothSideReact.__init__: make sure a charge entry exists *)
Definition add_q (d : dict) : dict := if mem d "Q" then d else set d "Q" 0.

Definition eps_f1 (p : dict) (k : string) (v : Z) : option Z :=
  let x := v - getd p k in if x =? 0 then None else Some x.
Definition eps_f2 (r : dict) (k : string) (w : Z) : option Z :=
  if mem r k then None else Some (- w).
Definition enforce_product_side (r p : dict) : dict :=
  fold_left (upd (eps_f2 r)) p (fold_left (upd (eps_f1 p)) r []).

Definition negate (d : dict) : dict := map (fun kv => (fst kv, - snd kv)) d.
Definition reverse_if_negative (d : dict) : dict * verdict :=
  if Nat.eqb (length d) 2 && mem d "Q" then
    if existsb (fun kv => negb (String.eqb (fst kv) "Q") && (snd kv <? 0)) d
    then (negate d, Reactants) else (d, Products)
  else (d, Both).

(* the classification used by the rule-based stage: compare, then re-examine "Both" *)
Definition classify (r p : dict) : dict * verdict :=
  match compare_dicts r p with
  | Both => reverse_if_negative (enforce_product_side (add_q r) (add_q p))
  | v => (diff_dicts r p, v)
  end.

Inductive clabel := CBalanced | CProducts | CReactants.
Definition carbon_label (cr cp : Z) : clabel :=
  if cr =? cp then CBalanced else if cr >? cp then CProducts else CReactants.
Definition sumZ (l : list Z) : Z := fold_left Z.add l 0.
