(* synrbl.SynMCSImputer.{utils.merge_two_mols, rules.MergeRule/ExpandRule, merge}: the graph and
   bookkeeping side of fragment merging.  A molecule is its list of atom symbols and its list of bonds
   (begin, end, type); whether a rule's conditions hold for a pair of boundaries (functional groups,
   patterns, symbols) and what a rule's actions do to a fragment are oracles; sanitisation is RDKit's. *)
From Coq Require Import String List Bool Arith.
Import ListNotations.
Open Scope string_scope.

Record mgraph := { matoms : list string; mbonds : list (nat * nat * nat) }.
Definition shift (n : nat) (b : nat * nat * nat) : nat * nat * nat := (fst (fst b) + n, snd (fst b) + n, snd b).

(* utils.merge_two_mols: CombineMols (mol2's atoms after mol1's) + at most one new bond *)
Definition merge_two_mols (g1 g2 : mgraph) (i j : nat) (bt : option nat) : mgraph :=
  let n := length (matoms g1) in
  {| matoms := (matoms g1 ++ matoms g2)%list;
     mbonds := (mbonds g1 ++ map (shift n) (mbonds g2) ++ match bt with Some t => [(i, n + j, t)] | None => [] end)%list |}.
Definition disjoint_union (g1 g2 : mgraph) : mgraph := merge_two_mols g1 g2 0 0 None.

Definition count_sym (s : string) (g : mgraph) : nat := length (filter (String.eqb s) (matoms g)).

(* cutting: atoms 0..n-1 on one side, the rest on the other *)
Definition side (n : nat) (b : nat * nat * nat) : nat :=      (* 0 = inside left, 1 = inside right, 2 = crossing *)
  let '(x, y, _) := b in if Nat.ltb x n && Nat.ltb y n then 0 else if Nat.leb n x && Nat.leb n y then 1 else 2.
Definition unshift (n : nat) (b : nat * nat * nat) : nat * nat * nat := (fst (fst b) - n, snd (fst b) - n, snd b).
Definition left_part (n : nat) (g : mgraph) : mgraph :=
  {| matoms := firstn n (matoms g); mbonds := filter (fun b => Nat.eqb (side n b) 0) (mbonds g) |}.
Definition right_part (n : nat) (g : mgraph) : mgraph :=
  {| matoms := skipn n (matoms g); mbonds := map (unshift n) (filter (fun b => Nat.eqb (side n b) 1) (mbonds g)) |}.

(* ---- compounds, boundaries, rules *)
Record compound := { cmol : mgraph; cbounds : list nat; crules : list string }.
Record mrule := { mname : string; mbond : option nat }.          (* bond = None: a restriction rule, no bond is formed *)
Record erule := { ename : string; ecompound : mgraph; eindex : nat }.

Section Merge.
(* condition1(x) and condition2(y) of a merge rule for boundary x = (compound, atom index) *)
Variable mcond : string -> compound * nat -> compound * nat -> bool.
Variable econd : string -> compound * nat -> bool.
(* the actions of a rule on a fragment (change_bond / replace): keep the atoms, may retype bonds *)
Variable mact : string -> bool -> compound * nat -> mgraph.

Definition applicable (r : mrule) (x y : compound * nat) : bool := mcond (mname r) x y || mcond (mname r) y x.
Definition select_rule (rules : list mrule) (x y : compound * nat) : option mrule := find (fun r => applicable r x y) rules.

Fixpoint remove_first (k : nat) (l : list nat) : list nat :=
  match l with [] => [] | h :: t => if Nat.eqb h k then t else h :: remove_first k t end.

(* MergeRule.apply *)
Definition apply_rule (r : mrule) (x y : compound * nat) : compound :=
  let '(a, b) := if mcond (mname r) x y then (x, y) else (y, x) in
  let ga := mact (mname r) true a in
  let gb := mact (mname r) false b in
  {| cmol := merge_two_mols ga gb (snd a) (snd b) (mbond r);
     cbounds := remove_first (snd a) (cbounds (fst a));
     crules := (crules (fst a) ++ crules (fst b) ++ [mname r])%list |}.
Definition merge_boundaries (rules : list mrule) (x y : compound * nat) : option compound :=
  option_map (fun r => apply_rule r x y) (select_rule rules x y).

Definition expand_boundary (erules : list erule) (x : compound * nat) : option erule := find (fun r => econd (ename r) x) erules.
Definition ecomp (r : erule) : compound := {| cmol := ecompound r; cbounds := [eindex r]; crules := [ename r] |}.

Inductive mres := MOk (c : compound) (expansions : list erule) | MNoRule | MFuel.
(* _merge_one_compound *)
Fixpoint merge_one (rules : list mrule) (erules : list erule) (fuel : nat) (c : compound) (used : list erule) : mres :=
  match cbounds c with
  | [] => MOk c used
  | b :: _ =>
    match fuel with
    | O => MFuel
    | S f =>
      match expand_boundary erules (c, b) with
      | None => merge_one rules erules f {| cmol := cmol c; cbounds := remove_first b (cbounds c); crules := crules c |} used
      | Some er =>
        match merge_boundaries rules (c, b) (ecomp er, eindex er) with
        | None => MNoRule
        | Some c' => merge_one rules erules f c' (used ++ [er])%list
        end
      end
    end
  end.
End Merge.
