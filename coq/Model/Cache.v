(* Balancer.rebalance with cache=True (CacheManager): the directory is scanned once per run (refs),
   every batch is looked up under the hash of (configuration, batch), a readable entry with a result is
   used, anything else is a miss: the pipeline runs and the entry is (re)written.  A lost batch
   (pipeline raised) is not cached.  Entries may be unreadable (absent tmp, empty, truncated, garbage).
   The pipeline, the hash and the configuration are parameters. *)
From Coq Require Import List Bool NArith.
Import ListNotations.

Section Cache.
Variables Cfg Batch Res : Type.
Variable pipeline : Cfg -> Batch -> option Res.        (* None = the pipeline raised: nothing returned, nothing cached *)
Variable key : Cfg -> Batch -> N.                       (* SHA-256 of the JSON of {config, data} *)

Inductive content := Good (r : Res) | Unreadable | NoResult.
Definition fsys := list (N * content).                  (* first binding wins *)

Fixpoint lookup (st : fsys) (k : N) : option content :=
  match st with [] => None | (k', c) :: t => if N.eqb k k' then Some c else lookup t k end.
Definition update (st : fsys) (k : N) (c : content) : fsys := (k, c) :: st.
Definition refs_of (st : fsys) : list N := map fst st.
Definition memN (k : N) (l : list N) : bool := existsb (N.eqb k) l.

Inductive how := Hit | Miss | Lost.
(* one batch: result (None = lost), how it was obtained, file system afterwards *)
Definition batch_cached (refs : list N) (c : Cfg) (st : fsys) (b : Batch) : option Res * how * fsys :=
  let k := key c b in
  match (if memN k refs then lookup st k else None) with
  | Some (Good r) => (Some r, Hit, st)
  | _ => match pipeline c b with
         | Some r => (Some r, Miss, update st k (Good r))
         | None => (None, Lost, st)
         end
  end.

Fixpoint batches_cached (refs : list N) (c : Cfg) (st : fsys) (bs : list Batch) : list (option Res) * list how * fsys :=
  match bs with
  | [] => ([], [], st)
  | b :: t => let '(r, h, st1) := batch_cached refs c st b in
              let '(rs, hs, st2) := batches_cached refs c st1 t in (r :: rs, h :: hs, st2)
  end.
(* a completed run *)
Definition run_cached (c : Cfg) (st : fsys) (bs : list Batch) : list (option Res) * list how * fsys :=
  batches_cached (refs_of st) c st bs.
Definition run_uncached (c : Cfg) (bs : list Batch) : list (option Res) := map (pipeline c) bs.

(* histories: completed runs and runs killed after some batches, while an entry is being written *)
Inductive crash_effect := LeavesNothing | LeavesUnreadable | LeavesComplete.
Inductive event :=
| Completed (c : Cfg) (bs : list Batch)
| Killed (c : Cfg) (done : list Batch) (writing : Batch) (e : crash_effect)
| Garbage (k : N) (g : content).       (* anything else that may sit in the directory: only non-results *)
Definition is_good (g : content) : bool := match g with Good _ => true | _ => false end.
Definition step (st : fsys) (ev : event) : fsys :=
  match ev with
  | Completed c bs => snd (run_cached c st bs)
  | Killed c done b e =>
    let st1 := snd (run_cached c st done) in
    match e, pipeline c b with
    | LeavesUnreadable, Some _ => update st1 (key c b) Unreadable
    | LeavesComplete, Some r => update st1 (key c b) (Good r)
    | _, _ => st1
    end
  | Garbage k g => if is_good g then st else update st k g
  end.
End Cache.
Arguments Good {Res} r. Arguments Unreadable {Res}. Arguments NoResult {Res}.
