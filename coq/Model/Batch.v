(* Balancer.rebalance around the pipeline: conversion of the input forms to a list of rows is
   the identity on the reaction strings (list of str / list of dict / csv / json readers are maps),
   DataLoader = consecutive chunks, a batch whose pipeline raises contributes nothing (neither
   rows nor statistics), results are concatenated; the CLI zips pass-through columns positionally. *)
From Coq Require Import String ZArith List Bool Arith.
From SynRBL Require Import Base.ListX Model.Pipeline.
Import ListNotations.

Section Batch.
Variable pipeline : list string -> outcome (list row * stats).

Definition batches (bs : option nat) (ins : list string) : list (list string) :=
  match bs with None => [ins] | Some n => chunks n ins end.
Definition zero_stats : stats := mkStats 0 0 0 0 0 0 0.
Definition add_stats (a b : stats) : stats :=
  mkStats (reaction_cnt a + reaction_cnt b) (balanced_cnt a + balanced_cnt b) (rb_applied a + rb_applied b)
          (rb_solved a + rb_solved b) (mcs_applied a + mcs_applied b) (mcs_solved a + mcs_solved b)
          (confident_cnt a + confident_cnt b).
Definition one_batch (acc : list row * stats) (b : list string) : list row * stats :=
  match b with
  | [] => acc                                  (* "if len(batch) == 0: continue" *)
  | _ => match pipeline b with
         | Done (rows, st) => ((fst acc ++ rows)%list, add_stats (snd acc) st)
         | Raised _ => acc                     (* logged, result is None: nothing is added *)
         end
  end.
Definition rebalance (bs : option nat) (ins : list string) : list row * stats :=
  fold_left one_batch (batches bs ins) ([], zero_stats).

(* cmd_run.impute: for in_r, out_r in zip(input_reactions, rbl_reactions): out_r[c] = in_r[c] *)
Definition cli_passthrough {A} (inputs : list A) (rows : list row) : list (A * row) := combine inputs rows.
End Batch.
