(* C20: control-flow facts of the tautomer standardiser and order-independence of its atom picking. *)
From Coq Require Import String List Bool Arith Lia.
From SynRBL Require Import Model.Standardize.
Import ListNotations.
Open Scope string_scope.

(* ---- picking *)
Section Pick.
Variable sym : nat -> string.
Variable bonded : nat -> nat -> bool.
Variables c1 c2 o : nat.
Hypothesis Ho : is_o sym o = true.
Hypothesis H1 : is_o sym c1 = false.
Hypothesis H2 : is_o sym c2 = false.
Hypothesis B2 : bonded c2 o = true.
Hypothesis B1 : bonded c1 o = false.

(* whatever order the three atoms are listed in, the repaired picking finds the carbon that carries the oxygen *)
Theorem enol_pick_order_independent l :
  In l [[c1; c2; o]; [c1; o; c2]; [c2; c1; o]; [c2; o; c1]; [o; c1; c2]; [o; c2; c1]] -> enol_pick sym bonded l = Some (c1, c2, o).
Proof.
  intros H. unfold enol_pick, last_such.
  repeat (destruct H as [<-|H]; [cbn [fold_left filter]; rewrite ?Ho, ?H1, ?H2; cbn [negb fold_left filter]; rewrite ?B1, ?B2; cbn [negb]; try reflexivity|]).
  destruct H.
Qed.
End Pick.

(* ---- control flow *)
Section Flow.
Variable O : soracle.

Lemma fold_none gs : fold_left (one_group O) gs None = None.
Proof. induction gs; simpl; auto. Qed.
Lemma fold_no_rewriting gs s : forallb (fun g => negb (rewriting g)) gs = true -> fold_left (one_group O) gs (Some s) = Some s.
Proof.
  induction gs as [|g t IH]; simpl; auto. intros H. apply andb_prop in H as [H1 H2].
  unfold rewriting in H1. apply negb_true_iff, orb_false_iff in H1 as [A B]. rewrite A, B. auto.
Qed.

(* a molecule without enol / hemiketal groups is only canonicalised *)
Theorem no_group_identity s gs : query O s = Some gs -> forallb (fun g => negb (rewriting g)) gs = true -> standardize O s = canon O s.
Proof. intros Q H. unfold standardize. now rewrite Q, (fold_no_rewriting gs s H). Qed.

(* exactly one such group: one step, on fresh indices *)
Theorem single_group s pre g post : query O s = Some (pre ++ g :: post)%list ->
  forallb (fun g => negb (rewriting g)) pre = true -> forallb (fun g => negb (rewriting g)) post = true -> rewriting g = true ->
  standardize O s =
  let s' := if String.eqb (fst g) "hemiketal" then step_hemi O s (snd g) else step_enol O s (snd g) in
  match query O s' with Some _ => canon O s' | None => None end.
Proof.
  intros Q Hpre Hpost Hg. unfold standardize. rewrite Q, fold_left_app, (fold_no_rewriting pre s Hpre). cbn [fold_left one_group].
  unfold rewriting in Hg. destruct (String.eqb (fst g) "hemiketal") eqn:E1.
  - destruct (query O (step_hemi O s (snd g))); [now rewrite fold_no_rewriting|now rewrite fold_none].
  - simpl in Hg. rewrite Hg. destruct (query O (step_enol O s (snd g))); [now rewrite fold_no_rewriting|now rewrite fold_none].
Qed.

(* conservation and validity for single-group molecules, given the chemistry oracle conserves on that step *)
Variable C : Type.
Variable comp : string -> option C.             (* composition incl. charge of a SMILES; None = not a SMILES *)
Hypothesis canon_conserves : forall s r, canon O s = Some r -> comp r = comp s /\ comp r <> None.
Theorem single_group_conserves s pre g post r : query O s = Some (pre ++ g :: post)%list ->
  forallb (fun g => negb (rewriting g)) pre = true -> forallb (fun g => negb (rewriting g)) post = true -> rewriting g = true ->
  comp (if String.eqb (fst g) "hemiketal" then step_hemi O s (snd g) else step_enol O s (snd g)) = comp s ->
  standardize O s = Some r -> comp r = comp s /\ comp r <> None.
Proof.
  intros Q Hpre Hpost Hg HC H. rewrite (single_group s pre g post Q Hpre Hpost Hg) in H. cbv zeta in H.
  set (s' := if String.eqb (fst g) "hemiketal" then step_hemi O s (snd g) else step_enol O s (snd g)) in *.
  destruct (query O s'); [|discriminate]. destruct (canon_conserves _ _ H) as [A B]. split; auto. congruence.
Qed.
(* whatever is returned is an output of the canonicaliser, never one of the error messages *)
Theorem result_is_canonical s r : standardize O s = Some r -> exists s', canon O s' = Some r.
Proof.
  unfold standardize. destruct (query O s); [|discriminate]. destruct (fold_left _ _ _) as [s'|]; [|discriminate]. eauto.
Qed.
(* idempotence, given the result has no rewritable group left and is a fixed point of the canonicaliser *)
Theorem idempotent s r gs : standardize O s = Some r -> query O r = Some gs -> forallb (fun g => negb (rewriting g)) gs = true ->
  canon O r = Some r -> standardize O r = Some r.
Proof. intros _ Q H K. now rewrite (no_group_identity r gs Q H). Qed.
End Flow.
