(* C12: with a key that covers the configuration (injective hash) and unreadable entries treated as
   misses, a cached run returns exactly what the uncached run returns, after any history. *)
From Coq Require Import List Bool NArith Lia.
From SynRBL Require Import Model.Cache.
Import ListNotations.

Section CacheProofs.
Variables Cfg Batch Res : Type.
Variable pipeline : Cfg -> Batch -> option Res.
Variable key : Cfg -> Batch -> N.
Hypothesis key_inj : forall c b c' b', key c b = key c' b' -> c = c' /\ b = b'.

Notation fsys := (fsys Res).
Notation lookup := (lookup Res).
Notation run_cached := (run_cached Cfg Batch Res pipeline key).
Notation run_uncached := (run_uncached Cfg Batch Res pipeline).
Notation step := (step Cfg Batch Res pipeline key).

(* every stored result is the pipeline's result for the (configuration, batch) it is filed under *)
Definition Inv (st : fsys) : Prop :=
  forall k r, lookup st k = Some (Good r) -> forall c b, key c b = k -> pipeline c b = Some r.

Lemma inv_empty : Inv [].
Proof. intros k r H. discriminate. Qed.
Lemma inv_update_good st c b r : Inv st -> pipeline c b = Some r -> Inv (update Res st (key c b) (Good r)).
Proof.
  intros I P k r' H c' b' K. unfold update in H. simpl in H. destruct (N.eqb_spec k (key c b)) as [E|E].
  - inversion H; subst r'. rewrite <- K in E. destruct (key_inj _ _ _ _ E) as [-> ->]. exact P.
  - eapply I; eauto.
Qed.
Lemma inv_update_other st k g : Inv st -> is_good Res g = false -> Inv (update Res st k g).
Proof.
  intros I G k' r H c b K. unfold update in H. simpl in H. destruct (N.eqb_spec k' k) as [E|E].
  - inversion H; subst g. discriminate.
  - eapply I; eauto.
Qed.

Lemma batch_ok refs c st b : Inv st ->
  let '(r, h, st') := batch_cached Cfg Batch Res pipeline key refs c st b in r = pipeline c b /\ Inv st'.
Proof.
  intros I. unfold batch_cached.
  destruct (if memN (key c b) refs then lookup st (key c b) else None) as [[r| |]|] eqn:E.
  - split; auto. destruct (memN (key c b) refs); [|discriminate]. symmetry. eapply I; eauto.
  - destruct (pipeline c b) as [r|] eqn:P; split; auto. now apply inv_update_good.
  - destruct (pipeline c b) as [r|] eqn:P; split; auto. now apply inv_update_good.
  - destruct (pipeline c b) as [r|] eqn:P; split; auto. now apply inv_update_good.
Qed.
Lemma batches_ok refs c bs : forall st, Inv st ->
  let '(rs, hs, st') := batches_cached Cfg Batch Res pipeline key refs c st bs in rs = map (pipeline c) bs /\ Inv st'.
Proof.
  induction bs as [|b t IH]; intros st I; simpl; [split; auto|].
  pose proof (batch_ok refs c st b I) as B. destruct (batch_cached _ _ _ _ _ refs c st b) as [[r h] st1].
  destruct B as [-> I1]. pose proof (IH st1 I1) as T. destruct (batches_cached _ _ _ _ _ refs c st1 t) as [[rs hs] st2].
  destruct T as [-> I2]. split; auto.
Qed.

Theorem run_transparent c st bs : Inv st ->
  fst (fst (run_cached c st bs)) = run_uncached c bs /\ Inv (snd (run_cached c st bs)).
Proof.
  intros I. unfold run_cached. pose proof (batches_ok (refs_of Res st) c bs st I) as H.
  destruct (batches_cached _ _ _ _ _ (refs_of Res st) c st bs) as [[rs hs] st']. exact H.
Qed.

Lemma step_inv st ev : Inv st -> Inv (step st ev).
Proof.
  intros I. destruct ev as [c bs|c done b e|k g]; simpl.
  - apply run_transparent; auto.
  - destruct (run_transparent c st done I) as [_ I1].
    destruct e; destruct (pipeline c b) as [r|] eqn:P; auto.
    + apply inv_update_other; auto.
    + now apply inv_update_good.
  - destruct (is_good Res g) eqn:G; auto. now apply inv_update_other.
Qed.
Lemma history_inv evs : forall st, Inv st -> Inv (fold_left step evs st).
Proof. induction evs as [|e t IH]; intros st I; simpl; auto. apply IH. now apply step_inv. Qed.

(* after ANY history of completed runs, killed runs (whatever the interrupted write left behind) and
   foreign non-result files, a completed cached run returns what the uncached run returns *)
Theorem cache_transparent evs c bs :
  fst (fst (run_cached c (fold_left step evs []) bs)) = run_uncached c bs.
Proof. apply run_transparent. apply history_inv. apply inv_empty. Qed.
End CacheProofs.
