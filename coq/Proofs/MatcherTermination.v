(* Termination of the composition solver (C08): with a well-formed database every applied rule removes at least
   one atom from the imbalance, so the depth of the search is bounded by the number of atoms of the imbalance;
   with more fuel than that the model's solver never runs out of fuel, and min() of an empty sequence cannot
   happen.  (The Python solver recurses without a bound of its own; this is its termination argument.) *)
From Coq Require Import String ZArith List Bool Lia.
From SynRBL Require Import Base.Dict Base.Strs Base.ListX Model.Matcher Proofs.MatcherProofs.
Import ListNotations.
Open Scope string_scope. Open Scope Z_scope.

Definition mass (K : list string) (d : dict) : Z := fold_right (fun k a => getd d k + a) 0 K.
Definition nonq_keys (d : dict) : list string := filter (fun k => negb (String.eqb k "Q")) (keys d).
(* the number of atoms of an imbalance *)
Definition atoms_of (diff : dict) : Z := mass (nonq_keys (init_data diff)) (init_data diff).

Definition rule_wf (r : rule) : Prop :=
  nodupk (rcomp r) /\ comp_positive (rcomp r) /\ exists k v, In (k, v) (rcomp r) /\ k <> "Q".

Definition Inv (K : list string) (d : dict) : Prop :=
  has_q d /\ (forall k, k <> "Q" -> getd d k >= 0) /\ (forall k v, get d k = Some v -> k <> "Q" -> In k K).

Lemma zmin_list_le l : forall x y, In y (x :: l) -> zmin_list x l <= y.
Proof.
  induction l as [|a t IH]; intros x y I; simpl.
  - destruct I as [<-|[]]. lia.
  - destruct I as [<-|[<-|I]].
    + specialize (IH (Z.min x a) (Z.min x a) (or_introl eq_refl)). lia.
    + specialize (IH (Z.min x a) (Z.min x a) (or_introl eq_refl)). lia.
    + apply IH. right. exact I.
Qed.
Lemma ratios_in c data k v : In (k, v) c -> k <> "Q" ->
  In (if v =? 0 then 0 else getd data k / v) (ratios c data).
Proof.
  induction c as [|[k' v'] t IH]; simpl; intros I N; [destruct I|].
  destruct I as [E|I].
  - inversion E; subst. destruct (String.eqb_spec k "Q"); [contradiction|]. left. reflexivity.
  - destruct (String.eqb k' "Q"); [auto|right; auto].
Qed.

Lemma sub1_keys nd k v ratio k' x : get (sub1 nd k v ratio) k' = Some x -> get nd k' <> None.
Proof.
  destruct (String.eqb_spec k' k) as [->|N].
  - unfold sub1. destruct (get nd k) eqn:G; [congruence|]. rewrite G. discriminate.
  - rewrite sub1_get_other; auto. congruence.
Qed.
Lemma subtract_keys c : forall data ratio k x, get (subtract c data ratio) k = Some x -> get data k <> None.
Proof.
  unfold subtract. induction c as [|[k' v'] t IH]; simpl; intros data ratio k x H; [congruence|].
  specialize (IH _ _ _ _ H). destruct (get (sub1 data k' v' ratio) k) eqn:G; [|congruence].
  eapply sub1_keys; eauto.
Qed.

Lemma getd_comp_nonneg c k : comp_positive c -> k <> "Q" -> getd c k >= 0.
Proof.
  intros P N. unfold getd. destruct (get c k) as [v|] eqn:G; [|lia].
  specialize (P k v (get_in _ _ _ G) N). lia.
Qed.

Lemma mass_linear K a b c ratio : (forall k, getd a k = getd b k - ratio * getd c k) ->
  mass K a = mass K b - ratio * mass K c.
Proof. intros H. induction K as [|k t IH]; simpl; [lia|]. rewrite H, IH. lia. Qed.
Lemma mass_ge_member K d k0 : (forall k, In k K -> getd d k >= 0) -> In k0 K -> mass K d >= getd d k0.
Proof.
  induction K as [|k t IH]; simpl; intros H I; [destruct I|].
  assert (mass t d >= 0).
  { clear IH I. induction t as [|a t' IHt]; simpl; [lia|].
    assert (getd d a >= 0) by (apply H; right; left; auto).
    assert (mass t' d >= 0) by (apply IHt; intros k' [<-|I']; apply H; [left|right; right]; auto). lia. }
  destruct I as [<-|I].
  - lia.
  - assert (getd d k >= 0) by (apply H; left; auto).
    assert (mass t d >= getd d k0) by (apply IH; auto). lia.
Qed.
Lemma mass_nonneg K d : (forall k, In k K -> getd d k >= 0) -> mass K d >= 0.
Proof.
  induction K as [|a t IH]; simpl; intros H; [lia|].
  assert (getd d a >= 0) by (apply H; left; auto).
  assert (mass t d >= 0) by (apply IH; intros; apply H; right; auto). lia.
Qed.

Lemma apply_rule_step K data r nd ratio : ~ In "Q" K -> Inv K data -> rule_wf r ->
  apply_rule data r = Applied nd ratio -> Inv K nd /\ mass K nd <= mass K data - 1.
Proof.
  intros NQ [Q [NN KS]] [ND [CP [k0 [v0 [I0 N0]]]]] A.
  destruct (apply_rule_sound data r nd ratio Q ND A) as [S1 [S2 _]].
  pose proof (apply_rule_ratio_pos data r nd ratio CP A) as R1.
  unfold apply_rule in A. destruct (can_match (rcomp r) data) eqn:CM; [|discriminate].
  destruct (ratios (rcomp r) data) as [|x t] eqn:RT; [discriminate|]. inversion A as [[E1 E2]]. clear A.
  pose proof (can_match_present _ _ CM Q) as PR.
  assert (M1 : zmin_list x t >= 1).
  { apply zmin_list_ge.
    - apply (ratios_ge1 _ _ CP CM). rewrite RT. left; auto.
    - intros y I. apply (ratios_ge1 _ _ CP CM). rewrite RT. right; auto. }
  assert (RE : ratio = zmin_list x t) by lia.
  assert (LE : forall k v, In (k, v) (rcomp r) -> k <> "Q" -> ratio * v <= getd data k).
  { intros k v I N. assert (v > 0) by (apply (CP k v I N)).
    pose proof (ratios_in (rcomp r) data k v I N) as RI. rewrite RT in RI.
    destruct (v =? 0) eqn:E0; [apply Z.eqb_eq in E0; lia|].
    pose proof (zmin_list_le t x _ RI) as L. rewrite <- RE in L.
    assert (G0 : getd data k >= 0) by (apply NN; auto).
    pose proof (Z.mul_div_le (getd data k) v ltac:(lia)).
    assert (ratio * v <= getd data k / v * v) by (apply Z.mul_le_mono_nonneg_r; lia). lia. }
  rewrite ?E1, ?E2. split; [split; [exact S2|split]|].
  - intros k N. rewrite S1. unfold getd at 2. destruct (get (rcomp r) k) as [v|] eqn:G.
    + pose proof (LE k v (get_in _ _ _ G) N). lia.
    + specialize (NN k N). lia.
  - intros k v G N. rewrite <- E1 in G. pose proof (subtract_keys _ _ _ _ _ G) as P.
    destruct (get data k) as [w|] eqn:Gd; [|congruence]. eapply KS; eauto.
  - rewrite (mass_linear K nd data (rcomp r) ratio S1).
    assert (In k0 K).
    { assert (Gc : exists w, get (rcomp r) k0 = Some w).
      { apply in_keys_get. apply in_map_iff. exists (k0, v0). split; auto. }
      destruct Gc as [w Gc]. pose proof (PR k0 w Gc) as P. destruct (get data k0) as [z|] eqn:Gd; [|congruence]. eapply KS; eauto. }
    assert (getd (rcomp r) k0 >= 1).
    { assert (Gc : exists w, get (rcomp r) k0 = Some w).
      { apply in_keys_get. apply in_map_iff. exists (k0, v0). split; auto. }
      destruct Gc as [w Gc]. unfold getd. rewrite Gc. pose proof (CP k0 w (get_in _ _ _ Gc) N0). lia. }
    assert (mass K (rcomp r) >= getd (rcomp r) k0).
    { apply mass_ge_member; auto. intros k Ik. apply getd_comp_nonneg; auto. intros ->. contradiction. }
    nia.
Qed.

Lemma apply_rule_no_min_of_empty data r : rule_wf r -> apply_rule data r <> MinOfEmpty.
Proof.
  intros [_ [_ [k0 [v0 [I0 N0]]]]]. unfold apply_rule. destruct (can_match _ _); [|discriminate].
  pose proof (ratios_in (rcomp r) data k0 v0 I0 N0) as RI.
  destruct (ratios (rcomp r) data); [destruct RI|discriminate].
Qed.

Lemma concat_opt_some {A} (l : list (option (list A))) : (forall x, In x l -> exists y, x = Some y) -> exists r, concat_opt l = Some r.
Proof.
  induction l as [|[a|] t IH]; simpl; intros H.
  - eauto.
  - destruct IH as [r E]; [intros; apply H; auto|]. rewrite E. eauto.
  - destruct (H None (or_introl eq_refl)) as [y E]. discriminate.
Qed.

Theorem dfs_terminates rules K : (forall r, In r rules -> rule_wf r) -> ~ In "Q" K ->
  forall fuel data p, Inv K data -> mass K data < Z.of_nat fuel -> exists sols, dfs fuel rules data p = Some sols.
Proof.
  intros W NQ. induction fuel as [|f IH]; intros data p I M.
  - exfalso. destruct I as [_ [NN _]].
    assert (mass K data >= 0) by (apply mass_nonneg; intros k Ik; apply NN; intros ->; contradiction). simpl in M. lia.
  - simpl. destruct (exit_py data); [eauto|].
    apply concat_opt_some. intros x Ix. apply in_map_iff in Ix as [r [E Ir]].
    destruct (apply_rule data r) as [| |nd ratio] eqn:A.
    + eauto.
    + exfalso. exact (apply_rule_no_min_of_empty data r (W r Ir) A).
    + destruct (apply_rule_step K data r nd ratio NQ I (W r Ir) A) as [I2 M2].
      destruct (IH nd (p ++ [(r, ratio)])%list I2 ltac:(lia)) as [sols Es]. rewrite Es in E. eauto.
Qed.

Theorem match_all_terminates fuel db diff : (forall r, In r db -> rule_wf r) -> nodupk diff ->
  (forall k, k <> "Q" -> getd diff k >= 0) -> atoms_of diff < Z.of_nat fuel ->
  exists res, match_all fuel db diff = Some res.
Proof.
  intros W ND NN M. unfold match_all.
  destruct (init_data_spec diff ND) as [G Q].
  assert (W' : forall r, In r (sort_rules db) -> rule_wf r).
  { intros r Ir. apply W. unfold sort_rules in Ir. now apply sort_desc_in in Ir. }
  assert (NQ : ~ In "Q" (nonq_keys (init_data diff))).
  { unfold nonq_keys. intros I. apply filter_In in I as [_ I]. discriminate. }
  assert (I : Inv (nonq_keys (init_data diff)) (init_data diff)).
  { split; [exact Q|split].
    - intros k N. rewrite G. auto.
    - intros k v Gk N. unfold nonq_keys. apply filter_In. split; [eapply get_in_keys; eauto|].
      destruct (String.eqb_spec k "Q"); [contradiction|reflexivity]. }
  destruct (dfs_terminates (sort_rules db) _ W' NQ fuel (init_data diff) [] I M) as [sols E].
  rewrite E. eauto.
Qed.

(* the boolean well-formedness test that is evaluated on the generated databases *)
Definition rule_wfb (r : rule) : bool :=
  nodupkb (rcomp r) && mem (rcomp r) "Q" &&
  existsb (fun kv => negb (String.eqb (fst kv) "Q")) (rcomp r) &&
  forallb (fun kv => String.eqb (fst kv) "Q" || (snd kv >? 0)) (rcomp r).
Lemma rule_wfb_spec r : rule_wfb r = true -> rule_wf r.
Proof.
  unfold rule_wfb. intros H. apply andb_prop in H as [H H4]. apply andb_prop in H as [H H3]. apply andb_prop in H as [H1 _].
  split; [now apply nodupkb_spec|split].
  - intros k v I N. rewrite forallb_forall in H4. specialize (H4 _ I). simpl in H4.
    destruct (String.eqb_spec k "Q"); [contradiction|]. simpl in H4. apply Z.gtb_lt in H4. lia.
  - apply existsb_exists in H3 as [[k v] [I N]]. exists k, v. split; auto. simpl in N.
    destruct (String.eqb_spec k "Q"); [discriminate|auto].
Qed.
Corollary match_all_terminates_b fuel db diff : forallb rule_wfb db = true -> nodupk diff ->
  (forall k, k <> "Q" -> getd diff k >= 0) -> atoms_of diff < Z.of_nat fuel ->
  exists res, match_all fuel db diff = Some res.
Proof.
  intros W. apply match_all_terminates. intros r I. apply rule_wfb_spec. rewrite forallb_forall in W. auto.
Qed.
