(* C16, second sentence, the half that HOLDS: the matcher is complete -- wherever a real occurrence of the pattern (an
   injective, symbol- and bond-preserving embedding) puts a pattern atom on the anchor, pattern_match answers true.
   (The other half, soundness, is refuted in Props/C16.v.)  First for an embedding given as a function, then for the
   executable reference occurs_at of Model/FGMatch.v on well-formed graphs. *)
From Coq Require Import String List Bool Arith Lia Permutation.
From SynRBL Require Import Model.FGMatch.
Import ListNotations.
Open Scope string_scope.

Lemma memn_In x l : memn x l = true <-> In x l.
Proof.
  unfold memn. rewrite existsb_exists. split.
  - intros [y [I E]]. apply Nat.eqb_eq in E. now subst.
  - intros I. exists x. split; auto. apply Nat.eqb_refl.
Qed.
Lemma memn_false x l : memn x l = false <-> ~ In x l.
Proof.
  rewrite <- memn_In. destruct (memn x l); split; intro H.
  - discriminate H.
  - exfalso. apply H. reflexivity.
  - intro X. discriminate X.
  - reflexivity.
Qed.
Lemma in_remove1 y x l : In y l -> y <> x -> In y (remove1 x l).
Proof.
  induction l as [|z t IH]; simpl; intros I N; auto.
  destruct (Nat.eqb_spec x z) as [->|D].
  - destruct I as [->|I]; [contradiction|auto].
  - destruct I as [->|I]; [left; auto|right; auto].
Qed.

(* an injective family of good choices makes the neighbour assignment succeed *)
Lemma assign_complete (ok : nat -> nat -> bool) (f : nat -> nat) (D : nat -> Prop) : (forall p q, D p -> D q -> f p = f q -> p = q) ->
  forall pn avail, NoDup pn -> (forall p, In p pn -> D p /\ In (f p) avail /\ ok p (f p) = true) -> assign ok pn avail = true.
Proof.
  intros Inj. induction pn as [|p ps IH]; intros avail ND H; simpl; auto.
  inversion ND as [|? ? Np NDs]; subst.
  apply existsb_exists. exists (f p). destruct (H p (or_introl eq_refl)) as [Dp [I O]]. split; auto.
  rewrite O. simpl. apply IH; auto. intros q Iq. destruct (H q (or_intror Iq)) as [Dq [I2 O2]]. repeat split; auto.
  apply in_remove1; auto. intros E. apply Inj in E; auto. subst. contradiction.
Qed.
Lemma nodup_map_on (f : nat -> nat) (D : nat -> Prop) l : (forall p q, D p -> D q -> f p = f q -> p = q) ->
  (forall x, In x l -> D x) -> NoDup l -> NoDup (map f l).
Proof.
  intros Inj. induction l as [|x t IH]; intros Dl ND; simpl; [constructor|].
  inversion ND as [|? ? Nx NDt]; subst. constructor.
  - intros I. apply in_map_iff in I as [y [E Iy]]. apply Inj in E; [subst; contradiction|apply Dl; right; auto|apply Dl; left; auto].
  - apply IH; auto. intros y Iy. apply Dl. right; auto.
Qed.

Section Embedding.
Variables G P : graph.
Variable f : nat -> nat.
Hypothesis f_inj : forall p q, p < size P -> q < size P -> f p = f q -> p = q.
Hypothesis f_sym : forall p, p < size P -> sym G (f p) = sym P p.
Hypothesis f_edge : forall p q, p < size P -> In q (nbrs P p) -> In (f q) (nbrs G (f p)) /\ bond G (f p) (f q) = bond P p q.
Hypothesis P_range : forall p q, p < size P -> In q (nbrs P p) -> q < size P.
Hypothesis P_nodup : forall p, p < size P -> NoDup (nbrs P p).

Lemma nodup_bound l n : NoDup l -> (forall x, In x l -> x < n) -> length l <= n.
Proof.
  intros ND B. replace n with (length (seq 0 n)) by apply seq_length.
  apply NoDup_incl_length; auto. intros x I. apply in_seq. specialize (B x I). lia.
Qed.

Theorem fits_complete : forall fuel pa vp, pa < size P -> NoDup (pa :: vp) -> (forall x, In x vp -> x < size P) ->
  S (size P) <= fuel + length vp -> fits G P fuel (f pa) pa (map f vp) vp = true.
Proof.
  induction fuel as [|fu IH]; intros pa vp Lp ND B Fu.
  - exfalso. assert (length (pa :: vp) <= size P) by (apply nodup_bound; auto; intros x [<-|I]; auto). simpl in *. lia.
  - cbn [fits]. rewrite (f_sym pa Lp), String.eqb_refl. cbn [andb].
    set (pn := filter (fun x => negb (memn x (pa :: vp))) (nbrs P pa)).
    set (an := filter (fun x => negb (memn x (f pa :: map f vp))) (nbrs G (f pa))).
    assert (B' : forall x, In x (pa :: vp) -> x < size P) by (intros x [<-|I]; auto).
    assert (PN : forall p, In p pn -> In p (nbrs P pa) /\ ~ In p (pa :: vp) /\ p < size P).
    { intros p I. unfold pn in I. apply filter_In in I as [I1 I2]. split; auto. split; [|eapply P_range; eauto].
      apply memn_false. now destruct (memn p (pa :: vp)). }
    assert (AN : forall p, In p pn -> In (f p) an).
    { intros p I. destruct (PN p I) as [I1 [I2 I3]]. unfold an. apply filter_In. split; [apply (f_edge pa p Lp I1)|].
      assert (M : memn (f p) (f pa :: map f vp) = false).
      { apply memn_false. change (f pa :: map f vp) with (map f (pa :: vp)). intros X. apply in_map_iff in X as [q [E Iq]].
        apply f_inj in E; auto. subst. contradiction. }
      now rewrite M. }
    assert (NDpn : NoDup pn) by (unfold pn; apply NoDup_filter; apply P_nodup; auto).
    clearbody pn an. destruct pn as [|p0 ps]. { reflexivity. }
    assert (LE : length (p0 :: ps) <= length an).
    { rewrite <- (map_length f). apply NoDup_incl_length.
      - apply (nodup_map_on f (fun p => p < size P)); auto. intros x Ix. apply (PN x Ix).
      - intros y Iy. apply in_map_iff in Iy as [q [<- Iq]]. apply AN. exact Iq. }
    apply Nat.leb_le in LE. rewrite LE. cbn [andb].
    apply (assign_complete _ f (fun p => p < size P) f_inj); auto.
    intros p Ip. destruct (PN p Ip) as [I1 [I2 Lq]]. split; [exact Lq|]. split; [apply AN; exact Ip|].
    destruct (f_edge pa p Lp I1) as [E1 E2].
    rewrite (f_sym p Lq), String.eqb_refl, E2, Nat.eqb_refl. cbn [andb].
    change (f pa :: map f vp) with (map f (pa :: vp)). apply IH; auto.
    + constructor; auto.
    + simpl. lia.
Qed.

Theorem pattern_match_complete pa : pa < size P -> pattern_match G P (f pa) = true.
Proof.
  intros L. unfold pattern_match. apply existsb_exists. exists pa. split; [apply in_seq; lia|].
  apply (fits_complete (S (size P)) pa [] L); simpl; auto; [repeat constructor; auto|intros x []|lia].
Qed.
End Embedding.

(* ---- from the executable reference occurs_at to an embedding *)
Section FromReference.
Variables G P : graph.
(* bounded well-formedness of the two graphs (boolean, evaluated on the generated patterns and on every molecule of the check) *)
Definition nodupb (l : list nat) : bool := (fix go l := match l with [] => true | x :: t => negb (memn x t) && go t end) l.
Definition pwfb : bool :=
  forallb (fun p => nodupb (nbrs P p) &&
     forallb (fun q => Nat.ltb q (size P) && negb (Nat.eqb q p) && negb (Nat.eqb (bond P p q) 0) && Nat.eqb (bond P p q) (bond P q p)) (nbrs P p))
    (seq 0 (size P)).
Definition gwfb : bool :=
  forallb (fun a => forallb (fun b => Nat.eqb (bond G a b) (bond G b a) && (Nat.eqb (bond G a b) 0 || memn b (nbrs G a))) (seq 0 (size G))) (seq 0 (size G)).

Lemma nodupb_spec l : nodupb l = true -> NoDup l.
Proof.
  induction l as [|x t IH]; simpl; intros H; [constructor|]. apply andb_prop in H as [H1 H2]. constructor; auto.
  apply memn_false. now destruct (memn x t).
Qed.

Fixpoint goodl (m : list (nat * nat)) : bool :=
  match m with [] => true | (p, x) :: t => compatible G P t p x && Nat.ltb x (size G) && goodl t end.

Lemma embed_spec anchor : forall todo m, goodl m = true -> embed G P todo m anchor = true ->
  exists ext, map fst ext = rev todo /\ goodl (ext ++ m) = true /\ In anchor (map snd (ext ++ m)).
Proof.
  induction todo as [|p ps IH]; intros m Gm H; simpl in H.
  - exists []. simpl. repeat split; auto. apply existsb_exists in H as [q [Iq E]]. apply Nat.eqb_eq in E. subst.
    apply in_map. exact Iq.
  - apply existsb_exists in H as [x [Ix H]]. apply andb_prop in H as [C E].
    assert (Gm' : goodl ((p, x) :: m) = true).
    { simpl. rewrite C, Gm. apply in_seq in Ix. destruct (Nat.ltb_spec x (size G)); [reflexivity|lia]. }
    destruct (IH _ Gm' E) as [ext [K1 [K2 K3]]].
    exists (ext ++ [(p, x)])%list. rewrite map_app, K1. simpl. rewrite <- app_assoc. simpl. repeat split; auto.
Qed.

(* pointwise content of goodl *)
Lemma goodl_in m : goodl m = true -> forall p x, In (p, x) m -> sym P p = sym G x /\ x < size G.
Proof.
  induction m as [|[q y] t IH]; simpl; intros H p x I; [destruct I|].
  apply andb_prop in H as [H H3]. apply andb_prop in H as [H1 H2]. destruct I as [E|I]; [|eauto].
  inversion E; subst. unfold compatible in H1. apply andb_prop in H1 as [H1 _]. apply andb_prop in H1 as [H1 _].
  apply String.eqb_eq in H1. apply Nat.ltb_lt in H2. auto.
Qed.
Lemma goodl_vals m : goodl m = true -> NoDup (map snd m).
Proof.
  induction m as [|[q y] t IH]; simpl; intros H; [constructor|].
  apply andb_prop in H as [H H3]. apply andb_prop in H as [H1 H2]. constructor; auto.
  unfold compatible in H1. apply andb_prop in H1 as [H1 _]. apply andb_prop in H1 as [_ H1].
  intros I. apply in_map_iff in I as [[q' y'] [E I]]. simpl in E. subst y'.
  assert (X : existsb (fun q0 => Nat.eqb (snd q0) y) t = true) by (apply existsb_exists; exists (q', y); split; auto; apply Nat.eqb_refl).
  rewrite X in H1. discriminate.
Qed.
Lemma goodl_pair l1 : forall p x l2, goodl (l1 ++ (p, x) :: l2) = true -> forall q y, In (q, y) l2 ->
  bond P p q = 0 \/ bond P p q = bond G x y.
Proof.
  induction l1 as [|[a b] t IH]; simpl; intros p x l2 H q y I.
  - apply andb_prop in H as [H _]. apply andb_prop in H as [H _]. unfold compatible in H. apply andb_prop in H as [_ H].
    rewrite forallb_forall in H. specialize (H (q, y) I). simpl in H. apply orb_prop in H as [H|H]; apply Nat.eqb_eq in H; auto.
  - apply andb_prop in H as [_ H]. eauto.
Qed.

Definition lookf (m : list (nat * nat)) (p : nat) : nat :=
  match find (fun q => Nat.eqb (fst q) p) m with Some q => snd q | None => 0 end.
Lemma lookf_in (m : list (nat * nat)) p : In p (map fst m) -> In (p, lookf m p) m.
Proof.
  unfold lookf. induction m as [|[a b] t IH]; simpl; intros I; [destruct I|].
  destruct (Nat.eqb_spec a p) as [->|N]; simpl; [left; auto|].
  destruct I as [E|I]; [contradiction|]. right. auto.
Qed.
Lemma in_fst_unique (m : list (nat * nat)) p x y : NoDup (map fst m) -> In (p, x) m -> In (p, y) m -> x = y.
Proof.
  induction m as [|[a b] t IH]; simpl; intros ND I1 I2; [destruct I1|].
  inversion ND as [|? ? Na NDt]; subst.
  destruct I1 as [E1|I1], I2 as [E2|I2].
  - congruence.
  - inversion E1; subst. exfalso. apply Na. apply in_map_iff. exists (p, y). auto.
  - inversion E2; subst. exfalso. apply Na. apply in_map_iff. exists (p, x). auto.
  - eauto.
Qed.
Lemma in_snd_unique (m : list (nat * nat)) p q x : NoDup (map snd m) -> In (p, x) m -> In (q, x) m -> p = q.
Proof.
  induction m as [|[a b] t IH]; simpl; intros ND I1 I2; [destruct I1|].
  inversion ND as [|? ? Nb NDt]; subst.
  destruct I1 as [E1|I1], I2 as [E2|I2].
  - congruence.
  - inversion E1; subst. exfalso. apply Nb. apply in_map_iff. exists (q, x). auto.
  - inversion E2; subst. exfalso. apply Nb. apply in_map_iff. exists (p, x). auto.
  - eauto.
Qed.
Lemma in_split_pair (m : list (nat * nat)) a b : In a m -> In b m -> a <> b ->
  (exists l1 l2, m = (l1 ++ a :: l2)%list /\ In b l2) \/ (exists l1 l2, m = (l1 ++ b :: l2)%list /\ In a l2).
Proof.
  induction m as [|c t IH]; simpl; intros Ia Ib N; [destruct Ia|].
  destruct Ia as [->|Ia].
  - destruct Ib as [E|Ib]; [congruence|]. left. exists [], t. auto.
  - destruct Ib as [->|Ib].
    + right. exists [], t. auto.
    + destruct (IH Ia Ib N) as [[l1 [l2 [E I]]]|[l1 [l2 [E I]]]]; [left|right]; exists (c :: l1), l2; rewrite E; auto.
Qed.

Theorem occurs_at_complete anchor : pwfb = true -> gwfb = true -> occurs_at G P anchor = true -> pattern_match G P anchor = true.
Proof.
  intros WP WG H. unfold occurs_at in H.
  destruct (embed_spec anchor (seq 0 (size P)) [] eq_refl H) as [M [K1 [K2 K3]]]. rewrite app_nil_r in *.
  assert (KN : NoDup (map fst M)) by (rewrite K1; apply NoDup_rev, seq_NoDup).
  assert (KI : forall p, p < size P -> In (p, lookf M p) M).
  { intros p L. apply lookf_in. rewrite K1. apply in_rev. rewrite rev_involutive. apply in_seq. lia. }
  unfold pwfb in WP. rewrite forallb_forall in WP. unfold gwfb in WG. rewrite forallb_forall in WG.
  assert (PW : forall p, p < size P -> NoDup (nbrs P p) /\ forall q, In q (nbrs P p) ->
            q < size P /\ q <> p /\ bond P p q <> 0 /\ bond P p q = bond P q p).
  { intros p L. specialize (WP p ltac:(apply in_seq; lia)). apply andb_prop in WP as [W1 W2]. split; [now apply nodupb_spec|].
    intros q Iq. rewrite forallb_forall in W2. specialize (W2 q Iq).
    apply andb_prop in W2 as [W2 W5]. apply andb_prop in W2 as [W2 W4]. apply andb_prop in W2 as [W2 W3].
    apply Nat.ltb_lt in W2. apply Nat.eqb_eq in W5. repeat split; auto.
    - intros ->. rewrite Nat.eqb_refl in W3. discriminate.
    - intros E. rewrite E in W4. discriminate. }
  assert (GW : forall a b, a < size G -> b < size G -> bond G a b = bond G b a /\ (bond G a b <> 0 -> In b (nbrs G a))).
  { intros a b La Lb. specialize (WG a ltac:(apply in_seq; lia)). rewrite forallb_forall in WG. specialize (WG b ltac:(apply in_seq; lia)).
    apply andb_prop in WG as [W1 W2]. apply Nat.eqb_eq in W1. split; auto. intros N. apply orb_prop in W2 as [W2|W2].
    - apply Nat.eqb_eq in W2. contradiction.
    - now apply memn_In. }
  apply in_map_iff in K3 as [[pa x] [E Ia]]. simpl in E. subst x.
  assert (Lpa : pa < size P).
  { assert (In pa (map fst M)) by (apply in_map_iff; exists (pa, anchor); auto). rewrite K1 in H0. apply in_rev in H0. apply in_seq in H0. lia. }
  assert (Fa : lookf M pa = anchor) by (eapply in_fst_unique; eauto).
  rewrite <- Fa.
  apply (pattern_match_complete G P (lookf M)); auto.
  - (* injective *)
    intros p q Lp Lq E. pose proof (KI p Lp) as I1. pose proof (KI q Lq) as I2. rewrite E in I1.
    pose proof (goodl_vals M K2) as NV. eapply in_snd_unique; eauto.
  - intros p L. symmetry. apply (goodl_in M K2 p _ (KI p L)).
  - intros p q Lp Iq. destruct (PW p Lp) as [_ PQ]. destruct (PQ q Iq) as [Lq [Nqp [B0 Bs]]].
    pose proof (KI p Lp) as I1. pose proof (KI q Lq) as I2.
    destruct (goodl_in M K2 _ _ I1) as [_ G1]. destruct (goodl_in M K2 _ _ I2) as [_ G2].
    destruct (GW _ _ G1 G2) as [S1 S2]. destruct (GW _ _ G2 G1) as [S3 _].
    assert (NE : (p, lookf M p) <> (q, lookf M q)) by (intros X; inversion X; subst; congruence).
    assert (BE : bond G (lookf M p) (lookf M q) = bond P p q).
    { destruct (in_split_pair M _ _ I1 I2 NE) as [[l1 [l2 [EM I]]]|[l1 [l2 [EM I]]]].
      - rewrite EM in K2. destruct (goodl_pair l1 _ _ l2 K2 _ _ I) as [Z|Z]; [contradiction|]. rewrite <- EM in *. auto.
      - rewrite EM in K2. destruct (goodl_pair l1 _ _ l2 K2 _ _ I) as [Z|Z]; rewrite <- ?EM in *.
        + rewrite <- Bs in Z. contradiction.
        + rewrite S1. rewrite <- Z. auto. }
    split; auto. apply S2. rewrite BE. auto.
  - intros p q Lp Iq. destruct (PW p Lp) as [_ PQ]. apply (PQ q Iq).
  - intros p Lp. apply (PW p Lp).
Qed.
End FromReference.
