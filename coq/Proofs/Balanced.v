(* What the validator's "Balance" verdict guarantees for returned rows: C04 (both directions)
   and C01 (every solved row was validated on the very string it returns, unless the reagent
   post-processing replaced it afterwards). *)
From Coq Require Import String ZArith List Bool Arith Lia.
From SynRBL Require Import Base.Dict Base.Strs Base.ListX Model.Comp Model.Matcher Model.Constraint Model.Pipeline
  Proofs.PipelineProofs Proofs.RowLocal.
Import ListNotations.
Open Scope string_scope. Open Scope nat_scope. Open Scope list_scope.

Section B.
Variable OR : oracles.
Variable db : list rule.
Variable ban : list string.
Variable fuel : nat.
Notation validate := (validate OR).
Notation rb_row := (rb_row OR db ban fuel).
Notation F := (F OR db ban fuel).

Definition bal (s : string) : bool :=
  verdict_eqb (compare_dicts (decomp OR (lhs s)) (decomp OR (rhs s))) Balance.
Definition good (s : string) : bool := bal s && is_cbal (carbon_of OR s).

Lemma verdict_eqb_eq a b : verdict_eqb a b = true <-> a = b.
Proof. destruct a, b; simpl; split; intros; congruence. Qed.

Lemma rb_row_balanced r : bal (rxn r) = true -> rb_row r = r.
Proof.
  intros B. unfold bal in B. apply verdict_eqb_eq in B.
  unfold RowLocal.rb_row, rb_solve, rb_water, rb_classify, classify. rewrite B.
  cbn. rewrite andb_false_r. destruct r; reflexivity.
Qed.
Lemma validate_solved m cc ov msg r : solved r = true ->
  validate m cc ov msg r = if cc then set_carbon r (carbon_of OR (rxn r)) else r.
Proof.
  intros S. unfold Pipeline.validate. destruct r as [i x inp s byy iss ca mc ru co]; simpl in *. subst s.
  destruct cc; simpl; rewrite andb_false_r; simpl; rewrite andb_false_r; reflexivity.
Qed.

(* ---- C04, forward: a balanced input passes through unchanged as input-balanced *)
Theorem balanced_passthrough i s : good s = true ->
  F (fresh i s) = mkRow i s s true (Some M_INPUT) None (carbon_of OR s) None None None.
Proof.
  intros G. set (rs := mkRow i s s true (Some M_INPUT) None (carbon_of OR s) None None None).
  assert (B : bal (rxn rs) = true) by (unfold good in G; now apply andb_prop in G).
  assert (E1 : validate M_INPUT true false None (fresh i s) = rs).
  { unfold fresh. rewrite first_pass_row. fold (bal s). fold (good s). now rewrite G. }
  assert (E2 : rb_row rs = rs) by (now apply rb_row_balanced).
  assert (E3 : validate M_RB false true None rs = rs) by (now rewrite validate_solved).
  assert (E4 : mcs_find OR rs = rs) by reflexivity.
  assert (E5 : mcs_impute OR rs = rs) by reflexivity.
  assert (E6 : validate M_MCS true false None rs = rs) by (now rewrite validate_solved).
  assert (E7 : post_process OR rs = rs) by (unfold post_process; cbn [sby rs]; now rewrite String.eqb_refl).
  assert (E8 : validate M_MCS true true (Some FINAL_MSG) rs = rs) by (now rewrite validate_solved).
  assert (E9 : restore OR rs rs = rs).
  { unfold restore, pp_fires. cbn [sby rs]. now rewrite String.eqb_refl. }
  unfold RowLocal.F, RowLocal.G6. now rewrite E1, E2, E3, E4, E5, E6, E7, E2, E9, E8.
Qed.

(* ---- C04, converse: labelled input-balanced only if the input was balanced, nothing added *)
Lemma rb_row_norxn r : norxn (rb_row r) = norxn r.
Proof.
  unfold RowLocal.rb_row. destruct (rb_solve OR db ban fuel r); [apply norxn_set_rxn | apply rb_water_norxn].
Qed.
Lemma methods_rb_row r : methods_ok r -> methods_ok (rb_row r).
Proof. intros H. apply methods_norxn. rewrite rb_row_norxn. now apply methods_norxn. Qed.
Lemma is_input_rb_row r : is_input_row (rb_row r) = is_input_row r.
Proof.
  assert (E : forall x, is_input_row x = is_input_row (norxn x)) by (intros x; destruct x; reflexivity).
  rewrite (E (rb_row r)), rb_row_norxn, <- E. reflexivity.
Qed.

Lemma is_input_restore a b : is_input_row (restore OR a b) = is_input_row b.
Proof.
  assert (E : forall x, is_input_row x = is_input_row (norxn x)) by (intros x; destruct x; reflexivity).
  rewrite (E (restore OR a b)), restore_norxn, <- E. reflexivity.
Qed.
Lemma methods_restore a b : methods_ok b -> methods_ok (restore OR a b).
Proof. intros H. apply methods_norxn. rewrite restore_norxn. now apply methods_norxn. Qed.

Theorem input_balanced_only_if i s : is_input_row (F (fresh i s)) = good s.
Proof.
  destruct (good s) eqn:G.
  - rewrite balanced_passthrough by exact G. reflexivity.
  - unfold RowLocal.F, RowLocal.G6, fresh. rewrite first_pass_row. fold (bal s). fold (good s). rewrite G.
    set (r1 := mkRow i s s false None None (carbon_of OR s) None None None).
    assert (M1 : methods_ok r1) by (split; simpl; [discriminate|reflexivity]).
    assert (M2 := methods_rb_row _ M1).
    assert (M3 := methods_validate OR M_RB false true None _ (or_intror (or_introl eq_refl)) M2).
    assert (M4 := methods_mcs_find OR _ M3).
    assert (M5 := methods_mcs_impute OR _ M4).
    assert (M6 := methods_validate OR M_MCS true false None _ (or_intror (or_intror eq_refl)) M5).
    set (x6 := validate M_MCS true false None (mcs_impute OR (mcs_find OR (validate M_RB false true None (rb_row r1))))) in *.
    assert (M7 := methods_post_process OR _ M6).
    assert (M8 := methods_rb_row _ M7).
    assert (M9 := methods_restore x6 _ M8).
    rewrite sby_validate_other by (auto; discriminate).
    rewrite is_input_restore, is_input_rb_row. unfold is_input_row at 1. rewrite sby_post_process. fold (is_input_row x6). unfold x6.
    rewrite sby_validate_other by (auto; discriminate).
    unfold is_input_row at 1. rewrite sby_mcs_impute, sby_mcs_find.
    fold (is_input_row (validate M_RB false true None (rb_row r1))).
    rewrite sby_validate_other by (auto; discriminate).
    rewrite is_input_rb_row. reflexivity.
Qed.

(* ---- C01: a solved row carries a reaction the validator found balanced, unless the reagent
   post-processing replaced the validated reaction afterwards *)
(* the row as it enters post-processing *)
Definition before_pp (r : row) : row :=
  validate M_MCS true false None (mcs_impute OR (mcs_find OR
     (validate M_RB false true None (rb_row (validate M_INPUT true false None r))))).
Lemma F_split r : F r = validate M_MCS true true (Some FINAL_MSG) (restore OR (before_pp r) (rb_row (post_process OR (before_pp r)))).
Proof. reflexivity. Qed.

Definition J (r : row) : Prop := solved r = true -> bal (rxn r) = true.

Lemma validate_newly m cc ov msg r : solved r = false -> solved (validate m cc ov msg r) = true ->
  bal (rxn (validate m cc ov msg r)) = true.
Proof.
  unfold Pipeline.validate. destruct r as [i x inp s byy iss ca mc ru co]; simpl. intros ->.
  fold (bal x). destruct cc; simpl; rewrite andb_true_r;
  destruct (bal x) eqn:Bx; simpl;
  try (destruct (is_cbal _); simpl); destruct ov; simpl;
  try (destruct msg as [mm|]; simpl); try (destruct iss as [ii|]; simpl; try destruct (String.eqb ii "")); simpl;
  intros; try discriminate; auto.
Qed.
Lemma validate_J m cc ov msg r : J r -> J (validate m cc ov msg r).
Proof.
  intros Jr S. destruct (solved r) eqn:S0.
  - rewrite validate_solved by exact S0. destruct cc; [destruct r; simpl in *|]; auto.
  - now apply validate_newly.
Qed.
Lemma solved_rb_row r : solved (rb_row r) = solved r.
Proof.
  assert (Q : forall x, solved x = solved (norxn x)) by (intros x; destruct x; reflexivity).
  rewrite (Q (rb_row r)), rb_row_norxn, <- Q. reflexivity.
Qed.
Lemma solved_post_process r : solved (post_process OR r) = solved r.
Proof.
  unfold post_process. destruct (sby r) as [m|]; auto. destruct (String.eqb m M_INPUT); auto.
  destruct (pp OR (rxn r)) as [c|]; [|reflexivity]. destruct r; reflexivity.
Qed.
Lemma solved_mcs_find r : solved (mcs_find OR r) = solved r.
Proof. unfold mcs_find. destruct (solved r) eqn:S; auto. destruct (mcs_state OR (rxn r)). destruct r; simpl in *; auto. Qed.
Lemma solved_mcs_impute r : solved (mcs_impute OR r) = solved r.
Proof. unfold mcs_impute. destruct (mcs r) as [[|]|]; auto. destruct (impute OR (rxn r)); destruct r; reflexivity. Qed.
Lemma J_rb_row r : J r -> J (rb_row r).
Proof. intros Jr S. rewrite solved_rb_row in S. rewrite rb_row_balanced; auto. Qed.
Lemma J_mcs_find r : J r -> J (mcs_find OR r).
Proof. intros Jr S. rewrite solved_mcs_find in S. unfold mcs_find in *. rewrite S. auto. Qed.
Lemma J_mcs_impute r : mcs r = None \/ solved r = false -> J r -> J (mcs_impute OR r).
Proof.
  intros [N|U] Jr S; rewrite solved_mcs_impute in S.
  - unfold mcs_impute. rewrite N. auto.
  - congruence.
Qed.
Lemma mcs_validate m cc ov msg r : mcs (validate m cc ov msg r) = mcs r.
Proof. now destruct (validate_fields OR m cc ov msg r) as [_ [_ [E _]]]. Qed.
Lemma mcs_rb_row r : mcs (rb_row r) = mcs r.
Proof.
  assert (Q : forall x, mcs x = mcs (norxn x)) by (intros x; destruct x; reflexivity).
  rewrite (Q (rb_row r)), rb_row_norxn, <- Q. reflexivity.
Qed.
Lemma mcs_find_none_or_unsolved r : mcs r = None ->
  mcs (mcs_find OR r) = None \/ solved (mcs_find OR r) = false.
Proof.
  intros N. unfold mcs_find. destruct (solved r) eqn:S; auto.
  destruct (mcs_state OR (rxn r)). right. destruct r; simpl in *; auto.
Qed.

Lemma J_before_pp i s : J (before_pp (fresh i s)).
Proof.
  unfold before_pp. apply validate_J. apply J_mcs_impute.
  - apply mcs_find_none_or_unsolved. rewrite mcs_validate, mcs_rb_row, mcs_validate. reflexivity.
  - apply J_mcs_find. apply validate_J. apply J_rb_row. apply validate_J. intros X; discriminate.
Qed.

Lemma pp_quiet b : pp_fires OR b = false -> post_process OR b = b.
Proof.
  unfold pp_fires, post_process. destruct (sby b) as [m|]; auto. destruct (String.eqb m M_INPUT); auto.
  destruct (pp OR (rxn b)); [discriminate|reflexivity].
Qed.
Lemma balanced_rxn_bal x : balanced_rxn OR x = true -> bal x = true.
Proof. unfold balanced_rxn, bal. intros H. apply andb_prop in H. tauto. Qed.
Lemma solved_restore a b : solved (restore OR a b) = solved b.
Proof.
  assert (Q : forall x, solved x = solved (norxn x)) by (intros x; destruct x; reflexivity).
  rewrite (Q (restore OR a b)), restore_norxn, <- Q. reflexivity.
Qed.
(* the row after the second rule-based run and the fall-back to the validated reaction *)
Lemma J_after_restore b : J b -> J (restore OR b (rb_row (post_process OR b))).
Proof.
  intros Jb S. rewrite solved_restore, solved_rb_row, solved_post_process in S.
  unfold restore. destruct (pp_fires OR b) eqn:PF; cbn [andb].
  - destruct (balanced_rxn OR (rxn (rb_row (post_process OR b)))) eqn:BZ; cbn [negb].
    + now apply balanced_rxn_bal.
    + assert (RX : forall x c, rxn (set_rxn x c) = c) by (intros [] ?; reflexivity). rewrite RX. now apply Jb.
  - rewrite (pp_quiet b PF). rewrite rb_row_balanced by (now apply Jb). now apply Jb.
Qed.

(* C01, full strength on the model of the repaired pipeline *)
Theorem solved_rows_validated i s : solved (F (fresh i s)) = true -> bal (rxn (F (fresh i s))) = true.
Proof.
  rewrite F_split. apply validate_J. apply J_after_restore. apply J_before_pp.
Qed.

End B.
