(* Invariants of the pipeline model: C03 (declined rows), C13 (threshold), C18 (statistics). *)
From Coq Require Import String ZArith List Bool Arith Lia.
From SynRBL Require Import Base.Dict Base.Strs Base.ListX Model.Comp Model.Matcher Model.Constraint Model.Pipeline.
Import ListNotations.
Open Scope string_scope. Open Scope nat_scope.

Section P.
Variable OR : oracles.
Variable db : list rule.
Variable ban : list string.
Variable fuel : nat.
Notation validate := (validate OR).
Notation rule_based := (rule_based OR db ban fuel).
Notation mcs_find := (mcs_find OR).
Notation mcs_impute := (mcs_impute OR).
Notation post_process := (post_process OR).
Notation conf_one := (conf_one OR).
Notation stages_before_conf := (stages_before_conf OR db ban fuel).
Notation run := (run OR db ban fuel).

(* ---------------------------------------------------------------- rxn-only stages *)
Definition norxn (r : row) : row := set_rxn r "".
Lemma norxn_set_rxn r s : norxn (set_rxn r s) = norxn r.
Proof. destruct r; reflexivity. Qed.
Lemma upd_nth_norxn s l : forall n, map norxn (upd_nth n (fun r => set_rxn r s) l) = map norxn l.
Proof.
  induction l as [|x t IH]; intros n; [destruct n; reflexivity|].
  destruct n; cbn [upd_nth map]; [now rewrite norxn_set_rxn | now rewrite IH].
Qed.
Lemma write_back_norxn cs : forall l, map norxn (write_back l cs) = map norxn l.
Proof.
  unfold write_back. induction cs as [|c t IH]; intros l; simpl; auto.
  rewrite IH. apply upd_nth_norxn.
Qed.
Lemma rb_water_norxn r : norxn (rb_water OR r) = norxn r.
Proof.
  unfold rb_water. destruct (rb_classify OR r) as [[[rx p] v] d]. apply norxn_set_rxn.
Qed.
Lemma rule_based_norxn rows : map norxn (rule_based rows) = map norxn rows.
Proof.
  unfold Pipeline.rule_based. rewrite write_back_norxn, map_map.
  apply map_ext. apply rb_water_norxn.
Qed.
Lemma Forall_norxn (P : row -> Prop) l l' :
  (forall r, P r <-> P (norxn r)) -> map norxn l = map norxn l' -> Forall P l -> Forall P l'.
Proof.
  intros H E F. apply Forall_forall. intros r' I.
  assert (I' : In (norxn r') (map norxn l)) by (rewrite E; now apply in_map).
  apply in_map_iff in I' as [r [E2 Ir]]. rewrite Forall_forall in F.
  apply (proj2 (H r')). rewrite <- E2. apply (proj1 (H r)). now apply F.
Qed.
Lemma rule_based_Forall (P : row -> Prop) rows :
  (forall r, P r <-> P (norxn r)) -> Forall P rows -> Forall P (rule_based rows).
Proof. intros H. apply Forall_norxn; auto. symmetry. apply rule_based_norxn. Qed.
Lemma restore_norxn a b : norxn (restore OR a b) = norxn b.
Proof. unfold Pipeline.restore. destruct (pp_fires OR a && negb (balanced_rxn OR (rxn b))); [apply norxn_set_rxn|reflexivity]. Qed.
Lemma map2_restore_Forall (P : row -> Prop) l1 : (forall r, P r <-> P (norxn r)) -> forall l2, Forall P l2 -> Forall P (map2 (restore OR) l1 l2).
Proof.
  intros H. induction l1 as [|a t IH]; intros l2 F; simpl; [constructor|]. destruct l2 as [|b u]; [constructor|].
  inversion F; subst. constructor; auto. apply (proj2 (H _)). rewrite restore_norxn. now apply (proj1 (H _)).
Qed.
Lemma rule_based_length rows : length (rule_based rows) = length rows.
Proof. rewrite <- (map_length norxn (rule_based rows)), rule_based_norxn. apply map_length. Qed.
Lemma map2_restore_obs {B} (g : row -> B) l1 : (forall r, g r = g (norxn r)) -> forall l2, length l1 = length l2 -> map g (map2 (restore OR) l1 l2) = map g l2.
Proof.
  intros H. induction l1 as [|a t IH]; intros [|b u] L; simpl in *; try discriminate; auto.
  rewrite (H (restore OR a b)), restore_norxn, <- H. f_equal. apply IH. congruence.
Qed.
Lemma Forall_map_stage (P Q : row -> Prop) (f : row -> row) l :
  (forall r, P r -> Q (f r)) -> Forall P l -> Forall Q (map f l).
Proof. intros H F. apply Forall_forall. intros y I. apply in_map_iff in I as [x [<- Ix]].
  rewrite Forall_forall in F. auto. Qed.

(* ---------------------------------------------------------------- field facts of the stages *)
Lemma validate_fields m cc ov msg r :
  rinput (validate m cc ov msg r) = rinput r /\ rid (validate m cc ov msg r) = rid r /\
  mcs (validate m cc ov msg r) = mcs r /\ rules (validate m cc ov msg r) = rules r /\
  conf (validate m cc ov msg r) = conf r /\
  (solved r = true -> solved (validate m cc ov msg r) = true /\ sby (validate m cc ov msg r) = sby r /\
                      issue (validate m cc ov msg r) = issue r /\ rxn (validate m cc ov msg r) = rxn r) /\
  (solved (validate m cc ov msg r) = true -> solved r = false ->
     sby (validate m cc ov msg r) = Some m /\ issue (validate m cc ov msg r) = issue r /\
     rxn (validate m cc ov msg r) = rxn r) /\
  (solved (validate m cc ov msg r) = false -> sby (validate m cc ov msg r) = sby r).
Proof.
  unfold Pipeline.validate.
  destruct r as [i x inp s byy iss ca mc ru co]; destruct cc, s; simpl;
  rewrite ?andb_false_r, ?andb_true_r; simpl;
  try (destruct (verdict_eqb _ _ && is_cbal _) eqn:G; simpl);
  destruct ov; simpl; try (destruct msg as [mm|]; simpl);
  try (destruct iss as [ii|]; simpl; try destruct (String.eqb ii "")); simpl;
  repeat split; intros; try congruence; auto.
Qed.

Lemma validate_issue_none m cc ov r : issue (validate m cc ov None r) = issue r.
Proof.
  unfold Pipeline.validate.
  destruct r as [i x inp s byy iss ca mc ru co]; destruct cc, s; simpl;
  rewrite ?andb_false_r, ?andb_true_r; simpl;
  try (destruct (verdict_eqb _ _ && is_cbal _) eqn:G; simpl);
  destruct ov; simpl; auto.
Qed.

(* ---------------------------------------------------------------- C03 *)
(* after the MCS search every unsolved row carries an issue text *)
Definition A (r : row) : Prop := solved r = true \/ exists s, issue r = Some s.
Lemma A_norxn r : A r <-> A (norxn r).
Proof. destruct r; unfold A; simpl; tauto. Qed.
Lemma A_mcs_find r : A (mcs_find r).
Proof.
  unfold Pipeline.mcs_find, A. destruct (solved r) eqn:S; [left; auto|].
  destruct (mcs_state OR (rxn r)) as [n i]. right. destruct r; simpl in *. eauto.
Qed.
Lemma A_mcs_impute r : A r -> A (mcs_impute r).
Proof.
  unfold Pipeline.mcs_impute, A. destruct (mcs r) as [[|]|]; auto.
  destruct (impute OR (rxn r)); destruct r; simpl; intros [H|[s H]]; eauto.
Qed.
Lemma A_validate m cc ov r : A r -> A (validate m cc ov None r).
Proof.
  intros H. unfold A in *. pose proof (validate_fields m cc ov None r) as F.
  destruct F as [_ [_ [_ [_ [_ [F1 [F2 F3]]]]]]].
  destruct (solved r) eqn:S.
  - left. now apply F1.
  - destruct H as [H|[s H]]; [discriminate|].
    destruct (solved (validate m cc ov None r)) eqn:S2; [left; auto|right].
    exists s. now rewrite validate_issue_none.
Qed.
Lemma A_post_process r : A r -> A (post_process r).
Proof.
  unfold Pipeline.post_process. destruct (sby r) as [m|]; auto.
  destruct (String.eqb m M_INPUT); auto. destruct (pp OR (rxn r)) as [c|]; [|tauto].
  intros H. apply A_norxn. rewrite norxn_set_rxn. now apply A_norxn.
Qed.

(* what the final override pass establishes *)
Definition Q (r : row) : Prop :=
  solved r = false -> rxn r = rinput r /\ exists s, issue r = Some s /\ s <> "".
Lemma Q_final r : A r -> Q (validate M_MCS true true (Some FINAL_MSG) r).
Proof.
  intros H S. unfold Pipeline.validate in *.
  destruct r as [i x inp s0 byy iss ca mc ru co]; unfold A in H; simpl in *.
  destruct s0; simpl in *.
  - rewrite andb_false_r in *. simpl in *. discriminate.
  - destruct H as [H|[s H]]; [discriminate|]. subst iss. rewrite andb_true_r in *.
    destruct (verdict_eqb _ _ && is_cbal _) eqn:E; simpl in *; [discriminate|].
    destruct (String.eqb_spec s "") as [->|N]; simpl; split; auto.
    + exists FINAL_MSG. split; auto. discriminate.
    + exists s. auto.
Qed.

Lemma stages_A rows0 : Forall A (map mcs_find
  (map (validate M_RB false true None) (rule_based (map (validate M_INPUT true false None) rows0)))).
Proof. apply Forall_forall. intros r I. apply in_map_iff in I as [x [<- _]]. apply A_mcs_find. Qed.

Lemma stages_Q rows0 : Forall Q (fst (stages_before_conf rows0)).
Proof.
  unfold Pipeline.stages_before_conf. simpl.
  eapply Forall_map_stage; [intros r; apply Q_final|].
  apply map2_restore_Forall; [apply A_norxn|].
  apply rule_based_Forall; [apply A_norxn|].
  eapply Forall_map_stage; [apply A_post_process|].
  eapply Forall_map_stage; [apply A_validate|].
  eapply Forall_map_stage; [apply A_mcs_impute|].
  apply stages_A.
Qed.

Lemma all_done_inv {B} (l : list (outcome B)) l' :
  all_done l = Done l' -> Forall2 (fun a b => a = Done b) l l'.
Proof.
  revert l'. induction l as [|[a|w] t IH]; simpl; intros l' H.
  - inversion H. constructor.
  - destruct (all_done t) as [t'|w]; [|discriminate]. inversion H; subst. constructor; auto.
  - discriminate.
Qed.
Lemma all_done_map_in {B C} (f : B -> outcome C) l l' y :
  all_done (map f l) = Done l' -> In y l' -> exists x, In x l /\ f x = Done y.
Proof.
  intros H I. apply all_done_inv in H. remember (map f l) as m. revert l Heqm.
  induction H; intros l0 E; [destruct I|].
  destruct l0 as [|x0 t0]; [discriminate|]. simpl in E. inversion E; subst.
  destruct I as [<-|I]; [exists x0; split; [left|]; auto|].
  destruct (IHForall2 I t0 eq_refl) as [x [Ix Fx]]. exists x. split; [right|]; auto.
Qed.

(* confidence stage: never demotes when every score is at least the threshold *)
Lemma conf_one_keeps t tmsg r r' :
  (forall a b, (confidence OR a b >= t)%Z) -> conf_one t tmsg r = Done r' ->
  rxn r' = rxn r /\ rinput r' = rinput r /\ solved r' = solved r /\ issue r' = issue r /\ sby r' = sby r.
Proof.
  intros C H. unfold Pipeline.conf_one in H. destruct (is_mcs_row r).
  - specialize (C (rinput r) (rxn r)).
    destruct (confidence OR (rinput r) (rxn r) >=? t)%Z eqn:E; [|rewrite Z.geb_leb in E; apply Z.leb_gt in E; lia].
    inversion H; subst. destruct r; simpl; auto.
  - inversion H; subst; auto.
Qed.

Theorem declined_untouched t tmsg ins rows st :
  (forall a b, (confidence OR a b >= t)%Z) ->
  run t tmsg ins = Done (rows, st) ->
  forall r, In r rows -> solved r = false ->
    rxn r = rinput r /\ exists s, issue r = Some s /\ s <> "".
Proof.
  intros C H r I S. unfold Pipeline.run in H.
  destruct (preprocess OR ins) as [rows0|w]; [|discriminate].
  pose proof (stages_Q rows0) as SQ.
  destruct (stages_before_conf rows0) as [r9 st0]. simpl in SQ.
  destruct (all_done (map (conf_one t tmsg) r9)) as [r10|w] eqn:AD; [|discriminate].
  inversion H; subst. destruct (all_done_map_in _ _ _ _ AD I) as [x [Ix Fx]].
  destruct (conf_one_keeps t tmsg x r C Fx) as [E1 [E2 [E3 [E4 E5]]]].
  rewrite Forall_forall in SQ. specialize (SQ x Ix). unfold Q in SQ.
  rewrite E1, E2, E4. apply SQ. congruence.
Qed.

(* solved rows name one of the three methods; rows not solved by the MCS method carry no issue *)
Definition methods_ok (r : row) : Prop :=
  (solved r = true -> sby r = Some M_INPUT \/ sby r = Some M_RB \/ sby r = Some M_MCS) /\
  (solved r = false -> sby r = None).
Lemma methods_norxn r : methods_ok r <-> methods_ok (norxn r).
Proof. destruct r; unfold methods_ok; simpl; tauto. Qed.
Lemma methods_validate m cc ov msg r :
  (m = M_INPUT \/ m = M_RB \/ m = M_MCS) -> methods_ok r -> methods_ok (validate m cc ov msg r).
Proof.
  intros Hm [H1 H2]. pose proof (validate_fields m cc ov msg r) as F.
  destruct F as [_ [_ [_ [_ [_ [F1 [F2 F3]]]]]]]. split.
  - intros S. destruct (solved r) eqn:S0.
    + destruct (F1 eq_refl) as [_ [E _]]. rewrite E. auto.
    + destruct (F2 S eq_refl) as [E _]. rewrite E. destruct Hm as [-> | [-> | ->]]; auto.
  - intros S. rewrite (F3 S). apply H2. destruct (solved r) eqn:S0; auto.
    destruct (F1 eq_refl) as [E _]. congruence.
Qed.
Lemma methods_mcs_find r : methods_ok r -> methods_ok (mcs_find r).
Proof.
  unfold Pipeline.mcs_find. destruct (solved r); auto. destruct (mcs_state OR (rxn r)).
  destruct r; unfold methods_ok; simpl; auto.
Qed.
Lemma methods_mcs_impute r : methods_ok r -> methods_ok (mcs_impute r).
Proof.
  unfold Pipeline.mcs_impute. destruct (mcs r) as [[|]|]; auto.
  destruct (impute OR (rxn r)); destruct r; unfold methods_ok; simpl; auto.
Qed.
Lemma methods_post_process r : methods_ok r -> methods_ok (post_process r).
Proof.
  unfold Pipeline.post_process. destruct (sby r) as [m|] eqn:E; auto.
  destruct (String.eqb m M_INPUT); auto. destruct (pp OR (rxn r)) as [c|]; [|tauto].
  intros H. apply methods_norxn. rewrite norxn_set_rxn. now apply methods_norxn.
Qed.
Lemma number_methods l : forall i, Forall methods_ok (number i l).
Proof. induction l; intros i; simpl; constructor; auto. split; simpl; auto; discriminate. Qed.

Lemma stages_methods rows0 : Forall methods_ok rows0 -> Forall methods_ok (fst (stages_before_conf rows0)).
Proof.
  intros H. unfold Pipeline.stages_before_conf. simpl.
  eapply Forall_map_stage; [intros r; apply methods_validate; auto|].
  apply map2_restore_Forall; [apply methods_norxn|].
  apply rule_based_Forall; [apply methods_norxn|].
  eapply Forall_map_stage; [apply methods_post_process|].
  eapply Forall_map_stage; [intros r; apply methods_validate; auto|].
  eapply Forall_map_stage; [apply methods_mcs_impute|].
  eapply Forall_map_stage; [apply methods_mcs_find|].
  eapply Forall_map_stage; [intros r; apply methods_validate; auto|].
  apply rule_based_Forall; [apply methods_norxn|].
  eapply Forall_map_stage; [intros r; apply methods_validate; auto|]. exact H.
Qed.

Lemma preprocess_rows ins rows0 : preprocess OR ins = Done rows0 -> exists l, rows0 = number 0 l.
Proof.
  unfold Pipeline.preprocess. destruct (negb _); [discriminate|].
  destruct (filter _ _) as [|s0 l0] eqn:E; [discriminate|]. intros [= <-]. exists (s0 :: l0). reflexivity.
Qed.

Theorem solved_named t tmsg ins rows st :
  run t tmsg ins = Done (rows, st) ->
  forall r, In r rows -> solved r = true ->
    sby r = Some M_INPUT \/ sby r = Some M_RB \/ sby r = Some M_MCS.
Proof.
  intros H r I S. unfold Pipeline.run in H.
  destruct (preprocess OR ins) as [rows0|w] eqn:PP; [|discriminate].
  destruct (preprocess_rows _ _ PP) as [l ->].
  pose proof (stages_methods _ (number_methods l 0)) as SM.
  destruct (stages_before_conf (number 0 l)) as [r9 st0]. simpl in SM.
  destruct (all_done (map (conf_one t tmsg) r9)) as [r10|w] eqn:AD; [|discriminate].
  inversion H; subst. destruct (all_done_map_in _ _ _ _ AD I) as [x [Ix Fx]].
  rewrite Forall_forall in SM. destruct (SM x Ix) as [M1 M2].
  unfold Pipeline.conf_one in Fx. destruct (is_mcs_row x) eqn:IM.
  - destruct (confidence OR (rinput x) (rxn x) >=? t)%Z.
    + inversion Fx; subst. destruct x; simpl in *. auto.
    + destruct x as [i xx inp s0 byy iss ca mc ru co]; simpl in *.
      destruct iss as [[|]|]; try discriminate. inversion Fx; subst. simpl in S. discriminate.
  - inversion Fx; subst. auto.
Qed.

(* ---------------------------------------------------------------- C13: the threshold *)
Lemma all_done_rel {B C D} (f : B -> outcome C) (g : B -> outcome D) (R : C -> D -> Prop) l a b :
  all_done (map f l) = Done a -> all_done (map g l) = Done b ->
  (forall x y z, In x l -> f x = Done y -> g x = Done z -> R y z) -> Forall2 R a b.
Proof.
  revert a b. induction l as [|x t IH]; simpl; intros a b Ha Hb H.
  - inversion Ha; inversion Hb; constructor.
  - destruct (f x) as [y|] eqn:Fx; [|discriminate]. destruct (g x) as [z|] eqn:Gx; [|discriminate].
    destruct (all_done (map f t)) as [a'|]; [|discriminate].
    destruct (all_done (map g t)) as [b'|]; [|discriminate].
    inversion Ha; inversion Hb; subst. constructor; eauto.
Qed.

Lemma mcs_row_solved x : methods_ok x -> is_mcs_row x = true -> solved x = true.
Proof.
  intros [_ M] I. destruct (solved x) eqn:S; auto.
  unfold is_mcs_row in I. rewrite (M eq_refl) in I. discriminate.
Qed.

(* one row through the confidence stage *)
Lemma conf_one_spec t tmsg x r : methods_ok x -> conf_one t tmsg x = Done r ->
  rxn r = rxn x /\ rinput r = rinput x /\ sby r = sby x /\ rules r = rules x /\
  (is_mcs_row x = false -> r = x) /\
  (is_mcs_row x = true ->
     conf r = Some (confidence OR (rinput x) (rxn x)) /\
     solved r = (confidence OR (rinput x) (rxn x) >=? t)%Z /\
     (solved r = false -> issue r = Some tmsg)).
Proof.
  intros M H. unfold Pipeline.conf_one in H. destruct (is_mcs_row x) eqn:I.
  - pose proof (mcs_row_solved x M I) as S.
    destruct (confidence OR (rinput x) (rxn x) >=? t)%Z eqn:E.
    + inversion H; subst. destruct x; simpl in *. repeat split; auto; try discriminate. congruence.
    + destruct x as [i xx inp s0 byy iss ca mc ru co]; simpl in *.
      destruct iss as [[|]|]; try discriminate. inversion H; subst. simpl.
      repeat split; auto; discriminate.
  - inversion H; subst. repeat split; auto; discriminate.
Qed.

Lemma run_inv t tmsg ins rows st : run t tmsg ins = Done (rows, st) ->
  exists l, preprocess OR ins = Done (number 0 l) /\
            all_done (map (conf_one t tmsg) (fst (stages_before_conf (number 0 l)))) = Done rows /\
            Forall methods_ok (fst (stages_before_conf (number 0 l))).
Proof.
  intros H. unfold Pipeline.run in H.
  destruct (preprocess OR ins) as [rows0|w] eqn:PP; [|discriminate].
  destruct (preprocess_rows _ _ PP) as [l ->]. exists l. split; auto.
  pose proof (stages_methods _ (number_methods l 0)) as SM.
  destruct (stages_before_conf (number 0 l)) as [r9 st0]. simpl in *.
  destruct (all_done (map (conf_one t tmsg) r9)) as [r10|w] eqn:AD; [|discriminate].
  inversion H; subst. auto.
Qed.

Theorem conf_threshold_exact t tmsg ins rows st :
  run t tmsg ins = Done (rows, st) ->
  forall r, In r rows -> sby r = Some M_MCS ->
    exists c, conf r = Some c /\ (solved r = true <-> (c >= t)%Z) /\
              (solved r = false -> issue r = Some tmsg).
Proof.
  intros H r I B. destruct (run_inv _ _ _ _ _ H) as [l [_ [AD SM]]].
  destruct (all_done_map_in _ _ _ _ AD I) as [x [Ix Fx]].
  rewrite Forall_forall in SM.
  destruct (conf_one_spec t tmsg x r (SM x Ix) Fx) as [_ [_ [E3 [_ [_ K]]]]].
  assert (IM : is_mcs_row x = true) by (unfold is_mcs_row; rewrite <- E3, B; reflexivity).
  destruct (K IM) as [K1 [K2 K3]]. eexists. split; [exact K1|]. split; auto.
  rewrite K2. rewrite Z.geb_leb, Z.leb_le. lia.
Qed.

(* two thresholds on the same input: scores identical, everything but the demotion identical,
   and raising the threshold never turns an unsolved row into a solved one *)
Theorem conf_two_thresholds t t' m m' ins rows rows' st st' :
  run t m ins = Done (rows, st) -> run t' m' ins = Done (rows', st') ->
  Forall2 (fun r r' =>
    conf r = conf r' /\ rxn r = rxn r' /\ rinput r = rinput r' /\ sby r = sby r' /\ rules r = rules r' /\
    (sby r <> Some M_MCS -> r = r') /\
    ((t <= t')%Z -> solved r' = true -> solved r = true)) rows rows'.
Proof.
  intros H H'. destruct (run_inv _ _ _ _ _ H) as [l [P [AD SM]]].
  destruct (run_inv _ _ _ _ _ H') as [l' [P' [AD' _]]].
  rewrite P in P'. inversion P' as [E].
  assert (l = l').
  { clear -E. revert l' E. generalize 0%nat. induction l as [|a t IH]; intros n [|a' t'] E; simpl in E; try discriminate; auto.
    inversion E; subst. f_equal. eapply IH; eauto. }
  subst l'. rewrite Forall_forall in SM.
  eapply all_done_rel; [exact AD|exact AD'|]. intros x y z Ix Fy Fz.
  destruct (conf_one_spec t m x y (SM x Ix) Fy) as [A1 [A2 [A3 [A4 [A5 A6]]]]].
  destruct (conf_one_spec t' m' x z (SM x Ix) Fz) as [B1 [B2 [B3 [B4 [B5 B6]]]]].
  destruct (is_mcs_row x) eqn:IM.
  - destruct (A6 eq_refl) as [C1 [C2 _]]. destruct (B6 eq_refl) as [D1 [D2 _]].
    repeat split; try congruence.
    + intros N. exfalso. apply N. rewrite A3. unfold is_mcs_row in IM.
      destruct (sby x) as [mm|]; [|discriminate]. apply String.eqb_eq in IM. now subst.
    + intros L S. rewrite D2 in S. rewrite C2. rewrite Z.geb_leb, Z.leb_le in *. lia.
  - rewrite (A5 eq_refl), (B5 eq_refl). repeat split; auto.
Qed.

(* ---------------------------------------------------------------- C18: statistics *)
Lemma count_if_map {B} (g : B -> bool) (l : list B) :
  count_if g l = length (filter (fun b : bool => b) (map g l)).
Proof. unfold count_if. induction l as [|x t IH]; simpl; auto. destruct (g x); simpl; auto. Qed.
Lemma map_obs_stage {B} (g : row -> B) (f : row -> row) (P : row -> Prop) l :
  Forall P l -> (forall r, P r -> g (f r) = g r) -> map g (map f l) = map g l.
Proof.
  intros F H. rewrite map_map. apply map_ext_in. intros r I. rewrite Forall_forall in F. auto.
Qed.
Lemma map_obs_rule_based {B} (g : row -> B) rows :
  (forall r, g r = g (norxn r)) -> map g (rule_based rows) = map g rows.
Proof.
  intros H.
  assert (E : forall l, map g l = map g (map norxn l)).
  { intros l. rewrite map_map. apply map_ext. auto. }
  rewrite (E (rule_based rows)), rule_based_norxn, <- E. reflexivity.
Qed.

Definition is_input_row (r : row) : bool :=
  match sby r with Some m => String.eqb m M_INPUT | None => false end.
Definition is_rb_row (r : row) : bool :=
  match sby r with Some m => String.eqb m M_RB | None => false end.
Definition early (r : row) : bool := is_input_row r || is_rb_row r.

Lemma rb_verdict_balance r :
  verdict_eqb (rb_verdict OR r) Balance =
  verdict_eqb (compare_dicts (decomp OR (lhs (rxn r))) (decomp OR (rhs (rxn r)))) Balance.
Proof.
  unfold rb_verdict, rb_classify, classify.
  destruct (compare_dicts (decomp OR (lhs (rxn r))) (decomp OR (rhs (rxn r)))) eqn:C; simpl; auto.
  unfold reverse_if_negative.
  destruct (Nat.eqb _ 2 && mem _ "Q").
  - destruct (existsb _ _); simpl; auto.
  - simpl. destruct (get _ "O"); simpl; auto. destruct (_ >=? 0)%Z; auto.
Qed.

(* the first validation pass, on freshly numbered rows *)
Lemma first_pass_row i s :
  validate M_INPUT true false None (mkRow i s s false None None CBalanced None None None) =
  if verdict_eqb (compare_dicts (decomp OR (lhs s)) (decomp OR (rhs s))) Balance && is_cbal (carbon_of OR s)
  then mkRow i s s true (Some M_INPUT) None (carbon_of OR s) None None None
  else mkRow i s s false None None (carbon_of OR s) None None None.
Proof.
  unfold Pipeline.validate. simpl. rewrite andb_true_r.
  destruct (verdict_eqb _ _ && is_cbal _); reflexivity.
Qed.
Lemma first_pass_counts l : forall i,
  rb_balanced_cnt OR (map (validate M_INPUT true false None) (number i l)) =
  count_if is_input_row (map (validate M_INPUT true false None) (number i l)).
Proof.
  unfold rb_balanced_cnt, count_if.
  induction l as [|s t IH]; intros i; [reflexivity|].
  cbn [number map]. rewrite first_pass_row. cbn [filter].
  rewrite rb_verdict_balance.
  destruct (verdict_eqb (compare_dicts (decomp OR (lhs s)) (decomp OR (rhs s))) Balance) eqn:V;
  destruct (is_cbal (carbon_of OR s)) eqn:Cb; cbn [andb carbon rxn is_input_row sby];
  rewrite ?V, ?Cb; cbn [andb length]; rewrite ?IH; reflexivity.
Qed.

(* observables that no later stage changes *)
Lemma sby_validate_other m cc ov msg r : m <> M_INPUT -> methods_ok r ->
  is_input_row (validate m cc ov msg r) = is_input_row r.
Proof.
  intros Nm [M1 M2]. pose proof (validate_fields m cc ov msg r) as F.
  destruct F as [_ [_ [_ [_ [_ [F1 [F2 F3]]]]]]]. unfold is_input_row.
  destruct (solved r) eqn:S.
  - destruct (F1 eq_refl) as [_ [E _]]. now rewrite E.
  - rewrite (M2 eq_refl). destruct (solved (validate m cc ov msg r)) eqn:S2.
    + destruct (F2 eq_refl eq_refl) as [E _]. rewrite E. apply String.eqb_neq. exact Nm.
    + rewrite (F3 eq_refl), (M2 eq_refl). reflexivity.
Qed.
Lemma sby_mcs_find r : sby (mcs_find r) = sby r.
Proof. unfold Pipeline.mcs_find. destruct (solved r); auto. destruct (mcs_state OR (rxn r)). destruct r; reflexivity. Qed.
Lemma sby_mcs_impute r : sby (mcs_impute r) = sby r.
Proof. unfold Pipeline.mcs_impute. destruct (mcs r) as [[|]|]; auto. destruct (impute OR (rxn r)); destruct r; reflexivity. Qed.
Lemma sby_post_process r : sby (post_process r) = sby r.
Proof.
  unfold Pipeline.post_process. destruct (sby r) as [m|] eqn:E; auto.
  destruct (String.eqb m M_INPUT); auto. destruct (pp OR (rxn r)) as [c|]; [|auto]. destruct r; simpl in *; auto.
Qed.
Lemma early_validate_mcs cc ov msg r : methods_ok r -> early (validate M_MCS cc ov msg r) = early r.
Proof.
  intros [M1 M2]. pose proof (validate_fields M_MCS cc ov msg r) as F.
  destruct F as [_ [_ [_ [_ [_ [F1 [F2 F3]]]]]]]. unfold early, is_input_row, is_rb_row.
  destruct (solved r) eqn:S.
  - destruct (F1 eq_refl) as [_ [E _]]. now rewrite E.
  - rewrite (M2 eq_refl). destruct (solved (validate M_MCS cc ov msg r)) eqn:S2.
    + destruct (F2 eq_refl eq_refl) as [E _]. rewrite E. reflexivity.
    + rewrite (F3 eq_refl), (M2 eq_refl). reflexivity.
Qed.

Lemma all_done_obs {B C D} (f : B -> outcome C) (g : C -> D) (h : B -> D) l a :
  all_done (map f l) = Done a -> (forall x y, In x l -> f x = Done y -> g y = h x) -> map g a = map h l.
Proof.
  revert a. induction l as [|x t IH]; simpl; intros a Ha H.
  - inversion Ha; reflexivity.
  - destruct (f x) as [y|] eqn:Fx; [|discriminate].
    destruct (all_done (map f t)) as [a'|]; [|discriminate]. inversion Ha; subst. simpl.
    f_equal; eauto.
Qed.
Lemma count_if_ext_map {B C} (g : B -> bool) (h : C -> bool) l m :
  map g l = map h m -> count_if g l = count_if h m.
Proof. intros E. rewrite !count_if_map, E. reflexivity. Qed.

(* a row is "early" (input-balanced or rule-based) exactly when it is solved before the search *)
Definition pre_mcs (r : row) : Prop :=
  (solved r = true -> early r = true) /\ (solved r = false -> sby r = None) /\ mcs r = None.
Lemma pre_mcs_norxn r : pre_mcs r <-> pre_mcs (norxn r).
Proof. destruct r; unfold pre_mcs, early, is_input_row, is_rb_row; simpl; tauto. Qed.
Lemma pre_mcs_validate m cc ov msg r : (m = M_INPUT \/ m = M_RB) -> pre_mcs r -> pre_mcs (validate m cc ov msg r).
Proof.
  intros Hm [P1 [P2 P3]]. pose proof (validate_fields m cc ov msg r) as F.
  destruct F as [_ [_ [Fm [_ [_ [F1 [F2 F3]]]]]]]. repeat split.
  - intros S. unfold early, is_input_row, is_rb_row in *. destruct (solved r) eqn:S0.
    + destruct (F1 eq_refl) as [_ [E _]]. rewrite E. auto.
    + destruct (F2 S eq_refl) as [E _]. rewrite E. destruct Hm as [-> | ->]; reflexivity.
  - intros S. rewrite (F3 S). apply P2. destruct (solved r) eqn:S0; auto.
    destruct (F1 eq_refl) as [E _]. congruence.
  - now rewrite Fm.
Qed.
Lemma number_pre_mcs l : forall i, Forall pre_mcs (number i l).
Proof. induction l; intros i; simpl; constructor; auto. repeat split; simpl; auto; discriminate. Qed.

Lemma mcs_find_key r : pre_mcs r -> has_mcs_key (mcs_find r) = negb (early r).
Proof.
  intros [P1 [P2 P3]]. unfold Pipeline.mcs_find, has_mcs_key. destruct (solved r) eqn:S.
  - rewrite P3, (P1 eq_refl). reflexivity.
  - destruct (mcs_state OR (rxn r)). unfold early, is_input_row, is_rb_row.
    destruct r; simpl in *. rewrite (P2 eq_refl). reflexivity.
Qed.
Lemma pre_mcs_methods r : pre_mcs r -> methods_ok r.
Proof.
  intros [P1 [P2 _]]. split; auto. intros S. specialize (P1 S). unfold early, is_input_row, is_rb_row in P1.
  destruct (sby r) as [m|]; [|discriminate]. apply orb_prop in P1 as [E|E]; apply String.eqb_eq in E; subst; auto.
Qed.

Lemma length_flat_map_le {B C} (f : B -> list C) (g : B -> bool) l :
  (forall x, length (f x) <= (if g x then 1 else 0)) -> length (flat_map f l) <= count_if g l.
Proof.
  intros H. unfold count_if. induction l as [|x t IH]; simpl; auto. rewrite app_length.
  specialize (H x). destruct (g x); simpl; lia.
Qed.
Lemma count_if_le {B} (g h : B -> bool) l : (forall x, g x = true -> h x = true) -> count_if g l <= count_if h l.
Proof.
  intros H. unfold count_if. induction l as [|x t IH]; simpl; auto.
  destruct (g x) eqn:G; [rewrite (H x G); simpl; lia | destruct (h x); simpl; lia].
Qed.

Theorem stats_agree t tmsg ins rows st :
  run t tmsg ins = Done (rows, st) ->
  reaction_cnt st = length ins /\
  balanced_cnt st = count_if is_input_row rows /\
  confident_cnt st = count_if (fun r => solved r && is_mcs_row r) rows /\
  mcs_applied st = count_if (fun r => negb (early r)) rows /\
  rb_solved st <= rb_applied st /\ mcs_solved st <= mcs_applied st.
Proof.
  intros H. unfold Pipeline.run in H.
  destruct (preprocess OR ins) as [rows0|w] eqn:PP; [|discriminate].
  destruct (preprocess_rows _ _ PP) as [l ->].
  unfold Pipeline.stages_before_conf in H.
  set (r1 := map (validate M_INPUT true false None) (number 0 l)) in *.
  set (r2 := rule_based r1) in *.
  set (r3 := map (validate M_RB false true None) r2) in *.
  set (r4 := map mcs_find r3) in *.
  set (r5 := map mcs_impute r4) in *.
  set (r6 := map (validate M_MCS true false None) r5) in *.
  set (r7 := map post_process r6) in *.
  set (r8a := rule_based r7) in *.
  set (r8 := map2 (restore OR) r6 r8a) in *.
  set (r9 := map (validate M_MCS true true (Some FINAL_MSG)) r8) in *.
  assert (L68 : length r6 = length r8a) by (unfold r8a, r7; now rewrite rule_based_length, map_length).
  destruct (all_done (map (conf_one t tmsg) r9)) as [r10|w] eqn:AD; [|discriminate].
  inversion H; subst rows st; clear H. cbn [reaction_cnt balanced_cnt confident_cnt mcs_applied rb_solved rb_applied mcs_solved].
  assert (Q1 : Forall pre_mcs r1) by (eapply Forall_map_stage; [intros r; apply pre_mcs_validate; auto | apply number_pre_mcs]).
  assert (Q2 : Forall pre_mcs r2) by (apply rule_based_Forall; [apply pre_mcs_norxn | exact Q1]).
  assert (Q3 : Forall pre_mcs r3) by (eapply Forall_map_stage; [intros r; apply pre_mcs_validate; auto | exact Q2]).
  assert (M1 : Forall methods_ok r1) by (eapply Forall_impl; [apply pre_mcs_methods | exact Q1]).
  assert (M2 : Forall methods_ok r2) by (eapply Forall_impl; [apply pre_mcs_methods | exact Q2]).
  assert (M3 : Forall methods_ok r3) by (eapply Forall_impl; [apply pre_mcs_methods | exact Q3]).
  assert (M4 : Forall methods_ok r4) by (eapply Forall_map_stage; [apply methods_mcs_find | exact M3]).
  assert (M5 : Forall methods_ok r5) by (eapply Forall_map_stage; [apply methods_mcs_impute | exact M4]).
  assert (M6 : Forall methods_ok r6) by (eapply Forall_map_stage; [intros r; apply methods_validate; auto | exact M5]).
  assert (M7 : Forall methods_ok r7) by (eapply Forall_map_stage; [apply methods_post_process | exact M6]).
  assert (M8a : Forall methods_ok r8a) by (apply rule_based_Forall; [apply methods_norxn | exact M7]).
  assert (M8 : Forall methods_ok r8) by (apply map2_restore_Forall; [apply methods_norxn | exact M8a]).
  assert (M9 : Forall methods_ok r9) by (eapply Forall_map_stage; [intros r; apply methods_validate; auto | exact M8]).
  assert (S10 : map sby r10 = map sby r9).
  { eapply all_done_obs; [exact AD|]. intros x y Ix Fx. rewrite Forall_forall in M9.
    now destruct (conf_one_spec t tmsg x y (M9 x Ix) Fx) as [_ [_ [E _]]]. }
  assert (OBS : forall g : option string -> bool, map (fun r => g (sby r)) r10 = map (fun r => g (sby r)) r9).
  { intros g. rewrite <- (map_map sby g r10), <- (map_map sby g r9), S10. reflexivity. }
  (* input-balanced rows: fixed from the first pass on *)
  assert (I91 : map is_input_row r9 = map is_input_row r1).
  { unfold r9. rewrite (map_obs_stage is_input_row _ methods_ok r8 M8) by (intros r; apply sby_validate_other; discriminate).
    unfold r8. rewrite (map2_restore_obs is_input_row r6 (fun r => ltac:(destruct r; reflexivity)) r8a L68).
    unfold r8a. rewrite map_obs_rule_based by (intros r; destruct r; reflexivity).
    unfold r7. rewrite (map_obs_stage is_input_row _ methods_ok r6 M6) by (intros r _; unfold is_input_row; now rewrite sby_post_process).
    unfold r6. rewrite (map_obs_stage is_input_row _ methods_ok r5 M5) by (intros r; apply sby_validate_other; discriminate).
    unfold r5. rewrite (map_obs_stage is_input_row _ methods_ok r4 M4) by (intros r _; unfold is_input_row; now rewrite sby_mcs_impute).
    unfold r4. rewrite (map_obs_stage is_input_row _ methods_ok r3 M3) by (intros r _; unfold is_input_row; now rewrite sby_mcs_find).
    unfold r3. rewrite (map_obs_stage is_input_row _ methods_ok r2 M2) by (intros r; apply sby_validate_other; discriminate).
    unfold r2. rewrite map_obs_rule_based by (intros r; destruct r; reflexivity). reflexivity. }
  assert (E93 : map early r9 = map early r3).
  { unfold r9. rewrite (map_obs_stage early _ methods_ok r8 M8) by (intros r; apply early_validate_mcs).
    unfold r8. rewrite (map2_restore_obs early r6 (fun r => ltac:(destruct r; reflexivity)) r8a L68).
    unfold r8a. rewrite map_obs_rule_based by (intros r; destruct r; reflexivity).
    unfold r7. rewrite (map_obs_stage early _ methods_ok r6 M6) by (intros r _; unfold early, is_input_row, is_rb_row; now rewrite sby_post_process).
    unfold r6. rewrite (map_obs_stage early _ methods_ok r5 M5) by (intros r; apply early_validate_mcs).
    unfold r5. rewrite (map_obs_stage early _ methods_ok r4 M4) by (intros r _; unfold early, is_input_row, is_rb_row; now rewrite sby_mcs_impute).
    unfold r4. rewrite (map_obs_stage early _ methods_ok r3 M3) by (intros r _; unfold early, is_input_row, is_rb_row; now rewrite sby_mcs_find).
    reflexivity. }
  repeat split.
  - unfold r1. rewrite first_pass_counts. fold r1. apply count_if_ext_map.
    rewrite <- I91. symmetry. exact (OBS (fun o => match o with Some m => String.eqb m M_INPUT | None => false end)).
  - apply count_if_ext_map. symmetry.
    eapply all_done_obs; [exact AD|]. intros x y Ix Fx. rewrite Forall_forall in M9.
    destruct (conf_one_spec t tmsg x y (M9 x Ix) Fx) as [_ [_ [E3 [_ [E5 E6]]]]].
    unfold conf_success. destruct (is_mcs_row x) eqn:IM.
    + destruct (E6 eq_refl) as [_ [K2 _]]. rewrite K2. unfold is_mcs_row in *. rewrite E3, IM.
      now rewrite andb_true_r.
    + rewrite (E5 eq_refl), IM. now rewrite andb_false_r.
  - transitivity (count_if (fun r => negb (early r)) r3).
    + apply count_if_ext_map. unfold r4. rewrite map_map. apply map_ext_in. intros r I.
      rewrite Forall_forall in Q3. apply mcs_find_key. apply Q3. exact I.
    + apply count_if_ext_map.
      rewrite <- (map_map early negb r3), <- E93, (map_map early negb r9).
      symmetry. exact (OBS (fun o => negb ((match o with Some m => String.eqb m M_INPUT | None => false end) || (match o with Some m => String.eqb m M_RB | None => false end)))).
  - unfold rb_solved_cnt, rb_applied_cnt, certain. apply length_flat_map_le. intros x.
    unfold rb_solve, rb_verdict. destruct (rb_classify OR x) as [[[rx p] v] d].
    destruct (is_cbal (carbon x) && is_rp v); simpl; [|lia].
    destruct (single_impute _ _ _ _ _ _) as [[[a b]|]|]; simpl; try lia.
    destruct (constraint_fit ban a b) as [[? ?]|]; simpl; lia.
  - apply count_if_le. intros x. unfold mcs_solved_one, has_mcs_key.
    destruct (mcs x) as [[|]|]; auto.
Qed.

End P.
