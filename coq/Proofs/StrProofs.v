(* Lemmas about the Python string operations of Base/Strs.v at the level of dot-separated
   components: comps/append, replace of a ".m" marker as a filter on components, split on ">>". *)
From Coq Require Import String Ascii List Bool Arith Lia.
From SynRBL Require Import Base.Strs.
Import ListNotations.
Open Scope string_scope.
Arguments Ascii.eqb : simpl never.

Fixpoint nochar (a : ascii) (s : string) : bool :=
  match s with EmptyString => true | String c t => negb (Ascii.eqb a c) && nochar a t end.
Definition dotfree (s : string) : bool := nochar dot s.
Definition gt : ascii := ">"%char.
Definition nogt (s : string) : bool := nochar gt s.

Lemma nochar_app a x y : nochar a (x ++ y) = nochar a x && nochar a y.
Proof. induction x as [|c x IH]; simpl; auto. rewrite IH. now rewrite andb_assoc. Qed.

Lemma app_nil_r_s (s : string) : s ++ "" = s.
Proof. induction s; simpl; congruence. Qed.
Lemma app_assoc_s (a b c : string) : (a ++ b) ++ c = a ++ (b ++ c).
Proof. induction a; simpl; congruence. Qed.

(* ---------------------------------------------------------------- comps *)
Lemma comps_nonnil s : comps s <> [].
Proof. destruct s as [|c t]; simpl; [discriminate|]. destruct (Ascii.eqb c dot); [discriminate|]. destruct (comps t); discriminate. Qed.

Lemma comps_app_dot x y : comps (x ++ String dot y) = (comps x ++ comps y)%list.
Proof.
  induction x as [|c x IH]; simpl.
  - reflexivity.
  - destruct (Ascii.eqb c dot); rewrite IH; [reflexivity|].
    destruct (comps x) as [|h r] eqn:E; [now apply comps_nonnil in E|]. reflexivity.
Qed.

Lemma comps_dotfree c : dotfree c = true -> comps c = [c].
Proof.
  unfold dotfree. induction c as [|a c IH]; simpl; auto. intros H. apply andb_prop in H as [H1 H2].
  apply negb_true_iff in H1. rewrite Ascii.eqb_sym in H1. rewrite H1. now rewrite (IH H2).
Qed.

Lemma comps_all_dotfree s : Forall (fun c => dotfree c = true) (comps s).
Proof.
  induction s as [|a s IH]; simpl.
  - constructor; auto.
  - destruct (Ascii.eqb a dot) eqn:E.
    + constructor; auto.
    + assert (E' : negb (Ascii.eqb dot a) = true) by (rewrite Ascii.eqb_sym, E; reflexivity).
      destruct (comps s) as [|h r].
      * constructor; auto. unfold dotfree. simpl. now rewrite E'.
      * inversion IH; subst. constructor; auto. unfold dotfree in *. simpl. now rewrite E'.
Qed.

(* the tail of a dot-joined string: ".c1.c2..." *)
Fixpoint tailstr (l : list string) : string :=
  match l with [] => "" | c :: t => String dot (c ++ tailstr t) end.
Definition dj (l : list string) : string := match l with [] => "" | c :: t => c ++ tailstr t end.

Lemma dj_comps s : dj (comps s) = s.
Proof.
  induction s as [|a s IH]; simpl; auto.
  destruct (Ascii.eqb_spec a dot) as [->|N].
  - simpl. destruct (comps s) as [|h r] eqn:E; [now apply comps_nonnil in E|]. simpl in *. now rewrite IH.
  - destruct (comps s) as [|h r] eqn:E; [now apply comps_nonnil in E|]. simpl in *. now rewrite IH.
Qed.

Lemma comps_tailstr c0 l : dotfree c0 = true -> Forall (fun c => dotfree c = true) l -> comps (c0 ++ tailstr l) = c0 :: l.
Proof.
  revert c0. induction l as [|c l IH]; intros c0 H0 Hl; simpl.
  - rewrite app_nil_r_s. now apply comps_dotfree.
  - inversion Hl; subst. rewrite comps_app_dot, (comps_dotfree c0 H0), IH; auto.
Qed.

Lemma tailstr_app a b : tailstr (a ++ b) = tailstr a ++ tailstr b.
Proof. induction a as [|c a IH]; simpl; auto. now rewrite IH, app_assoc_s. Qed.

Lemma repeat_str_tailstr u n : repeat_str (String dot u) n = tailstr (repeat u n).
Proof. induction n; simpl; auto. now rewrite IHn. Qed.

(* every string is c0 ++ tailstr rest with dot-free pieces *)
Lemma decompose_comps s : exists c0 rest, comps s = c0 :: rest /\ s = c0 ++ tailstr rest /\
  dotfree c0 = true /\ Forall (fun c => dotfree c = true) rest.
Proof.
  pose proof (comps_all_dotfree s) as D. pose proof (dj_comps s) as J.
  destruct (comps s) as [|c0 rest] eqn:E; [now apply comps_nonnil in E|].
  inversion D as [|x y D0 Dr]. exists c0, rest. simpl in J. auto.
Qed.

(* ---------------------------------------------------------------- prefixb *)
Lemma prefixb_self_app m s : prefixb m (m ++ s) = true.
Proof. induction m as [|a m IH]; simpl; auto. now rewrite Ascii.eqb_refl. Qed.

(* s is empty or starts with a dot *)
Definition dot_or_end (s : string) : Prop := s = "" \/ exists t, s = String dot t.
Lemma tailstr_dot_or_end l : dot_or_end (tailstr l).
Proof. destruct l; [left|right]; simpl; eauto. Qed.

Lemma prefixb_component m : dotfree m = true -> forall c s, prefixb m c = false -> dot_or_end s -> prefixb m (c ++ s) = false.
Proof.
  unfold dotfree. induction m as [|a m IH]; intros Dm c s H E; simpl in *; [discriminate|].
  apply andb_prop in Dm as [D1 D2].
  destruct c as [|b c]; simpl in *.
  - destruct E as [->|[t ->]]; auto. apply negb_true_iff in D1. rewrite Ascii.eqb_sym in D1. now rewrite D1.
  - destruct (Ascii.eqb a b); simpl in *; auto.
Qed.

(* ---------------------------------------------------------------- replace of ".m" by "" *)
Section Replace.
Variable m : string.
Hypothesis m_dotfree : dotfree m = true.
Let sub := String dot m.

Lemma replace_go_dotfree new c : dotfree c = true -> forall s, replace_go sub new 0 (c ++ s) = c ++ replace_go sub new 0 s.
Proof.
  unfold dotfree. induction c as [|a c IH]; intros D s; simpl; auto.
  simpl in D. apply andb_prop in D as [D1 D2]. apply negb_true_iff in D1. rewrite D1. simpl. now rewrite IH.
Qed.
Lemma replace_go_skip new x : forall s, replace_go sub new (String.length x) (x ++ s) = replace_go sub new 0 s.
Proof. induction x as [|a x IH]; intros s; simpl; auto. Qed.
Lemma replace_go_marker s : replace_go sub "" 0 (String dot (m ++ s)) = replace_go sub "" 0 s.
Proof.
  cbn [replace_go sub prefixb]. rewrite Ascii.eqb_refl, prefixb_self_app. cbn [andb].
  replace (String.length sub - 1) with (String.length m) by (unfold sub; cbn [String.length]; lia).
  cbn [append]. apply replace_go_skip.
Qed.
Lemma replace_go_other c s : dotfree c = true -> prefixb m c = false -> dot_or_end s ->
  replace_go sub "" 0 (String dot (c ++ s)) = String dot (c ++ replace_go sub "" 0 s).
Proof.
  intros D P E. cbn [replace_go sub prefixb]. rewrite Ascii.eqb_refl, (prefixb_component m m_dotfree c s P E). cbn [andb].
  now rewrite replace_go_dotfree.
Qed.

Definition keepc (c : string) : bool := negb (String.eqb c m).
Definition okc (c : string) : Prop := dotfree c = true /\ (c = m \/ prefixb m c = false).

Lemma replace_tailstr rest : Forall okc rest -> replace_go sub "" 0 (tailstr rest) = tailstr (filter keepc rest).
Proof.
  induction rest as [|c rest IH]; intros H; simpl; auto.
  inversion H as [|? ? [D [->|P]] Hr]; subst.
  - unfold keepc at 1. rewrite String.eqb_refl. simpl. rewrite <- (IH Hr). apply replace_go_marker.
  - assert (K : keepc c = true).
    { unfold keepc. destruct (String.eqb_spec c m) as [->|]; auto. rewrite <- (app_nil_r_s m) in P at 2. now rewrite prefixb_self_app in P. }
    rewrite K. simpl. rewrite <- (IH Hr). apply replace_go_other; auto. apply tailstr_dot_or_end.
Qed.

Theorem replace_marker c0 rest : dotfree c0 = true -> Forall okc rest ->
  replace sub "" (c0 ++ tailstr rest) = c0 ++ tailstr (filter keepc rest).
Proof. intros D H. unfold replace. rewrite replace_go_dotfree; auto. now rewrite replace_tailstr. Qed.
End Replace.

(* ---------------------------------------------------------------- split on ">>" *)
Lemma rev_acc_app s : forall acc, rev_acc s acc = rev_acc s "" ++ acc.
Proof.
  induction s as [|c s IH]; intros acc; simpl; auto.
  rewrite IH, (IH (String c "")). now rewrite app_assoc_s.
Qed.
Lemma srev_rev_acc s : forall acc, srev (rev_acc s acc) = srev acc ++ s.
Proof.
  unfold srev. induction s as [|c s IH]; intros acc; simpl.
  - now rewrite app_nil_r_s.
  - rewrite IH. simpl. rewrite (rev_acc_app acc (String c "")). now rewrite app_assoc_s.
Qed.

Lemma split_go_nogt a : nogt a = true -> forall cur s, split_go ">>" 0 cur (a ++ s) = split_go ">>" 0 (rev_acc a cur) s.
Proof.
  unfold nogt. induction a as [|c a IH]; intros N cur s; simpl in *; auto.
  apply andb_prop in N as [N1 N2]. apply negb_true_iff in N1. unfold gt in N1. rewrite N1. simpl. now apply IH.
Qed.
Lemma split_go_end a : nogt a = true -> forall cur, split_go ">>" 0 cur a = [srev cur ++ a].
Proof.
  intros N cur. rewrite <- (app_nil_r_s a) at 1. rewrite split_go_nogt; auto. simpl. now rewrite srev_rev_acc.
Qed.
Theorem split_sides a b : nogt a = true -> nogt b = true -> split ">>" (a ++ ">>" ++ b) = [a; b].
Proof.
  intros Na Nb. unfold split. rewrite split_go_nogt; auto. simpl.
  rewrite srev_rev_acc. simpl. f_equal. rewrite split_go_end; auto.
Qed.
