(* C19: the database invariant is preserved by every operation, hence by every history. *)
From Coq Require Import String ZArith List Bool Lia.
From SynRBL Require Import Base.Dict Model.Comp Model.RuleDB.
Import ListNotations.
Open Scope string_scope. Open Scope Z_scope.

Section P.
Variable atoms : string -> option (list Z * Z).
Variable tbl : list (Z * string).
Notation comp_of := (comp_of atoms tbl).
Notation add_entry := (add_entry atoms tbl).
Notation add_entries := (add_entries atoms tbl).
Notation step := (step atoms tbl).

Definition Inv (db : list entry) : Prop :=
  NoDup (map eformula db) /\ NoDup (map esmiles db) /\
  forall d, In d db -> valid atoms (esmiles d) = true /\ deq (ecomp d) (comp_of (esmiles d)) /\ mem (ecomp d) "Q" = true.

Lemma existsb_false_notin (f : entry -> string) db x :
  existsb (fun d => String.eqb (f d) x) db = false -> ~ In x (map f db).
Proof.
  intros H I. apply in_map_iff in I as [d [E Id]].
  assert (existsb (fun d => String.eqb (f d) x) db = true).
  { apply existsb_exists. exists d. split; auto. subst. apply String.eqb_refl. }
  congruence.
Qed.
Lemma NoDup_snoc {A} (l : list A) x : NoDup l -> ~ In x l -> NoDup (l ++ [x]).
Proof.
  induction l as [|a t IH]; simpl; intros ND NI.
  - constructor; auto; constructor.
  - inversion ND; subst. constructor.
    + intros I. apply in_app_or in I as [I|[->|[]]]; auto.
    + apply IH; auto.
Qed.
Lemma with_q_mem d : mem (with_q d) "Q" = true.
Proof. unfold with_q. destruct (mem d "Q") eqn:M; auto. unfold mem. now rewrite get_set_same. Qed.
Lemma comp_of_mem s : mem (comp_of s) "Q" = true.
Proof. unfold RuleDB.comp_of. destruct (atoms s) as [[zs q]|]; apply with_q_mem. Qed.

Theorem inv_empty : Inv [].
Proof. split; [constructor|split; [constructor|intros d []]]. Qed.

Theorem add_entry_inv db f s db' : Inv db -> add_entry db f s = Some db' ->
  Inv db' /\ db' = (db ++ [{| eformula := f; esmiles := s; ecomp := comp_of s |}])%list.
Proof.
  intros [N1 [N2 C]] H. unfold RuleDB.add_entry in H.
  destruct (existsb (fun d => String.eqb (eformula d) f) db) eqn:E1; [discriminate|].
  destruct (existsb (fun d => String.eqb (esmiles d) s) db) eqn:E2; [discriminate|].
  destruct (valid atoms s) eqn:V; simpl in H; [|discriminate].
  inversion H; subst. split; [|reflexivity]. repeat split.
  - rewrite map_app. simpl. apply NoDup_snoc; auto. now apply (existsb_false_notin eformula).
  - rewrite map_app. simpl. apply NoDup_snoc; auto. now apply (existsb_false_notin esmiles).
  - apply in_app_or in H0 as [I|[<-|[]]]; [now apply C | exact V].
  - apply in_app_or in H0 as [I|[<-|[]]]; [now apply C | intros k; reflexivity].
  - apply in_app_or in H0 as [I|[<-|[]]]; [now apply C | apply comp_of_mem].
Qed.

(* a rejected addition changes nothing, and it is rejected exactly for one of the three reasons *)
Theorem add_entry_reject_iff db f s :
  add_entry db f s = None <->
  (In f (map eformula db) \/ In s (map esmiles db) \/ valid atoms s = false).
Proof.
  unfold RuleDB.add_entry.
  destruct (existsb (fun d => String.eqb (eformula d) f) db) eqn:E1.
  - split; auto. intros _. left. apply existsb_exists in E1 as [d [I E]].
    apply String.eqb_eq in E. subst. now apply in_map.
  - destruct (existsb (fun d => String.eqb (esmiles d) s) db) eqn:E2.
    + split; auto. intros _. right. left. apply existsb_exists in E2 as [d [I E]].
      apply String.eqb_eq in E. subst. now apply in_map.
    + destruct (valid atoms s) eqn:V; simpl.
      * split; [discriminate|]. intros [I|[I|I]]; try discriminate.
        -- exfalso. now apply (existsb_false_notin eformula db f).
        -- exfalso. now apply (existsb_false_notin esmiles db s).
      * split; auto.
Qed.

Lemma add_entries_inv es : forall db, Inv db -> Inv (fst (add_entries db es)).
Proof.
  induction es as [|[f s] t IH]; intros db I; simpl; auto.
  destruct (add_entry db f s) as [db'|] eqn:A.
  - apply IH. eapply add_entry_inv; eauto.
  - specialize (IH db I). destruct (add_entries db t). simpl in *. auto.
Qed.
(* the reported list is exactly the sub-list of entries whose addition was rejected *)
Theorem add_entries_reports_rejected es : forall db f s,
  In (f, s) (snd (add_entries db es)) -> In (f, s) es.
Proof.
  induction es as [|[f1 s1] t IH]; intros db f s; simpl; auto.
  destruct (add_entry db f1 s1) as [db'|].
  - intros I. right. eapply IH; eauto.
  - specialize (IH db f s). destruct (add_entries db t). simpl in *. intros [E|I]; auto.
Qed.
Theorem add_entries_all_rejected_noop es : forall db,
  (forall f s, In (f, s) es -> add_entry db f s = None) -> add_entries db es = (db, es).
Proof.
  induction es as [|[f1 s1] t IH]; intros db H; simpl; auto.
  rewrite (H f1 s1 (or_introl eq_refl)). rewrite IH; auto. intros; apply H; right; auto.
Qed.

Lemma remove_entry_incl db f d : In d (remove_entry db f) -> In d db.
Proof.
  induction db as [|a t IH]; simpl; auto.
  destruct (String.eqb (eformula a) f); [auto|]. intros [->|I]; auto.
Qed.
Lemma NoDup_map_remove (g : entry -> string) db f :
  NoDup (map g db) -> NoDup (map g (remove_entry db f)).
Proof.
  induction db as [|a t IH]; simpl; auto. intros ND. inversion ND; subst.
  destruct (String.eqb (eformula a) f); auto. simpl. constructor; auto.
  intros I. apply H1. apply in_map_iff in I as [d [E Id]]. apply in_map_iff.
  exists d. split; auto. eapply remove_entry_incl; eauto.
Qed.
Theorem remove_entry_inv db f : Inv db -> Inv (remove_entry db f).
Proof.
  intros [N1 [N2 C]]. repeat split; try (apply NoDup_map_remove; auto);
  apply C; eapply remove_entry_incl; eauto.
Qed.
(* removal deletes the named record and nothing else *)
Theorem remove_only_named db f : NoDup (map eformula db) ->
  forall d, In d (remove_entry db f) <-> (In d db /\ eformula d <> f).
Proof.
  induction db as [|a t IH]; simpl; intros ND d; [tauto|]. inversion ND; subst.
  destruct (String.eqb_spec (eformula a) f) as [E|N].
  - split.
    + intros I. split; auto. intros E2. apply H1. rewrite E, <- E2. now apply in_map.
    + intros [[->|I] Nf]; [contradiction|auto].
  - simpl. rewrite (IH H2 d). split.
    + intros [->|[I Nf]]; auto.
    + intros [[->|I] Nf]; auto.
Qed.
Theorem remove_absent_noop db f : ~ In f (map eformula db) -> remove_entry db f = db.
Proof.
  induction db as [|a t IH]; simpl; auto. intros NI.
  destruct (String.eqb_spec (eformula a) f) as [E|N]; [exfalso; auto|]. f_equal. auto.
Qed.

Theorem inv_step db o : Inv db -> Inv (step db o).
Proof.
  intros I. destruct o as [f s|es|f]; simpl.
  - destruct (add_entry db f s) eqn:A; auto. eapply add_entry_inv; eauto.
  - now apply add_entries_inv.
  - now apply remove_entry_inv.
Qed.
Theorem inv_reachable ops : forall db, Inv db -> Inv (fold_left step ops db).
Proof. induction ops as [|o t IH]; simpl; intros db I; auto. apply IH. now apply inv_step. Qed.
End P.

(* decidable form of the invariant's duplicate-freedom, for the shipped files *)
Fixpoint nodupb (l : list string) : bool :=
  match l with [] => true | x :: t => negb (existsb (String.eqb x) t) && nodupb t end.
Lemma nodupb_spec l : nodupb l = true -> NoDup l.
Proof.
  induction l as [|x t IH]; simpl; [constructor|]. intros H. apply andb_prop in H as [A B].
  constructor; auto. intros I. apply negb_true_iff in A.
  assert (existsb (String.eqb x) t = true) by (apply existsb_exists; exists x; split; auto; apply String.eqb_refl).
  congruence.
Qed.
