(* C06 (second sentence) / C18: the seven counters of a completed batch are a FUNCTION of its input list --
   sums of per-reaction indicators -- hence additive over concatenation and independent of the partition
   into batches. *)
From Coq Require Import String ZArith List Bool Arith Lia.
From SynRBL Require Import Base.Dict Base.Strs Base.ListX Model.Comp Model.Matcher Model.Constraint Model.Pipeline Model.Batch
  Proofs.PipelineProofs Proofs.RowLocal Proofs.RunLevel Proofs.BatchProofs.
Import ListNotations.
Open Scope string_scope.

Section S.
Variable OR : oracles.
Variable db : list rule.
Variable ban : list string.
Variable fuel : nat.
Notation validate := (validate OR).
Notation rb_row := (rb_row OR db ban fuel).
Notation rb_solve := (rb_solve OR db ban fuel).
Notation F := (F OR db ban fuel).

Lemma number_cons i s t : number i (s :: t) = set_rid (fresh 0 s) i :: number (S i) t.
Proof. reflexivity. Qed.

(* a counter over a mapped, numbered list is a sum of per-string indicators *)
Lemma count_over_numbered (G : row -> row) (Q : row -> bool) :
  (forall r j, G (set_rid r j) = set_rid (G r) j) -> (forall r j, Q (set_rid r j) = Q r) ->
  forall l i, count_if Q (map G (number i l)) = count_if (fun s => Q (G (fresh 0 s))) l.
Proof.
  intros HG HQ. induction l as [|s t IH]; intros i; [reflexivity|].
  rewrite number_cons. unfold count_if in *. simpl. rewrite HG, HQ. destruct (Q (G (fresh 0 s))); simpl; now rewrite IH.
Qed.
Lemma count_if_app {A} (f : A -> bool) l1 l2 : count_if f (l1 ++ l2) = count_if f l1 + count_if f l2.
Proof. unfold count_if. now rewrite filter_app, app_length. Qed.

Lemma rb_solve_set_rid r j : rb_solve (set_rid r j) = rb_solve r.
Proof.
  unfold Pipeline.rb_solve. rewrite rb_classify_set_rid. destruct (rb_classify OR r) as [[[rx p] v] d].
  replace (carbon (set_rid r j)) with (carbon r) by (destruct r; reflexivity).
  replace (rxn (set_rid r j)) with (rxn r) by (destruct r; reflexivity). reflexivity.
Qed.

(* the stage functions up to the points where the counters are taken *)
Definition G1 (r : row) : row := validate M_INPUT true false None r.
Definition G4 (r : row) : row := mcs_find OR (validate M_RB false true None (rb_row (G1 r))).
Lemma G1_set_rid r j : G1 (set_rid r j) = set_rid (G1 r) j.
Proof. apply validate_set_rid. Qed.
Lemma G4_set_rid r j : G4 (set_rid r j) = set_rid (G4 r) j.
Proof. unfold G4. now rewrite G1_set_rid, rb_row_set_rid, validate_set_rid, mcs_find_set_rid. Qed.

Definition q_bal (r : row) : bool := is_cbal (carbon r) && verdict_eqb (rb_verdict OR r) Balance.
Definition q_app (r : row) : bool := is_cbal (carbon r) && is_rp (rb_verdict OR r).
Definition q_sol (r : row) : bool := match rb_solve r with Some _ => true | None => false end.
Lemma q_bal_rid r j : q_bal (set_rid r j) = q_bal r.
Proof. unfold q_bal, rb_verdict. rewrite rb_classify_set_rid. destruct r; reflexivity. Qed.
Lemma q_app_rid r j : q_app (set_rid r j) = q_app r.
Proof. unfold q_app, rb_verdict. rewrite rb_classify_set_rid. destruct r; reflexivity. Qed.
Lemma q_sol_rid r j : q_sol (set_rid r j) = q_sol r.
Proof. unfold q_sol. now rewrite rb_solve_set_rid. Qed.
Lemma has_mcs_key_rid r j : has_mcs_key (set_rid r j) = has_mcs_key r.
Proof. destruct r; reflexivity. Qed.
Lemma mcs_solved_one_rid r j : mcs_solved_one OR (set_rid r j) = mcs_solved_one OR r.
Proof. destruct r; reflexivity. Qed.
Lemma conf_success_rid t r j : conf_success OR t (set_rid r j) = conf_success OR t r.
Proof. destruct r; reflexivity. Qed.

Lemma certain_length rows : length (certain OR db ban fuel rows) = count_if q_sol rows.
Proof.
  unfold certain, count_if, q_sol. induction rows as [|r t IH]; simpl; auto.
  destruct (rb_solve r); simpl; now rewrite IH.
Qed.

(* the statistics of a batch as a function of its kept_inputs reactions *)
Definition stats_fun (t : Z) (ins : list string) : stats :=
  let l := kept_inputs OR ins in
  mkStats (length ins)
          (count_if (fun s => q_bal (G1 (fresh 0 s))) l) (count_if (fun s => q_app (G1 (fresh 0 s))) l)
          (count_if (fun s => q_sol (G1 (fresh 0 s))) l)
          (count_if (fun s => has_mcs_key (G4 (fresh 0 s))) l) (count_if (fun s => mcs_solved_one OR (G4 (fresh 0 s))) l)
          (count_if (fun s => conf_success OR t (F (fresh 0 s))) l).

Theorem run_stats_are_a_function t tmsg ins rows st :
  run OR db ban fuel t tmsg ins = Done (rows, st) -> st = stats_fun t ins.
Proof.
  intros H. unfold run in H. destruct (preprocess OR ins) as [rows0|w] eqn:PP; [|discriminate].
  unfold preprocess in PP. destruct (negb _); [discriminate|].
  fold (kept_inputs OR ins) in PP. destruct (kept_inputs OR ins) as [|s0 l0] eqn:E; [discriminate|].
  assert (R0 : rows0 = number 0 (s0 :: l0)) by congruence. subst rows0. clear PP.
  pose proof (stages_are_a_map OR db ban fuel (s0 :: l0)) as SM.
  unfold stages_before_conf in *. cbn [fst] in SM.
  set (l := s0 :: l0) in *. clearbody l.
  set (r1 := map (validate M_INPUT true false None) (number 0 l)) in *.
  assert (I1 : ids_from 0 r1) by (apply ids_from_map; [intros; apply rid_validate | apply ids_from_number]).
  rewrite (rule_based_is_map OR db ban fuel r1 I1) in *.
  match type of H with context [all_done (map _ ?x9)] => set (r9 := x9) in * end.
  destruct (all_done _) as [r10|w] eqn:AD; [|discriminate]. inversion H; subst rows st. clear H.
  unfold stats_fun. rewrite E. cbn [balanced_cnt rb_applied rb_solved mcs_applied mcs_solved].
  f_equal.
  - unfold rb_balanced_cnt. fold q_bal. unfold r1. apply (count_over_numbered G1 q_bal G1_set_rid q_bal_rid).
  - unfold rb_applied_cnt. fold q_app. unfold r1. apply (count_over_numbered G1 q_app G1_set_rid q_app_rid).
  - unfold rb_solved_cnt. rewrite certain_length. unfold r1. apply (count_over_numbered G1 q_sol G1_set_rid q_sol_rid).
  - unfold r1. rewrite !map_map. apply (count_over_numbered G4 has_mcs_key G4_set_rid has_mcs_key_rid l 0).
  - unfold r1. rewrite !map_map. apply (count_over_numbered G4 (mcs_solved_one OR) G4_set_rid mcs_solved_one_rid l 0).
  - rewrite SM. apply (count_over_numbered F (conf_success OR t) (F_set_rid OR db ban fuel) (conf_success_rid t)).
Qed.

Lemma kept_inputs_app a b : kept_inputs OR (a ++ b) = (kept_inputs OR a ++ kept_inputs OR b)%list.
Proof. unfold kept_inputs. now rewrite map_app, filter_app. Qed.

(* additive over concatenation: the statistics do not depend on how the reactions are split into batches *)
Theorem stats_fun_additive t a b : stats_fun t (a ++ b) = add_stats (stats_fun t a) (stats_fun t b).
Proof. unfold stats_fun, add_stats. cbn. rewrite kept_inputs_app, app_length, !count_if_app. reflexivity. Qed.

Corollary run_stats_additive t tmsg a b ra sa rb sb rab sab :
  run OR db ban fuel t tmsg a = Done (ra, sa) -> run OR db ban fuel t tmsg b = Done (rb, sb) ->
  run OR db ban fuel t tmsg (a ++ b) = Done (rab, sab) -> sab = add_stats sa sb.
Proof.
  intros Ha Hb Hab. rewrite (run_stats_are_a_function _ _ _ _ _ Ha), (run_stats_are_a_function _ _ _ _ _ Hb),
    (run_stats_are_a_function _ _ _ _ _ Hab). apply stats_fun_additive.
Qed.

(* Balancer.rebalance with ANY batch size: the merged statistics are those of the whole input as one batch *)
Section Rebalance.
Variable t : Z.
Variable tmsg : string.
Notation pipe := (run OR db ban fuel t tmsg).
Hypothesis completes : forall b, b <> [] -> Forall (well_formed OR) b -> exists rows st, pipe b = Done (rows, st).

Lemma add_stats_assoc x y z : add_stats (add_stats x y) z = add_stats x (add_stats y z).
Proof. unfold add_stats. simpl. f_equal; lia. Qed.
Lemma stats_fun_nil : stats_fun t [] = zero_stats.
Proof. reflexivity. Qed.
Lemma add_zero_r x : add_stats x zero_stats = x.
Proof. destruct x. unfold add_stats, zero_stats. simpl. f_equal; lia. Qed.

Lemma one_batch_stats acc b : Forall (well_formed OR) b -> snd (one_batch pipe acc b) = add_stats (snd acc) (stats_fun t b).
Proof.
  intros Hb. unfold one_batch. destruct b as [|s b'].
  - now rewrite stats_fun_nil, add_zero_r.
  - destruct (completes (s :: b') ltac:(discriminate) Hb) as [rows [st E]]. rewrite E. cbn [snd].
    now rewrite (run_stats_are_a_function _ _ _ _ _ E).
Qed.
Lemma fold_batches_stats bs : forall acc, Forall (Forall (well_formed OR)) bs ->
  snd (fold_left (one_batch pipe) bs acc) = add_stats (snd acc) (stats_fun t (concat bs)).
Proof.
  induction bs as [|b t' IH]; intros acc H; simpl.
  - now rewrite stats_fun_nil, add_zero_r.
  - inversion H as [|? ? Hb Ht]; subst. rewrite (IH _ Ht), (one_batch_stats acc b Hb), stats_fun_additive, add_stats_assoc. reflexivity.
Qed.

Theorem rebalance_stats_partition_independent bs ins : (forall n, bs = Some n -> 0 < n) -> Forall (well_formed OR) ins ->
  snd (rebalance pipe bs ins) = stats_fun t ins.
Proof.
  intros Hn W. unfold rebalance. rewrite fold_batches_stats.
  - cbn [snd]. replace (concat (batches bs ins)) with ins.
    + unfold add_stats, zero_stats. destruct (stats_fun t ins). reflexivity.
    + unfold batches. destruct bs as [n|]; [symmetry; apply chunks_concat; auto|simpl; now rewrite app_nil_r].
  - unfold batches. destruct bs as [n|]; [|repeat constructor; auto].
    unfold chunks. apply chunks_go_Forall. exact W.
Qed.
End Rebalance.
End S.
