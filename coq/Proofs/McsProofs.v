(* C10 / C11: selection picks a largest own result; results are attached to the reaction they belong to;
   whatever the job outcomes (time-outs, exceptions), no row is lost and rows do not see each other. *)
From Coq Require Import String List Bool Arith Lia.
From SynRBL Require Import Model.McsSelect.
Import ListNotations.
Open Scope string_scope.

(* ---------------------------------------------------------------- selection at one index *)
Lemma pass1_spec col : forall mx tied,
  (forall d, In d tied -> total d = mx) ->
  let '(mx', tied') := fold_left (fun st d => let '(mx, tied) := st in
                         if Nat.ltb mx (total d) then (total d, [d])
                         else if Nat.eqb (total d) mx then (mx, (tied ++ [d])%list) else (mx, tied)) col (mx, tied) in
  mx <= mx' /\ (forall d, In d tied' -> total d = mx' /\ (In d tied \/ In d col)) /\ (forall d, In d col -> total d <= mx') /\
  (mx' = mx -> forall d, In d tied -> In d tied').
Proof.
  induction col as [|x t IH]; intros mx tied H; simpl.
  - split; [lia|]. split; [intros d I; split; auto|]. split; [intros d []|auto].
  - destruct (Nat.ltb_spec mx (total x)) as [L|L].
    + assert (H1 : forall d, In d [x] -> total d = total x) by (intros d [<-|[]]; reflexivity).
      specialize (IH (total x) [x] H1).
      destruct (fold_left _ t (total x, [x])) as [mx' tied']. destruct IH as [A [B [C D]]].
      split; [lia|]. split; [|split].
      * intros d I. destruct (B d I) as [B1 [B2|B2]]; split; auto. destruct B2 as [<-|[]]; auto.
      * intros d [<-|I]; [lia|auto].
      * intros E. lia.
    + destruct (Nat.eqb_spec (total x) mx) as [E|E].
      * assert (H1 : forall d, In d (tied ++ [x]) -> total d = mx).
        { intros d I. apply in_app_or in I as [I|[<-|[]]]; auto. }
        specialize (IH mx (tied ++ [x])%list H1).
        destruct (fold_left _ t (mx, (tied ++ [x])%list)) as [mx' tied']. destruct IH as [A [B [C D]]].
        split; auto. split; [|split].
        -- intros d I. destruct (B d I) as [B1 [B2|B2]]; split; auto. apply in_app_or in B2 as [B2|[<-|[]]]; auto.
        -- intros d [<-|I]; [lia|auto].
        -- intros E' d I. apply D; auto. apply in_or_app. auto.
      * specialize (IH mx tied H). destruct (fold_left _ t (mx, tied)) as [mx' tied']. destruct IH as [A [B [C D]]].
        split; auto. split; [|split]; auto.
        -- intros d I. destruct (B d I) as [B1 [B2|B2]]; split; auto.
        -- intros d [<-|I]; [lia|auto].
Qed.

Lemma pass2_in tied : forall mx w d, snd (fold_left (fun st d => let '(mx, w) := st in
     if Nat.ltb mx (first_atoms d) then (first_atoms d, Some d) else (mx, w)) tied (mx, w)) = Some d -> w = Some d \/ In d tied.
Proof.
  induction tied as [|x t IH]; intros mx w d H; simpl in *; auto.
  destruct (Nat.ltb mx (first_atoms x)); apply IH in H as [H|H]; auto. inversion H; auto.
Qed.

(* the selected entry is one of the column's own entries and has the largest total of the column *)
Theorem select_spec col d : select col = Some d -> In d col /\ forall e, In e col -> total e <= total d.
Proof.
  unfold select, pass1. pose proof (pass1_spec col 0 [] (fun d H => match H with end)) as P.
  destruct (fold_left _ col (0, [])) as [mx tied]. destruct P as [_ [B [C _]]]. simpl.
  assert (G : forall x, In x tied -> In x col /\ forall e, In e col -> total e <= total x).
  { intros x I. destruct (B x I) as [B1 [[]|B2]]. split; auto. intros e Ie. rewrite B1. auto. }
  destruct tied as [|a [|b t]]; [discriminate| |].
  - intros [= <-]. apply G. left; reflexivity.
  - intros H. unfold pass2 in H. apply pass2_in in H as [H|H]; [discriminate|]. now apply G.
Qed.
Lemma pass1_nonempty col : forall mx tied, tied <> [] \/ (mx = 0 /\ col <> []) ->
  snd (fold_left (fun st d => let '(mx, tied) := st in
                         if Nat.ltb mx (total d) then (total d, [d])
                         else if Nat.eqb (total d) mx then (mx, (tied ++ [d])%list) else (mx, tied)) col (mx, tied)) <> [].
Proof.
  induction col as [|x t IH]; intros mx tied H; simpl.
  - destruct H as [H|[_ H]]; auto.
  - destruct (Nat.ltb_spec mx (total x)) as [L|L]; [apply IH; left; discriminate|].
    destruct (Nat.eqb_spec (total x) mx) as [E|E].
    + apply IH. left. destruct tied; discriminate.
    + apply IH. left. destruct H as [H|[Z _]]; auto. lia.
Qed.
(* nothing is selected only for an empty column, or when several entries share the maximal total (a tie whose
   first patterns are all empty, in particular: every total is 0) *)
Theorem select_none col : select col = None -> col = [] \/
  exists a b, In a col /\ In b col /\ (forall e, In e col -> total e <= total a) /\ total b = total a.
Proof.
  unfold select, pass1. pose proof (pass1_spec col 0 [] (fun d H => match H with end)) as P.
  pose proof (pass1_nonempty col 0 []) as NE.
  destruct (fold_left _ col (0, [])) as [mx tied] eqn:F. destruct P as [_ [B [C _]]]. simpl in *.
  destruct tied as [|a [|b t]]; [|discriminate|].
  - intros _. left. destruct col as [|x t]; auto. exfalso. apply NE; auto. right. split; auto. discriminate.
  - intros _. right. exists a, b.
    destruct (B a (or_introl eq_refl)) as [A1 [[]|A2]]. destruct (B b (or_intror (or_introl eq_refl))) as [B1 [[]|B2]].
    repeat split; auto; try congruence. intros e Ie. rewrite A1. auto.
Qed.

(* ---------------------------------------------------------------- attaching by id *)
Definition unsolved (r : srow) : bool := negb (ssolved r).
Definition attached (r : srow) (d : mcsdata) : srow :=
  {| sid := sid r; ssolved := ssolved r; smcs := Some (Some d); sissue := Some (missue d) |}.

Lemma nth_attach_same rs : forall k r d, nth_opt rs k = Some r -> nth_opt (attach_at rs k d) k = Some (attached r d).
Proof. induction rs as [|x t IH]; intros [|k] r d H; simpl in *; try discriminate; auto. inversion H; subst. reflexivity. Qed.
Lemma nth_attach_other rs : forall k j d, j <> k -> nth_opt (attach_at rs k d) j = nth_opt rs j.
Proof. induction rs as [|x t IH]; intros [|k] [|j] d H; simpl; auto; try lia. Qed.

Lemma id2idx_none rows : forall i id, (forall r, In r rows -> unsolved r = true -> sid r <> id) -> id2idx rows i id = None.
Proof.
  induction rows as [|x t IH]; intros i id H; simpl; auto.
  rewrite IH by (intros r I; apply H; right; exact I).
  destruct (negb (ssolved x)) eqn:U; simpl; auto. destruct (Nat.eqb_spec (sid x) id) as [E|E]; auto.
  exfalso. apply (H x (or_introl eq_refl) U E).
Qed.
Lemma id2idx_bound rows : forall i id k, id2idx rows i id = Some k -> i <= k.
Proof.
  induction rows as [|x t IH]; intros i id k H; simpl in H; [discriminate|].
  destruct (id2idx t (S i) id) eqn:E. { inversion H; subst. apply IH in E. lia. }
  destruct (_ && _); inversion H; lia.
Qed.
Lemma id2idx_spec rows : forall i k r, NoDup (map sid (filter unsolved rows)) ->
  nth_opt rows k = Some r -> unsolved r = true -> id2idx rows i (sid r) = Some (i + k).
Proof.
  induction rows as [|x t IH]; intros i k r N H U; [destruct k; discriminate|].
  simpl. destruct k as [|k]; simpl in H.
  - inversion H; subst x. simpl in N. rewrite U in N. simpl in N. inversion N as [|? ? N1 N2]; subst.
    rewrite id2idx_none.
    + unfold unsolved in U. rewrite U, Nat.eqb_refl. simpl. f_equal. lia.
    + intros r' I U' E. apply N1. rewrite <- E. apply in_map. apply filter_In. auto.
  - assert (N' : NoDup (map sid (filter unsolved t))).
    { simpl in N. destruct (unsolved x); auto. simpl in N. inversion N; auto. }
    rewrite (IH (S i) k r N' H U). f_equal. lia.
Qed.

(* ---------------------------------------------------------------- find = map find_row *)
Section Find.
Variable nconds : nat.
Variable f : nat -> nat -> job.
Hypothesis nconds_pos : 0 < nconds.
Notation col r := (map (fun c => job_data (sid r) c (f (sid r) c)) (seq 0 nconds)).

Lemma flat_map_ext_in {A B} (g h : A -> list B) l : (forall a, In a l -> g a = h a) -> flat_map g l = flat_map h l.
Proof. induction l as [|x t IH]; intros H; simpl; auto. rewrite H, IH; auto; [intros; apply H; right; auto|left; auto]. Qed.
Lemma flat_map_single {A B} (h : A -> B) l : flat_map (fun c => [h c]) l = map h l.
Proof. induction l; simpl; congruence. Qed.
Lemma nth_opt_map {A B} (g : A -> B) l : forall k, nth_opt (map g l) k = option_map g (nth_opt l k).
Proof. induction l as [|x t IH]; intros [|k]; simpl; auto. Qed.
Lemma column_conditions rows k u : nth_opt (filter unsolved rows) k = Some u -> column (conditions nconds f rows) k = col u.
Proof.
  intros H. unfold column, conditions. rewrite flat_map_concat_map, map_map, <- flat_map_concat_map.
  rewrite <- flat_map_single. apply flat_map_ext. intros c. rewrite nth_opt_map. fold unsolved. now rewrite H.
Qed.
Lemma min_length_conditions rows : min_length (conditions nconds f rows) = length (filter unsolved rows).
Proof.
  unfold conditions. destruct nconds as [|n]; [lia|]. simpl. rewrite map_length. fold unsolved.
  set (m := length (filter unsolved rows)). generalize (seq 1 n). intros l.
  assert (G : forall l0 a, a = m -> fold_left (fun m0 x => Nat.min m0 (length x)) (map (fun c => map (fun r => job_data (sid r) c (f (sid r) c)) (filter unsolved rows)) l0) a = m).
  { induction l0 as [|c t IH]; intros a ->; simpl; auto. apply IH. rewrite map_length. fold m. lia. }
  now apply G.
Qed.
Lemma flat_map_seq_nth {A B} (G : option A -> list B) (U : list A) : forall off,
  flat_map (fun idx => G (nth_opt U (idx - off))) (seq off (length U)) = flat_map (fun u => G (Some u)) U.
Proof.
  induction U as [|u t IH]; intros off; simpl; auto. rewrite Nat.sub_diag. simpl. f_equal.
  rewrite <- (IH (S off)). apply flat_map_ext_in. intros idx I. apply in_seq in I.
  replace (idx - off) with (S (idx - S off)) by lia. reflexivity.
Qed.
Lemma selected_list rows : get_largest_condition (conditions nconds f rows) =
  flat_map (fun u => match select (col u) with Some d => [d] | None => [] end) (filter unsolved rows).
Proof.
  unfold get_largest_condition. rewrite min_length_conditions.
  rewrite <- (flat_map_seq_nth (fun o => match o with Some u => match select (col u) with Some d => [d] | None => [] end | None => [] end) (filter unsolved rows) 0).
  apply flat_map_ext_in. intros idx I. apply in_seq in I. rewrite Nat.sub_0_r.
  destruct (nth_opt (filter unsolved rows) idx) as [u|] eqn:E.
  - now rewrite (column_conditions rows idx u E).
  - exfalso. clear - E I. revert idx E I. generalize (filter unsolved rows). intros l. induction l as [|x t IH]; intros [|k] E I; simpl in *; try discriminate; try lia.
    apply (IH k E). lia.
Qed.

Lemma select_mid u d : select (col u) = Some d -> mid d = sid u.
Proof.
  intros H. apply select_spec in H as [I _]. apply in_map_iff in I as [c [<- _]]. destruct (f (sid u) c); reflexivity.
Qed.

Lemma seed_find_row r : ssolved r = true -> find_row nconds f r = seed r.
Proof. intros H. unfold find_row, seed. now rewrite H. Qed.

(* processing the selected entries of a list of unsolved rows us touches exactly the rows of us *)
Lemma fold_attach rows : NoDup (map sid (filter unsolved rows)) ->
  forall us rs, (forall u, In u us -> In u (filter unsolved rows)) -> NoDup (map sid us) -> length rs = length rows ->
  forall k r, nth_opt rows k = Some r ->
  nth_opt (fold_left (fun rs d => match id2idx rows 0 (mid d) with Some k => attach_at rs k d | None => rs end)
                     (flat_map (fun u => match select (col u) with Some d => [d] | None => [] end) us) rs) k =
  match (if unsolved r && existsb (fun u => Nat.eqb (sid u) (sid r)) us then select (col r) else None) with
  | Some d => option_map (fun x => attached x d) (nth_opt rs k)
  | None => nth_opt rs k
  end.
Proof.
  intros N us. induction us as [|u t IH]; intros rs HU ND L k r H; simpl.
  - rewrite andb_false_r. reflexivity.
  - assert (Iu : In u (filter unsolved rows)) by (apply HU; left; reflexivity).
    apply filter_In in Iu as [Iu Uu]. destruct (In_nth_error _ _ Iu) as [ku Ku].
    assert (Ku' : nth_opt rows ku = Some u).
    { clear - Ku. revert ku Ku. induction rows as [|x t' IH']; intros [|k'] H; simpl in *; try discriminate; auto. }
    inversion ND as [|? ? ND1 ND2]; subst.
    assert (HU' : forall v, In v t -> In v (filter unsolved rows)) by (intros; apply HU; right; auto).
    destruct (select (col u)) as [d|] eqn:S; simpl.
    + rewrite (select_mid u d S). pose proof (id2idx_spec rows 0 ku u N Ku' Uu) as J. simpl in J. rewrite J.
      assert (L' : length (attach_at rs ku d) = length rows).
      { rewrite <- L. clear. revert ku. induction rs as [|x t' IH']; intros [|ku]; simpl; auto. }
      rewrite (IH (attach_at rs ku d) HU' ND2 L' k r H).
      destruct (Nat.eq_dec k ku) as [->|NE].
      * rewrite Ku' in H. inversion H; subst r. rewrite Uu, Nat.eqb_refl. simpl. rewrite S.
        assert (E : existsb (fun v => Nat.eqb (sid v) (sid u)) t = false).
        { destruct (existsb _ t) eqn:E; auto. apply existsb_exists in E as [v [Iv Ev]]. apply Nat.eqb_eq in Ev.
          exfalso. apply ND1. rewrite <- Ev. now apply in_map. }
        rewrite E. simpl.
        assert (X : exists x, nth_opt rs ku = Some x).
        { clear - L Ku'. revert rs ku L Ku'. generalize rows. intros l. induction l as [|y t' IH']; intros rs ku L K; destruct ku; simpl in *; try discriminate;
          destruct rs; simpl in *; try discriminate; eauto. }
        destruct X as [x X]. rewrite (nth_attach_same rs ku x d X), X. reflexivity.
      * rewrite nth_attach_other by auto.
        assert (E : Nat.eqb (sid u) (sid r) && unsolved r = false).
        { destruct (unsolved r) eqn:Ur; [|apply andb_false_r]. rewrite andb_true_r. apply Nat.eqb_neq. intros E.
          pose proof (id2idx_spec rows 0 k r N H Ur) as J2. rewrite <- E, J in J2. inversion J2. lia. }
        destruct (unsolved r) eqn:Ur; simpl; auto. rewrite andb_true_r in E. rewrite E. simpl. reflexivity.
    + rewrite (IH rs HU' ND2 L k r H).
      destruct (unsolved r) eqn:Ur; simpl; auto. destruct (Nat.eqb_spec (sid u) (sid r)) as [E|E]; simpl; auto.
      assert (k = ku).
      { pose proof (id2idx_spec rows 0 k r N H Ur) as J1. pose proof (id2idx_spec rows 0 ku u N Ku' Uu) as J2. rewrite E in J2. rewrite J1 in J2. inversion J2. lia. }
      subst ku. rewrite Ku' in H. inversion H; subst r. rewrite S. destruct (existsb _ t); reflexivity.
Qed.

(* the whole stage is a map of the per-row function when the ids of the unsolved rows are distinct *)
Theorem find_is_map rows : NoDup (map sid (filter unsolved rows)) ->
  forall k r, nth_opt rows k = Some r -> nth_opt (find nconds f rows) k = Some (find_row nconds f r).
Proof.
  intros N k r H. unfold find. fold unsolved.
  destruct (Nat.eqb_spec (length (filter unsolved rows)) 0) as [Z|Z].
  - rewrite nth_opt_map, H. simpl. f_equal. unfold find_row.
    destruct (ssolved r) eqn:S; [unfold seed; now rewrite S|].
    exfalso. assert (I : In r (filter unsolved rows)).
    { apply filter_In. split; [|unfold unsolved; now rewrite S]. clear - H. revert k H. induction rows as [|x t IH]; intros [|k] H; simpl in *; try discriminate; eauto. inversion H; auto. }
    destruct (filter unsolved rows); [destruct I|discriminate].
  - rewrite selected_list.
    rewrite (fold_attach rows N (filter unsolved rows) (map seed rows) (fun u I => I) N (map_length seed rows) k r H).
    rewrite nth_opt_map, H. simpl. unfold find_row.
    destruct (ssolved r) eqn:S.
    + unfold unsolved. rewrite S. simpl. unfold seed. now rewrite S.
    + unfold unsolved at 1. rewrite S. simpl.
      assert (E : existsb (fun u => Nat.eqb (sid u) (sid r)) (filter unsolved rows) = true).
      { apply existsb_exists. exists r. split; [|apply Nat.eqb_refl]. apply filter_In. split; [|unfold unsolved; now rewrite S].
        clear - H. revert k H. induction rows as [|x t IH]; intros [|k] H; simpl in *; try discriminate; eauto. inversion H; auto. }
      rewrite E. destruct (select (col r)) as [d|]; simpl; auto. unfold seed, attached. rewrite S. reflexivity.
Qed.
Theorem find_length rows : length (find nconds f rows) = length rows.
Proof.
  unfold find. destruct (Nat.eqb _ 0); [now rewrite map_length|].
  assert (G : forall sel rs, length (fold_left (fun rs d => match id2idx rows 0 (mid d) with Some k => attach_at rs k d | None => rs end) sel rs) = length rs).
  { induction sel as [|d t IH]; intros rs; simpl; auto. rewrite IH. destruct (id2idx rows 0 (mid d)); auto.
    clear. revert n. induction rs as [|x t IH]; intros [|n]; simpl; auto. }
  rewrite G. apply map_length.
Qed.
End Find.

(* ---------------------------------------------------------------- consequences *)
Section Consequences.
Variable nconds : nat.
Hypothesis nconds_pos : 0 < nconds.

(* the per-row result reads only the row's own jobs *)
Theorem find_row_local f f' r : (forall c, f (sid r) c = f' (sid r) c) -> find_row nconds f r = find_row nconds f' r.
Proof.
  intros H. unfold find_row. destruct (ssolved r); auto.
  assert (E : map (fun c => job_data (sid r) c (f (sid r) c)) (seq 0 nconds) = map (fun c => job_data (sid r) c (f' (sid r) c)) (seq 0 nconds)).
  { apply map_ext. intros c. now rewrite H. }
  now rewrite E.
Qed.
(* whatever is attached to a row is one of its own job results, with the largest total among them *)
Theorem find_row_attaches_own f r d : smcs (find_row nconds f r) = Some (Some d) -> ssolved r = false ->
  (exists c, c < nconds /\ d = job_data (sid r) c (f (sid r) c)) /\
  (forall c, c < nconds -> total (job_data (sid r) c (f (sid r) c)) <= total d) /\
  sissue (find_row nconds f r) = Some (missue d).
Proof.
  unfold find_row. intros H S. rewrite S in *.
  destruct (select _) as [d'|] eqn:E; simpl in H.
  - inversion H; subst d'. apply select_spec in E as [I M]. split; [|split; auto].
    + apply in_map_iff in I as [c [<- Ic]]. apply in_seq in Ic. exists c. split; [lia|reflexivity].
    + intros c Hc. apply M. apply in_map_iff. exists c. split; auto. apply in_seq. lia.
  - unfold seed in H. rewrite S in H. simpl in H. discriminate.
Qed.
(* an unsolved row always leaves the stage with an mcs entry and an issue text *)
Theorem find_row_shape f r : ssolved r = false ->
  (smcs (find_row nconds f r) = Some None /\ sissue (find_row nconds f r) = Some "No MCS identified.") \/
  (exists d, smcs (find_row nconds f r) = Some (Some d) /\ mid d = sid r).
Proof.
  intros S. unfold find_row. rewrite S. destruct (select _) as [d|] eqn:E.
  - right. exists d. split; auto. apply select_spec in E as [I _]. apply in_map_iff in I as [c [<- _]]. destruct (f (sid r) c); reflexivity.
  - left. unfold seed. rewrite S. auto.
Qed.
Theorem find_row_solved_untouched f r : ssolved r = true -> find_row nconds f r = r.
Proof. intros S. unfold find_row. now rewrite S. Qed.
End Consequences.
