(* C09: merging conserves atoms; cutting one bridging bond and merging again restores the graph;
   single-fragment completion consumes every boundary and adds exactly the reported compounds. *)
From Coq Require Import String List Bool Arith Lia Permutation.
From SynRBL Require Import Model.Merge.
Import ListNotations.
Open Scope string_scope.

(* ---------------------------------------------------------------- merge_two_mols *)
Lemma merge_atoms g1 g2 i j bt : matoms (merge_two_mols g1 g2 i j bt) = (matoms g1 ++ matoms g2)%list.
Proof. reflexivity. Qed.
Lemma count_sym_merge s g1 g2 i j bt : count_sym s (merge_two_mols g1 g2 i j bt) = count_sym s g1 + count_sym s g2.
Proof. unfold count_sym. simpl. now rewrite filter_app, app_length. Qed.
Lemma merge_bond_count g1 g2 i j bt :
  length (mbonds (merge_two_mols g1 g2 i j bt)) = length (mbonds g1) + length (mbonds g2) + match bt with Some _ => 1 | None => 0 end.
Proof. simpl. rewrite !app_length, map_length. destruct bt; simpl; lia. Qed.

(* ---------------------------------------------------------------- cut and merge *)
Lemma filter3_perm {A} (c : A -> nat) (l : list A) : (forall x, c x <= 2) ->
  Permutation l (filter (fun x => Nat.eqb (c x) 0) l ++ filter (fun x => Nat.eqb (c x) 1) l ++ filter (fun x => Nat.eqb (c x) 2) l).
Proof.
  intros H. induction l as [|x t IH]; simpl; auto.
  specialize (H x). destruct (c x) as [|[|[|k]]]; simpl; try lia.
  - now apply perm_skip.
  - eapply perm_trans; [apply perm_skip; exact IH|]. apply Permutation_middle.
  - eapply perm_trans; [apply perm_skip; exact IH|].
    rewrite app_assoc. eapply perm_trans; [apply Permutation_middle|]. now rewrite <- app_assoc.
Qed.
Lemma side_le2 n b : side n b <= 2.
Proof. unfold side. destruct b as [[x y] t]. destruct (_ && _); [lia|]. destruct (_ && _); lia. Qed.
Lemma shift_unshift n b : side n b = 1 -> shift n (unshift n b) = b.
Proof.
  unfold side, shift, unshift. destruct b as [[x y] t]. simpl.
  destruct (Nat.ltb x n && Nat.ltb y n); [discriminate|].
  destruct (Nat.leb n x && Nat.leb n y) eqn:E; [|discriminate]. intros _.
  apply andb_prop in E as [E1 E2]. apply Nat.leb_le in E1, E2. repeat f_equal; lia.
Qed.

(* a molecule whose atoms 0..n-1 and n.. are joined by exactly one bond (u, v, t): cutting it and merging
   the two parts at u and v - n with that bond type gives back the same atoms and the same bonds *)
Theorem cut_merge g n u v t : n <= length (matoms g) ->
  filter (fun b => Nat.eqb (side n b) 2) (mbonds g) = [(u, v, t)] -> n <= v ->
  let m := merge_two_mols (left_part n g) (right_part n g) u (v - n) (Some t) in
  matoms m = matoms g /\ Permutation (mbonds m) (mbonds g).
Proof.
  intros Hn Hc Hv m. split.
  - unfold m. rewrite merge_atoms. simpl. apply firstn_skipn.
  - unfold m. simpl. rewrite firstn_length, Nat.min_l by exact Hn.
    rewrite map_map.
    assert (E : map (fun x => shift n (unshift n x)) (filter (fun b => Nat.eqb (side n b) 1) (mbonds g)) = filter (fun b => Nat.eqb (side n b) 1) (mbonds g)).
    { rewrite <- (map_id (filter _ _)) at 2. apply map_ext_in. intros b Ib. apply filter_In in Ib as [_ Ib]. apply Nat.eqb_eq in Ib. now apply shift_unshift. }
    rewrite E. replace (n + (v - n)) with v by lia. rewrite <- Hc.
    apply Permutation_sym. apply filter3_perm. apply side_le2.
Qed.

(* ---------------------------------------------------------------- rules *)
Section Rules.
Variable mcond : string -> compound * nat -> compound * nat -> bool.
Variable econd : string -> compound * nat -> bool.
Variable mact : string -> bool -> compound * nat -> mgraph.
Hypothesis mact_atoms : forall name s x, matoms (mact name s x) = matoms (cmol (fst x)).

Lemma find_first {A} (f : A -> bool) l r : find f l = Some r ->
  exists pre post, l = (pre ++ r :: post)%list /\ f r = true /\ forallb (fun x => negb (f x)) pre = true.
Proof.
  induction l as [|x t IH]; simpl; [discriminate|]. destruct (f x) eqn:E.
  - intros [= <-]. exists [], t. auto.
  - intros H. destruct (IH H) as [pre [post [-> [Ha Hb]]]]. exists (x :: pre), post. simpl. rewrite E. auto.
Qed.
(* the rule that is applied is applicable and is the first applicable one of the list *)
Theorem select_rule_first rules x y r : select_rule mcond rules x y = Some r ->
  exists pre post, rules = (pre ++ r :: post)%list /\ applicable mcond r x y = true /\
                   forallb (fun r' => negb (applicable mcond r' x y)) pre = true.
Proof. unfold select_rule. intros H. exact (find_first (fun r0 => applicable mcond r0 x y) rules r H). Qed.

(* applying a rule: the atoms of both fragments, nothing else; a restriction rule adds no bond *)
Theorem apply_rule_atoms r x y :
  Permutation (matoms (cmol (apply_rule mcond mact r x y))) (matoms (cmol (fst x)) ++ matoms (cmol (fst y))).
Proof.
  unfold apply_rule. destruct (mcond (mname r) x y); simpl; rewrite !mact_atoms; [apply Permutation_refl|apply Permutation_app_comm].
Qed.
Theorem apply_rule_bonds r x y :
  length (mbonds (cmol (apply_rule mcond mact r x y))) =
  (let '(a, b) := if mcond (mname r) x y then (x, y) else (y, x) in
   length (mbonds (mact (mname r) true a)) + length (mbonds (mact (mname r) false b))) + match mbond r with Some _ => 1 | None => 0 end.
Proof. unfold apply_rule. destruct (mcond (mname r) x y); simpl; rewrite !app_length, map_length; destruct (mbond r); simpl; lia. Qed.

Lemma remove_first_length k l : In k l -> length (remove_first k l) = length l - 1.
Proof.
  induction l as [|h t IH]; simpl; [tauto|]. destruct (Nat.eqb_spec h k); [lia|].
  intros [E|I]; [contradiction|]. simpl. rewrite (IH I). destruct t; simpl in *; [tauto|lia].
Qed.
Lemma remove_first_le k l : length (remove_first k l) <= length l.
Proof. induction l as [|h t IH]; simpl; auto. destruct (Nat.eqb h k); simpl; lia. Qed.

(* completing one open fragment: with enough fuel it ends with no open boundary, and the atoms of the result
   are those of the fragment plus those of the compounds of the expansion rules it reports *)
Theorem merge_one_spec rules erules : forall fuel c used res used',
  merge_one mcond econd mact rules erules fuel c used = MOk res used' ->
  cbounds res = [] /\
  exists new, used' = (used ++ new)%list /\
    Permutation (matoms (cmol res)) (matoms (cmol c) ++ flat_map (fun e => matoms (ecompound e)) new) /\
    (forall e, In e new -> In (ename e) (crules res)) /\ (forall n, In n (crules c) -> In n (crules res)).
Proof.
  induction fuel as [|f IH]; intros c used res used' H; simpl in H.
  - destruct (cbounds c) eqn:B; [|discriminate]. inversion H; subst. split; auto. exists []. split; [now rewrite app_nil_r|]. split; [simpl; rewrite app_nil_r; apply Permutation_refl|]. split; [intros e []|auto].
  - destruct (cbounds c) as [|b t] eqn:B.
    + inversion H; subst. split; auto. exists []. split; [now rewrite app_nil_r|]. split; [simpl; rewrite app_nil_r; apply Permutation_refl|]. split; [intros e []|auto].
    + destruct (expand_boundary econd erules (c, b)) as [er|] eqn:E.
      * unfold merge_boundaries in H. destruct (select_rule mcond rules (c, b) (ecomp er, eindex er)) as [r|] eqn:S; [|discriminate]. simpl in H.
        destruct (IH _ _ _ _ H) as [Z [new [-> [P [R1 R2]]]]]. split; auto.
        exists (er :: new). rewrite <- app_assoc. split; auto. split; [|split].
        -- eapply perm_trans; [exact P|]. simpl. rewrite app_assoc. apply Permutation_app_tail.
           apply (apply_rule_atoms r (c, b) (ecomp er, eindex er)).
        -- intros e [<-|I]; auto. apply R2. unfold apply_rule. destruct (mcond (mname r) (c, b) (ecomp er, eindex er));
           cbn [crules ecomp fst snd]; rewrite !in_app_iff; simpl; tauto.
        -- intros n I. apply R2. unfold apply_rule. destruct (mcond (mname r) (c, b) (ecomp er, eindex er));
           cbn [crules ecomp fst snd]; rewrite !in_app_iff; simpl; tauto.
      * destruct (IH _ _ _ _ H) as [Z [new [-> [P [R1 R2]]]]]. split; auto. exists new. repeat split; auto.
Qed.
Theorem merge_one_terminates rules erules : forall fuel c used, length (cbounds c) <= fuel ->
  merge_one mcond econd mact rules erules fuel c used <> MFuel.
Proof.
  induction fuel as [|f IH]; intros c used L; simpl.
  - destruct (cbounds c); [discriminate|simpl in L; lia].
  - destruct (cbounds c) as [|b t] eqn:B; [discriminate|].
    destruct (expand_boundary econd erules (c, b)) as [er|].
    + unfold merge_boundaries. destruct (select_rule mcond rules (c, b) (ecomp er, eindex er)) as [r|]; [|discriminate]. simpl.
      apply IH. unfold apply_rule. destruct (mcond (mname r) (c, b) (ecomp er, eindex er)); simpl.
      * try rewrite B. simpl. rewrite Nat.eqb_refl. simpl in L. lia.
      * rewrite Nat.eqb_refl. simpl. lia.
    + apply IH. simpl. try rewrite B. simpl. rewrite Nat.eqb_refl. simpl in L. lia.
Qed.
End Rules.
