(* Lifting the one-row theorems to completed runs of the pipeline model. *)
From Coq Require Import String ZArith List Bool Arith Lia.
From SynRBL Require Import Base.Dict Base.Strs Base.ListX Model.Comp Model.Matcher Model.Constraint Model.Pipeline
  Proofs.PipelineProofs Proofs.RowLocal Proofs.Balanced.
Import ListNotations.
Open Scope string_scope. Open Scope nat_scope. Open Scope list_scope.

Section L.
Variable OR : oracles.
Variable db : list rule.
Variable ban : list string.
Variable fuel : nat.
Notation F := (F OR db ban fuel).
Notation alone := (alone OR db ban fuel).
Notation run := (run OR db ban fuel).

Lemma Forall2_impl {A B} (P Q : A -> B -> Prop) l m :
  (forall a b, P a b -> Q a b) -> Forall2 P l m -> Forall2 Q l m.
Proof. intros H F. induction F; constructor; auto. Qed.

(* the stripped, parsable inputs: the reactions that get a row *)
Definition kept_inputs (ins : list string) : list string := filter (parse_ok OR) (map (strip OR) ins).

Lemma alone_fields t tmsg s r1 : alone t tmsg s = Done r1 ->
  rxn r1 = rxn (F (fresh 0 s)) /\ rinput r1 = rinput (F (fresh 0 s)) /\ sby r1 = sby (F (fresh 0 s)) /\
  (solved r1 = true -> solved (F (fresh 0 s)) = true) /\
  (is_mcs_row (F (fresh 0 s)) = false -> r1 = F (fresh 0 s)).
Proof.
  unfold RowLocal.alone, conf_one. set (x := F (fresh 0 s)). intros H.
  destruct (is_mcs_row x) eqn:IM.
  - destruct (confidence OR (rinput x) (rxn x) >=? t)%Z.
    + inversion H; subst. destruct x; simpl; repeat split; auto; discriminate.
    + destruct x as [a1 a2 a3 a4 a5 a6 a7 a8 a9 a10]; simpl in *. destruct a6 as [[|]|]; try discriminate.
      inversion H; subst. simpl. repeat split; auto; discriminate.
  - inversion H; subst. repeat split; auto.
Qed.
Lemma set_rid_fields r j : rxn (set_rid r j) = rxn r /\ rinput (set_rid r j) = rinput r /\ sby (set_rid r j) = sby r /\
  solved (set_rid r j) = solved r /\ issue (set_rid r j) = issue r.
Proof. destruct r; repeat split. Qed.

(* C04 on runs *)
Theorem run_balanced_passthrough t tmsg ins rows st :
  run t tmsg ins = Done (rows, st) ->
  Forall2 (fun s r =>
    (good OR s = true -> solved r = true /\ sby r = Some M_INPUT /\ rxn r = s /\ rinput r = s) /\
    (sby r = Some M_INPUT -> good OR s = true /\ rxn r = s)) (kept_inputs ins) rows.
Proof.
  intros H. pose proof (run_rows_are_alone_results OR db ban fuel t tmsg ins rows st H) as A.
  eapply Forall2_impl; [|exact A]. intros s r [r1 [A1 E]]. cbv beta.
  destruct (alone_fields t tmsg s r1 A1) as [X1 [X2 [X3 [X4 X5]]]].
  destruct (set_rid_fields r1 (rid r)) as [Y1 [Y2 [Y3 [Y4 _]]]]. rewrite <- E in *.
  split.
  - intros G. pose proof (balanced_passthrough OR db ban fuel 0 s G) as BP.
    assert (NM : is_mcs_row (F (fresh 0 s)) = false) by (rewrite BP; reflexivity).
    rewrite (X5 NM), BP in *. simpl in *. repeat split; congruence.
  - intros B. assert (G : good OR s = true).
    { rewrite <- (input_balanced_only_if OR db ban fuel 0 s). unfold is_input_row. rewrite <- X3, <- Y3, B. reflexivity. }
    split; auto. pose proof (balanced_passthrough OR db ban fuel 0 s G) as BP.
    rewrite Y1, X1, BP. reflexivity.
Qed.

(* C01 on runs (repaired pipeline): every solved row was found balanced by the comparator on exactly the
   reaction it returns *)
Theorem run_solved_validated t tmsg ins rows st :
  run t tmsg ins = Done (rows, st) ->
  Forall2 (fun s r => solved r = true -> bal OR (rxn r) = true) (kept_inputs ins) rows.
Proof.
  intros H. pose proof (run_rows_are_alone_results OR db ban fuel t tmsg ins rows st H) as A.
  eapply Forall2_impl; [|exact A]. intros s r [r1 [A1 E]] S. cbv beta.
  destruct (alone_fields t tmsg s r1 A1) as [X1 [_ [_ [X4 _]]]].
  destruct (set_rid_fields r1 (rid r)) as [Y1 [_ [_ [Y4 _]]]]. rewrite <- E in *.
  assert (SF : solved (F (fresh 0 s)) = true) by (apply X4; congruence).
  rewrite Y1, X1. exact (solved_rows_validated OR db ban fuel 0 s SF).
Qed.

(* C06: the row a reaction gets is the row it gets alone, whatever else is in the batch *)
Theorem run_row_independent_of_batch t tmsg ins1 ins2 rows1 rows2 st1 st2 s i j r1 r2 :
  run t tmsg ins1 = Done (rows1, st1) -> run t tmsg ins2 = Done (rows2, st2) ->
  nth_error (kept_inputs ins1) i = Some s -> nth_error (kept_inputs ins2) j = Some s ->
  nth_error rows1 i = Some r1 -> nth_error rows2 j = Some r2 ->
  set_rid r1 0 = set_rid r2 0.
Proof.
  intros H1 H2 N1 N2 R1 R2.
  pose proof (run_rows_are_alone_results OR db ban fuel t tmsg ins1 rows1 st1 H1) as A1.
  pose proof (run_rows_are_alone_results OR db ban fuel t tmsg ins2 rows2 st2 H2) as A2.
  assert (G : forall l rows k x y, Forall2 (fun s r => exists r1, alone t tmsg s = Done r1 /\ r = set_rid r1 (rid r)) l rows ->
              nth_error l k = Some x -> nth_error rows k = Some y -> exists q, alone t tmsg x = Done q /\ y = set_rid q (rid y)).
  { intros l rows k x y FA. revert k. induction FA; intros k Nx Ny; destruct k; simpl in *; try discriminate.
    - inversion Nx; inversion Ny; subst. auto.
    - eauto. }
  destruct (G _ _ _ _ _ A1 N1 R1) as [q1 [Q1 E1]]. destruct (G _ _ _ _ _ A2 N2 R2) as [q2 [Q2 E2]].
  rewrite Q1 in Q2. inversion Q2; subst q2. rewrite E1, E2. destruct q1; reflexivity.
Qed.
End L.
