(* C16: the matcher's answer depends only on the labelled graph: it is invariant under renumbering
   the molecule's atoms (any isomorphism, any order of the neighbour lists). *)
From Coq Require Import String List Bool Arith Lia Permutation.
From SynRBL Require Import Model.FGMatch.
Import ListNotations.
Open Scope string_scope.

Lemma existsb_fg {A} (f g : A -> bool) l : (forall x, f x = g x) -> existsb f l = existsb g l.
Proof. intros E. induction l as [|x t IH]; simpl; auto. now rewrite E, IH. Qed.
Lemma existsb_perm {A} (f g : A -> bool) l l' : Permutation l l' -> (forall x, f x = g x) -> existsb f l = existsb g l'.
Proof.
  intros P E. induction P; simpl.
  - reflexivity.
  - now rewrite E, IHP.
  - rewrite !E, (existsb_fg f g l E). destruct (g x), (g y); reflexivity.
  - rewrite IHP1, <- IHP2. symmetry. now apply existsb_fg.
Qed.
Lemma existsb_map' {A B} (h : A -> B) (f : B -> bool) l : existsb f (map h l) = existsb (fun x => f (h x)) l.
Proof. induction l; simpl; congruence. Qed.
Lemma remove1_perm x l l' : Permutation l l' -> Permutation (remove1 x l) (remove1 x l').
Proof.
  intros P. induction P; simpl; auto.
  - destruct (Nat.eqb x x0); auto.
  - destruct (Nat.eqb_spec x y), (Nat.eqb_spec x x0); subst; auto. apply perm_swap.
  - eapply perm_trans; eauto.
Qed.
Lemma filter_perm {A} (f : A -> bool) l l' : Permutation l l' -> Permutation (filter f l) (filter f l').
Proof.
  intros P. induction P; simpl; auto.
  - destruct (f x); auto.
  - destruct (f x), (f y); auto. apply perm_swap.
  - eapply perm_trans; eauto.
Qed.

Lemma assign_ext ok ok' pn : forall l, (forall p x, ok p x = ok' p x) -> assign ok pn l = assign ok' pn l.
Proof.
  induction pn as [|p ps IH]; intros l E; simpl; auto.
  apply existsb_perm; auto. intros x. now rewrite E, (IH _ E).
Qed.
Lemma assign_perm ok pn : forall l l', Permutation l l' -> assign ok pn l = assign ok pn l'.
Proof.
  induction pn as [|p ps IH]; intros l l' P; simpl; auto.
  destruct (existsb (fun x => ok p x && assign ok ps (remove1 x l)) l) eqn:E1.
  - apply existsb_exists in E1 as [x [I H]]. symmetry. apply existsb_exists. exists x. split; [eapply Permutation_in; eauto|].
    rewrite <- (IH (remove1 x l) (remove1 x l')); auto. now apply remove1_perm.
  - destruct (existsb (fun x => ok p x && assign ok ps (remove1 x l')) l') eqn:E2; auto.
    apply existsb_exists in E2 as [x [I H]].
    assert (existsb (fun x => ok p x && assign ok ps (remove1 x l)) l = true).
    { apply existsb_exists. exists x. split; [eapply Permutation_in; [apply Permutation_sym|]; eauto|].
      rewrite (IH (remove1 x l) (remove1 x l')); auto. now apply remove1_perm. }
    congruence.
Qed.

Section Iso.
Variables G G' P : graph.
Variable pi : nat -> nat.
Hypothesis pi_inj : forall x y, pi x = pi y -> x = y.
Hypothesis iso_sym : forall x, sym G' (pi x) = sym G x.
Hypothesis iso_nbrs : forall x, Permutation (nbrs G' (pi x)) (map pi (nbrs G x)).
Hypothesis iso_bond : forall x y, bond G' (pi x) (pi y) = bond G x y.

Lemma memn_map x l : memn (pi x) (map pi l) = memn x l.
Proof.
  unfold memn. induction l as [|y t IH]; simpl; auto. rewrite IH. f_equal.
  destruct (Nat.eqb_spec x y) as [->|N]; [apply Nat.eqb_refl|]. apply Nat.eqb_neq. intros E. apply N. now apply pi_inj.
Qed.
Lemma filter_map_pi va l : filter (fun y => negb (memn y (map pi va))) (map pi l) = map pi (filter (fun x => negb (memn x va)) l).
Proof. induction l as [|x t IH]; simpl; auto. rewrite memn_map. destruct (memn x va); simpl; now rewrite IH. Qed.
Lemma remove1_map x l : remove1 (pi x) (map pi l) = map pi (remove1 x l).
Proof.
  induction l as [|y t IH]; simpl; auto. destruct (Nat.eqb_spec x y) as [->|N].
  - now rewrite Nat.eqb_refl.
  - assert (E : Nat.eqb (pi x) (pi y) = false) by (apply Nat.eqb_neq; intros E; apply N; now apply pi_inj). rewrite E. simpl. now rewrite IH.
Qed.
Lemma assign_map ok ok' pn : (forall p x, ok' p (pi x) = ok p x) -> forall l, assign ok' pn (map pi l) = assign ok pn l.
Proof.
  intros E. induction pn as [|p ps IH]; intros l; simpl; auto.
  rewrite existsb_map'. apply existsb_perm; auto. intros x. now rewrite E, remove1_map, IH.
Qed.

Theorem fits_iso : forall fuel a pa va vp,
  fits G' P fuel (pi a) pa (map pi va) vp = fits G P fuel a pa va vp.
Proof.
  induction fuel as [|f IH]; intros a pa va vp; [reflexivity|]. cbn [fits]. rewrite iso_sym. f_equal.
  set (pn := filter (fun x => negb (memn x (pa :: vp))) (nbrs P pa)).
  set (an := filter (fun x => negb (memn x (a :: va))) (nbrs G a)).
  set (an' := filter (fun x => negb (memn x (pi a :: map pi va))) (nbrs G' (pi a))).
  assert (PA : Permutation an' (map pi an)).
  { unfold an', an. change (pi a :: map pi va) with (map pi (a :: va)). rewrite <- filter_map_pi. apply filter_perm. apply iso_nbrs. }
  destruct pn as [|p0 ps]; auto.
  rewrite (Permutation_length PA), map_length. f_equal.
  rewrite (assign_perm _ _ _ _ PA).
  apply assign_map. intros p x. rewrite iso_sym, iso_bond. f_equal.
  change (pi a :: map pi va) with (map pi (a :: va)). apply IH.
Qed.

Theorem pattern_match_iso a : pattern_match G' P (pi a) = pattern_match G P a.
Proof.
  unfold pattern_match. apply existsb_perm; auto. intros pa. change (@nil nat) with (map pi []) at 1. apply fits_iso.
Qed.
End Iso.

Theorem check_functional_group_iso G G' pi c a :
  (forall x y, pi x = pi y -> x = y) -> (forall x, sym G' (pi x) = sym G x) ->
  (forall x, Permutation (nbrs G' (pi x)) (map pi (nbrs G x))) -> (forall x y, bond G' (pi x) (pi y) = bond G x y) ->
  check_functional_group G' c (pi a) = check_functional_group G c a.
Proof.
  intros H1 H2 H3 H4. unfold check_functional_group. f_equal; [|f_equal]; apply existsb_perm; auto; intros x;
  rewrite ?(pattern_match_iso G G' (fst x) pi H1 H2 H3 H4), ?(pattern_match_iso G G' (snd x) pi H1 H2 H3 H4), ?(pattern_match_iso G G' x pi H1 H2 H3 H4); reflexivity.
Qed.
