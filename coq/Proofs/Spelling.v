(* C14: the composition-determined steps (verdict, difference formula, water step, solver) depend on the
   composition dictionaries only as finite maps -- not on the order of their entries, which is what a
   different atom order / spelling of the same molecules changes. *)
From Coq Require Import String ZArith List Bool Arith Lia Permutation.
From SynRBL Require Import Base.Dict Base.Strs Base.ListX Model.Comp Model.Matcher Model.Constraint Model.Pipeline
  Proofs.CompProofs Proofs.MatcherProofs Proofs.Balanced.
Import ListNotations.
Open Scope string_scope. Open Scope Z_scope.

Definition geq (a b : dict) : Prop := forall k, get a k = get b k.
Lemma geq_refl a : geq a a. Proof. intros k; reflexivity. Qed.
Lemma geq_sym a b : geq a b -> geq b a. Proof. intros H k; now rewrite H. Qed.
Lemma geq_mem a b k : geq a b -> mem a k = mem b k. Proof. intros H. unfold mem. now rewrite H. Qed.
Lemma geq_getd a b k : geq a b -> getd a k = getd b k. Proof. intros H. unfold getd. now rewrite H. Qed.

Lemma geq_in_keys a b k : geq a b -> (In k (keys a) <-> In k (keys b)).
Proof.
  intros H. split; intros I; apply in_keys_get in I as [v G]; [rewrite H in G|rewrite <- H in G]; eapply get_in_keys; eauto.
Qed.
Lemma geq_length a b : geq a b -> nodupk a -> nodupk b -> length a = length b.
Proof.
  intros H Na Nb. rewrite <- (map_length fst a), <- (map_length fst b). fold (keys a) (keys b).
  apply Permutation_length. apply NoDup_Permutation; auto using nodupk_NoDup. intros k. now apply geq_in_keys.
Qed.

Lemma forallb_congr {A} (f g : A -> bool) l l' : (forall x, In x l <-> In x l') -> (forall x, f x = g x) -> forallb f l = forallb g l'.
Proof.
  intros HI HF. destruct (forallb f l) eqn:E1, (forallb g l') eqn:E2; auto.
  - rewrite forallb_forall in E1. apply forallb_false_ex in E2 as [x [I Fx]]. rewrite <- HF, E1 in Fx; [discriminate|now apply HI].
  - rewrite forallb_forall in E2. apply forallb_false_ex in E1 as [x [I Fx]]. rewrite HF, E2 in Fx; [discriminate|now apply HI].
Qed.
Lemma existsb_congr {A} (f g : A -> bool) l l' : (forall x, In x l <-> In x l') -> (forall x, f x = g x) -> existsb f l = existsb g l'.
Proof.
  intros HI HF. destruct (existsb f l) eqn:E1, (existsb g l') eqn:E2; auto.
  - apply existsb_exists in E1 as [x [I Fx]]. assert (existsb g l' = true) by (apply existsb_exists; exists x; split; [now apply HI|now rewrite <- HF]). congruence.
  - apply existsb_exists in E2 as [x [I Fx]]. assert (existsb f l = true) by (apply existsb_exists; exists x; split; [now apply HI|now rewrite HF]). congruence.
Qed.

Lemma in_get d k v : nodupk d -> In (k, v) d -> get d k = Some v.
Proof.
  induction d as [|[k1 v1] t IH]; simpl; [intros _ []|]. intros [G N] [E|I].
  - inversion E; subst. now rewrite String.eqb_refl.
  - destruct (String.eqb_spec k k1) as [->|]; auto. rewrite (IH N I) in G. discriminate.
Qed.
Lemma geq_in a b : geq a b -> nodupk a -> nodupk b -> forall x, In x a <-> In x b.
Proof.
  intros H Na Nb [k v]. split; intros I; apply get_in.
  - rewrite <- H. now apply in_get.
  - rewrite H. now apply in_get.
Qed.

(* ---- the comparator *)
Lemma check_keys_geq a a' b b' : geq a a' -> geq b b' -> check_keys a b = check_keys a' b'.
Proof. intros Ha Hb. unfold check_keys. apply forallb_congr; [intros k; now apply geq_in_keys|intros k; now apply geq_mem]. Qed.
Lemma all_cmp_geq f ks ks' r r' p p' : (forall k, In k ks <-> In k ks') -> geq r r' -> geq p p' -> all_cmp f ks r p = all_cmp f ks' r' p'.
Proof. intros Hk Hr Hp. unfold all_cmp. apply forallb_congr; auto. intros k. now rewrite (geq_getd r r'), (geq_getd p p'). Qed.
Theorem compare_dicts_geq r r' p p' : geq r r' -> geq p p' -> compare_dicts r p = compare_dicts r' p'.
Proof.
  intros Hr Hp. unfold compare_dicts, same_keys.
  rewrite (check_keys_geq r r' p p'), (check_keys_geq p p' r r'); auto.
  rewrite (all_cmp_geq Z.geb (keys p) (keys p') r r' p p'), (all_cmp_geq Z.leb (keys r) (keys r') r r' p p'),
          (all_cmp_geq Z.eqb (keys r) (keys r') r r' p p'), (all_cmp_geq Z.geb (keys r) (keys r') r r' p p'); auto;
  intros k; now apply geq_in_keys.
Qed.

Lemma fold_upd_geq F F' l l' : nodupk l -> nodupk l' -> geq l l' -> (forall k v, F k v = F' k v) ->
  geq (fold_left (upd F) l []) (fold_left (upd F') l' []).
Proof. intros N N' H HF k. rewrite !fold_upd_get; auto. rewrite <- H. destruct (get l k); auto. now rewrite HF. Qed.
Lemma fold_upd_geq2 F F' l l' d d' : nodupk l -> nodupk l' -> geq l l' -> geq d d' -> (forall k v, F k v = F' k v) ->
  geq (fold_left (upd F) l d) (fold_left (upd F') l' d').
Proof. intros N N' H Hd HF k. rewrite !fold_upd_get; auto. rewrite <- H, Hd. destruct (get l k); auto. now rewrite HF. Qed.

Lemma diff_dicts_geq r r' p p' : nodupk r -> nodupk r' -> nodupk p -> nodupk p' -> geq r r' -> geq p p' ->
  geq (diff_dicts r p) (diff_dicts r' p').
Proof.
  intros Nr Nr' Np Np' Hr Hp. unfold diff_dicts. apply fold_upd_geq2; auto.
  - apply fold_upd_geq; auto. intros k v. unfold diff_f1. now rewrite Hp.
  - intros k v. unfold diff_f2. now rewrite (geq_mem r r').
Qed.
Lemma diff_dicts_nodupk r p : nodupk (diff_dicts r p).
Proof. unfold diff_dicts. apply fold_upd_nodupk. apply fold_upd_nodupk. exact I. Qed.

Lemma get_add_q d k : get (add_q d) k = if String.eqb k "Q" then (match get d "Q" with Some v => Some v | None => Some 0 end) else get d k.
Proof.
  unfold add_q, mem. destruct (get d "Q") as [v|] eqn:G.
  - destruct (String.eqb_spec k "Q") as [->|]; auto.
  - destruct (String.eqb_spec k "Q") as [->|N]; [apply get_set_same|now apply get_set_other].
Qed.
Lemma add_q_geq d d' : geq d d' -> geq (add_q d) (add_q d').
Proof. intros H k. rewrite !get_add_q, !H. reflexivity. Qed.
Lemma enforce_geq r r' p p' : nodupk r -> nodupk r' -> nodupk p -> nodupk p' -> geq r r' -> geq p p' ->
  geq (enforce_product_side r p) (enforce_product_side r' p').
Proof.
  intros Nr Nr' Np Np' Hr Hp. unfold enforce_product_side. apply fold_upd_geq2; auto.
  - apply fold_upd_geq; auto. intros k v. unfold eps_f1. now rewrite (geq_getd p p').
  - intros k v. unfold eps_f2. now rewrite (geq_mem r r').
Qed.
Lemma enforce_nodupk r p : nodupk (enforce_product_side r p).
Proof. unfold enforce_product_side. apply fold_upd_nodupk. apply fold_upd_nodupk. exact I. Qed.
Lemma negate_nodupk d : nodupk d -> nodupk (negate d).
Proof. induction d as [|[k v] t IH]; simpl; auto. intros [G N]. split; auto. rewrite negate_get, G. reflexivity. Qed.
Lemma negate_geq d d' : geq d d' -> geq (negate d) (negate d').
Proof. intros H k. rewrite !negate_get, H. reflexivity. Qed.

Definition same_cls (x y : dict * verdict) : Prop := snd x = snd y /\ geq (fst x) (fst y) /\ nodupk (fst x) /\ nodupk (fst y).
Lemma reverse_geq e e' : geq e e' -> nodupk e -> nodupk e' -> same_cls (reverse_if_negative e) (reverse_if_negative e').
Proof.
  intros H N N'. unfold reverse_if_negative. rewrite (geq_length e e' H N N'), (geq_mem e e' "Q" H).
  destruct (Nat.eqb (length e') 2 && mem e' "Q").
  - rewrite (existsb_congr _ (fun kv => negb (String.eqb (fst kv) "Q") && (snd kv <? 0)) e e' (geq_in e e' H N N') (fun _ => eq_refl)).
    destruct (existsb _ e'); repeat split; simpl; auto using negate_geq, negate_nodupk.
  - repeat split; auto.
Qed.
Theorem classify_geq r r' p p' : nodupk r -> nodupk r' -> nodupk p -> nodupk p' -> geq r r' -> geq p p' ->
  same_cls (classify r p) (classify r' p').
Proof.
  intros Nr Nr' Np Np' Hr Hp. unfold classify. rewrite <- (compare_dicts_geq r r' p p' Hr Hp).
  destruct (compare_dicts r p).
  1,2,3: unfold same_cls; simpl; repeat split; auto using diff_dicts_geq, diff_dicts_nodupk.
  apply reverse_geq; auto using enforce_nodupk. apply enforce_geq; auto using add_q_nodupk, add_q_geq.
Qed.

(* ---- the solver *)
Lemma set_geq d d' k v : geq d d' -> geq (set d k v) (set d' k v).
Proof. intros H k'. destruct (String.eqb_spec k' k) as [->|N]; [now rewrite !get_set_same|rewrite !get_set_other; auto]. Qed.
Lemma del_geq d d' k : geq d d' -> geq (del d k) (del d' k).
Proof. intros H k'. destruct (String.eqb_spec k' k) as [->|N]; [now rewrite !get_del_same|rewrite !get_del_other; auto]. Qed.
Lemma sub1_geq nd nd' k v ratio : geq nd nd' -> geq (sub1 nd k v ratio) (sub1 nd' k v ratio).
Proof. intros H. unfold sub1. rewrite <- H. destruct (get nd k); auto. destruct (_ && _); auto using set_geq, del_geq. Qed.
Lemma sub1_nodupk nd k v ratio : nodupk nd -> nodupk (sub1 nd k v ratio).
Proof. intros N. unfold sub1. destruct (get nd k); auto. destruct (_ && _); auto using nodupk_set, nodupk_del. Qed.
Lemma subtract_geq c : forall data data' ratio, geq data data' -> geq (subtract c data ratio) (subtract c data' ratio).
Proof. unfold subtract. induction c as [|[k v] t IH]; simpl; auto. intros. apply IH. now apply sub1_geq. Qed.
Lemma subtract_nodupk c : forall data ratio, nodupk data -> nodupk (subtract c data ratio).
Proof. unfold subtract. induction c as [|[k v] t IH]; simpl; auto. intros. apply IH. now apply sub1_nodupk. Qed.
Lemma can_match_geq c data data' : geq data data' -> can_match c data = can_match c data'.
Proof. intros H. unfold can_match. apply forallb_congr; [tauto|]. intros kv. now rewrite H. Qed.
Lemma ratios_geq c data data' : geq data data' -> ratios c data = ratios c data'.
Proof. intros H. induction c as [|[k v] t IH]; simpl; auto. rewrite IH, (geq_getd data data' k H). reflexivity. Qed.

Theorem dfs_geq rules : forall fuel data data' p, geq data data' -> nodupk data -> nodupk data' ->
  dfs fuel rules data p = dfs fuel rules data' p.
Proof.
  induction fuel as [|f IH]; intros data data' p H N N'; simpl; auto.
  unfold exit_py. rewrite (geq_length data data' H N N'), (geq_getd data data' "Q" H).
  destruct (_ && _); auto. f_equal. apply map_ext. intros r.
  unfold apply_rule. rewrite (can_match_geq _ data data' H), (ratios_geq _ data data' H).
  destruct (can_match (rcomp r) data'); auto. destruct (ratios (rcomp r) data') as [|x t]; auto.
  apply IH; auto using subtract_geq, subtract_nodupk.
Qed.

Lemma nodupk_filter (f : string * Z -> bool) d : nodupk d -> nodupk (filter f d).
Proof.
  induction d as [|[k v] t IH]; simpl; auto. intros [G N]. destruct (f (k, v)); simpl; auto. split; auto.
  now apply get_filter_none.
Qed.
Lemma init_data_geq d d' : nodupk d -> nodupk d' -> geq d d' ->
  geq (init_data d) (init_data d') /\ nodupk (init_data d) /\ nodupk (init_data d').
Proof.
  intros N N' H. unfold init_data. rewrite (geq_mem d d' "Q" H).
  assert (X : geq (if mem d' "Q" then d else set d "Q" 0) (if mem d' "Q" then d' else set d' "Q" 0)) by (destruct (mem d' "Q"); auto using set_geq).
  assert (Y : nodupk (if mem d' "Q" then d else set d "Q" 0)) by (destruct (mem d' "Q"); auto using nodupk_set).
  assert (Z : nodupk (if mem d' "Q" then d' else set d' "Q" 0)) by (destruct (mem d' "Q"); auto using nodupk_set).
  split; [|split; now apply nodupk_filter]. intros k. rewrite !get_filter; auto. now rewrite X.
Qed.
Theorem match_all_geq fuel db d d' : nodupk d -> nodupk d' -> geq d d' -> match_all fuel db d = match_all fuel db d'.
Proof.
  intros N N' H. unfold match_all. destruct (init_data_geq d d' N N' H) as [A [B C]]. now rewrite (dfs_geq _ fuel _ _ [] A B C).
Qed.

(* ---- the rule-based stage up to the solver, for two spellings of one reaction *)
Section Rows.
Variable OR : oracles.
Variables r r' : row.
Hypothesis HL : geq (decomp OR (lhs (rxn r))) (decomp OR (lhs (rxn r'))).
Hypothesis HR : geq (decomp OR (rhs (rxn r))) (decomp OR (rhs (rxn r'))).
Hypothesis NL : nodupk (decomp OR (lhs (rxn r))) /\ nodupk (decomp OR (lhs (rxn r'))).
Hypothesis NR : nodupk (decomp OR (rhs (rxn r))) /\ nodupk (decomp OR (rhs (rxn r'))).

(* same verdict, same number of water molecules inserted, and an equivalent difference formula *)
Theorem rb_classify_spelling :
  let '(rx, p, v, d) := rb_classify OR r in let '(rx', p', v', d') := rb_classify OR r' in
  v = v' /\ geq d d' /\ nodupk d /\ nodupk d' /\
  exists add, rx = rxn r ++ add /\ rx' = rxn r' ++ add /\ p = rhs (rxn r) ++ add /\ p' = rhs (rxn r') ++ add.
Proof.
  destruct NL as [N1 N2], NR as [N3 N4]. unfold rb_classify.
  pose proof (classify_geq _ _ _ _ N1 N2 N3 N4 HL HR) as [E [G [M1 M2]]].
  destruct (classify (decomp OR (lhs (rxn r))) (decomp OR (rhs (rxn r)))) as [d v].
  destruct (classify (decomp OR (lhs (rxn r'))) (decomp OR (rhs (rxn r')))) as [d' v']. simpl in E, G, M1, M2. subst v'.
  assert (Z : forall s : string, s = (s ++ "")%string) by (intros s; induction s; simpl; congruence).
  destruct v; try (repeat split; auto; exists ""%string; repeat split; apply Z).
  rewrite <- (G "O"). destruct (get d "O") as [w|].
  - rewrite <- (geq_getd (del d "O") (del d' "O") "H" (del_geq _ _ _ G)).
    destruct (_ >=? _); repeat split; auto using set_geq, del_geq, nodupk_set, nodupk_del; eexists; repeat split.
  - repeat split; auto. exists ""%string; repeat split; apply Z.
Qed.

(* hence the ranked list of completions the solver proposes is the same *)
Theorem rb_solver_spelling fuel db :
  let '(_, _, _, d) := rb_classify OR r in let '(_, _, _, d') := rb_classify OR r' in
  match_all fuel db d = match_all fuel db d'.
Proof.
  pose proof rb_classify_spelling as H.
  destruct (rb_classify OR r) as [[[rx p] v] d]. destruct (rb_classify OR r') as [[[rx' p'] v'] d'].
  destruct H as [_ [G [M1 [M2 _]]]]. now apply match_all_geq.
Qed.
End Rows.

(* ---- the input check: "balanced" is spelling independent *)
Theorem good_spelling OR s s' :
  geq (decomp OR (lhs s)) (decomp OR (lhs s')) -> geq (decomp OR (rhs s)) (decomp OR (rhs s')) ->
  carbon_of OR s = carbon_of OR s' -> good OR s = good OR s'.
Proof. intros HL HR HC. unfold good, bal. now rewrite (compare_dicts_geq _ _ _ _ HL HR), HC. Qed.
