(* Soundness of the composition solver (C08): every returned completion sums, in every
   element and in charge, to the imbalance it was asked to fill. *)
From Coq Require Import String ZArith List Bool Lia Permutation.
From SynRBL Require Import Base.Dict Base.Strs Base.ListX Model.Matcher.
Import ListNotations.
Open Scope string_scope. Open Scope Z_scope.

Definition psum (p : path) (k : string) : Z :=
  fold_right (fun it a => snd it * getd (rcomp (fst it)) k + a) 0 p.
Lemma psum_app p q k : psum (p ++ q)%list k = psum p k + psum q k.
Proof. induction p as [|x t IH]; simpl; lia. Qed.

Definition has_q (d : dict) : Prop := mem d "Q" = true.

Lemma get_in (d : dict) k v : get d k = Some v -> In (k, v) d.
Proof.
  induction d as [|[k' v'] t IH]; simpl; [discriminate|].
  destruct (String.eqb_spec k k') as [->|N]; [intros [= ->]; auto | auto].
Qed.

Lemma sub1_getd nd k v ratio k' :
  get nd k <> None ->
  getd (sub1 nd k v ratio) k' = if String.eqb k' k then getd nd k - v * ratio else getd nd k'.
Proof.
  intros H. unfold sub1. destruct (get nd k) as [x|] eqn:G; [|congruence].
  destruct (String.eqb_spec k' k) as [->|N].
  - destruct ((x - v * ratio =? 0) && negb (String.eqb k "Q")) eqn:E.
    + unfold getd. rewrite get_del_same, G. apply andb_prop in E as [E _]. apply Z.eqb_eq in E. lia.
    + unfold getd. rewrite get_set_same, G. reflexivity.
  - destruct ((x - v * ratio =? 0) && negb (String.eqb k "Q")).
    + unfold getd. now rewrite get_del_other.
    + unfold getd. now rewrite get_set_other.
Qed.
Lemma sub1_get_other nd k v ratio k' : k' <> k -> get (sub1 nd k v ratio) k' = get nd k'.
Proof.
  intros N. unfold sub1. destruct (get nd k) as [x|]; auto.
  destruct ((x - v * ratio =? 0) && negb (String.eqb k "Q")).
  - now rewrite get_del_other.
  - now rewrite get_set_other.
Qed.
Lemma sub1_has_q nd k v ratio : has_q nd -> has_q (sub1 nd k v ratio).
Proof.
  unfold has_q, mem. intros H.
  destruct (String.eqb_spec k "Q") as [->|N].
  - unfold sub1. destruct (get nd "Q") as [x|] eqn:G; [|now rewrite G].
    rewrite String.eqb_refl, andb_false_r. now rewrite get_set_same.
  - rewrite sub1_get_other; auto.
Qed.

Lemma subtract_spec c : nodupk c -> forall data ratio,
  (forall k v, get c k = Some v -> get data k <> None) ->
  (forall k', getd (subtract c data ratio) k' = getd data k' - getd c k' * ratio) /\
  (has_q data -> has_q (subtract c data ratio)).
Proof.
  unfold subtract.
  induction c as [|[k v] t IH]; intros ND data ratio P; simpl.
  - split; [intros k'; replace (getd [] k') with 0 by reflexivity; lia | auto].
  - destruct ND as [Gt ND].
    assert (P' : forall k2 v2, get t k2 = Some v2 -> get (sub1 data k v ratio) k2 <> None).
    { intros k2 v2 G2. assert (k2 <> k) by (intros ->; congruence).
      rewrite sub1_get_other; auto. apply (P k2 v2). simpl.
      destruct (String.eqb_spec k2 k); [contradiction|auto]. }
    destruct (IH ND (sub1 data k v ratio) ratio P') as [I1 I2]. split.
    + intros k'. rewrite I1. rewrite sub1_getd.
      2:{ apply (P k v). simpl. now rewrite String.eqb_refl. }
      assert (GC : getd ((k, v) :: t) k' = if String.eqb k' k then v else getd t k').
      { unfold getd. simpl. destruct (String.eqb k' k); auto. }
      rewrite GC. clear GC. destruct (String.eqb k' k) eqn:E; [|lia].
      apply String.eqb_eq in E. subst k'. unfold getd at 2. rewrite Gt. lia.
    + intros H. apply I2. now apply sub1_has_q.
Qed.

Lemma can_match_present c data : can_match c data = true -> has_q data ->
  forall k v, get c k = Some v -> get data k <> None.
Proof.
  unfold can_match. intros H Q k v G. rewrite forallb_forall in H.
  specialize (H (k, v) (get_in _ _ _ G)). simpl in H.
  destruct (String.eqb_spec k "Q") as [->|N].
  - unfold has_q, mem in Q. destruct (get data "Q"); congruence.
  - destruct (get data k); congruence.
Qed.

Lemma apply_rule_sound data r nd ratio :
  has_q data -> nodupk (rcomp r) -> apply_rule data r = Applied nd ratio ->
  (forall k, getd nd k = getd data k - ratio * getd (rcomp r) k) /\ has_q nd /\ ratio >= 0.
Proof.
  intros Q ND H. unfold apply_rule in H.
  destruct (can_match (rcomp r) data) eqn:CM; [|discriminate].
  destruct (ratios (rcomp r) data) as [|x t]; [discriminate|].
  inversion H; subst.
  destruct (subtract_spec (rcomp r) ND data (Z.abs (zmin_list x t))
              (can_match_present _ _ CM Q)) as [S1 S2].
  repeat split; auto; [intros k; rewrite S1; lia | lia].
Qed.

Lemma exit_zero data : has_q data -> exit_py data = true -> forall k, getd data k = 0.
Proof.
  unfold exit_py, has_q, mem. intros Q E k. apply andb_prop in E as [L Z0].
  apply Nat.eqb_eq in L. apply Z.eqb_eq in Z0.
  destruct data as [|[k1 v1] [|? ?]]; simpl in L; try discriminate.
  unfold getd in *. cbn [get] in *.
  destruct (String.eqb_spec "Q" k1) as [<-|N]; [|discriminate].
  destruct (String.eqb k "Q"); auto.
Qed.

Theorem dfs_sound rules :
  (forall r, In r rules -> nodupk (rcomp r)) ->
  forall fuel data p sols, has_q data -> dfs fuel rules data p = Some sols ->
  forall sol, In sol sols ->
    (forall k, getd data k + psum p k = psum sol k) /\
    exists ext, sol = (p ++ ext)%list /\ forall it, In it ext -> In (fst it) rules /\ snd it >= 0.
Proof.
  intros ND. induction fuel as [|f IH]; intros data p sols Q H sol I; simpl in H; [discriminate|].
  destruct (exit_py data) eqn:E.
  - inversion H; subst. destruct I as [<-|[]]. split.
    + intros k. rewrite (exit_zero data Q E k). lia.
    + exists []. rewrite app_nil_r. split; auto. intros it [].
  - destruct (concat_opt_in _ _ _ H I) as [y [Iy Is]].
    apply in_map_iff in Iy as [r [Er Ir]].
    destruct (apply_rule data r) as [| |nd ratio] eqn:A.
    + inversion Er; subst. destruct Is.
    + discriminate.
    + destruct (apply_rule_sound data r nd ratio Q (ND r Ir) A) as [S1 [S2 S3]].
      destruct (IH nd (p ++ [(r, ratio)])%list y S2 Er sol Is) as [J1 [ext [J2 J3]]].
      split.
      * intros k. rewrite <- J1, psum_app, S1. simpl. lia.
      * exists ((r, ratio) :: ext). rewrite J2, <- app_assoc. split; auto.
        intros it [<-|Ii]; simpl; auto.
Qed.

(* ---- the wrapper: initial data, rule order, de-duplication, ranking *)
Lemma get_filter_none (f : string * Z -> bool) (d : dict) k :
  get d k = None -> get (filter f d) k = None.
Proof.
  induction d as [|[k1 v1] t IH]; simpl; auto.
  destruct (String.eqb_spec k k1) as [->|N]; [discriminate|].
  intros G. destruct (f (k1, v1)); simpl; auto.
  destruct (String.eqb_spec k k1); [contradiction|auto].
Qed.
Lemma get_filter (f : string * Z -> bool) (d : dict) k : nodupk d ->
  get (filter f d) k = match get d k with
                       | Some v => if f (k, v) then Some v else None
                       | None => None end.
Proof.
  induction d as [|[k1 v1] t IH]; simpl; auto. intros [G ND].
  destruct (String.eqb_spec k k1) as [->|N].
  - destruct (f (k1, v1)); simpl; [now rewrite String.eqb_refl|]. now apply get_filter_none.
  - destruct (f (k1, v1)); simpl; auto. destruct (String.eqb_spec k k1); [contradiction|auto].
Qed.

Lemma init_data_spec d : nodupk d ->
  (forall k, getd (init_data d) k = getd d k) /\ has_q (init_data d).
Proof.
  intros ND. unfold init_data.
  set (d1 := if mem d "Q" then d else set d "Q" 0).
  assert (N1 : nodupk d1) by (unfold d1; destruct (mem d "Q"); auto using nodupk_set).
  assert (G1 : forall k, getd d1 k = getd d k).
  { intros k. unfold d1. destruct (mem d "Q") eqn:M; auto. rewrite getd_set.
    destruct (String.eqb_spec k "Q") as [->|]; auto. apply mem_false in M. unfold getd. now rewrite M. }
  assert (Q1 : mem d1 "Q" = true).
  { unfold d1. destruct (mem d "Q") eqn:M; auto. unfold mem. now rewrite get_set_same. }
  split.
  - intros k. rewrite <- G1. unfold getd. rewrite get_filter; auto.
    destruct (get d1 k) as [v|]; auto. simpl.
    destruct (v =? 0) eqn:E; simpl; auto. apply Z.eqb_eq in E. subst.
    destruct (String.eqb k "Q"); auto.
  - unfold has_q, mem. rewrite get_filter; auto. unfold mem in Q1.
    destruct (get d1 "Q") as [v|]; [|discriminate]. simpl. now rewrite orb_true_r.
Qed.

Lemma shortest_in s sols : In s (shortest sols) -> In s sols.
Proof.
  unfold shortest. destruct sols as [|a t]; auto. intros H. apply filter_In in H. tauto.
Qed.

Theorem match_all_sound fuel db diff res :
  (forall r, In r db -> nodupk (rcomp r)) -> nodupk diff ->
  match_all fuel db diff = Some res ->
  forall sol, In sol res ->
    (forall k, getd diff k = psum sol k) /\
    (forall it, In it sol -> In (fst it) db /\ snd it >= 0).
Proof.
  intros ND NDd H sol I. unfold match_all in H.
  destruct (dfs fuel (sort_rules db) (init_data diff) []) as [sols|] eqn:D; [|discriminate].
  inversion H; subst. unfold rank_ion in I. apply sort_desc_in in I. apply shortest_in in I.
  unfold remove_overlapping in I. apply dedup_by_in in I.
  destruct (init_data_spec diff NDd) as [G Q].
  assert (ND' : forall r, In r (sort_rules db) -> nodupk (rcomp r)).
  { intros r Ir. apply ND. unfold sort_rules in Ir. now apply sort_desc_in in Ir. }
  destruct (dfs_sound (sort_rules db) ND' fuel (init_data diff) [] sols Q D sol I) as [J1 [ext [J2 J3]]].
  simpl in J2. subst ext. split.
  - intros k. rewrite <- J1, G. simpl. lia.
  - intros it Ii. destruct (J3 it Ii) as [A B]. split; auto.
    unfold sort_rules in A. now apply sort_desc_in in A.
Qed.

(* under the generated well-formedness check of the database every multiplicity is >= 1 *)
Definition comp_positive (c : dict) : Prop :=
  forall k v, In (k, v) c -> k <> "Q" -> v > 0.

Lemma zmin_list_ge x l b : x >= b -> (forall y, In y l -> y >= b) -> zmin_list x l >= b.
Proof.
  revert x. induction l as [|y t IH]; simpl; intros x Hx Hl; auto.
  apply IH; [|auto]. specialize (Hl y (or_introl eq_refl)). lia.
Qed.
Lemma ratios_ge1 c data : comp_positive c -> can_match c data = true ->
  forall y, In y (ratios c data) -> y >= 1.
Proof.
  induction c as [|[k v] t IH]; simpl; intros P CM y I; [destruct I|].
  apply andb_prop in CM as [C1 C2]. simpl in C1.
  assert (Pt : comp_positive t) by (intros k' v' I'; apply P; right; auto).
  destruct (String.eqb_spec k "Q") as [->|N]; [now apply IH|].
  destruct I as [<-|I]; [|now apply IH].
  assert (v > 0) by (apply (P k v); [left; auto|auto]).
  destruct (v =? 0) eqn:E; [apply Z.eqb_eq in E; lia|].
  unfold getd. destruct (get data k) as [x|]; [|discriminate].
  rewrite Z.geb_le in C1. assert (1 <= x / v); [|lia].
  apply Z.div_le_lower_bound; lia.
Qed.
Lemma apply_rule_ratio_pos data r nd ratio :
  comp_positive (rcomp r) -> apply_rule data r = Applied nd ratio -> ratio >= 1.
Proof.
  intros P H. unfold apply_rule in H.
  destruct (can_match (rcomp r) data) eqn:CM; [|discriminate].
  destruct (ratios (rcomp r) data) as [|x t] eqn:R; [discriminate|]. inversion H; subst.
  assert (zmin_list x t >= 1).
  { apply zmin_list_ge.
    - apply (ratios_ge1 _ _ P CM). rewrite R. left; auto.
    - intros y I. apply (ratios_ge1 _ _ P CM). rewrite R. right; auto. }
  lia.
Qed.

Theorem dfs_ratios_positive rules :
  (forall r, In r rules -> comp_positive (rcomp r)) ->
  forall fuel data p sols, dfs fuel rules data p = Some sols ->
  forall sol, In sol sols ->
    exists ext, sol = (p ++ ext)%list /\ forall it, In it ext -> snd it >= 1.
Proof.
  intros CP. induction fuel as [|f IH]; intros data p sols H sol I; simpl in H; [discriminate|].
  destruct (exit_py data).
  - inversion H; subst. destruct I as [<-|[]]. exists []. rewrite app_nil_r. split; auto. intros it [].
  - destruct (concat_opt_in _ _ _ H I) as [y [Iy Is]].
    apply in_map_iff in Iy as [r [Er Ir]].
    destruct (apply_rule data r) as [| |nd ratio] eqn:A.
    + inversion Er; subst. destruct Is.
    + discriminate.
    + destruct (IH nd (p ++ [(r, ratio)])%list y Er sol Is) as [ext [J2 J3]].
      exists ((r, ratio) :: ext). rewrite J2, <- app_assoc. split; auto.
      intros it [<-|Ii]; simpl; auto. eapply apply_rule_ratio_pos; eauto.
Qed.
