(* Lemmas about Model/Comp.v (C07 and everything that builds on compositions). *)
From Coq Require Import String ZArith List Bool Lia Permutation.
From SynRBL Require Import Base.Dict Model.Comp.
Import ListNotations.
Open Scope string_scope. Open Scope Z_scope.

(* ------------------------------------------------------------------ decompose *)
Section Decompose.
Variable tbl : list (Z * string).

Definition cnt (k : string) (zs : list Z) : Z :=
  Z.of_nat (length (filter (fun z => String.eqb (sym tbl z) k) zs)).

Lemma cnt_app k a b : cnt k (a ++ b)%list = cnt k a + cnt k b.
Proof. unfold cnt. rewrite filter_app, app_length. lia. Qed.
Lemma cnt_nonneg k zs : 0 <= cnt k zs.
Proof. unfold cnt. lia. Qed.
Lemma cnt_perm k a b : Permutation a b -> cnt k a = cnt k b.
Proof.
  intros P. unfold cnt. f_equal. apply Permutation_length.
  induction P; simpl; auto.
  - destruct (String.eqb _ _); auto.
  - destruct (String.eqb (sym tbl x) k), (String.eqb (sym tbl y) k); auto. apply perm_swap.
  - eapply perm_trans; eauto.
Qed.
Lemma cnt_pos_in k zs : 0 < cnt k zs -> exists z, In z zs /\ sym tbl z = k.
Proof.
  unfold cnt. intros H.
  destruct (filter (fun z => String.eqb (sym tbl z) k) zs) as [|z t] eqn:E; [simpl in H; lia|].
  assert (I : In z (filter (fun z => String.eqb (sym tbl z) k) zs)) by (rewrite E; left; auto).
  apply filter_In in I as [I1 I2]. apply String.eqb_eq in I2. eauto.
Qed.

Lemma fold_count_getd zs : forall d k,
  getd (fold_left (fun d z => incr d (sym tbl z) 1) zs d) k = getd d k + cnt k zs.
Proof.
  induction zs as [|z t IH]; intros d k; simpl.
  - unfold cnt; simpl; lia.
  - rewrite IH, getd_incr. unfold cnt. cbn [filter].
    rewrite (String.eqb_sym k). destruct (String.eqb_spec (sym tbl z) k) as [<-|]; cbn [length]; lia.
Qed.
Lemma count_atoms_getd zs k : getd (count_atoms tbl zs) k = cnt k zs.
Proof. unfold count_atoms. rewrite fold_count_getd. reflexivity. Qed.

(* all stored values strictly positive *)
Definition allpos (d : dict) : Prop := forall k v, get d k = Some v -> v > 0.
Lemma allpos_incr d k : allpos d -> allpos (incr d k 1).
Proof.
  intros H k' v. unfold incr. destruct (String.eqb_spec k' k) as [->|N].
  - rewrite get_set_same. intros [= <-]. unfold getd. destruct (get d k) eqn:G; [apply H in G|]; lia.
  - rewrite get_set_other; auto. apply H.
Qed.
Lemma fold_count_inv zs : forall d, allpos d /\ nodupk d ->
  allpos (fold_left (fun d z => incr d (sym tbl z) 1) zs d) /\
  nodupk (fold_left (fun d z => incr d (sym tbl z) 1) zs d).
Proof.
  induction zs as [|z t IH]; intros d [A N]; simpl; auto.
  apply IH. split; [now apply allpos_incr | now apply nodupk_set].
Qed.
Lemma count_atoms_inv zs : allpos (count_atoms tbl zs) /\ nodupk (count_atoms tbl zs).
Proof. apply fold_count_inv. split; [intros k v; discriminate | exact I]. Qed.

(* the complete pointwise description of decompose *)
Lemma decompose_getd zs q k :
  getd (decompose tbl zs q) k =
  if String.eqb k "Q" then (if q =? 0 then cnt "Q" zs else q) else cnt k zs.
Proof.
  unfold decompose. destruct (q =? 0) eqn:E.
  - rewrite count_atoms_getd. destruct (String.eqb_spec k "Q"); subst; auto.
  - rewrite getd_set, count_atoms_getd. reflexivity.
Qed.

Lemma decompose_nodupk zs q : nodupk (decompose tbl zs q).
Proof.
  unfold decompose. destruct (count_atoms_inv zs) as [_ N].
  destruct (q =? 0); auto using nodupk_set.
Qed.
Lemma decompose_wf zs q : wf (decompose tbl zs q).
Proof.
  unfold decompose. destruct (count_atoms_inv zs) as [A _].
  destruct (q =? 0) eqn:E.
  - intros k v G. apply A in G. lia.
  - intros k v. destruct (String.eqb_spec k "Q") as [->|N].
    + rewrite get_set_same. intros [= <-]. apply Z.eqb_neq in E. exact E.
    + rewrite get_set_other; auto. intros G. apply A in G. lia.
Qed.
Lemma decompose_pos zs q : pos (decompose tbl zs q).
Proof.
  unfold decompose. destruct (count_atoms_inv zs) as [A _].
  destruct (q =? 0) eqn:E.
  - intros k v G _. apply A in G. lia.
  - intros k v G N. rewrite get_set_other in G; auto. apply A in G. lia.
Qed.
Lemma decompose_keys zs q k :
  In k (keys (decompose tbl zs q)) -> k = "Q" \/ exists z, In z zs /\ sym tbl z = k.
Proof.
  intros H. apply in_keys_get in H as [v G].
  unfold decompose in G. destruct (count_atoms_inv zs) as [A _].
  destruct (q =? 0).
  - right. apply cnt_pos_in. rewrite <- count_atoms_getd. rewrite (getd_some _ _ _ G).
    apply A in G. lia.
  - destruct (String.eqb_spec k "Q") as [->|N]; [left; auto|right].
    rewrite get_set_other in G; auto.
    apply cnt_pos_in. rewrite <- count_atoms_getd. rewrite (getd_some _ _ _ G).
    apply A in G. lia.
Qed.

(* no atom is spelled with the charge key *)
Definition no_q_atom (zs : list Z) : Prop := forall z, In z zs -> sym tbl z <> "Q".
Lemma cnt_q_zero zs : no_q_atom zs -> cnt "Q" zs = 0.
Proof.
  intros H. destruct (Z.eq_dec (cnt "Q" zs) 0) as [|N]; auto.
  pose proof (cnt_nonneg "Q" zs). destruct (cnt_pos_in "Q" zs) as [z [I S]]; [lia|].
  exfalso. eapply H; eauto.
Qed.

Lemma decompose_charge zs q : no_q_atom zs -> getd (decompose tbl zs q) "Q" = q.
Proof.
  intros H. rewrite decompose_getd. simpl. rewrite cnt_q_zero; auto.
  destruct (q =? 0) eqn:E; auto. apply Z.eqb_eq in E. lia.
Qed.

Lemma decompose_additive zs1 zs2 q1 q2 k :
  no_q_atom zs1 -> no_q_atom zs2 ->
  getd (decompose tbl (zs1 ++ zs2) (q1 + q2)) k =
  getd (decompose tbl zs1 q1) k + getd (decompose tbl zs2 q2) k.
Proof.
  intros H1 H2.
  destruct (String.eqb_spec k "Q") as [->|N].
  - rewrite !decompose_charge; auto.
    intros z I. apply in_app_or in I as [I|I]; auto.
  - rewrite !decompose_getd. apply String.eqb_neq in N. rewrite N. apply cnt_app.
Qed.

Lemma decompose_perm zs zs' q k :
  Permutation zs zs' -> getd (decompose tbl zs q) k = getd (decompose tbl zs' q) k.
Proof.
  intros P. rewrite !decompose_getd. rewrite (cnt_perm "Q" _ _ P), (cnt_perm k _ _ P). reflexivity.
Qed.

End Decompose.

(* ------------------------------------------------------------------ comparator *)
Lemma check_keys_spec d1 d2 :
  check_keys d1 d2 = true <-> (forall k, In k (keys d2) -> mem d1 k = true).
Proof. unfold check_keys. rewrite forallb_forall. tauto. Qed.
Lemma all_cmp_spec f ks r p :
  all_cmp f ks r p = true <-> (forall k, In k ks -> f (getd r k) (getd p k) = true).
Proof. unfold all_cmp. rewrite forallb_forall. tauto. Qed.

Lemma same_keys_get r p k :
  same_keys r p = true -> (get r k = None <-> get p k = None).
Proof.
  unfold same_keys. intros H. apply andb_prop in H as [S1 S2].
  rewrite check_keys_spec in S1, S2. split; intros G.
  - destruct (get p k) eqn:G2; auto. apply get_in_keys in G2. apply S1 in G2.
    apply mem_get in G2 as [v G2]. congruence.
  - destruct (get r k) eqn:G2; auto. apply get_in_keys in G2. apply S2 in G2.
    apply mem_get in G2 as [v G2]. congruence.
Qed.

Theorem compare_balance_iff r p : wf r -> wf p ->
  (compare_dicts r p = Balance <-> deq r p).
Proof.
  intros Wr Wp. unfold compare_dicts, deq. split.
  - destruct (same_keys r p) eqn:SK; simpl.
    2:{ repeat match goal with |- context[if ?b then _ else _] => destruct b end; discriminate. }
    destruct (all_cmp Z.eqb (keys r) r p) eqn:E.
    2:{ repeat match goal with |- context[if ?b then _ else _] => destruct b end; discriminate. }
    intros _ k. rewrite all_cmp_spec in E.
    destruct (get r k) eqn:G.
    + apply Z.eqb_eq. apply E. eapply get_in_keys; eauto.
    + pose proof (proj1 (same_keys_get r p k SK) G) as G2.
      unfold getd. now rewrite G, G2.
  - intros H.
    assert (SK : same_keys r p = true).
    { unfold same_keys. apply andb_true_intro; split; apply check_keys_spec; intros k Hk;
      apply in_keys_get in Hk as [v Hv]; unfold mem.
      - destruct (get r k) eqn:G; auto. specialize (H k). unfold getd in H.
        rewrite G, Hv in H. apply Wp in Hv. congruence.
      - destruct (get p k) eqn:G; auto. specialize (H k). unfold getd in H.
        rewrite G, Hv in H. apply Wr in Hv. congruence. }
    rewrite SK. simpl.
    assert (E : all_cmp Z.eqb (keys r) r p = true).
    { apply all_cmp_spec. intros k _. apply Z.eqb_eq. apply H. }
    rewrite E. reflexivity.
Qed.

(* pointwise description of the difference formula *)
Lemma diff_dicts_get r p k : nodupk r -> nodupk p ->
  getd (diff_dicts r p) k =
  match get r k, get p k with
  | Some v, Some w => Z.abs (v - w)
  | Some v, None => v
  | None, Some w => w
  | None, None => 0
  end.
Proof.
  intros Nr Np. unfold diff_dicts, getd.
  rewrite (fold_upd_get _ _ Np), (fold_upd_get _ _ Nr). simpl.
  unfold diff_f1, diff_f2, mem.
  destruct (get r k) as [v|] eqn:Gr, (get p k) as [w|] eqn:Gp; simpl.
  - destruct (Z.abs (v - w) =? 0) eqn:E; auto. apply Z.eqb_eq in E. lia.
  - destruct (v =? 0) eqn:E; auto. apply Z.eqb_eq in E. lia.
  - destruct (w =? 0) eqn:E; simpl; auto. apply Z.eqb_eq in E. lia.
  - reflexivity.
Qed.
Lemma diff_dicts_wf r p : nodupk r -> nodupk p -> wf (diff_dicts r p).
Proof.
  intros Nr Np k x. unfold diff_dicts.
  rewrite (fold_upd_get _ _ Np), (fold_upd_get _ _ Nr). simpl.
  unfold diff_f1, diff_f2, mem.
  destruct (get r k) as [v|] eqn:Gr, (get p k) as [w|] eqn:Gp; simpl.
  - destruct (Z.abs (v - w) =? 0) eqn:E; [discriminate|]. intros [= <-]. apply Z.eqb_neq in E. lia.
  - destruct (v =? 0) eqn:E; [discriminate|]. intros [= <-]. apply Z.eqb_neq in E. lia.
  - destruct (w =? 0) eqn:E; simpl; [discriminate|]. intros [= <-]. apply Z.eqb_neq in E. lia.
  - discriminate.
Qed.

Theorem diff_abs r p k : nodupk r -> nodupk p ->
  Z.abs (getd (diff_dicts r p) k) = Z.abs (getd r k - getd p k).
Proof.
  intros Nr Np. rewrite diff_dicts_get; auto. unfold getd.
  destruct (get r k), (get p k); lia.
Qed.

Lemma geb_true a b : (a >=? b) = true <-> a >= b. Proof. rewrite Z.geb_le. lia. Qed.

Theorem compare_products_sound r p : nodupk r -> nodupk p ->
  compare_dicts r p = Products ->
  forall k, getd r k = getd p k + getd (diff_dicts r p) k.
Proof.
  intros Nr Np H k. rewrite diff_dicts_get; auto. unfold compare_dicts in H.
  destruct (same_keys r p) eqn:SK; simpl in H.
  - destruct (all_cmp Z.eqb (keys r) r p); [discriminate|].
    destruct (all_cmp Z.geb (keys r) r p) eqn:GE;
      [|destruct (all_cmp Z.leb (keys r) r p); discriminate].
    rewrite all_cmp_spec in GE. pose proof (same_keys_get r p k SK) as SG.
    unfold getd. destruct (get r k) as [v|] eqn:Gr, (get p k) as [w|] eqn:Gp; try lia.
    + specialize (GE k (get_in_keys _ _ _ Gr)). apply geb_true in GE.
      unfold getd in GE. rewrite Gr, Gp in GE. lia.
    + destruct SG as [SG1 SG2]. first [specialize (SG1 eq_refl) | specialize (SG2 eq_refl)]; discriminate.
  - destruct (check_keys r p && negb (check_keys p r)) eqn:B1.
    + destruct (all_cmp Z.geb (keys p) r p) eqn:GE; [|discriminate].
      apply andb_prop in B1 as [C1 _]. rewrite check_keys_spec in C1. rewrite all_cmp_spec in GE.
      unfold getd. destruct (get r k) as [v|] eqn:Gr, (get p k) as [w|] eqn:Gp; try lia.
      * specialize (GE k (get_in_keys _ _ _ Gp)). apply geb_true in GE.
        unfold getd in GE. rewrite Gr, Gp in GE. lia.
      * specialize (C1 k (get_in_keys _ _ _ Gp)). apply mem_get in C1 as [x C1]. congruence.
    + destruct (check_keys p r && negb (check_keys r p)); [|discriminate].
      destruct (all_cmp Z.leb (keys r) r p); discriminate.
Qed.

Theorem compare_reactants_sound r p : nodupk r -> nodupk p ->
  compare_dicts r p = Reactants ->
  forall k, getd p k = getd r k + getd (diff_dicts r p) k.
Proof.
  intros Nr Np H k. rewrite diff_dicts_get; auto. unfold compare_dicts in H.
  destruct (same_keys r p) eqn:SK; simpl in H.
  - destruct (all_cmp Z.eqb (keys r) r p); [discriminate|].
    destruct (all_cmp Z.geb (keys r) r p); [discriminate|].
    destruct (all_cmp Z.leb (keys r) r p) eqn:LE; [|discriminate].
    rewrite all_cmp_spec in LE. pose proof (same_keys_get r p k SK) as SG.
    unfold getd. destruct (get r k) as [v|] eqn:Gr, (get p k) as [w|] eqn:Gp; try lia.
    + specialize (LE k (get_in_keys _ _ _ Gr)). apply Z.leb_le in LE.
      unfold getd in LE. rewrite Gr, Gp in LE. lia.
    + destruct SG as [SG1 SG2]. first [specialize (SG1 eq_refl) | specialize (SG2 eq_refl)]; discriminate.
  - destruct (check_keys r p && negb (check_keys p r)) eqn:B1.
    + destruct (all_cmp Z.geb (keys p) r p); discriminate.
    + destruct (check_keys p r && negb (check_keys r p)) eqn:B2; [|discriminate].
      destruct (all_cmp Z.leb (keys r) r p) eqn:LE; [|discriminate].
      apply andb_prop in B2 as [C1 _]. rewrite check_keys_spec in C1. rewrite all_cmp_spec in LE.
      unfold getd. destruct (get r k) as [v|] eqn:Gr, (get p k) as [w|] eqn:Gp; try lia.
      * specialize (LE k (get_in_keys _ _ _ Gr)). apply Z.leb_le in LE.
        unfold getd in LE. rewrite Gr, Gp in LE. lia.
      * specialize (C1 k (get_in_keys _ _ _ Gr)). apply mem_get in C1 as [x C1]. congruence.
Qed.

(* the four-way specification, exact when both charges coincide *)
Definition ge_all (r p : dict) : Prop := forall k, getd r k >= getd p k.
Definition le_all (r p : dict) : Prop := forall k, getd r k <= getd p k.

Lemma only_left_pos r p k v :
  wf r -> pos r -> getd r "Q" = getd p "Q" ->
  get r k = Some v -> get p k = None -> v > 0.
Proof.
  intros W P Q Gr Gp. destruct (String.eqb_spec k "Q") as [->|N].
  - exfalso. unfold getd in Q. rewrite Gr, Gp in Q. apply W in Gr. lia.
  - eapply P; eauto.
Qed.

Lemma check_keys_false d1 d2 :
  check_keys d1 d2 = false -> exists k v, get d2 k = Some v /\ get d1 k = None.
Proof.
  unfold check_keys. intros H. apply forallb_false_ex in H as [k [I M]].
  apply in_keys_get in I as [v G]. apply mem_false in M. eauto.
Qed.
Lemma all_cmp_false f ks r p :
  all_cmp f ks r p = false -> exists k, In k ks /\ f (getd r k) (getd p k) = false.
Proof. unfold all_cmp. apply forallb_false_ex. Qed.

Theorem compare_spec r p :
  wf r -> wf p -> pos r -> pos p -> getd r "Q" = getd p "Q" ->
  match compare_dicts r p with
  | Balance => deq r p
  | Products => ge_all r p /\ ~ deq r p
  | Reactants => le_all r p /\ ~ deq r p
  | Both => ~ ge_all r p /\ ~ le_all r p
  end.
Proof.
  intros Wr Wp Pr Pp Q.
  pose proof (compare_balance_iff r p Wr Wp) as BI.
  assert (QS : getd p "Q" = getd r "Q") by auto.
  destruct (compare_dicts r p) eqn:C.
  - apply BI; reflexivity.
  - (* Products *)
    split; [|intros D; apply BI in D; congruence].
    unfold compare_dicts in C. intros k.
    destruct (same_keys r p) eqn:SK; simpl in C.
    + destruct (all_cmp Z.eqb (keys r) r p); [discriminate|].
      destruct (all_cmp Z.geb (keys r) r p) eqn:GE;
        [|destruct (all_cmp Z.leb (keys r) r p); discriminate].
      rewrite all_cmp_spec in GE.
      destruct (get r k) as [v|] eqn:Gr.
      * apply geb_true. apply GE. eapply get_in_keys; eauto.
      * pose proof (proj1 (same_keys_get r p k SK) Gr) as Gp. unfold getd. rewrite Gr, Gp. lia.
    + destruct (check_keys r p && negb (check_keys p r)) eqn:B1.
      * destruct (all_cmp Z.geb (keys p) r p) eqn:GE; [|discriminate].
        apply andb_prop in B1 as [C1 _]. rewrite check_keys_spec in C1. rewrite all_cmp_spec in GE.
        destruct (get p k) as [w|] eqn:Gp.
        -- apply geb_true. apply GE. eapply get_in_keys; eauto.
        -- destruct (get r k) as [v|] eqn:Gr.
           ++ pose proof (only_left_pos r p k v Wr Pr Q Gr Gp). unfold getd. rewrite Gr, Gp. lia.
           ++ unfold getd. rewrite Gr, Gp. lia.
      * destruct (check_keys p r && negb (check_keys r p)); [|discriminate].
        destruct (all_cmp Z.leb (keys r) r p); discriminate.
  - (* Reactants *)
    split; [|intros D; apply BI in D; congruence].
    unfold compare_dicts in C. intros k.
    destruct (same_keys r p) eqn:SK; simpl in C.
    + destruct (all_cmp Z.eqb (keys r) r p); [discriminate|].
      destruct (all_cmp Z.geb (keys r) r p); [discriminate|].
      destruct (all_cmp Z.leb (keys r) r p) eqn:LE; [|discriminate].
      rewrite all_cmp_spec in LE.
      destruct (get r k) as [v|] eqn:Gr.
      * apply Z.leb_le. apply LE. eapply get_in_keys; eauto.
      * pose proof (proj1 (same_keys_get r p k SK) Gr) as Gp. unfold getd. rewrite Gr, Gp. lia.
    + destruct (check_keys r p && negb (check_keys p r)) eqn:B1.
      * destruct (all_cmp Z.geb (keys p) r p); discriminate.
      * destruct (check_keys p r && negb (check_keys r p)) eqn:B2; [|discriminate].
        destruct (all_cmp Z.leb (keys r) r p) eqn:LE; [|discriminate].
        apply andb_prop in B2 as [C1 _]. rewrite check_keys_spec in C1. rewrite all_cmp_spec in LE.
        destruct (get r k) as [v|] eqn:Gr.
        -- apply Z.leb_le. apply LE. eapply get_in_keys; eauto.
        -- destruct (get p k) as [w|] eqn:Gp.
           ++ pose proof (only_left_pos p r k w Wp Pp QS Gp Gr). unfold getd. rewrite Gr, Gp. lia.
           ++ unfold getd. rewrite Gr, Gp. lia.
  - (* Both *)
    unfold compare_dicts in C.
    destruct (same_keys r p) eqn:SK; simpl in C.
    + destruct (all_cmp Z.eqb (keys r) r p); [discriminate|].
      destruct (all_cmp Z.geb (keys r) r p) eqn:GE; [discriminate|].
      destruct (all_cmp Z.leb (keys r) r p) eqn:LE; [discriminate|].
      apply all_cmp_false in GE as [k1 [_ G1]]. apply all_cmp_false in LE as [k2 [_ L2]].
      split; intros A.
      * specialize (A k1). apply geb_true in A. congruence.
      * specialize (A k2). apply Z.leb_le in A. congruence.
    + (* keys differ *)
      assert (OL : forall k v, get r k = Some v -> get p k = None -> ~ le_all r p).
      { intros k v Gr Gp A. pose proof (only_left_pos r p k v Wr Pr Q Gr Gp).
        specialize (A k). unfold getd in A. rewrite Gr, Gp in A. lia. }
      assert (OR : forall k w, get p k = Some w -> get r k = None -> ~ ge_all r p).
      { intros k w Gp Gr A. pose proof (only_left_pos p r k w Wp Pp QS Gp Gr).
        specialize (A k). unfold getd in A. rewrite Gr, Gp in A. lia. }
      destruct (check_keys r p) eqn:C1, (check_keys p r) eqn:C2; simpl in C.
      * unfold same_keys in SK. rewrite C1, C2 in SK. discriminate.
      * destruct (all_cmp Z.geb (keys p) r p) eqn:GE; [discriminate|].
        apply all_cmp_false in GE as [k1 [_ G1]].
        apply check_keys_false in C2 as [k2 [v2 [G2 G2']]].
        split; [intros A; specialize (A k1); apply geb_true in A; congruence | eauto].
      * destruct (all_cmp Z.leb (keys r) r p) eqn:LE; [discriminate|].
        apply all_cmp_false in LE as [k1 [_ L1]].
        apply check_keys_false in C1 as [k2 [v2 [G2 G2']]].
        split; [eauto | intros A; specialize (A k1); apply Z.leb_le in A; congruence].
      * apply check_keys_false in C1 as [k1 [v1 [G1 G1']]].
        apply check_keys_false in C2 as [k2 [v2 [G2 G2']]].
        split; eauto.
Qed.

(* ------------------------------------------------------------------ BothSideReact *)
Lemma add_q_getd d k : getd (add_q d) k = getd d k.
Proof.
  unfold add_q. destruct (mem d "Q") eqn:M; auto.
  rewrite getd_set. destruct (String.eqb_spec k "Q") as [->|]; auto.
  apply mem_false in M. unfold getd. now rewrite M.
Qed.
Lemma add_q_nodupk d : nodupk d -> nodupk (add_q d).
Proof. unfold add_q. destruct (mem d "Q"); auto using nodupk_set. Qed.

Theorem enforce_product_side_getd r p k : nodupk r -> nodupk p ->
  getd (enforce_product_side r p) k = getd r k - getd p k.
Proof.
  intros Nr Np. unfold enforce_product_side. unfold getd at 1.
  rewrite (fold_upd_get _ _ Np), (fold_upd_get _ _ Nr). simpl.
  unfold eps_f1, eps_f2, mem, getd.
  destruct (get r k) as [v|] eqn:Gr, (get p k) as [w|] eqn:Gp; simpl; try lia.
  - destruct (v - w =? 0) eqn:E; auto. apply Z.eqb_eq in E. lia.
  - destruct (v - 0 =? 0) eqn:E; auto. apply Z.eqb_eq in E. lia.
Qed.

Lemma negate_get d k : get (negate d) k = option_map Z.opp (get d k).
Proof.
  induction d as [|[k' v] t IH]; simpl; auto. destruct (String.eqb k k'); auto.
Qed.
Lemma negate_getd d k : getd (negate d) k = - getd d k.
Proof. unfold getd. rewrite negate_get. destruct (get d k); simpl; lia. Qed.

(* the signed re-classification: whatever it answers, the returned formula is the signed
   difference in the direction of the answer *)
Theorem classify_both_sound r p d v : nodupk r -> nodupk p ->
  reverse_if_negative (enforce_product_side (add_q r) (add_q p)) = (d, v) ->
  match v with
  | Products | Both => forall k, getd r k = getd p k + getd d k
  | Reactants => forall k, getd p k = getd r k + getd d k
  | Balance => False
  end.
Proof.
  intros Nr Np H. unfold reverse_if_negative in H.
  set (e := enforce_product_side (add_q r) (add_q p)) in *.
  assert (E : forall k, getd e k = getd r k - getd p k).
  { intros k. unfold e. rewrite enforce_product_side_getd; auto using add_q_nodupk.
    now rewrite !add_q_getd. }
  destruct (Nat.eqb (length e) 2 && mem e "Q").
  - destruct (existsb _ e); inversion H; subst; intros k.
    + rewrite negate_getd, E. lia.
    + rewrite E. lia.
  - inversion H; subst. intros k. rewrite E. lia.
Qed.

(* every answer of the stage-level classification *)
Theorem classify_sound r p d v : nodupk r -> nodupk p -> wf r -> wf p ->
  classify r p = (d, v) ->
  match v with
  | Balance => deq r p
  | Products => forall k, getd r k = getd p k + getd d k
  | Reactants => forall k, getd p k = getd r k + getd d k
  | Both => forall k, getd r k = getd p k + getd d k
  end.
Proof.
  intros Nr Np Wr Wp H. unfold classify in H.
  destruct (compare_dicts r p) eqn:C.
  - inversion H; subst. now apply compare_balance_iff.
  - inversion H; subst. now apply compare_products_sound.
  - inversion H; subst. now apply compare_reactants_sound.
  - pose proof (classify_both_sound r p d v Nr Np H) as S.
    destruct v; auto. contradiction.
Qed.

(* ------------------------------------------------------------------ carbon label *)
Theorem carbon_label_spec cr cp :
  (carbon_label cr cp = CBalanced <-> cr = cp) /\
  (carbon_label cr cp = CProducts <-> cr > cp) /\
  (carbon_label cr cp = CReactants <-> cr < cp).
Proof.
  unfold carbon_label.
  destruct (cr =? cp) eqn:E; [apply Z.eqb_eq in E | apply Z.eqb_neq in E];
  destruct (cr >? cp) eqn:G; try (apply Z.gtb_lt in G); try (rewrite Z.gtb_ltb in G; apply Z.ltb_ge in G);
  repeat split; intros; try discriminate; try lia; auto.
Qed.

(* ------------------------------------------------------------------ the symbol table *)
Definition elem_range : list Z := map Z.of_nat (seq 1 118).
Lemma in_elem_range z : In z elem_range <-> 1 <= z <= 118.
Proof.
  unfold elem_range. rewrite in_map_iff. split.
  - intros [n [<- I]]. apply in_seq in I. lia.
  - intros H. exists (Z.to_nat z). split; [lia|]. apply in_seq. lia.
Qed.
(* checked by computation on the generated table: distinct symbols on 1..118, none of them
   the charge key or the "Unknown" default of the model's lookup *)
Definition tbl_ok (tbl : list (Z * string)) : bool :=
  forallb (fun z1 =>
    negb (String.eqb (sym tbl z1) "Q") && negb (String.eqb (sym tbl z1) "Unknown") &&
    forallb (fun z2 => implb (String.eqb (sym tbl z1) (sym tbl z2)) (Z.eqb z1 z2)) elem_range)
  elem_range.

Section Table.
Variable tbl : list (Z * string).
Hypothesis OK : tbl_ok tbl = true.

Lemma tbl_inj z1 z2 : 1 <= z1 <= 118 -> 1 <= z2 <= 118 -> sym tbl z1 = sym tbl z2 -> z1 = z2.
Proof.
  intros H1 H2 E. unfold tbl_ok in OK. rewrite forallb_forall in OK.
  specialize (OK z1 (proj2 (in_elem_range z1) H1)).
  apply andb_prop in OK as [_ F]. rewrite forallb_forall in F.
  specialize (F z2 (proj2 (in_elem_range z2) H2)).
  rewrite E, String.eqb_refl in F. simpl in F. now apply Z.eqb_eq.
Qed.
Lemma tbl_not_q z : 1 <= z <= 118 -> sym tbl z <> "Q" /\ sym tbl z <> "Unknown".
Proof.
  intros H. unfold tbl_ok in OK. rewrite forallb_forall in OK.
  specialize (OK z (proj2 (in_elem_range z) H)).
  apply andb_prop in OK as [A _]. apply andb_prop in A as [A B].
  apply negb_true_iff in A, B. split; now apply String.eqb_neq.
Qed.

Lemma cnt_count_occ zs z :
  (forall x, In x zs -> 1 <= x <= 118) -> 1 <= z <= 118 ->
  cnt tbl (sym tbl z) zs = Z.of_nat (count_occ Z.eq_dec zs z).
Proof.
  intros R Hz. unfold cnt. f_equal.
  induction zs as [|x t IH]; simpl; auto.
  assert (Rx : 1 <= x <= 118) by (apply R; left; auto).
  assert (Rt : forall y, In y t -> 1 <= y <= 118) by (intros; apply R; right; auto).
  destruct (Z.eq_dec x z) as [->|N].
  - rewrite String.eqb_refl. simpl. now rewrite IH.
  - destruct (String.eqb_spec (sym tbl x) (sym tbl z)) as [E|_]; [|now apply IH].
    exfalso. apply N. now apply tbl_inj.
Qed.

Theorem decompose_exact zs q :
  (forall x, In x zs -> 1 <= x <= 118) ->
  (forall z, 1 <= z <= 118 ->
     getd (decompose tbl zs q) (sym tbl z) = Z.of_nat (count_occ Z.eq_dec zs z)) /\
  getd (decompose tbl zs q) "Q" = q /\
  wf (decompose tbl zs q) /\ nodupk (decompose tbl zs q) /\
  (forall k, In k (keys (decompose tbl zs q)) ->
     k = "Q" \/ exists z, In z zs /\ k = sym tbl z).
Proof.
  intros R.
  assert (NQ : no_q_atom tbl zs) by (intros z I; apply tbl_not_q; auto).
  repeat split.
  - intros z Hz. rewrite decompose_getd.
    destruct (tbl_not_q z Hz) as [A _]. apply String.eqb_neq in A. rewrite A.
    now apply cnt_count_occ.
  - now apply decompose_charge.
  - apply decompose_wf.
  - apply decompose_nodupk.
  - intros k I. apply decompose_keys in I as [->|[z [I E]]]; eauto.
Qed.
End Table.
