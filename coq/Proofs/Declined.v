(* C03, the two remaining clauses: a solved row has an empty or absent issue; a carbon-deficit reaction is
   declined.  Both rest on one determinism argument: a row that is unsolved after the rule-based validation
   and whose reaction the MCS imputation did not extend is still unsolved at the end (the second rule-based
   run and the final validation repeat the first ones on the same strings). *)
From Coq Require Import String ZArith List Bool Arith.
From SynRBL Require Import Base.Dict Base.Strs Base.ListX Model.Comp Model.Matcher Model.Constraint Model.Pipeline
  Proofs.PipelineProofs Proofs.RowLocal Proofs.Balanced Proofs.RunLevel.
Import ListNotations.
Open Scope string_scope.

Section D.
Variable OR : oracles.
Variable db : list rule.
Variable ban : list string.
Variable fuel : nat.
Notation validate := (validate OR).
Notation rb_row := (rb_row OR db ban fuel).
Notation rb_solve := (rb_solve OR db ban fuel).
Notation F := (F OR db ban fuel).
Notation bal := (bal OR).
Notation before_pp := (before_pp OR db ban fuel).

(* ---- oracle facts (hypotheses of the theorems; validated on every recorded run) *)
(* impute_reaction raises unless the issue written by the search is empty *)
Hypothesis impute_needs_empty_issue : forall s m ru, impute OR s = ImpOk m ru -> snd (mcs_state OR s) = "".
(* the water molecules inserted by the both-side shortcut never balance a reaction by themselves *)
Hypothesis water_never_balances : forall r, bal (rxn (rb_water OR r)) = true -> rxn (rb_water OR r) = rxn r.

(* ---- validate on an unsolved row *)
Lemma V1 m cc ov msg r : solved r = false ->
  solved (validate m cc ov msg r) = bal (rxn r) && is_cbal (if cc then carbon_of OR (rxn r) else carbon r).
Proof.
  unfold Pipeline.validate, Balanced.bal. destruct r as [i x inp s byy iss ca mc ru co]; simpl. intros ->.
  destruct cc; simpl; rewrite andb_true_r;
  destruct (verdict_eqb _ _ && is_cbal _); simpl; destruct ov; simpl; auto;
  destruct msg as [mm|]; simpl; auto; destruct iss as [ii|]; simpl; auto; destruct (String.eqb ii ""); auto.
Qed.
Lemma V_unsolved m cc ov msg r : solved (validate m cc ov msg r) = false ->
  solved r = false /\ rinput (validate m cc ov msg r) = rinput r /\ sby (validate m cc ov msg r) = sby r /\
  mcs (validate m cc ov msg r) = mcs r /\
  carbon (validate m cc ov msg r) = (if cc then carbon_of OR (rxn r) else carbon r) /\
  rxn (validate m cc ov msg r) = (if ov then rinput r else rxn r) /\
  (msg = None -> issue (validate m cc ov msg r) = issue r).
Proof.
  unfold Pipeline.validate. destruct r as [i x inp s byy iss ca mc ru co]; simpl.
  destruct cc, s; simpl; rewrite ?andb_false_r, ?andb_true_r; simpl;
  try (destruct (verdict_eqb _ _ && is_cbal _); simpl); destruct ov; simpl;
  try (destruct msg as [mm|]; simpl); try (destruct iss as [ii|]; simpl; try destruct (String.eqb ii "")); simpl;
  intros H; try discriminate; repeat split; auto; intros; discriminate.
Qed.
Lemma V_solved_keeps m cc ov msg r : solved r = true -> solved (validate m cc ov msg r) = true /\ issue (validate m cc ov msg r) = issue r.
Proof. intros S. destruct (validate_fields OR m cc ov msg r) as [_ [_ [_ [_ [_ [H _]]]]]]. destruct (H S) as [A [_ [B _]]]. auto. Qed.
Lemma V_newly_solved_issue m cc ov msg r : solved r = false -> solved (validate m cc ov msg r) = true -> issue (validate m cc ov msg r) = issue r.
Proof. intros S0 S. destruct (validate_fields OR m cc ov msg r) as [_ [_ [_ [_ [_ [_ [H _]]]]]]]. destruct (H S S0) as [_ [B _]]. exact B. Qed.

(* ---- rb_row reads only the reaction and the carbon label *)
Lemma rb_row_fields r : solved (rb_row r) = solved r /\ rinput (rb_row r) = rinput r /\ sby (rb_row r) = sby r /\
  issue (rb_row r) = issue r /\ carbon (rb_row r) = carbon r /\ mcs (rb_row r) = mcs r.
Proof.
  pose proof (rb_row_norxn OR db ban fuel r) as N. unfold norxn in N. destruct (rb_row r), r; simpl in *. inversion N; subst. repeat split.
Qed.
Lemma rb_row_rxn_ext r r' : rxn r = rxn r' -> carbon r = carbon r' -> rxn (rb_row r) = rxn (rb_row r').
Proof.
  intros E1 E2. unfold RowLocal.rb_row, Pipeline.rb_solve, rb_water, rb_classify. rewrite E1, E2.
  destruct (classify _ _) as [d v].
  assert (X : forall (A : Type) (f g : row -> A), f r = f r' -> True) by auto.
  destruct v; simpl; rewrite ?E1;
  repeat match goal with
  | |- context [match ?x with _ => _ end] => destruct x
  | |- context [if ?x then _ else _] => destruct x
  end; destruct r, r'; simpl in *; subst; reflexivity.
Qed.
Lemma rb_row_unsolved_cases r : (exists y, rb_solve r = Some y /\ is_cbal (carbon r) = true /\ rxn (rb_row r) = y) \/
  (rb_solve r = None /\ rxn (rb_row r) = rxn (rb_water OR r)).
Proof.
  unfold RowLocal.rb_row. destruct (rb_solve r) as [y|] eqn:E.
  - left. exists y. split; [reflexivity|]. split; [|destruct r; reflexivity].
    unfold Pipeline.rb_solve in E. destruct (rb_classify OR r) as [[[rx p] v] d]. destruct (is_cbal (carbon r)); [reflexivity|discriminate].
  - right. split; auto.
Qed.

Lemma rxn_set_issue r x : rxn (set_issue r x) = rxn r.
Proof. destruct r; reflexivity. Qed.

Lemma restore_fields a b : solved (restore OR a b) = solved b /\ issue (restore OR a b) = issue b.
Proof. unfold restore. destruct (_ && _); destruct b; auto. Qed.

(* ---- the determinism argument *)
Section Row.
Variables (i : nat) (s : string).
Definition r0 := fresh i s.
Definition x1 := validate M_INPUT true false None r0.
Definition x2 := rb_row x1.
Definition x3 := validate M_RB false true None x2.
Definition x4 := mcs_find OR x3.
Definition x5 := mcs_impute OR x4.

Lemma x3_unsolved_facts : solved x3 = false ->
  solved x1 = false /\ bal s && is_cbal (carbon_of OR s) = false /\ rxn x1 = s /\ carbon x1 = carbon_of OR s /\
  bal (rxn x2) && is_cbal (carbon_of OR s) = false /\
  rxn x3 = s /\ rinput x3 = s /\ carbon x3 = carbon_of OR s /\ sby x3 = None /\ mcs x3 = None /\ issue x3 = None.
Proof.
  intros S3. destruct (V_unsolved _ _ _ _ _ S3) as [S2 [A1 [A2 [A3 [A4 [A5 A6]]]]]].
  destruct (rb_row_fields x1) as [B1 [B2 [B3 [B4 [B5 B6]]]]]. fold x2 in *.
  assert (S1 : solved x1 = false) by congruence.
  destruct (V_unsolved _ _ _ _ _ S1) as [_ [C1 [C2 [C3 [C4 [C5 C6]]]]]]. fold x1 in *. simpl in C1, C2, C3, C4, C5, C6.
  pose proof (V1 M_INPUT true false None r0 eq_refl) as E1. fold x1 in E1. rewrite S1 in E1. simpl in E1.
  pose proof (V1 M_RB false true None x2 S2) as E3. fold x3 in E3. rewrite S3 in E3. simpl in E3.
  fold x3 in A1, A2, A3, A4, A5, A6. rewrite B5, C4 in E3. specialize (A6 eq_refl). specialize (C6 eq_refl).
  repeat split; try congruence; auto.
Qed.

Lemma late_unsolved : solved x3 = false -> rxn x5 = rxn x4 -> solved (F r0) = false.
Proof.
  intros S3 E5. destruct (x3_unsolved_facts S3) as [S1 [E1 [R1 [K1 [E3 [R3 [I3 [K3 [Y3 [M3 _]]]]]]]]]].
  assert (S4 : solved x4 = false) by (unfold x4; now rewrite solved_mcs_find).
  assert (R4 : rxn x4 = s /\ carbon x4 = carbon_of OR s /\ sby x4 = None /\ rinput x4 = s).
  { unfold x4, mcs_find. rewrite S3. destruct (mcs_state OR (rxn x3)). destruct x3; simpl in *. auto. }
  destruct R4 as [R4 [K4 [Y4 I4]]].
  assert (S5 : solved x5 = false) by (unfold x5; now rewrite solved_mcs_impute).
  assert (K5 : carbon x5 = carbon_of OR s /\ sby x5 = None /\ rinput x5 = s).
  { unfold x5, mcs_impute. destruct (mcs x4) as [[|]|]; auto. destruct (impute OR (rxn x4)); destruct x4; simpl in *; auto. }
  destruct K5 as [K5 [Y5 I5]]. rewrite R4 in E5.
  set (x6 := validate M_MCS true false None x5).
  pose proof (V1 M_MCS true false None x5 S5) as E6. fold x6 in E6. rewrite E5 in E6. simpl in E6. rewrite E1 in E6.
  destruct (V_unsolved _ _ _ _ _ E6) as [_ [I6 [Y6 [_ [K6 [R6 _]]]]]]. fold x6 in I6, Y6, K6, R6. simpl in K6, R6. rewrite E5 in K6.
  assert (P6 : post_process OR x6 = x6) by (unfold post_process; now rewrite Y6, Y5).
  assert (NR : forall z, restore OR x6 z = z) by (intros z; unfold restore, pp_fires; rewrite Y6, Y5; reflexivity).
  change (F r0) with (validate M_MCS true true (Some FINAL_MSG) (restore OR x6 (rb_row (post_process OR x6)))). rewrite P6, NR.
  destruct (rb_row_fields x6) as [B1 _]. rewrite V1 by congruence. simpl.
  assert (RX : rxn (rb_row x6) = rxn x2) by (unfold x2; apply rb_row_rxn_ext; congruence).
  rewrite RX.
  destruct (bal (rxn x2)) eqn:B2; [|reflexivity]. simpl in *.
  (* the rule-based result is balanced: then the carbon label of the first pass was not "balanced" *)
  destruct (rb_row_unsolved_cases x1) as [[y [_ [CB _]]]|[_ RW]].
  - rewrite K1 in CB. rewrite CB in E3. discriminate.
  - change (RowLocal.rb_row OR db ban fuel x1) with x2 in RW. rewrite RW in B2 |- *.
    rewrite (water_never_balances x1 B2), R1. simpl in E3. exact E3.
Qed.

(* a solved row has an absent or empty issue *)
Theorem solved_issue_empty : solved (F r0) = true -> issue (F r0) = None \/ issue (F r0) = Some "".
Proof.
  intros SF. destruct (solved x3) eqn:S3.
  - (* solved before the search: the column is never written *)
    left. assert (I3 : issue x3 = None).
    { unfold x3. rewrite validate_issue_none. destruct (rb_row_fields x1) as [_ [_ [_ [B4 _]]]]. unfold x2. rewrite B4.
      unfold x1. rewrite validate_issue_none. reflexivity. }
    assert (M3 : mcs x3 = None).
    { unfold x3. rewrite mcs_validate. destruct (rb_row_fields x1) as [_ [_ [_ [_ [_ B6]]]]]. unfold x2. rewrite B6. unfold x1. now rewrite mcs_validate. }
    assert (E4 : x4 = x3) by (unfold x4, mcs_find; now rewrite S3).
    assert (E5 : x5 = x3) by (unfold x5, mcs_impute; rewrite E4, M3; reflexivity).
    change (F r0) with (validate M_MCS true true (Some FINAL_MSG) (restore OR (validate M_MCS true false None x5) (rb_row (post_process OR (validate M_MCS true false None x5))))).
    rewrite E5. destruct (V_solved_keeps M_MCS true false None x3 S3) as [A1 A2].
    set (x6 := validate M_MCS true false None x3) in *.
    assert (A3 : solved (post_process OR x6) = true) by (now rewrite solved_post_process).
    assert (A4 : issue (post_process OR x6) = issue x6).
    { unfold post_process. destruct (sby x6) as [m|]; auto. destruct (String.eqb m M_INPUT); auto. destruct (pp OR (rxn x6)); auto. }
    destruct (rb_row_fields (post_process OR x6)) as [B1 [_ [_ [B4 _]]]].
    destruct (restore_fields x6 (rb_row (post_process OR x6))) as [RS RI].
    destruct (V_solved_keeps M_MCS true true (Some FINAL_MSG) (restore OR x6 (rb_row (post_process OR x6))) ltac:(congruence)) as [_ C2].
    congruence.
  - (* solved by the MCS route: the imputation succeeded, hence the search left an empty issue *)
    right. destruct (x3_unsolved_facts S3) as [_ [_ [_ [_ [_ [R3 [_ [_ [_ [M3 I3]]]]]]]]]].
    destruct (mcs_state OR (rxn x3)) as [none iss] eqn:MS.
    assert (X4 : x4 = set_mcs x3 (Some (negb none)) (Some iss)) by (unfold x4, mcs_find; now rewrite S3, MS).
    assert (S4 : solved x4 = false) by (unfold x4; now rewrite solved_mcs_find).
    destruct (mcs x4) as [[|]|] eqn:M4.
    2,3: exfalso; assert (E5 : rxn x5 = rxn x4) by (unfold x5, mcs_impute; now rewrite M4); rewrite (late_unsolved S3 E5) in SF; discriminate.
    destruct (impute OR (rxn x4)) as [m ru|msg] eqn:IM.
    2: exfalso; assert (E5 : rxn x5 = rxn x4) by (unfold x5, mcs_impute; rewrite M4, IM; destruct x4; reflexivity); rewrite (late_unsolved S3 E5) in SF; discriminate.
    assert (R4 : rxn x4 = rxn x3) by (rewrite X4; destruct x3; reflexivity).
    pose proof (impute_needs_empty_issue _ _ _ IM) as EI. rewrite R4, MS in EI. simpl in EI. subst iss.
    assert (I5 : issue x5 = Some "") by (unfold x5, mcs_impute; rewrite M4, IM, X4; destruct x3; reflexivity).
    assert (S5 : solved x5 = false) by (unfold x5; now rewrite solved_mcs_impute).
    change (F r0) with (validate M_MCS true true (Some FINAL_MSG) (restore OR (validate M_MCS true false None x5) (rb_row (post_process OR (validate M_MCS true false None x5))))) in *.
    set (x6 := validate M_MCS true false None x5) in *.
    assert (I6 : issue x6 = Some "") by (unfold x6; now rewrite validate_issue_none).
    assert (I7 : issue (post_process OR x6) = Some "").
    { unfold post_process. destruct (sby x6) as [mm|]; auto. destruct (String.eqb mm M_INPUT); auto. destruct (pp OR (rxn x6)); auto. }
    destruct (rb_row_fields (post_process OR x6)) as [B1 [_ [_ [B4 _]]]].
    destruct (restore_fields x6 (rb_row (post_process OR x6))) as [RS RI].
    set (x8 := restore OR x6 (rb_row (post_process OR x6))) in *.
    destruct (solved x8) eqn:S8.
    + destruct (V_solved_keeps M_MCS true true (Some FINAL_MSG) x8 S8) as [_ C2]. congruence.
    + rewrite (V_newly_solved_issue M_MCS true true (Some FINAL_MSG) x8 S8 SF). congruence.
Qed.

(* a reaction whose products hold more carbon than its reactants is declined *)
Hypothesis impute_refuses_deficit : forall m ru, impute OR s = ImpOk m ru -> carbon_of OR s <> CReactants.
Theorem carbon_deficit_declined : carbon_of OR s = CReactants -> solved (F r0) = false.
Proof.
  intros CD.
  assert (S1 : solved x1 = false).
  { unfold x1. rewrite V1 by reflexivity. simpl. rewrite CD. apply andb_false_r. }
  destruct (V_unsolved _ _ _ _ _ S1) as [_ [_ [_ [_ [K1 _]]]]]. fold x1 in K1. simpl in K1.
  destruct (rb_row_fields x1) as [B1 [_ [_ [_ [B5 _]]]]]. fold x2 in *.
  assert (S3 : solved x3 = false).
  { unfold x3. rewrite V1 by congruence. simpl. rewrite B5, K1, CD. apply andb_false_r. }
  apply (late_unsolved S3).
  destruct (x3_unsolved_facts S3) as [_ [_ [_ [_ [_ [R3 _]]]]]].
  unfold x5, mcs_impute. destruct (mcs x4) as [[|]|]; auto.
  assert (R4 : rxn x4 = s) by (unfold x4, mcs_find; rewrite S3; destruct (mcs_state OR (rxn x3)); destruct x3; simpl in *; auto).
  rewrite R4. destruct (impute OR s) as [m ru|msg] eqn:IM; [|rewrite rxn_set_issue; exact R4].
  exfalso. exact (impute_refuses_deficit m ru eq_refl CD).
Qed.
End Row.
End D.

(* ---------------------------------------------------------------- on runs *)
Section Runs.
Variable OR : oracles.
Variable db : list rule.
Variable ban : list string.
Variable fuel : nat.
Hypothesis impute_needs_empty_issue : forall s m ru, impute OR s = ImpOk m ru -> snd (mcs_state OR s) = "".
Hypothesis water_never_balances : forall r, bal OR (rxn (rb_water OR r)) = true -> rxn (rb_water OR r) = rxn r.

Lemma Forall2_in_r {A B} (P : A -> B -> Prop) l m y : Forall2 P l m -> In y m -> exists x, In x l /\ P x y.
Proof. induction 1; intros I; [destruct I|]. destruct I as [<-|I]; [eauto using in_eq|]. destruct (IHForall2 I) as [x0 [I0 P0]]. eauto using in_cons. Qed.

Lemma alone_solved_issue t tmsg s r1 : alone OR db ban fuel t tmsg s = Done r1 -> solved r1 = true ->
  solved (F OR db ban fuel (fresh 0 s)) = true /\ issue r1 = issue (F OR db ban fuel (fresh 0 s)).
Proof.
  unfold RowLocal.alone, conf_one. set (x := F OR db ban fuel (fresh 0 s)). intros H S.
  destruct (is_mcs_row x) eqn:IM.
  - destruct (confidence OR (rinput x) (rxn x) >=? t)%Z.
    + inversion H; subst. destruct x; simpl in *; auto.
    + destruct x as [a1 a2 a3 a4 a5 a6 a7 a8 a9 a10]; simpl in *. destruct a6 as [[|]|]; try discriminate. inversion H; subst. simpl in S. discriminate.
  - inversion H; subst. auto.
Qed.

Theorem run_solved_issue_empty t tmsg ins rows st : run OR db ban fuel t tmsg ins = Done (rows, st) ->
  forall r, In r rows -> solved r = true -> issue r = None \/ issue r = Some "".
Proof.
  intros H r I S. pose proof (run_rows_are_alone_results OR db ban fuel t tmsg ins rows st H) as A.
  destruct (Forall2_in_r _ _ _ r A I) as [s [_ [r1 [A1 E]]]].
  destruct (set_rid_fields r1 (rid r)) as [_ [_ [_ [Y4 Y5]]]]. rewrite <- E in *.
  destruct (alone_solved_issue t tmsg s r1 A1 ltac:(congruence)) as [SF EI].
  rewrite Y5, EI. apply (solved_issue_empty OR db ban fuel impute_needs_empty_issue water_never_balances 0 s SF).
Qed.

Theorem run_carbon_deficit_declined t tmsg ins rows st : run OR db ban fuel t tmsg ins = Done (rows, st) ->
  Forall2 (fun s r => carbon_of OR s = CReactants -> (forall m ru, impute OR s = ImpOk m ru -> carbon_of OR s <> CReactants) -> solved r = false)
          (kept_inputs OR ins) rows.
Proof.
  intros H. pose proof (run_rows_are_alone_results OR db ban fuel t tmsg ins rows st H) as A.
  eapply Forall2_impl; [|exact A]. intros s r [r1 [A1 E]] CD HI. cbv beta.
  destruct (set_rid_fields r1 (rid r)) as [_ [_ [_ [Y4 _]]]]. rewrite <- E in *.
  destruct (solved r) eqn:S; auto. exfalso.
  destruct (alone_solved_issue t tmsg s r1 A1 ltac:(congruence)) as [SF _].
  pose proof (carbon_deficit_declined OR db ban fuel water_never_balances 0 s HI CD) as X. unfold r0 in X. rewrite X in SF. discriminate.
Qed.
End Runs.
