(* C02: the pipeline only appends whole components to the two side strings, as long as the
   substring markers of RuleConstraint (".[H]", ".[O]", ".OO") do not begin a given product component. *)
From Coq Require Import String Ascii ZArith List Bool Arith Lia.
From SynRBL Require Import Base.Dict Base.Strs Base.ListX Model.Comp Model.Matcher Model.Constraint Model.Pipeline
  Proofs.StrProofs Proofs.MatcherProofs Proofs.PipelineProofs Proofs.RowLocal Proofs.Balanced Proofs.RunLevel.
Import ListNotations.
Open Scope string_scope.
Arguments Ascii.eqb : simpl never.

Definition markers : list string := ["[H]"; "[O]"; "OO"].
(* a component that no marker begins *)
Definition strict3 (c : string) : bool := forallb (fun m => negb (prefixb m c)) markers.
(* a component that is a marker itself or that no marker begins: removing ".m" never cuts into it *)
Definition clean3 (c : string) : bool := forallb (fun m => String.eqb c m || negb (prefixb m c)) markers.
Definition clean_str (s : string) : bool := nogt s && forallb clean3 (comps s).

(* the guard on a given reaction gl>>gp *)
Definition guard (gl gp : string) : Prop :=
  nogt gl = true /\ nogt gp = true /\ gp <> "" /\ forallb strict3 (tl (comps gp)) = true.

(* the sides a, b extend the given sides gl, gp by whole components *)
Definition sides (gl gp a b : string) : Prop :=
  nogt a = true /\ nogt b = true /\ (exists eL, comps a = comps gl ++ eL)%list /\
  (exists eR, comps b = comps gp ++ eR /\ forallb clean3 eR = true)%list.
Definition ext (gl gp x : string) : Prop := exists a b, x = a ++ ">>" ++ b /\ sides gl gp a b.

Lemma sides_refl gl gp : guard gl gp -> sides gl gp gl gp.
Proof. intros [A [B _]]. repeat split; auto; [exists []|exists []]; rewrite ?app_nil_r; auto. Qed.

Lemma ext_lhs_rhs gl gp x a b : x = a ++ ">>" ++ b -> sides gl gp a b -> lhs x = a /\ rhs x = b.
Proof. intros -> [A [B _]]. unfold lhs, rhs. rewrite (split_sides a b A B). auto. Qed.

(* ---- appending *)
Lemma comps_app_end a y : dot_or_end y -> exists e, comps (a ++ y) = (comps a ++ e)%list.
Proof.
  intros [->|[t ->]].
  - exists []. now rewrite app_nil_r_s, app_nil_r.
  - exists (comps t). apply comps_app_dot.
Qed.
Lemma comps_app_tailstr b l : Forall (fun c => dotfree c = true) l -> comps (b ++ tailstr l) = (comps b ++ l)%list.
Proof.
  intros H. destruct l as [|c t]; simpl.
  - now rewrite app_nil_r_s, app_nil_r.
  - inversion H; subst. rewrite comps_app_dot, comps_tailstr; auto.
Qed.
Lemma nogt_tailstr l : nogt (tailstr l) = forallb nogt l.
Proof.
  induction l as [|c t IH]; simpl; auto. unfold nogt in *. simpl. rewrite nochar_app, IH. reflexivity.
Qed.

Lemma sides_react gl gp a b y : sides gl gp a b -> dot_or_end y -> nogt y = true -> sides gl gp (a ++ y) b.
Proof.
  intros [A [B [[eL EL] R]]] D N. repeat split; auto.
  - unfold nogt in *. now rewrite nochar_app, A, N.
  - destruct (comps_app_end a y D) as [e E]. exists (eL ++ e)%list. now rewrite E, EL, app_assoc.
Qed.
Lemma sides_prod_tail gl gp a b l : sides gl gp a b -> Forall (fun c => dotfree c = true) l ->
  forallb nogt l = true -> forallb clean3 l = true -> sides gl gp a (b ++ tailstr l).
Proof.
  intros [A [B [L [eR [ER C]]]]] D N K. repeat split; auto.
  - unfold nogt in *. rewrite nochar_app, B. simpl. apply (eq_trans (nogt_tailstr l)). exact N.
  - exists (eR ++ l)%list. rewrite comps_app_tailstr, ER, app_assoc; auto. split; auto. now rewrite forallb_app, C, K.
Qed.
Lemma sides_prod_str gl gp a b y : sides gl gp a b -> clean_str y = true -> sides gl gp a (b ++ String dot y).
Proof.
  intros S K. unfold clean_str in K. apply andb_prop in K as [N C].
  destruct (decompose_comps y) as [c0 [rest [E1 [E2 [D0 Dr]]]]].
  assert (EQ : String dot y = tailstr (c0 :: rest)) by (change (tailstr (c0 :: rest)) with (String dot (c0 ++ tailstr rest)); now rewrite <- E2).
  rewrite EQ.
  apply sides_prod_tail; auto.
  - rewrite <- nogt_tailstr, <- EQ. unfold nogt in *. cbn [nochar]. rewrite N. reflexivity.
  - now rewrite <- E1.
Qed.

(* ---- removing a ".m" marker from the product side *)
Lemma strict_keep m c : In m markers -> strict3 c = true -> prefixb m c = false.
Proof.
  intros I S. unfold strict3 in S. rewrite forallb_forall in S. specialize (S m I). now apply negb_true_iff in S.
Qed.
Lemma clean_okc m c : In m markers -> dotfree c = true -> clean3 c = true -> okc m c.
Proof.
  intros I D S. unfold clean3 in S. rewrite forallb_forall in S. specialize (S m I). split; auto.
  apply orb_prop in S as [S|S]; [left; now apply String.eqb_eq|right; now apply negb_true_iff].
Qed.
Lemma filter_strict m l : Forall (fun c => prefixb m c = false) l -> filter (keepc m) l = l.
Proof.
  induction 1 as [|c l P _ IH]; simpl; auto. unfold keepc at 1.
  destruct (String.eqb_spec c m) as [->|]; simpl; [|now rewrite IH].
  rewrite <- (app_nil_r_s m) in P at 2. now rewrite prefixb_self_app in P.
Qed.
Lemma forallb_filter {A} (f g : A -> bool) l : forallb f l = true -> forallb f (filter g l) = true.
Proof. induction l as [|x l IH]; simpl; auto. intros H. apply andb_prop in H as [H1 H2]. destruct (g x); simpl; auto. now rewrite H1, IH. Qed.
Lemma Forall_filter {A} (P : A -> Prop) g l : Forall P l -> Forall P (filter g l).
Proof. induction 1; simpl; auto. destruct (g x); auto. Qed.

Lemma sides_replace gl gp a b m : In m markers -> dotfree m = true -> guard gl gp -> sides gl gp a b ->
  sides gl gp a (replace (String dot m) "" b) /\ replace (String dot m) "" b <> "".
Proof.
  intros Im Dm [_ [_ [NE ST]]] [A [B [L [eR [ER C]]]]].
  destruct (decompose_comps b) as [c0 [rest [E1 [E2 [D0 Dr]]]]].
  destruct (decompose_comps gp) as [g0 [grest [F1 [F2 [G0 Gr]]]]].
  rewrite E1, F1 in ER. simpl in ER. inversion ER; subst c0 rest. clear ER.
  rewrite F1 in ST. simpl in ST.
  assert (GS : Forall (fun c => prefixb m c = false) grest).
  { rewrite Forall_forall. intros c Ic. rewrite forallb_forall in ST. apply strict_keep; auto. }
  assert (OK : Forall (okc m) (grest ++ eR)).
  { apply Forall_app. split.
    - rewrite Forall_forall in *. intros c Ic. split; auto.
    - apply Forall_app in Dr as [_ Dr]. rewrite Forall_forall in *. intros c Ic. apply clean_okc; auto.
      rewrite forallb_forall in C. auto. }
  rewrite E2 at 1 2. rewrite (replace_marker m Dm g0 (grest ++ eR) D0 OK).
  rewrite filter_app, (filter_strict m grest GS).
  assert (Df : Forall (fun c => dotfree c = true) (grest ++ filter (keepc m) eR)).
  { apply Forall_app in Dr as [D1 D2]. apply Forall_app. split; auto. now apply Forall_filter. }
  split.
  - repeat split; auto.
    + rewrite E2 in B. unfold nogt in B |- *. rewrite nochar_app in B |- *. apply andb_prop in B as [B1 B2]. rewrite B1. cbn [andb].
      fold (nogt (tailstr (grest ++ filter (keepc m) eR))). fold (nogt (tailstr (grest ++ eR))) in B2.
      rewrite nogt_tailstr in B2 |- *. rewrite forallb_app in B2 |- *. apply andb_prop in B2 as [B3 B4]. rewrite B3. cbn [andb].
      now apply forallb_filter.
    + exists (filter (keepc m) eR). rewrite comps_tailstr, F1; auto. split; auto. now apply forallb_filter.
  - intros Z. destruct g0; simpl in Z; [|discriminate]. destruct grest; simpl in Z; [|discriminate].
    apply NE. rewrite F2. reflexivity.
Qed.

Lemma after_nonempty p u x n : p <> "" -> after p u x n = p ++ repeat_str x n.
Proof. intros H. unfold after. destruct (String.eqb_spec p ""); [contradiction|reflexivity]. Qed.

Lemma in_markers_H : In "[H]" markers. Proof. simpl; auto. Qed.
Lemma in_markers_O : In "[O]" markers. Proof. simpl; auto. Qed.
Lemma in_markers_OO : In "OO" markers. Proof. simpl; auto. Qed.

Lemma dot_or_end_repeat u n : dot_or_end (repeat_str (String dot u) n).
Proof. destruct n; [left|right]; simpl; eauto. Qed.
Lemma nogt_repeat_str u n : nogt u = true -> nogt (repeat_str u n) = true.
Proof. intros H. induction n; simpl; auto. unfold nogt in *. now rewrite nochar_app, H, IHn. Qed.
Lemma forallb_repeat {A} (f : A -> bool) x n : f x = true -> forallb f (repeat x n) = true.
Proof. intros H. induction n; simpl; auto. now rewrite H. Qed.
Lemma Forall_repeat {A} (P : A -> Prop) x n : P x -> Forall P (repeat x n).
Proof. intros H. induction n; simpl; auto. Qed.

Lemma sides_water gl gp a b n : sides gl gp a b -> sides gl gp a (b ++ repeat_str ".O" n).
Proof.
  intros S. change ".O" with (String dot "O"). rewrite repeat_str_tailstr. apply sides_prod_tail; auto.
  - now apply Forall_repeat.
  - now apply forallb_repeat.
  - now apply forallb_repeat.
Qed.

Lemma sides_modify_h gl gp a b : guard gl gp -> sides gl gp a b ->
  sides gl gp (fst (modify_h a b)) (snd (modify_h a b)).
Proof.
  intros G S. unfold modify_h. destruct (contains ".[H]" b); auto.
  destruct (existsb _ _); auto. destruct (Nat.even _); auto. cbn [fst snd].
  destruct (sides_replace gl gp a b "[H]" in_markers_H eq_refl G S) as [S1 NE].
  change ".[H]" with (String dot "[H]"). rewrite (after_nonempty _ _ _ _ NE).
  apply sides_water. apply sides_react; auto.
  - change ".[O]" with (String dot "[O]"). apply dot_or_end_repeat.
  - now apply nogt_repeat_str.
Qed.
Lemma sides_modify_o gl gp a b : guard gl gp -> sides gl gp a b ->
  sides gl gp (fst (modify_o a b)) (snd (modify_o a b)).
Proof.
  intros G S. unfold modify_o. destruct (contains ".[O]" b).
  - destruct (Nat.even _); auto. cbn [fst snd].
    destruct (sides_replace gl gp a b "[O]" in_markers_O eq_refl G S) as [S1 NE].
    change ".[O]" with (String dot "[O]"). rewrite (after_nonempty _ _ _ _ NE).
    apply sides_water. apply sides_react; auto.
    + change ".[H].[H]" with (String dot "[H].[H]"). apply dot_or_end_repeat.
    + now apply nogt_repeat_str.
  - destruct (contains ".OO" b); auto. cbn [fst snd].
    destruct (sides_replace gl gp a b "OO" in_markers_OO eq_refl G S) as [S1 NE].
    change ".OO" with (String dot "OO").
    destruct (String.eqb_spec (replace (String dot "OO") "" b) ""); [contradiction|].
    apply sides_water. apply sides_react; auto.
    + change ".[H].[H]" with (String dot "[H].[H]"). apply dot_or_end_repeat.
    + now apply nogt_repeat_str.
Qed.
Lemma sides_modify gl gp a b a' b' : guard gl gp -> sides gl gp a b -> modify a b = (a', b') -> sides gl gp a' b'.
Proof.
  intros G S. unfold modify. destruct (modify_h a b) as [r1 p1] eqn:E.
  pose proof (sides_modify_h gl gp a b G S) as S1. rewrite E in S1. cbn [fst snd] in S1.
  intros H. pose proof (sides_modify_o gl gp r1 p1 G S1) as S2. rewrite H in S2. exact S2.
Qed.

(* ---- the completions of the solver are built from database SMILES *)
Section Solver.
Variable db : list rule.
Hypothesis db_clean : forall r, In r db -> clean_str (rsmiles r) = true.

Lemma dfs_members rules : forall fuel data p sols, dfs fuel rules data p = Some sols ->
  forall sol, In sol sols -> forall it, In it sol -> In it p \/ In (fst it) rules.
Proof.
  induction fuel as [|f IH]; intros data p sols H sol I it Ii; simpl in H; [discriminate|].
  destruct (exit_py data).
  - inversion H; subst. destruct I as [<-|[]]. auto.
  - destruct (concat_opt_in _ _ _ H I) as [y [Iy Is]].
    apply in_map_iff in Iy as [r [Er Ir]].
    destruct (apply_rule data r) as [| |nd ratio].
    + inversion Er; subst. destruct Is.
    + discriminate.
    + destruct (IH nd (p ++ [(r, ratio)])%list y Er sol Is it Ii) as [J|J]; auto.
      apply in_app_or in J as [J|[<-|[]]]; auto.
Qed.
Lemma match_all_members fuel diff res : match_all fuel db diff = Some res ->
  forall sol, In sol res -> forall it, In it sol -> In (fst it) db.
Proof.
  intros H sol I it Ii. unfold match_all in H.
  destruct (dfs fuel (sort_rules db) (init_data diff) []) as [sols|] eqn:D; [|discriminate].
  inversion H; subst. unfold rank_ion in I. apply sort_desc_in in I. apply shortest_in in I.
  unfold remove_overlapping in I. apply dedup_by_in in I.
  destruct (dfs_members _ _ _ _ _ D sol I it Ii) as [[]|J].
  unfold sort_rules in J. now apply sort_desc_in in J.
Qed.

Lemma clean_str_empty : clean_str "" = true. Proof. reflexivity. Qed.
Lemma clean_str_app x y : clean_str x = true -> clean_str y = true -> clean_str (x ++ String dot y) = true.
Proof.
  unfold clean_str. intros H1 H2. apply andb_prop in H1 as [N1 C1]. apply andb_prop in H2 as [N2 C2].
  rewrite comps_app_dot, forallb_app, C1, C2. unfold nogt in *. rewrite nochar_app, N1. simpl. now rewrite N2.
Qed.
Lemma clean_join parts : Forall (fun s => clean_str s = true) parts -> clean_str (join "." parts) = true.
Proof.
  induction 1 as [|x l Hx Hl IH]; [reflexivity|].
  destruct l as [|y l]; [exact Hx|].
  change (join "." (x :: y :: l)) with (x ++ String dot (join "." (y :: l))). now apply clean_str_app.
Qed.
Lemma solution_clean fuel diff res sol : match_all fuel db diff = Some res -> In sol res ->
  clean_str (solution_smiles sol) = true.
Proof.
  intros H I. unfold solution_smiles. apply clean_join. unfold solution_parts.
  rewrite Forall_forall. intros x Ix. apply in_flat_map in Ix as [it [Ii Ir]]. apply repeat_spec in Ir. subst x.
  apply db_clean. eapply match_all_members; eauto.
Qed.

Lemma single_impute_sides gl gp fuel d tp a b a' b' : sides gl gp a b ->
  single_impute fuel db d tp a b = Some (Some (a', b')) -> sides gl gp a' b'.
Proof.
  intros S. unfold single_impute. destruct (match_all fuel db d) as [[|sol res]|] eqn:M; try discriminate.
  destruct sol as [|it sol']; [discriminate|]. set (sol := it :: sol') in *.
  assert (K : clean_str (solution_smiles sol) = true) by (eapply solution_clean; eauto; left; reflexivity).
  intros H. change ("." ++ solution_smiles sol) with (String dot (solution_smiles sol)) in H.
  destruct tp; inversion H; subst.
  - now apply sides_prod_str.
  - apply sides_react; auto; [right; eexists; reflexivity|].
    unfold clean_str in K. apply andb_prop in K as [K _]. exact K.
Qed.
End Solver.

(* ---------------------------------------------------------------- the pipeline, per row *)
Section Rows.
Variable OR : oracles.
Variable db : list rule.
Variable ban : list string.
Variable fuel : nat.
Hypothesis db_clean : forall r, In r db -> clean_str (rsmiles r) = true.
(* the merged SMILES that impute_reaction appends: whole components, none cut by a marker *)
Hypothesis impute_clean : forall s m ru, impute OR s = ImpOk m ru -> clean_str m = true.

Notation F := (F OR db ban fuel).
Notation rb_row := (rb_row OR db ban fuel).
Notation before_pp := (before_pp OR db ban fuel).

Variables gl gp : string.
Hypothesis G : guard gl gp.

Definition I (r : row) : Prop := ext gl gp (rxn r).
Definition given (r : row) : Prop := rinput r = gl ++ ">>" ++ gp.

Lemma I_given r : given r -> I (set_rxn r (rinput r)).
Proof. intros H. destruct r; simpl in *. unfold I; simpl. rewrite H. exists gl, gp. split; auto. now apply sides_refl. Qed.

Lemma validate_rxn m cc ov msg r : rxn (validate OR m cc ov msg r) = rxn r \/ rxn (validate OR m cc ov msg r) = rinput r.
Proof.
  unfold validate. destruct r as [a1 a2 a3 a4 a5 a6 a7 a8 a9 a10]; simpl.
  destruct cc; simpl; destruct (verdict_eqb _ _ && _ && _); simpl; destruct ov; simpl; auto;
  destruct a4; simpl; auto; destruct msg as [m0|]; simpl; auto; destruct a6 as [i|]; simpl; auto; destruct (String.eqb i ""); simpl; auto.
Qed.
Lemma validate_rinput m cc ov msg r : rinput (validate OR m cc ov msg r) = rinput r.
Proof. destruct (validate_fields OR m cc ov msg r) as [H _]. exact H. Qed.

Lemma I_validate m cc ov msg r : given r -> I r -> I (validate OR m cc ov msg r).
Proof.
  intros Gi H. unfold I. destruct (validate_rxn m cc ov msg r) as [E|E]; rewrite E; auto.
  pose proof (I_given r Gi) as K. unfold I in K. destruct r; exact K.
Qed.

Lemma rb_classify_cases r rx p v d : rb_classify OR r = (rx, p, v, d) ->
  (rx = rxn r /\ p = rhs (rxn r)) \/ exists n, rx = rxn r ++ repeat_str ".O" n /\ p = rhs (rxn r) ++ repeat_str ".O" n.
Proof.
  unfold rb_classify. destruct (classify _ _) as [d0 v0].
  destruct v0; try (intros [= <- <- <- <-]; left; split; reflexivity).
  destruct (get d0 "O") as [w|]; [|intros [= <- <- <- <-]; left; split; reflexivity].
  destruct (_ >=? _)%Z; intros [= <- <- <- <-]; right; exists (Z.to_nat w); split; reflexivity.
Qed.
Lemma rb_row_cases r rx p v d : rb_classify OR r = (rx, p, v, d) ->
  rb_row r = set_rxn r rx \/
  exists tp r1 p1 r2 p2, single_impute fuel db d tp (lhs (rxn r)) p = Some (Some (r1, p1)) /\ modify r1 p1 = (r2, p2) /\
                         rb_row r = set_rxn r (r2 ++ ">>" ++ p2).
Proof.
  intros C. unfold RowLocal.rb_row, rb_solve, rb_water. rewrite C.
  destruct (is_cbal (carbon r) && is_rp v); [|left; reflexivity].
  destruct (single_impute _ _ _ _ _ _) as [[[r1 p1]|]|] eqn:SI; try (left; reflexivity).
  unfold constraint_fit. destruct (modify r1 p1) as [r2 p2] eqn:MO.
  destruct (accepts ban r2 p2); [|left; reflexivity].
  right. exists (match v with Products => true | _ => false end), r1, p1, r2, p2. auto.
Qed.

Lemma I_rb_row r : I r -> I (rb_row r).
Proof.
  intros [a [b [E S]]]. destruct (ext_lhs_rhs gl gp (rxn r) a b E S) as [EL ER].
  destruct (rb_classify OR r) as [[[rx p] v] d] eqn:C.
  assert (X : ext gl gp rx /\ sides gl gp a p).
  { destruct (rb_classify_cases r rx p v d C) as [[-> ->]|[n [-> ->]]]; rewrite ER.
    - split; auto. exists a, b. auto.
    - split; [|now apply sides_water]. exists a, (b ++ repeat_str ".O" n). split; [|now apply sides_water].
      rewrite E. now rewrite !app_assoc_s. }
  destruct X as [X1 X2].
  destruct (rb_row_cases r rx p v d C) as [->|[tp [r1 [p1 [r2 [p2 [SI [MO ->]]]]]]]].
  - destruct r; exact X1.
  - rewrite EL in SI.
    pose proof (single_impute_sides db db_clean gl gp fuel d tp a p r1 p1 X2 SI) as S1.
    pose proof (sides_modify gl gp r1 p1 r2 p2 G S1 MO) as S2.
    destruct r; unfold I; simpl. exists r2, p2. auto.
Qed.

Lemma I_mcs_find r : I r -> I (mcs_find OR r).
Proof. unfold mcs_find. destruct (solved r); auto. destruct (mcs_state OR (rxn r)). destruct r; auto. Qed.
Lemma I_mcs_impute r : I r -> I (mcs_impute OR r).
Proof.
  unfold mcs_impute. destruct (mcs r) as [[|]|]; auto. destruct (impute OR (rxn r)) as [m ru|msg] eqn:IM; [|destruct r; auto].
  intros [a [b [E S]]]. pose proof (impute_clean _ _ _ IM) as K.
  destruct r; unfold I; simpl in *. exists a, (b ++ String dot m). split; [|now apply sides_prod_str].
  rewrite E. now rewrite !app_assoc_s.
Qed.
Lemma given_stage (f : row -> row) r : rinput (f r) = rinput r -> given r -> given (f r).
Proof. unfold given. congruence. Qed.
Lemma rinput_rb_row r : rinput (rb_row r) = rinput r.
Proof. unfold RowLocal.rb_row, rb_water. destruct (rb_solve _ _ _ _ r); [destruct r; reflexivity|]. destruct (rb_classify OR r) as [[[? ?] ?] ?]. destruct r; reflexivity. Qed.
Lemma rinput_mcs_find r : rinput (mcs_find OR r) = rinput r.
Proof. unfold mcs_find. destruct (solved r); auto. destruct (mcs_state OR (rxn r)). destruct r; auto. Qed.
Lemma rinput_mcs_impute r : rinput (mcs_impute OR r) = rinput r.
Proof. unfold mcs_impute. destruct (mcs r) as [[|]|]; auto. destruct (impute OR (rxn r)); destruct r; auto. Qed.

(* the row as it enters post-processing *)
Lemma before_pp_ext r : given r -> I r -> given (before_pp r) /\ I (before_pp r).
Proof.
  intros G0 I0. unfold Balanced.before_pp.
  set (r1 := validate OR M_INPUT true false None r).
  assert (G1 : given r1) by (apply given_stage; [apply validate_rinput|auto]).
  assert (I1 : I r1) by now apply I_validate.
  set (r2 := rb_row r1).
  assert (G2 : given r2) by (apply given_stage; [apply rinput_rb_row|auto]).
  assert (I2 : I r2) by now apply I_rb_row.
  set (r3 := validate OR M_RB false true None r2).
  assert (G3 : given r3) by (apply given_stage; [apply validate_rinput|auto]).
  assert (I3 : I r3) by now apply I_validate.
  set (r4 := mcs_find OR r3).
  assert (G4 : given r4) by (apply given_stage; [apply rinput_mcs_find|auto]).
  assert (I4 : I r4) by now apply I_mcs_find.
  set (r5 := mcs_impute OR r4).
  assert (G5 : given r5) by (apply given_stage; [apply rinput_mcs_impute|auto]).
  assert (I5 : I r5) by now apply I_mcs_impute.
  split; [apply given_stage; [apply validate_rinput|auto] | now apply I_validate].
Qed.

Lemma restore_rxn a b : rxn (restore OR a b) = rxn b \/ rxn (restore OR a b) = rxn a.
Proof. unfold restore. destruct (_ && _); [right; destruct b; reflexivity|left; reflexivity]. Qed.
Lemma rinput_restore a b : rinput (restore OR a b) = rinput b.
Proof. unfold restore. destruct (_ && _); [destruct b; reflexivity|reflexivity]. Qed.
Lemma I_restore a b : I a -> I b -> I (restore OR a b).
Proof. intros Ia Ib. unfold I. destruct (restore_rxn a b) as [E|E]; rewrite E; auto. Qed.

(* rows that the reagent post-processing leaves alone: only whole components are appended *)
Theorem F_ext_no_pp r : given r -> I r -> post_process OR (before_pp r) = before_pp r -> given (F r) /\ I (F r).
Proof.
  intros G0 I0 NP. rewrite F_split, NP. destruct (before_pp_ext r G0 I0) as [G1 I1].
  assert (G2 : given (rb_row (before_pp r))) by (apply given_stage; [apply rinput_rb_row|auto]).
  assert (G3 : given (restore OR (before_pp r) (rb_row (before_pp r)))) by (unfold given; now rewrite rinput_restore).
  split; [apply given_stage; [apply validate_rinput|auto] | apply I_validate; auto; apply I_restore; auto; now apply I_rb_row].
Qed.
(* whatever the post-processing did: if the row fell back to the reaction it carried before, that reaction
   extends the given sides *)
Lemma before_pp_I r : given r -> I r -> I (before_pp r).
Proof. intros G0 I0. now destruct (before_pp_ext r G0 I0). Qed.
End Rows.

(* rows rewritten by the reagent post-processing to c = cl>>cp: afterwards only whole components are
   appended to c, or the row falls back to the reaction it carried before, or it is reset to its input *)
Section PP.
Variable OR : oracles.
Variable db : list rule.
Variable ban : list string.
Variable fuel : nat.
Hypothesis db_clean : forall r, In r db -> clean_str (rsmiles r) = true.
Theorem F_ext_pp r cl cp : guard cl cp -> rxn (post_process OR (before_pp OR db ban fuel r)) = cl ++ ">>" ++ cp ->
  ext cl cp (rxn (F OR db ban fuel r)) \/ rxn (F OR db ban fuel r) = rinput (F OR db ban fuel r) \/
  rxn (F OR db ban fuel r) = rxn (before_pp OR db ban fuel r).
Proof.
  intros G E. rewrite F_split. set (b := before_pp OR db ban fuel r) in *. set (x := post_process OR b) in *.
  assert (I0 : I cl cp x) by (exists cl, cp; split; auto; now apply sides_refl).
  pose proof (I_rb_row OR db ban fuel db_clean cl cp G x I0) as I1.
  set (y := restore OR b (RowLocal.rb_row OR db ban fuel x)).
  destruct (validate_rxn OR M_MCS true true (Some FINAL_MSG) y) as [H|H].
  - rewrite H. destruct (restore_rxn OR b (RowLocal.rb_row OR db ban fuel x)) as [K|K]; fold y in K; rewrite K; auto.
  - right. left. rewrite H. now rewrite validate_rinput.
Qed.
End PP.

(* ---------------------------------------------------------------- C02 on runs *)
Definition appended (gl gp x : string) : Prop :=
  exists eL eR, (comps (lhs x) = comps gl ++ eL /\ comps (rhs x) = comps gp ++ eR)%list.
Lemma ext_appended gl gp x : ext gl gp x -> appended gl gp x.
Proof.
  intros [a [b [E S]]]. unfold appended. destruct (ext_lhs_rhs gl gp x a b E S) as [-> ->].
  destruct S as [_ [_ [[eL EL] [eR [ER _]]]]]. exists eL, eR. auto.
Qed.

Section Runs.
Variable OR : oracles.
Variable db : list rule.
Variable ban : list string.
Variable fuel : nat.
Hypothesis db_clean : forall r, In r db -> clean_str (rsmiles r) = true.
Hypothesis impute_clean : forall s m ru, impute OR s = ImpOk m ru -> clean_str m = true.
Notation entering_pp s := (before_pp OR db ban fuel (fresh 0 s)).

Theorem run_only_appends t tmsg ins rows st :
  run OR db ban fuel t tmsg ins = Done (rows, st) ->
  Forall2 (fun s r => forall gl gp, s = gl ++ ">>" ++ gp -> guard gl gp ->
     rinput r = s /\
     (* rows the reagent post-processing leaves alone *)
     (post_process OR (entering_pp s) = entering_pp s -> appended gl gp (rxn r)) /\
     (* rows it rewrites to cl>>cp *)
     (forall cl cp, guard cl cp -> rxn (post_process OR (entering_pp s)) = cl ++ ">>" ++ cp ->
        appended cl cp (rxn r) \/ rxn r = s \/ appended gl gp (rxn r)))
    (kept_inputs OR ins) rows.
Proof.
  intros H. pose proof (run_rows_are_alone_results OR db ban fuel t tmsg ins rows st H) as A.
  eapply Forall2_impl; [|exact A]. intros s r [r1 [A1 E]] gl gp Es G. cbv beta.
  destruct (alone_fields OR db ban fuel t tmsg s r1 A1) as [X1 [X2 _]].
  destruct (set_rid_fields r1 (rid r)) as [Y1 [Y2 _]]. rewrite <- E in *.
  assert (G0 : given gl gp (fresh 0 s)) by (unfold given; simpl; exact Es).
  assert (I0 : I gl gp (fresh 0 s)) by (unfold I; simpl; rewrite Es; exists gl, gp; split; auto; now apply sides_refl).
  assert (RI : rinput (F OR db ban fuel (fresh 0 s)) = s).
  { rewrite F_split. rewrite validate_rinput, rinput_restore, rinput_rb_row.
    assert (RP : forall x, rinput (post_process OR x) = rinput x).
    { intros x. unfold post_process. destruct (sby x) as [m|]; auto. destruct (String.eqb m M_INPUT); auto.
      destruct (pp OR (rxn x)); auto. }
    rewrite RP. destruct (before_pp_ext OR db ban fuel db_clean impute_clean gl gp G (fresh 0 s) G0 I0) as [K _].
    unfold given in K. congruence. }
  split; [congruence|]. split.
  - intros NP. destruct (F_ext_no_pp OR db ban fuel db_clean impute_clean gl gp G (fresh 0 s) G0 I0 NP) as [_ K].
    apply ext_appended. rewrite Y1, X1. exact K.
  - intros cl cp Gc Ec. destruct (F_ext_pp OR db ban fuel db_clean (fresh 0 s) cl cp Gc Ec) as [K|[K|K]].
    + left. apply ext_appended. rewrite Y1, X1. exact K.
    + right. left. rewrite Y1, X1, K. exact RI.
    + right. right. apply ext_appended. rewrite Y1, X1, K.
      exact (before_pp_I OR db ban fuel db_clean impute_clean gl gp G (fresh 0 s) G0 I0).
Qed.
End Runs.
