(* The ban filter of RuleConstraint (C08, third sentence). *)
From Coq Require Import String List Bool Arith.
From SynRBL Require Import Base.Strs Model.Constraint.
Import ListNotations.
Open Scope string_scope.

Theorem accepted_has_no_banned ban r p r' p' :
  constraint_fit ban r p = Some (r', p') ->
  (forall b, In b ban -> contains b p' = false) /\ Nat.even (count ".[H]" r') = true.
Proof.
  unfold constraint_fit. destruct (modify r p) as [r1 p1].
  destruct (accepts ban r1 p1) eqn:A; [|discriminate]. intros [= <- <-].
  unfold accepts in A. apply andb_prop in A as [A B]. split; [|exact B].
  intros b Ib. apply negb_true_iff in A. unfold banned in A.
  destruct (contains b p1) eqn:C; auto.
  assert (existsb (fun b => contains b p1) ban = true) by (apply existsb_exists; eauto). congruence.
Qed.

(* a banned string that occurs in a component occurs in every side string containing it *)
Lemma prefixb_app p s t : prefixb p s = true -> prefixb p (s ++ t) = true.
Proof.
  revert s. induction p as [|a p IH]; intros s; simpl; auto.
  destruct s as [|b s]; simpl; [discriminate|]. intros H. apply andb_prop in H as [H1 H2].
  rewrite H1. simpl. now apply IH.
Qed.
Lemma contains_app_r b s t : contains b s = true -> contains b (s ++ t) = true.
Proof.
  induction s as [|c s IH]; simpl.
  - rewrite orb_false_r. destruct b; simpl; [|discriminate]. intros _. destruct t; reflexivity.
  - intros H. apply orb_prop in H as [H|H].
    + apply orb_true_iff. left. now apply (prefixb_app b (String c s) t).
    + apply orb_true_iff. right. now apply IH.
Qed.
Lemma contains_app_l b s t : contains b t = true -> contains b (s ++ t) = true.
Proof.
  induction s as [|c s IH]; simpl; auto. intros H. apply orb_true_iff. right. auto.
Qed.
