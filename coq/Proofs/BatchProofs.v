(* C05: chunking loses nothing; with well-formed rows the output is aligned with the input. *)
From Coq Require Import String ZArith List Bool Arith Lia.
From SynRBL Require Import Base.Dict Base.Strs Base.ListX Model.Comp Model.Matcher Model.Constraint Model.Pipeline Model.Batch
  Proofs.PipelineProofs Proofs.RowLocal Proofs.Balanced Proofs.RunLevel.
Import ListNotations.
Open Scope nat_scope. Open Scope list_scope.

Lemma chunks_go_concat {A} n (l : list A) : forall fuel, 0 < n -> length l <= fuel ->
  concat (chunks_go fuel n l) = l.
Proof.
  intros fuel Hn. revert l. induction fuel as [|f IH]; intros l H.
  - destruct l; simpl in *; [reflexivity|lia].
  - destruct l as [|a t]; [reflexivity|]. cbn [chunks_go concat].
    rewrite IH.
    + apply firstn_skipn.
    + rewrite skipn_length. simpl in H. destruct n; simpl; lia.
Qed.
Theorem chunks_concat {A} n (l : list A) : 0 < n -> concat (chunks n l) = l.
Proof. intros Hn. apply chunks_go_concat; auto. Qed.
Lemma chunks_go_sizes {A} n (l : list A) : forall fuel b, 0 < n -> In b (chunks_go fuel n l) ->
  b <> [] /\ length b <= n.
Proof.
  intros fuel. revert l. induction fuel as [|f IH]; intros l b Hn I; [destruct I|].
  destruct l as [|a t]; [destruct I|]. cbn [chunks_go] in I. destruct I as [<-|I].
  - split; [destruct n; [lia|discriminate] | apply firstn_le_length].
  - eapply IH; eauto.
Qed.
Theorem chunks_sizes {A} n (l : list A) b : 0 < n -> In b (chunks n l) -> b <> [] /\ length b <= n.
Proof. apply chunks_go_sizes. Qed.

Lemma Forall2_len {A B} (P : A -> B -> Prop) l m : Forall2 P l m -> length l = length m.
Proof. induction 1; simpl; auto. Qed.

Section B.
Variable pipeline : list string -> outcome (list row * stats).
Variable R : string -> row -> Prop.
Variable W : string -> Prop.          (* well-formed input string *)
(* every non-empty batch of well-formed strings completes and its rows are related one-to-one,
   in order, to its inputs *)
Hypothesis batch_ok : forall b, b <> [] -> Forall W b ->
  exists rows st, pipeline b = Done (rows, st) /\ Forall2 R b rows.

Lemma fold_batches bs : forall acc pre, Forall (Forall W) bs ->
  Forall2 R pre (fst acc) ->
  Forall2 R (pre ++ concat bs) (fst (fold_left (one_batch pipeline) bs acc)).
Proof.
  induction bs as [|b t IH]; intros acc pre FW H; simpl.
  - now rewrite app_nil_r.
  - inversion FW; subst. rewrite app_assoc. apply IH; auto. unfold one_batch.
    destruct b as [|x b']; [now rewrite app_nil_r|].
    destruct (batch_ok (x :: b')) as [rows [st [E F]]]; [discriminate|auto|]. rewrite E. simpl.
    apply Forall2_app; auto.
Qed.
Lemma Forall_firstn {A} (P : A -> Prop) n l : Forall P l -> Forall P (firstn n l).
Proof. revert l. induction n; intros l F; simpl; [constructor|]. destruct F; constructor; auto. Qed.
Lemma Forall_skipn {A} (P : A -> Prop) n l : Forall P l -> Forall P (skipn n l).
Proof. revert l. induction n; intros l F; simpl; auto. destruct F; [constructor|auto]. Qed.
Lemma chunks_go_Forall {A} (P : A -> Prop) n : forall fuel l, Forall P l -> Forall (Forall P) (chunks_go fuel n l).
Proof.
  induction fuel as [|f IH]; intros l F; [constructor|]. destruct l as [|a t]; [constructor|].
  cbn [chunks_go]. constructor; [now apply Forall_firstn | apply IH; now apply Forall_skipn].
Qed.
Theorem rebalance_aligned bs ins : (forall n, bs = Some n -> 0 < n) -> Forall W ins ->
  Forall2 R ins (fst (rebalance pipeline bs ins)).
Proof.
  intros Hn FW. unfold rebalance.
  assert (C : concat (batches bs ins) = ins).
  { unfold batches. destruct bs as [n|]; [apply chunks_concat; auto | simpl; apply app_nil_r]. }
  rewrite <- C at 1. apply (fold_batches (batches bs ins) ([], zero_stats) []); [|constructor].
  unfold batches. destruct bs as [n|]; [now apply chunks_go_Forall | constructor; auto].
Qed.
Corollary rebalance_length bs ins : (forall n, bs = Some n -> 0 < n) -> Forall W ins ->
  length (fst (rebalance pipeline bs ins)) = length ins.
Proof. intros Hn FW. symmetry. eapply Forall2_len. now apply rebalance_aligned. Qed.
Lemma Forall2_combine {A B} (P : A -> B -> Prop) l m : Forall2 P l m ->
  forall a b, In (a, b) (combine l m) -> P a b.
Proof. induction 1; simpl; intros a b I; [destruct I|]. destruct I as [E|I]; [inversion E; subst; auto|auto]. Qed.
End B.

(* instantiation with the pipeline model *)
Section I.
Variable OR : oracles.
Variable db : list rule.
Variable ban : list string.
Variable fuel : nat.
Variable t : Z.
Variable tmsg : string.
Notation pipe := (run OR db ban fuel t tmsg).

Definition well_formed (s : string) : Prop := one_sep (strip OR s) = true /\ parse_ok OR (strip OR s) = true.

Lemma kept_inputs_all b : Forall well_formed b -> kept_inputs OR b = map (strip OR) b.
Proof.
  unfold kept_inputs. induction 1 as [|s t0 [W1 W2] F IH]; simpl; auto. rewrite W2, IH. reflexivity.
Qed.
Lemma rinput_F r : rinput (F OR db ban fuel r) = rinput r.
Proof.
  assert (V : forall m cc ov msg x, rinput (validate OR m cc ov msg x) = rinput x)
    by (intros; now destruct (validate_fields OR m cc ov msg x) as [E _]).
  assert (RB : forall x, rinput (rb_row OR db ban fuel x) = rinput x).
  { intros x. assert (Q : forall y, rinput y = rinput (norxn y)) by (intros y; destruct y; reflexivity).
    rewrite (Q (rb_row OR db ban fuel x)), rb_row_norxn, <- Q. reflexivity. }
  assert (MF : forall x, rinput (mcs_find OR x) = rinput x).
  { intros x. unfold mcs_find. destruct (solved x); auto. destruct (mcs_state OR (rxn x)). destruct x; reflexivity. }
  assert (MI : forall x, rinput (mcs_impute OR x) = rinput x).
  { intros x. unfold mcs_impute. destruct (mcs x) as [[|]|]; auto. destruct (impute OR (rxn x)); destruct x; reflexivity. }
  assert (PP : forall x, rinput (post_process OR x) = rinput x).
  { intros x. unfold post_process. destruct (sby x) as [m|]; auto. destruct (String.eqb m M_INPUT); auto.
    destruct (pp OR (rxn x)) as [c|]; [|reflexivity]. destruct x; reflexivity. }
  assert (RS : forall a x, rinput (restore OR a x) = rinput x).
  { intros a x. assert (Q : forall y, rinput y = rinput (norxn y)) by (intros y; destruct y; reflexivity).
    rewrite (Q (restore OR a x)), restore_norxn, <- Q. reflexivity. }
  unfold RowLocal.F, RowLocal.G6. now rewrite V, RS, RB, PP, V, MI, MF, V, RB, V.
Qed.

(* one completed batch of well-formed rows: one row per input, in order, describing that input *)
Theorem batch_rows_describe_inputs b rows st : Forall well_formed b ->
  pipe b = Done (rows, st) -> Forall2 (fun s r => rinput r = strip OR s) b rows.
Proof.
  intros W H. pose proof (run_rows_are_alone_results OR db ban fuel t tmsg b rows st H) as A.
  fold (kept_inputs OR b) in A. rewrite (kept_inputs_all b W) in A.
  clear H W. remember (map (strip OR) b) as m. revert b Heqm.
  induction A as [|s r l rs [r1 [A1 E]] FA IH]; intros b Hm.
  - destruct b; [constructor|discriminate].
  - destruct b as [|x b']; [discriminate|]. simpl in Hm. inversion Hm; subst. constructor; [|now apply IH].
    destruct (alone_fields OR db ban fuel t tmsg _ r1 A1) as [_ [X2 _]].
    rewrite E. destruct r1; simpl in *. rewrite X2, rinput_F. reflexivity.
Qed.
End I.

(* C05_partial for the pipeline model, every batch size, and the CLI's positional zip *)
Section J.
Variable OR : oracles.
Variable db : list rule.
Variable ban : list string.
Variable fuel : nat.
Variable t : Z.
Variable tmsg : string.
Notation pipe := (run OR db ban fuel t tmsg).
(* no batch is lost to the confidence stage's assertion *)
Hypothesis completes : forall b, b <> [] -> Forall (well_formed OR) b -> exists rows st, pipe b = Done (rows, st).

Theorem rebalance_one_row_per_input bs ins : (forall n, bs = Some n -> 0 < n) -> Forall (well_formed OR) ins ->
  Forall2 (fun s r => rinput r = strip OR s) ins (fst (rebalance pipe bs ins)).
Proof.
  apply rebalance_aligned. intros b Nb Wb. destruct (completes b Nb Wb) as [rows [st E]].
  exists rows, st. split; auto. eapply batch_rows_describe_inputs; eauto.
Qed.
Theorem cli_passthrough_aligned {A} bs (ins : list (A * string)) :
  (forall n, bs = Some n -> 0 < n) -> Forall (well_formed OR) (map snd ins) ->
  forall a s r, In ((a, s), r) (cli_passthrough ins (fst (rebalance pipe bs (map snd ins)))) ->
    rinput r = strip OR s.
Proof.
  intros Hn FW a s r I. pose proof (rebalance_one_row_per_input bs (map snd ins) Hn FW) as F.
  unfold cli_passthrough in I.
  assert (G : forall (l : list (A * string)) m, Forall2 (fun s r => rinput r = strip OR s) (map snd l) m ->
              forall x y, In (x, y) (combine l m) -> rinput y = strip OR (snd x)).
  { induction l as [|h tl IH]; intros m FF x y Ixy; simpl in *; [destruct Ixy|].
    inversion FF; subst. simpl in Ixy. destruct Ixy as [E|Ixy]; [inversion E; subst; auto | eauto]. }
  exact (G ins _ F (a, s) r I).
Qed.
End J.
