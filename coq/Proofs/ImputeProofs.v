(* The two facts about impute_reaction that C03 uses hold by construction for refined oracle records. *)
From Coq Require Import String ZArith List Bool.
From SynRBL Require Import Base.Dict Base.Strs Model.Comp Model.Pipeline Model.Impute.
Import ListNotations.
Open Scope string_scope.

Lemma carbon_of_refine O I s : carbon_of (refine O I) s = carbon_of O s.
Proof. reflexivity. Qed.

Theorem refined_impute_needs_empty_issue O I s m ru : impute (refine O I) s = ImpOk m ru -> snd (mcs_state (refine O I) s) = "".
Proof.
  simpl. unfold impute_reaction. destruct (String.eqb_spec (snd (mcs_state O s)) "") as [E|N]; simpl; [auto|discriminate].
Qed.
Theorem refined_impute_refuses_deficit O I s m ru : impute (refine O I) s = ImpOk m ru -> carbon_of (refine O I) s <> CReactants.
Proof.
  rewrite carbon_of_refine. cbn [impute refine]. unfold impute_reaction. destruct (negb _); [discriminate|].
  destruct (merged_raw I s) as [[raw rules]|msg]; [|discriminate].
  destruct (carbon_of O s) eqn:C; cbn [is_deficit]; intros H; try discriminate H; intros H2; discriminate H2.
Qed.
(* a successful imputation is the standardised merge result, and the imputed reaction is carbon balanced *)
Theorem refined_impute_ok O I s m ru : impute (refine O I) s = ImpOk m ru ->
  exists raw, merged_raw I s = Ok2 (raw, ru) /\ standardized I raw = Ok2 m /\ carbon_balanced_after I (s ++ "." ++ m) = true.
Proof.
  cbn [impute refine]. unfold impute_reaction. destruct (negb _); [discriminate|].
  destruct (merged_raw I s) as [[raw rules]|msg] eqn:M; [|discriminate].
  destruct (is_deficit (carbon_of O s)); [discriminate|].
  destruct (standardized I raw) as [mm|msg] eqn:St; [|discriminate].
  destruct (carbon_balanced_after I (s ++ "." ++ mm)) eqn:C; [|discriminate].
  intros [= <- <-]. exists raw. repeat split; auto.
Qed.
