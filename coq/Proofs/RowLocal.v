(* The pipeline is row-local: with ids = positions (what preprocess establishes) the id-based
   write-back of the rule-based stage is a map, hence every stage is a map and a row's result
   does not depend on the other rows of its batch (C06; used by C04 and C01). *)
From Coq Require Import String ZArith List Bool Arith Lia.
From SynRBL Require Import Base.Dict Base.Strs Base.ListX Model.Comp Model.Matcher Model.Constraint Model.Pipeline
  Proofs.PipelineProofs.
Import ListNotations.
Open Scope string_scope. Open Scope nat_scope. Open Scope list_scope.

Section R.
Variable OR : oracles.
Variable db : list rule.
Variable ban : list string.
Variable fuel : nat.
Notation validate := (validate OR).
Notation rule_based := (rule_based OR db ban fuel).
Notation rb_solve := (rb_solve OR db ban fuel).
Notation certain := (certain OR db ban fuel).

(* the rule-based stage on one row *)
Definition rb_row (r : row) : row :=
  match rb_solve r with Some s => set_rxn r s | None => rb_water OR r end.

Definition ids_from (i : nat) (rows : list row) : Prop :=
  forall j r, nth_error rows j = Some r -> rid r = i + j.

Lemma ids_from_tail i r t : ids_from i (r :: t) -> rid r = i /\ ids_from (S i) t.
Proof.
  intros H. split.
  - specialize (H 0 r eq_refl). lia.
  - intros j x Hx. specialize (H (S j) x Hx). lia.
Qed.
Lemma upd_nth_app {A} (f : A -> A) (acc : list A) x t :
  upd_nth (length acc) f (acc ++ x :: t) = acc ++ f x :: t.
Proof. induction acc as [|a acc IH]; simpl; auto. now rewrite IH. Qed.
Lemma set_rxn_twice r a b : set_rxn (set_rxn r a) b = set_rxn r b.
Proof. destruct r; reflexivity. Qed.

Lemma write_back_suffix suf : forall acc,
  ids_from (length acc) suf ->
  write_back (acc ++ map (rb_water OR) suf) (certain suf) = acc ++ map rb_row suf.
Proof.
  unfold write_back.
  induction suf as [|r t IH]; intros acc H; [reflexivity|].
  destruct (ids_from_tail _ _ _ H) as [Hr Ht].
  cbn [map]. unfold Pipeline.certain. cbn [flat_map]. fold (certain t).
  rewrite fold_left_app.
  assert (E : fold_left (fun rs c => upd_nth (fst c) (fun r0 => set_rxn r0 (snd c)) rs)
                (match rb_solve r with Some s => [(rid r, s)] | None => [] end)
                (acc ++ rb_water OR r :: map (rb_water OR) t)
              = (acc ++ [rb_row r]) ++ map (rb_water OR) t).
  { unfold rb_row. destruct (rb_solve r) as [s|]; cbn [fold_left fst snd].
    - rewrite Hr, upd_nth_app. unfold rb_water. destruct (rb_classify OR r) as [[[rx p] v] d].
      rewrite set_rxn_twice. now rewrite <- app_assoc.
    - now rewrite <- app_assoc. }
  rewrite E. rewrite IH.
  - now rewrite <- app_assoc.
  - rewrite app_length. simpl. replace (length acc + 1) with (S (length acc)) by lia. exact Ht.
Qed.

Theorem rule_based_is_map rows : ids_from 0 rows -> rule_based rows = map rb_row rows.
Proof. intros H. unfold Pipeline.rule_based. apply (write_back_suffix rows []). exact H. Qed.

(* ids are positions throughout *)
Lemma ids_from_number l : forall i, ids_from i (number i l).
Proof.
  induction l as [|s t IH]; intros i j r H; [destruct j; discriminate|].
  destruct j; simpl in H.
  - inversion H; subst. simpl. lia.
  - specialize (IH (S i) j r H). lia.
Qed.
Lemma ids_from_map (f : row -> row) i rows :
  (forall r, rid (f r) = rid r) -> ids_from i rows -> ids_from i (map f rows).
Proof.
  intros Hf H j r Hr. rewrite nth_error_map in Hr.
  destruct (nth_error rows j) as [x|] eqn:E; [|discriminate]. inversion Hr; subst.
  rewrite Hf. eauto.
Qed.

Lemma rid_validate m cc ov msg r : rid (validate m cc ov msg r) = rid r.
Proof. now destruct (validate_fields OR m cc ov msg r) as [_ [E _]]. Qed.
Lemma rid_rb_row r : rid (rb_row r) = rid r.
Proof.
  unfold rb_row. destruct (rb_solve r); [destruct r; reflexivity|].
  unfold rb_water. destruct (rb_classify OR r) as [[[rx p] v] d]. destruct r; reflexivity.
Qed.
Lemma rid_mcs_find r : rid (mcs_find OR r) = rid r.
Proof. unfold mcs_find. destruct (solved r); auto. destruct (mcs_state OR (rxn r)). destruct r; reflexivity. Qed.
Lemma rid_mcs_impute r : rid (mcs_impute OR r) = rid r.
Proof. unfold mcs_impute. destruct (mcs r) as [[|]|]; auto. destruct (impute OR (rxn r)); destruct r; reflexivity. Qed.
Lemma rid_post_process r : rid (post_process OR r) = rid r.
Proof.
  unfold post_process. destruct (sby r) as [m|]; auto. destruct (String.eqb m M_INPUT); auto.
  destruct (pp OR (rxn r)) as [c|]; [|reflexivity]. destruct r; reflexivity.
Qed.

(* the whole pipeline before the confidence stage, on one row *)
Definition G6 (r : row) : row :=
  validate M_MCS true false None (mcs_impute OR (mcs_find OR
     (validate M_RB false true None (rb_row (validate M_INPUT true false None r))))).
Definition F (r : row) : row :=
  validate M_MCS true true (Some FINAL_MSG) (restore OR (G6 r) (rb_row (post_process OR (G6 r)))).

Lemma map2_map {A B C D} (f : B -> C -> D) (g : A -> B) (h : A -> C) l : map2 f (map g l) (map h l) = map (fun x => f (g x) (h x)) l.
Proof. induction l as [|x t IH]; simpl; congruence. Qed.

Theorem stages_are_a_map l :
  fst (stages_before_conf OR db ban fuel (number 0 l)) = map F (number 0 l).
Proof.
  unfold stages_before_conf. cbn [fst].
  set (r1 := map (validate M_INPUT true false None) (number 0 l)).
  assert (I1 : ids_from 0 r1) by (apply ids_from_map; [intros; apply rid_validate | apply ids_from_number]).
  rewrite (rule_based_is_map r1 I1).
  set (r7 := map (post_process OR) _).
  assert (I7 : ids_from 0 r7).
  { unfold r7. repeat (apply ids_from_map; [intros; first [apply rid_validate | apply rid_post_process | apply rid_mcs_impute | apply rid_mcs_find | apply rid_rb_row]|]).
    apply ids_from_number. }
  rewrite (rule_based_is_map r7 I7). unfold r7, r1. rewrite !map_map.
  change (map (fun x => validate M_MCS true false None (mcs_impute OR (mcs_find OR (validate M_RB false true None (rb_row (validate M_INPUT true false None x)))))) (number 0 l))
    with (map G6 (number 0 l)).
  rewrite (map2_map (restore OR) G6 (fun x => rb_row (post_process OR (G6 x)))), map_map. reflexivity.
Qed.

(* ---------------------------------------------------------------- rows do not see their id *)
Definition set_rid (r : row) (j : nat) : row :=
  mkRow j (rxn r) (rinput r) (solved r) (sby r) (issue r) (carbon r) (mcs r) (rules r) (conf r).
Definition fresh (i : nat) (s : string) : row := mkRow i s s false None None CBalanced None None None.

Ltac ifs := repeat match goal with |- context [if ?c then _ else _] => destruct c end.
Lemma validate_set_rid m cc ov msg r j :
  validate m cc ov msg (set_rid r j) = set_rid (validate m cc ov msg r) j.
Proof.
  unfold Pipeline.validate. destruct r as [i x inp s byy iss ca mc ru co].
  destruct cc, s, ov; cbn -[compare_dicts carbon_of verdict_eqb String.eqb];
  rewrite ?andb_false_r, ?andb_true_r; cbn -[compare_dicts carbon_of verdict_eqb String.eqb];
  try (destruct (verdict_eqb _ _ && is_cbal _); cbn -[String.eqb]);
  try (destruct msg as [mm|]; cbn -[String.eqb]); try (destruct iss as [ii|]; cbn -[String.eqb]);
  try (destruct (String.eqb ii "")); reflexivity.
Qed.
Lemma rb_classify_set_rid r j : rb_classify OR (set_rid r j) = rb_classify OR r.
Proof. destruct r; reflexivity. Qed.
Lemma rb_row_set_rid r j : rb_row (set_rid r j) = set_rid (rb_row r) j.
Proof.
  unfold rb_row, Pipeline.rb_solve, rb_water. rewrite rb_classify_set_rid.
  destruct (rb_classify OR r) as [[[rx p] v] d].
  replace (carbon (set_rid r j)) with (carbon r) by (destruct r; reflexivity).
  replace (rxn (set_rid r j)) with (rxn r) by (destruct r; reflexivity).
  destruct (is_cbal (carbon r) && is_rp v); [|destruct r; reflexivity].
  destruct (single_impute _ _ _ _ _ _) as [[[a b]|]|]; try (destruct r; reflexivity).
  destruct (constraint_fit ban a b) as [[? ?]|]; destruct r; reflexivity.
Qed.
Lemma mcs_find_set_rid r j : mcs_find OR (set_rid r j) = set_rid (mcs_find OR r) j.
Proof. unfold mcs_find. destruct r as [i x inp s byy iss ca mc ru co]; simpl. destruct s; auto. destruct (mcs_state OR x); reflexivity. Qed.
Lemma mcs_impute_set_rid r j : mcs_impute OR (set_rid r j) = set_rid (mcs_impute OR r) j.
Proof. unfold mcs_impute. destruct r as [i x inp s byy iss ca mc ru co]; simpl. destruct mc as [[|]|]; auto. destruct (impute OR x); reflexivity. Qed.
Lemma post_process_set_rid r j : post_process OR (set_rid r j) = set_rid (post_process OR r) j.
Proof.
  unfold post_process. destruct r as [i x inp s byy iss ca mc ru co]; simpl. destruct byy as [m|]; auto.
  destruct (String.eqb m M_INPUT); auto. destruct (pp OR x); reflexivity.
Qed.
Lemma G6_set_rid r j : G6 (set_rid r j) = set_rid (G6 r) j.
Proof. unfold G6. now rewrite validate_set_rid, rb_row_set_rid, validate_set_rid, mcs_find_set_rid, mcs_impute_set_rid, validate_set_rid. Qed.
Lemma restore_set_rid a b j : restore OR (set_rid a j) (set_rid b j) = set_rid (restore OR a b) j.
Proof.
  unfold restore, pp_fires. destruct a as [i x inp s byy iss ca mc ru co], b as [i' x' inp' s' byy' iss' ca' mc' ru' co']; simpl.
  destruct (_ && _); reflexivity.
Qed.
Theorem F_set_rid r j : F (set_rid r j) = set_rid (F r) j.
Proof. unfold F. now rewrite G6_set_rid, post_process_set_rid, rb_row_set_rid, restore_set_rid, validate_set_rid. Qed.
Lemma conf_one_set_rid t tmsg r j :
  conf_one OR t tmsg (set_rid r j) =
  match conf_one OR t tmsg r with Done x => Done (set_rid x j) | Raised w => Raised w end.
Proof.
  unfold conf_one. destruct r as [i x inp s byy iss ca mc ru co]; unfold is_mcs_row; simpl.
  destruct (match byy with Some m => String.eqb m M_MCS | None => false end); auto.
  destruct (confidence OR inp x >=? t)%Z; auto. destruct iss as [[|]|]; auto.
Qed.

(* the result of one reaction processed alone *)
Definition alone (t : Z) (tmsg : string) (s : string) : outcome row := conf_one OR t tmsg (F (fresh 0 s)).

Theorem row_local t tmsg l : forall i rows,
  all_done (map (conf_one OR t tmsg) (map F (number i l))) = Done rows ->
  Forall2 (fun s r => exists r1, alone t tmsg s = Done r1 /\ r = set_rid r1 (rid r)) l rows.
Proof.
  induction l as [|s tl IH]; intros i rows H; simpl in H.
  - inversion H. constructor.
  - destruct (conf_one OR t tmsg (F (mkRow i s s false None None CBalanced None None None))) as [y|w] eqn:E; [|discriminate].
    destruct (all_done _) as [ys|w] eqn:E2; [|discriminate]. inversion H; subst. constructor; [|eapply IH; eauto].
    change (mkRow i s s false None None CBalanced None None None) with (set_rid (fresh 0 s) i) in E.
    rewrite F_set_rid, conf_one_set_rid in E. unfold alone.
    destruct (conf_one OR t tmsg (F (fresh 0 s))) as [x|]; [|discriminate]. inversion E; subst.
    exists x. split; [reflexivity|]. destruct x; reflexivity.
Qed.

(* the rows of a completed run, one by one: the result of each (stripped, parsable) input alone *)
Theorem run_rows_are_alone_results t tmsg ins rows st :
  run OR db ban fuel t tmsg ins = Done (rows, st) ->
  Forall2 (fun s r => exists r1, alone t tmsg s = Done r1 /\ r = set_rid r1 (rid r))
          (filter (parse_ok OR) (map (strip OR) ins)) rows.
Proof.
  intros H. unfold run in H. destruct (preprocess OR ins) as [rows0|w] eqn:PP; [|discriminate].
  unfold preprocess in PP. destruct (negb _); [discriminate|].
  destruct (filter (parse_ok OR) (map (strip OR) ins)) as [|s0 l0] eqn:E; [discriminate|].
  assert (R0 : rows0 = number 0 (s0 :: l0)) by congruence. subst rows0. clear PP.
  pose proof (stages_are_a_map (s0 :: l0)) as SM.
  destruct (stages_before_conf OR db ban fuel (number 0 (s0 :: l0))) as [r9 st0]. cbn [fst] in SM. subst r9.
  destruct (all_done _) as [r10|w] eqn:AD; [|discriminate]. inversion H; subst.
  eapply row_local; eauto.
Qed.

End R.
