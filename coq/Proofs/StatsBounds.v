(* C18, the two lower bounds: no solved count falls below the number of rows finally attributed to that
   method.  Per row: a row labelled rule-based had a completion accepted by the constraint (it is counted in
   rb_solved); a row labelled mcs-based had a successful imputation (counted in mcs_solved).  Both use the
   oracle fact H2 of Proofs/Declined.v (inserted water alone never balances a reaction). *)
From Coq Require Import String ZArith List Bool Arith Lia.
From SynRBL Require Import Base.Dict Base.Strs Base.ListX Model.Comp Model.Matcher Model.Constraint Model.Pipeline
  Proofs.PipelineProofs Proofs.RowLocal Proofs.Balanced Proofs.RunLevel Proofs.Declined Proofs.StatsAdd.
Import ListNotations.
Open Scope string_scope.

Section B.
Variable OR : oracles.
Variable db : list rule.
Variable ban : list string.
Variable fuel : nat.
Hypothesis water_never_balances : forall r, bal OR (rxn (rb_water OR r)) = true -> rxn (rb_water OR r) = rxn r.
Notation F := (F OR db ban fuel).
Notation G1 := (G1 OR).
Notation G4 := (G4 OR db ban fuel).

Definition is_m (m : string) (r : row) : bool := match sby r with Some x => String.eqb x m | None => false end.

Lemma is_rb_validate_mcs cc ov msg r : methods_ok r -> is_rb_row (validate OR M_MCS cc ov msg r) = is_rb_row r.
Proof.
  intros [M1 M2]. pose proof (validate_fields OR M_MCS cc ov msg r) as V.
  destruct V as [_ [_ [_ [_ [_ [F1 [F2 F3]]]]]]]. unfold is_rb_row.
  destruct (solved r) eqn:S.
  - destruct (F1 eq_refl) as [_ [E _]]. now rewrite E.
  - rewrite (M2 eq_refl). destruct (solved (validate OR M_MCS cc ov msg r)) eqn:S2.
    + destruct (F2 eq_refl eq_refl) as [E _]. rewrite E. reflexivity.
    + rewrite (F3 eq_refl), (M2 eq_refl). reflexivity.
Qed.

(* a row that ends up rule-based was solved by the validation right after the first rule-based run ... *)
Lemma rb_label_origin s : is_m M_RB (F (fresh 0 s)) = true -> q_sol OR db ban fuel (G1 (fresh 0 s)) = true.
Proof.
  intros L. set (r0 := fresh 0 s) in *. set (x1 := validate OR M_INPUT true false None r0).
  set (x2 := rb_row OR db ban fuel x1). set (x3 := validate OR M_RB false true None x2).
  (* the label can only have been written by the M_RB validation *)
  assert (M1 : methods_ok x1) by (apply methods_validate; [auto|split; simpl; [discriminate|reflexivity]]).
  assert (M2 : methods_ok x2) by now apply methods_rb_row.
  assert (M3 : methods_ok x3) by (apply methods_validate; auto).
  assert (E : is_m M_RB (F r0) = is_m M_RB x3).
  { unfold is_m. unfold RowLocal.F, RowLocal.G6. fold r0 x1 x2 x3.
    set (x4 := mcs_find OR x3). set (x5 := mcs_impute OR x4). set (x6 := validate OR M_MCS true false None x5).
    assert (M4 : methods_ok x4) by now apply methods_mcs_find.
    assert (M5 : methods_ok x5) by now apply methods_mcs_impute.
    assert (M6 : methods_ok x6) by (apply methods_validate; auto).
    assert (M8 : methods_ok (restore OR x6 (rb_row OR db ban fuel (post_process OR x6)))) by (apply methods_restore, methods_rb_row, methods_post_process; exact M6).
    change (is_rb_row (validate OR M_MCS true true (Some FINAL_MSG) (restore OR x6 (rb_row OR db ban fuel (post_process OR x6)))) = is_rb_row x3).
    rewrite (is_rb_validate_mcs true true (Some FINAL_MSG) _ M8).
    assert (N : forall a b, is_rb_row (restore OR a b) = is_rb_row b).
    { intros a b. assert (Q : forall y, is_rb_row y = is_rb_row (norxn y)) by (intros y; destruct y; reflexivity). rewrite (Q (restore OR a b)), restore_norxn, <- Q. reflexivity. }
    assert (R : forall y, is_rb_row (rb_row OR db ban fuel y) = is_rb_row y).
    { intros y. assert (Q : forall z, is_rb_row z = is_rb_row (norxn z)) by (intros z; destruct z; reflexivity). rewrite (Q (rb_row OR db ban fuel y)), rb_row_norxn, <- Q. reflexivity. }
    rewrite N, R. unfold is_rb_row at 1. rewrite sby_post_process. fold (is_rb_row x6). unfold x6. rewrite (is_rb_validate_mcs true false None _ M5).
    unfold is_rb_row, x5, x4. now rewrite sby_mcs_impute, sby_mcs_find. }
  rewrite E in L. clear E.
  (* x1 cannot carry the label; so x3 was newly solved by the M_RB validation *)
  assert (S2 : solved x2 = false).
  { destruct (solved x2) eqn:S; auto. exfalso.
    destruct (rb_row_fields OR db ban fuel x1) as [B1 [_ [B3 _]]]. fold x2 in B1, B3.
    assert (S1 : solved x1 = true) by congruence.
    (* solved at x1 means input-balanced *)
    pose proof (V_solved_keeps OR M_RB false true None x2 S) as [_ _].
    destruct (validate_fields OR M_RB false true None x2) as [_ [_ [_ [_ [_ [H _]]]]]]. destruct (H S) as [_ [Y _]]. fold x3 in Y.
    destruct (validate_fields OR M_INPUT true false None r0) as [_ [_ [_ [_ [_ [_ [H1 _]]]]]]]. fold x1 in H1.
    destruct (H1 S1 eq_refl) as [Y1 _]. unfold is_m in L. rewrite Y, B3, Y1 in L. discriminate. }
  pose proof (V1 OR M_RB false true None x2 S2) as E3. fold x3 in E3. simpl in E3.
  assert (S3 : solved x3 = true).
  { destruct (solved x3) eqn:S; auto. exfalso. destruct (V_unsolved OR _ _ _ _ _ S) as [_ [_ [Y _]]]. fold x3 in Y.
    destruct (rb_row_fields OR db ban fuel x1) as [B1 [_ [B3 _]]]. fold x2 in B1, B3.
    assert (S1 : solved x1 = false) by congruence. destruct (V_unsolved OR _ _ _ _ _ S1) as [_ [_ [Y1 _]]]. fold x1 in Y1. simpl in Y1.
    unfold is_m in L. rewrite Y, B3, Y1 in L. discriminate. }
  rewrite S3 in E3. symmetry in E3. apply andb_prop in E3 as [B2 C2].
  (* the rule-based run produced that balanced reaction: not by the water step alone *)
  unfold q_sol, StatsAdd.G1. fold r0 x1.
  destruct (rb_row_unsolved_cases OR db ban fuel x1) as [[y [E _]]|[EN RW]]; [now rewrite E|exfalso].
  fold x2 in RW. rewrite RW in B2. pose proof (water_never_balances x1 B2) as W.
  destruct (rb_row_fields OR db ban fuel x1) as [B1 [_ [_ [_ [B5 _]]]]]. fold x2 in B1, B5.
  assert (S1 : solved x1 = false) by congruence.
  pose proof (V1 OR M_INPUT true false None r0 eq_refl) as E1. fold x1 in E1. rewrite S1 in E1. simpl in E1.
  destruct (V_unsolved OR _ _ _ _ _ S1) as [_ [_ [_ [_ [K1 [R1 _]]]]]]. fold x1 in K1, R1. simpl in K1, R1.
  rewrite W, R1 in B2. rewrite B5, K1 in C2. rewrite B2, C2 in E1. discriminate.
Qed.

(* ... and a row that ends up mcs-based had a successful imputation *)
Lemma early_F s : early (F (fresh 0 s)) =
  early (validate OR M_RB false true None (rb_row OR db ban fuel (validate OR M_INPUT true false None (fresh 0 s)))).
Proof.
  set (r0 := fresh 0 s). set (x1 := validate OR M_INPUT true false None r0).
  set (x2 := rb_row OR db ban fuel x1). set (x3 := validate OR M_RB false true None x2).
  assert (M1 : methods_ok x1) by (apply methods_validate; [auto|split; simpl; [discriminate|reflexivity]]).
  assert (M2 : methods_ok x2) by now apply methods_rb_row.
  assert (M3 : methods_ok x3) by (apply methods_validate; auto).
  unfold RowLocal.F, RowLocal.G6. fold r0 x1 x2 x3.
  set (x4 := mcs_find OR x3). set (x5 := mcs_impute OR x4). set (x6 := validate OR M_MCS true false None x5).
  assert (M4 : methods_ok x4) by now apply methods_mcs_find.
  assert (M5 : methods_ok x5) by now apply methods_mcs_impute.
  assert (M6 : methods_ok x6) by (apply methods_validate; auto).
  assert (M8 : methods_ok (restore OR x6 (rb_row OR db ban fuel (post_process OR x6)))) by (apply methods_restore, methods_rb_row, methods_post_process; exact M6).
  rewrite (early_validate_mcs OR true true (Some FINAL_MSG) _ M8).
  assert (Q : forall y, early y = early (norxn y)) by (intros y; destruct y; reflexivity).
  rewrite (Q (restore OR _ _)), restore_norxn, <- Q. rewrite (Q (rb_row OR db ban fuel _)), rb_row_norxn, <- Q.
  unfold early at 1, is_input_row, is_rb_row. rewrite sby_post_process. fold (is_input_row x6) (is_rb_row x6) (early x6).
  unfold x6. rewrite (early_validate_mcs OR true false None _ M5).
  unfold early, is_input_row, is_rb_row, x5, x4. now rewrite sby_mcs_impute, sby_mcs_find.
Qed.

Lemma mcs_label_origin s : is_m M_MCS (F (fresh 0 s)) = true -> mcs_solved_one OR (G4 (fresh 0 s)) = true.
Proof.
  intros L. set (r0 := fresh 0 s) in *. set (x1 := validate OR M_INPUT true false None r0).
  set (x2 := rb_row OR db ban fuel x1). set (x3 := validate OR M_RB false true None x2).
  assert (P3 : pre_mcs x3).
  { apply pre_mcs_validate; auto. apply pre_mcs_norxn. unfold x2. rewrite rb_row_norxn. apply pre_mcs_norxn.
    apply pre_mcs_validate; auto. repeat split; simpl; auto; discriminate. }
  (* the final label is neither input-balanced nor rule-based: the row was unsolved before the search *)
  assert (EF : early (F r0) = false).
  { unfold early, is_input_row, is_rb_row. unfold is_m in L. destruct (sby (F r0)) as [m|]; [|discriminate].
    apply String.eqb_eq in L. subst m. reflexivity. }
  unfold r0 in EF. rewrite (early_F s) in EF. fold r0 in EF. fold x1 in EF. fold x2 in EF. fold x3 in EF.
  assert (S3 : solved x3 = false).
  { destruct (solved x3) eqn:S; auto. destruct P3 as [P _]. rewrite (P S) in EF. discriminate. }
  (* it is solved at the end *)
  assert (SF : solved (F r0) = true).
  { destruct (solved (F r0)) eqn:S; auto. exfalso.
    assert (MF : methods_ok (F r0)).
    { pose proof (stages_methods OR db ban fuel (number 0 [s]) (number_methods [s] 0)) as SM.
      rewrite (stages_are_a_map OR db ban fuel [s]) in SM. simpl in SM. inversion SM; subst. assumption. }
    destruct MF as [_ MU]. unfold is_m in L. rewrite (MU S) in L. discriminate. }
  (* hence the imputation extended the reaction *)
  unfold StatsAdd.G4, StatsAdd.G1. fold r0 x1 x2 x3. set (x4 := mcs_find OR x3).
  unfold mcs_solved_one. destruct (mcs x4) as [[|]|] eqn:M4.
  - destruct (impute OR (rxn x4)) as [m ru|msg] eqn:IM; auto. exfalso.
    assert (E5 : rxn (mcs_impute OR x4) = rxn x4) by (unfold mcs_impute; rewrite M4, IM; apply rxn_set_issue).
    pose proof (late_unsolved OR db ban fuel water_never_balances 0 s S3 E5) as U. unfold Declined.r0 in U. fold r0 in U. congruence.
  - exfalso. assert (E5 : rxn (mcs_impute OR x4) = rxn x4) by (unfold mcs_impute; now rewrite M4).
    pose proof (late_unsolved OR db ban fuel water_never_balances 0 s S3 E5) as U. unfold Declined.r0 in U. fold r0 in U. congruence.
  - exfalso. assert (E5 : rxn (mcs_impute OR x4) = rxn x4) by (unfold mcs_impute; now rewrite M4).
    pose proof (late_unsolved OR db ban fuel water_never_balances 0 s S3 E5) as U. unfold Declined.r0 in U. fold r0 in U. congruence.
Qed.

(* ---- on runs: the counters bound the number of rows finally attributed to the method *)
Lemma count_le_pointwise {A} (f g : A -> bool) l : (forall x, f x = true -> g x = true) -> count_if f l <= count_if g l.
Proof. intros H. unfold count_if. induction l as [|x t IH]; simpl; auto. destruct (f x) eqn:E; [rewrite (H x E); simpl; lia|destruct (g x); simpl; lia]. Qed.
Lemma count_Forall2 {A B} (f : A -> bool) (g : B -> bool) l m : Forall2 (fun a b => g b = f a) l m -> count_if g m = count_if f l.
Proof. unfold count_if. induction 1; simpl; auto. rewrite H. destruct (f x); simpl; now rewrite IHForall2. Qed.

Theorem run_solved_counts_bound_attributed t tmsg ins rows st : run OR db ban fuel t tmsg ins = Done (rows, st) ->
  count_if (is_m M_RB) rows <= rb_solved st /\ count_if (is_m M_MCS) rows <= mcs_solved st.
Proof.
  intros H. rewrite (run_stats_are_a_function OR db ban fuel t tmsg ins rows st H). unfold stats_fun. cbn [rb_solved mcs_solved].
  pose proof (run_rows_are_alone_results OR db ban fuel t tmsg ins rows st H) as A.
  assert (L : forall m, Forall2 (fun s r => is_m m r = is_m m (F (fresh 0 s))) (kept_inputs OR ins) rows).
  { intros m. eapply Forall2_impl; [|exact A]. intros s r [r1 [A1 E]]. cbv beta.
    destruct (alone_fields OR db ban fuel t tmsg s r1 A1) as [_ [_ [X3 _]]].
    destruct (set_rid_fields r1 (rid r)) as [_ [_ [Y3 _]]]. rewrite <- E in Y3. unfold is_m. now rewrite Y3, X3. }
  split.
  - rewrite (count_Forall2 _ _ _ _ (L M_RB)). apply count_le_pointwise. intros s. apply rb_label_origin.
  - rewrite (count_Forall2 _ _ _ _ (L M_MCS)). apply count_le_pointwise. intros s. apply mcs_label_origin.
Qed.
End B.
