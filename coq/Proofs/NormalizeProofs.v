(* C17: the benchmark's normal form is independent of molecule order and idempotent. *)
From Coq Require Import String Ascii List Bool Arith NArith ZArith Lia Permutation Sorting.Sorted.
From SynRBL Require Import Base.Strs Model.Normalize Proofs.StrProofs.
Import ListNotations.
Open Scope string_scope.

(* ---------------------------------------------------------------- the order on strings *)
Lemma ascii_compare_lt a b c : Ascii.compare a b = Lt -> Ascii.compare b c <> Gt -> Ascii.compare a c = Lt.
Proof.
  unfold Ascii.compare. rewrite !N.compare_lt_iff. intros H1 H2. destruct (N.compare_spec (N_of_ascii b) (N_of_ascii c)); try lia. contradiction.
Qed.
Lemma ascii_compare_eq_lt a b c : Ascii.compare a b = Eq -> Ascii.compare b c = Lt -> Ascii.compare a c = Lt.
Proof. intros H1 H2. apply Ascii.compare_eq_iff in H1. now subst. Qed.

Lemma sleb_trans x : forall y z, String.leb x y = true -> String.leb y z = true -> String.leb x z = true.
Proof.
  unfold String.leb. induction x as [|a x IH]; intros y z H1 H2.
  - destruct z; reflexivity.
  - destruct y as [|b y]; [discriminate|]. destruct z as [|c z]; [simpl in H2; discriminate|].
    simpl in *. destruct (Ascii.compare a b) eqn:E1.
    + apply Ascii.compare_eq_iff in E1. subst b. destruct (Ascii.compare a c) eqn:E2; auto. now apply IH with y.
    + destruct (Ascii.compare b c) eqn:E2; try discriminate.
      * apply Ascii.compare_eq_iff in E2. subst c. now rewrite E1.
      * rewrite (ascii_compare_lt a b c E1); auto. congruence.
    + discriminate.
Qed.

Definition kgeP (x y : string) : Prop := kge x y = true.
Lemma kge_total x y : kge x y = true \/ kge y x = true.
Proof.
  unfold kge. rewrite (Nat.compare_antisym (count_atoms x)), (N.compare_antisym (sum_ord x)).
  destruct (Nat.compare (count_atoms x) (count_atoms y)); simpl; auto.
  destruct (N.compare (sum_ord x) (sum_ord y)); simpl; auto.
  destruct (String.leb_total x y); auto.
Qed.
Lemma kge_antisym x y : kge x y = true -> kge y x = true -> x = y.
Proof.
  unfold kge. rewrite (Nat.compare_antisym (count_atoms x)), (N.compare_antisym (sum_ord x)).
  destruct (Nat.compare (count_atoms x) (count_atoms y)); simpl; try discriminate.
  destruct (N.compare (sum_ord x) (sum_ord y)); simpl; try discriminate.
  intros H1 H2. now apply String.leb_antisym.
Qed.
Lemma kge_trans x y z : kge x y = true -> kge y z = true -> kge x z = true.
Proof.
  unfold kge.
  destruct (Nat.compare_spec (count_atoms x) (count_atoms y)) as [E1|E1|E1]; try discriminate;
  destruct (Nat.compare_spec (count_atoms y) (count_atoms z)) as [E2|E2|E2]; try discriminate;
  destruct (Nat.compare_spec (count_atoms x) (count_atoms z)) as [E3|E3|E3]; try lia; auto.
  destruct (N.compare_spec (sum_ord x) (sum_ord y)) as [F1|F1|F1]; try discriminate;
  destruct (N.compare_spec (sum_ord y) (sum_ord z)) as [F2|F2|F2]; try discriminate;
  destruct (N.compare_spec (sum_ord x) (sum_ord z)) as [F3|F3|F3]; try lia; auto.
  intros H1 H2. eapply sleb_trans; eauto.
Qed.

(* ---------------------------------------------------------------- sorting *)
Section SortProofs.
Context {A : Type} (ge : A -> A -> bool).
Hypothesis ge_total : forall x y, ge x y = true \/ ge y x = true.
Hypothesis ge_antisym : forall x y, ge x y = true -> ge y x = true -> x = y.
Hypothesis ge_trans : forall x y z, ge x y = true -> ge y z = true -> ge x z = true.
Notation R := (fun a b => ge a b = true).

Lemma insertg_perm x l : Permutation (x :: l) (insertg ge x l).
Proof.
  induction l as [|y t IH]; simpl; auto. destruct (ge y x); auto.
  eapply perm_trans; [apply perm_swap|]. now apply perm_skip.
Qed.
Lemma fold_insertg_perm l : forall acc, Permutation (l ++ acc) (fold_left (fun acc x => insertg ge x acc) l acc).
Proof.
  induction l as [|x t IH]; intros acc; simpl; auto.
  eapply perm_trans; [|apply IH]. eapply perm_trans; [apply Permutation_middle|].
  apply Permutation_app_head. apply insertg_perm.
Qed.
Lemma sortg_perm l : Permutation l (sortg ge l).
Proof. unfold sortg. rewrite <- (app_nil_r l) at 1. apply fold_insertg_perm. Qed.

Lemma insertg_sorted x l : StronglySorted R l -> StronglySorted R (insertg ge x l).
Proof.
  induction 1 as [|y t S IH F]; simpl; [repeat constructor|].
  destruct (ge y x) eqn:E.
  - constructor; auto. eapply Permutation_Forall; [apply insertg_perm|]. constructor; auto.
  - assert (G : ge x y = true) by (destruct (ge_total x y); congruence).
    constructor; [constructor; auto|]. constructor; auto.
    rewrite Forall_forall in *. intros z Iz. eapply ge_trans; eauto.
Qed.
Lemma fold_insertg_sorted l : forall acc, StronglySorted R acc -> StronglySorted R (fold_left (fun acc x => insertg ge x acc) l acc).
Proof. induction l as [|x t IH]; intros acc S; simpl; auto. apply IH. now apply insertg_sorted. Qed.
Lemma sortg_sorted l : StronglySorted R (sortg ge l).
Proof. apply fold_insertg_sorted. constructor. Qed.

Lemma sorted_unique l : forall l', StronglySorted R l -> StronglySorted R l' -> Permutation l l' -> l = l'.
Proof.
  induction l as [|a t IH]; intros l' S S' P.
  - apply Permutation_nil in P. now subst.
  - destruct l' as [|b t']; [apply Permutation_sym, Permutation_nil in P; discriminate|].
    inversion S as [|? ? St Ft]; inversion S' as [|? ? St' Ft']; subst.
    assert (E : a = b).
    { assert (Ia : In a (b :: t')) by (eapply Permutation_in; [exact P|left; reflexivity]).
      assert (Ib : In b (a :: t)) by (eapply Permutation_in; [apply Permutation_sym; exact P|left; reflexivity]).
      destruct Ia as [->|Ia]; auto. destruct Ib as [->|Ib]; auto.
      rewrite Forall_forall in Ft, Ft'. apply ge_antisym; auto. }
    subst b. f_equal. apply IH; auto. eapply Permutation_cons_inv; eauto.
Qed.

Theorem sortg_perm_invariant l l' : Permutation l l' -> sortg ge l = sortg ge l'.
Proof.
  intros P. apply sorted_unique; auto using sortg_sorted.
  eapply perm_trans; [apply Permutation_sym, sortg_perm|]. eapply perm_trans; [exact P|apply sortg_perm].
Qed.
Theorem sortg_sorted_id l : StronglySorted R l -> sortg ge l = l.
Proof. intros S. apply sorted_unique; auto using sortg_sorted. apply Permutation_sym, sortg_perm. Qed.
Theorem sortg_idempotent l : sortg ge (sortg ge l) = sortg ge l.
Proof. apply sortg_sorted_id, sortg_sorted. Qed.
End SortProofs.

Definition ksort := sortg kge.
Lemma ksort_perm_invariant l l' : Permutation l l' -> ksort l = ksort l'.
Proof. apply sortg_perm_invariant; first [apply kge_total|apply kge_antisym|apply kge_trans]. Qed.
Lemma ksort_idempotent l : ksort (ksort l) = ksort l.
Proof. apply sortg_idempotent; first [apply kge_total|apply kge_antisym|apply kge_trans]. Qed.

(* ---------------------------------------------------------------- normalize *)
Lemma tailstr_same l : Normalize.tailstr l = StrProofs.tailstr l.
Proof. induction l as [|c t IH]; [reflexivity|]. simpl. rewrite IH. reflexivity. Qed.
Lemma dotjoin_dj l : dotjoin l = dj l.
Proof. destruct l; simpl; [reflexivity|]. rewrite tailstr_same. reflexivity. Qed.

Section Norm.
Variable ntok : string -> string.

(* molecule order within a side is irrelevant; so is any re-spelling that the leaf normalisation maps
   to the same strings (the oracle's contract for equivalent SMILES) *)
Theorem normalize_side_perm a b :
  Permutation (map ntok (comps a)) (map ntok (comps b)) -> normalize_side ntok a = normalize_side ntok b.
Proof. intros P. unfold normalize_side. fold ksort. now rewrite (ksort_perm_invariant _ _ P). Qed.
Corollary normalize_side_reorder a b : Permutation (comps a) (comps b) -> normalize_side ntok a = normalize_side ntok b.
Proof. intros P. apply normalize_side_perm. now apply Permutation_map. Qed.

(* idempotence, given the leaf normalisation is idempotent and returns a single molecule *)
Hypothesis ntok_idem : forall t, ntok (ntok t) = ntok t.
Hypothesis ntok_dotfree : forall t, dotfree (ntok t) = true.

Lemma comps_normalize_side s : comps (normalize_side ntok s) = ksort (map ntok (comps s)).
Proof.
  unfold normalize_side. fold ksort. rewrite dotjoin_dj.
  assert (D : Forall (fun c => dotfree c = true) (ksort (map ntok (comps s)))).
  { eapply Permutation_Forall; [apply sortg_perm|]. rewrite Forall_forall. intros x Ix. apply in_map_iff in Ix as [t [<- _]]. apply ntok_dotfree. }
  destruct (ksort (map ntok (comps s))) as [|c0 rest] eqn:E.
  - exfalso. assert (P : Permutation (map ntok (comps s)) []) by (rewrite <- E; apply sortg_perm).
    apply Permutation_sym, Permutation_nil in P. destruct (comps s) eqn:C; [now apply comps_nonnil in C|discriminate].
  - inversion D; subst. simpl. now apply comps_tailstr.
Qed.
Theorem normalize_side_idempotent s : normalize_side ntok (normalize_side ntok s) = normalize_side ntok s.
Proof.
  unfold normalize_side at 1. rewrite comps_normalize_side. fold ksort.
  assert (M : map ntok (ksort (map ntok (comps s))) = ksort (map ntok (comps s))).
  { assert (F : Forall (fun x => ntok x = x) (ksort (map ntok (comps s)))).
    { eapply Permutation_Forall; [apply sortg_perm|]. rewrite Forall_forall. intros x Ix. apply in_map_iff in Ix as [t [<- _]]. apply ntok_idem. }
    induction F; simpl; congruence. }
  rewrite M, ksort_idempotent. reflexivity.
Qed.

(* reactions: one ">>", sides without '>' *)
Hypothesis ntok_nogt : forall t, nogt (ntok t) = true.
Lemma normalize_reaction a b : nogt a = true -> nogt b = true ->
  normalize ntok (a ++ ">>" ++ b) = normalize_side ntok a ++ ">>" ++ normalize_side ntok b.
Proof. intros Na Nb. unfold normalize. rewrite split_sides; auto. Qed.
Lemma nogt_normalize_side s : nogt (normalize_side ntok s) = true.
Proof.
  pose proof (dj_comps (normalize_side ntok s)) as J. rewrite comps_normalize_side in J. rewrite <- J.
  assert (F : Forall (fun c => nogt c = true) (ksort (map ntok (comps s)))).
  { eapply Permutation_Forall; [apply sortg_perm|]. rewrite Forall_forall. intros x Ix. apply in_map_iff in Ix as [t [<- _]]. apply ntok_nogt. }
  destruct (ksort (map ntok (comps s))) as [|c0 rest]; [reflexivity|]. inversion F; subst. simpl.
  unfold nogt in *. rewrite nochar_app. rewrite H1. simpl.
  clear - H2. induction H2 as [|c t Hc Ht IH]; simpl; auto. rewrite nochar_app, Hc, IH. reflexivity.
Qed.
Theorem normalize_idempotent a b : nogt a = true -> nogt b = true ->
  normalize ntok (normalize ntok (a ++ ">>" ++ b)) = normalize ntok (a ++ ">>" ++ b).
Proof.
  intros Na Nb. rewrite (normalize_reaction a b Na Nb).
  rewrite normalize_reaction; auto using nogt_normalize_side. now rewrite !normalize_side_idempotent.
Qed.
Theorem normalize_order_independent a b a' b' : nogt a = true -> nogt b = true -> nogt a' = true -> nogt b' = true ->
  Permutation (map ntok (comps a)) (map ntok (comps a')) -> Permutation (map ntok (comps b)) (map ntok (comps b')) ->
  normalize ntok (a ++ ">>" ++ b) = normalize ntok (a' ++ ">>" ++ b').
Proof.
  intros. rewrite !normalize_reaction; auto. now rewrite (normalize_side_perm a a'), (normalize_side_perm b b').
Qed.

(* ---- similarity *)
Variable fp : string -> string -> Z.
Variable ONE : Z.
Hypothesis fp_sym : forall x y, fp x y = fp y x.
Hypothesis fp_range : forall x y, (0 <= fp x y <= ONE)%Z.

Lemma diff_pairs_swap l1 l2 : map (fun p => (snd p, fst p)) (diff_pairs l1 l2) = diff_pairs l2 l1.
Proof.
  unfold diff_pairs. revert l2. induction l1 as [|x t IH]; intros [|y u]; simpl; auto.
  rewrite (String.eqb_sym y x). destruct (String.eqb x y); simpl; now rewrite IH.
Qed.
Lemma diff_fp_sym s1 s2 : diff_fp ntok fp s1 s2 = diff_fp ntok fp s2 s1.
Proof.
  unfold diff_fp. rewrite <- (diff_pairs_swap (comps (normalize ntok s2))). rewrite !map_map. simpl. apply fp_sym.
Qed.
Theorem wc_similarity_symmetric e r : wc_similarity ntok fp ONE e r = wc_similarity ntok fp ONE r e.
Proof.
  unfold wc_similarity. rewrite (String.eqb_sym (normalize ntok r)).
  destruct (String.eqb (normalize ntok e) (normalize ntok r)); auto.
  destruct (split ">>" (normalize ntok e)) as [|ee [|ep [|? ?]]]; destruct (split ">>" (normalize ntok r)) as [|re [|rp [|? ?]]]; auto.
  now rewrite (diff_fp_sym ee re), (diff_fp_sym ep rp).
Qed.
Theorem wc_similarity_range e r v : wc_similarity ntok fp ONE e r = Some v -> (0 <= v <= ONE)%Z.
Proof.
  unfold wc_similarity. destruct (String.eqb _ _).
  - intros [= <-]. pose proof (fp_range "" ""). lia.
  - destruct (split ">>" (normalize ntok e)) as [|ee [|ep [|? ?]]]; destruct (split ">>" (normalize ntok r)) as [|re [|rp [|? ?]]]; try discriminate.
    intros [= <-]. unfold diff_fp.
    match goal with |- (0 <= Z.min (fp ?a ?b) (fp ?c ?d) <= ONE)%Z => pose proof (fp_range a b); pose proof (fp_range c d) end. lia.
Qed.
Theorem wc_similarity_one e r : normalize ntok e = normalize ntok r -> wc_similarity ntok fp ONE e r = Some ONE.
Proof. intros H. unfold wc_similarity. rewrite H, String.eqb_refl. reflexivity. Qed.
End Norm.
