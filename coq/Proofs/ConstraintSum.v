(* C08, third mechanism: the redox rewrite of RuleConstraint (atomic hydrogen / oxygen / peroxide completions turned into
   [O], [H].[H] and water) keeps the imbalance.  For every product side whose markers that follow a dot are whole components
   and whose first component is not a marker and not empty (in the pipeline completions are appended after the given, non-empty
   side), and for every composition oracle cmp that gives the four special components their true compositions:
       composition(products') - composition(reactants') = composition(products) - composition(reactants)
   in every element and in charge.  This is the statement the pinned code violated for two or more peroxides (fixed in /repo). *)
From Coq Require Import String Ascii ZArith List Bool Arith Lia.
From SynRBL Require Import Base.Strs Proofs.StrProofs Model.Constraint Proofs.Whole.
Import ListNotations.
Open Scope string_scope.

(* ---- counting ".m" in a side whose components are m itself or do not begin with m *)
Section Count.
Variable m : string.
Hypothesis m_dotfree : dotfree m = true.
Let sub := String dot m.

Lemma count_go_dotfree c : dotfree c = true -> forall s, count_go sub 0 (c ++ s) = count_go sub 0 s.
Proof.
  unfold dotfree. induction c as [|a c IH]; intros D s; simpl; auto.
  simpl in D. apply andb_prop in D as [D1 D2]. apply negb_true_iff in D1. rewrite D1. simpl. now rewrite IH.
Qed.
Lemma count_go_skip x : forall s, count_go sub (String.length x) (x ++ s) = count_go sub 0 s.
Proof. induction x as [|a x IH]; intros s; simpl; auto. Qed.
Lemma count_go_marker s : count_go sub 0 (String dot (m ++ s)) = S (count_go sub 0 s).
Proof.
  cbn [count_go sub prefixb]. rewrite Ascii.eqb_refl, prefixb_self_app. cbn [andb].
  replace (String.length sub - 1) with (String.length m) by (unfold sub; cbn [String.length]; lia).
  f_equal. apply count_go_skip.
Qed.
Lemma count_go_other c s : dotfree c = true -> prefixb m c = false -> dot_or_end s ->
  count_go sub 0 (String dot (c ++ s)) = count_go sub 0 s.
Proof.
  intros D P E. cbn [count_go sub prefixb]. rewrite Ascii.eqb_refl, (prefixb_component m m_dotfree c s P E). cbn [andb].
  now rewrite count_go_dotfree.
Qed.
Lemma count_tailstr rest : Forall (okc m) rest -> count_go sub 0 (tailstr rest) = count_eq m rest.
Proof.
  induction rest as [|c rest IH]; intros H; [reflexivity|]. cbn [tailstr count_eq].
  inversion H as [|c' rest' [D Q] Hr]. clear H. destruct Q as [E|P].
  - rewrite E, String.eqb_refl. rewrite count_go_marker, (IH Hr). reflexivity.
  - assert (K : String.eqb m c = false).
    { destruct (String.eqb_spec m c) as [<-|]; auto. rewrite <- (app_nil_r_s m) in P at 2. now rewrite prefixb_self_app in P. }
    rewrite K. cbn [Nat.add]. rewrite <- (IH Hr). apply count_go_other; auto. apply tailstr_dot_or_end.
Qed.
Theorem count_marker c0 rest : dotfree c0 = true -> Forall (okc m) rest -> count sub (c0 ++ tailstr rest) = count_eq m rest.
Proof. intros D H. unfold count. rewrite count_go_dotfree; auto. now apply count_tailstr. Qed.
End Count.

Section Sum.
Variable cmp : string -> string -> Z.     (* composition oracle: component -> element (or "Q") -> count *)
Open Scope Z_scope.
Definition lcomp (l : list string) (k : string) : Z := fold_right (fun c a => cmp c k + a) 0 l.
Definition scomp (s : string) (k : string) : Z := lcomp (comps s) k.
Definition imbalance (r p : string) (k : string) : Z := scomp p k - scomp r k.
Hypothesis cmp_H : forall k, cmp "[H]" k = if String.eqb k "H" then 1 else 0.
Hypothesis cmp_O : forall k, cmp "[O]" k = if String.eqb k "O" then 1 else 0.
Hypothesis cmp_W : forall k, cmp "O" k = if String.eqb k "H" then 2 else if String.eqb k "O" then 1 else 0.
Hypothesis cmp_P : forall k, cmp "OO" k = if String.eqb k "H" then 2 else if String.eqb k "O" then 2 else 0.

(* the product sides the statement is about *)
Definition std_parts (g0 : string) (rest : list string) : Prop :=
  dotfree g0 = true /\ g0 <> "" /\ ~ In g0 markers /\ forall m, In m markers -> Forall (okc m) rest.
Definition std (p : string) : Prop := exists g0 rest, p = g0 ++ tailstr rest /\ std_parts g0 rest.

Lemma lcomp_app a b k : lcomp (a ++ b) k = lcomp a k + lcomp b k.
Proof. induction a as [|x a IH]; simpl; [lia|]. rewrite IH. lia. Qed.
Lemma lcomp_repeat x n k : lcomp (repeat x n) k = Z.of_nat n * cmp x k.
Proof. induction n as [|n IH]; [simpl; lia|]. cbn [repeat lcomp fold_right]. fold (lcomp (repeat x n) k). rewrite IH. lia. Qed.
Lemma lcomp_filter m l k : lcomp (filter (keepc m) l) k = lcomp l k - Z.of_nat (count_eq m l) * cmp m k.
Proof.
  induction l as [|c l IH]; [simpl; lia|]. cbn [filter count_eq]. unfold keepc at 1.
  rewrite (String.eqb_sym c m). destruct (String.eqb_spec m c) as [<-|N]; cbn [negb].
  - rewrite IH. cbn [lcomp fold_right]. fold (lcomp l k). lia.
  - cbn [lcomp fold_right]. fold (lcomp l k) (lcomp (filter (keepc m) l) k). rewrite IH. lia.
Qed.
Lemma okc_dotfree m rest : Forall (okc m) rest -> Forall (fun c => dotfree c = true) rest.
Proof. induction 1 as [|c l [D _] _ IH]; constructor; auto. Qed.
Lemma scomp_app_tail b l k : Forall (fun c => dotfree c = true) l -> scomp (b ++ tailstr l) k = scomp b k + lcomp l k.
Proof. intros D. unfold scomp. rewrite (comps_app_tailstr b l D). apply lcomp_app. Qed.
Lemma scomp_parts g0 rest k : dotfree g0 = true -> Forall (fun c => dotfree c = true) rest ->
  scomp (g0 ++ tailstr rest) k = cmp g0 k + lcomp rest k.
Proof. intros D0 D. unfold scomp. rewrite (comps_tailstr g0 rest D0 D). reflexivity. Qed.

Lemma even_double n : Nat.even n = true -> n = (2 * Nat.div2 n)%nat.
Proof.
  intros E. pose proof (Nat.div2_odd n) as H. rewrite <- Nat.negb_even, E in H. simpl in H. lia.
Qed.
Lemma repeat_str_HH n : repeat_str ".[H].[H]" n = tailstr (repeat "[H]" (2 * n)).
Proof.
  induction n as [|n IH]; [reflexivity|]. replace (2 * S n)%nat with (S (S (2 * n))) by lia.
  cbn [repeat_str repeat tailstr]. rewrite IH. reflexivity.
Qed.
Lemma okc_water m : In m markers -> okc m "O".
Proof. intros [<-|[<-|[<-|[]]]]; split; auto; right; reflexivity. Qed.
Lemma Forall_repeat' {A} (P : A -> Prop) x n : P x -> Forall P (repeat x n).
Proof. intros H. induction n; simpl; auto. Qed.
Lemma dotfree_marker m : In m markers -> dotfree m = true.
Proof. intros [<-|[<-|[<-|[]]]]; reflexivity. Qed.
Lemma count_eq_first m g0 rest : ~ In g0 markers -> In m markers -> count_eq m (g0 :: rest) = count_eq m rest.
Proof. intros N I. cbn [count_eq]. destruct (String.eqb_spec m g0) as [<-|]; [contradiction|reflexivity]. Qed.

(* one rewrite: remove every ".m", add `a` copies of x to the reactants and `b` waters to the products *)
Lemma rewrite_step m x a b r g0 rest k : In m markers -> dotfree x = true -> std_parts g0 rest ->
  let p := g0 ++ tailstr rest in
  let p1 := replace (String dot m) "" p in
  let rest' := (filter (keepc m) rest ++ repeat "O" b)%list in
  p1 ++ repeat_str ".O" b = g0 ++ tailstr rest' /\ p1 <> "" /\ std_parts g0 rest' /\
  imbalance (r ++ tailstr (repeat x a)) (p1 ++ repeat_str ".O" b) k =
    imbalance r p k - Z.of_nat (count_eq m rest) * cmp m k + Z.of_nat b * cmp "O" k - Z.of_nat a * cmp x k.
Proof.
  intros Im Dx [D0 [NE [NM OK]]]. cbv zeta.
  pose proof (OK m Im) as OKm. pose proof (okc_dotfree m rest OKm) as Dr.
  rewrite (replace_marker m (dotfree_marker m Im) g0 rest D0 OKm).
  assert (E : (g0 ++ tailstr (filter (keepc m) rest)) ++ repeat_str ".O" b = g0 ++ tailstr (filter (keepc m) rest ++ repeat "O" b)).
  { change ".O" with (String dot "O"). rewrite repeat_str_tailstr, tailstr_app, app_assoc_s. reflexivity. }
  assert (Df : Forall (fun c => dotfree c = true) (filter (keepc m) rest ++ repeat "O" b)).
  { apply Forall_app. split; [now apply Forall_filter|apply Forall_repeat'; reflexivity]. }
  split; [exact E|]. split.
  { intros Z. destruct g0; [contradiction|discriminate]. }
  split.
  { repeat split; auto. intros m' Im'. apply Forall_app. split; [apply Forall_filter; auto|apply Forall_repeat'; now apply okc_water]. }
  unfold imbalance. rewrite E, (scomp_parts g0 _ k D0 Df), (scomp_parts g0 rest k D0 Dr), lcomp_app, lcomp_filter, lcomp_repeat.
  rewrite (scomp_app_tail r (repeat x a) k), lcomp_repeat.
  - lia.
  - now apply Forall_repeat'.
Qed.

Lemma element_cases (k : string) (P : Prop) : (k = "H" -> P) -> (k = "O" -> P) -> (k <> "H" -> k <> "O" -> P) -> P.
Proof. intros A B C. destruct (String.eqb_spec k "H"); auto. destruct (String.eqb_spec k "O"); auto. Qed.

Theorem modify_h_keeps_imbalance r p : std p -> let '(r', p') := modify_h r p in std p' /\ forall k, imbalance r' p' k = imbalance r p k.
Proof.
  intros S. unfold modify_h. destruct (contains ".[H]" p); [|split; auto].
  destruct (existsb _ _); [split; auto|]. destruct (Nat.even _) eqn:EV; [|split; auto].
  destruct S as [g0 [rest [-> SP]]]. pose proof SP as [D0 [NE [NM OK]]].
  assert (IH : In "[H]" markers) by (simpl; auto).
  pose proof (okc_dotfree _ _ (OK _ IH)) as Dr.
  rewrite (comps_tailstr g0 rest D0 Dr), (count_eq_first "[H]" g0 rest NM IH) in EV.
  change ".[H]" with (String dot "[H]"). rewrite (count_marker "[H]" eq_refl g0 rest D0 (OK _ IH)).
  set (n := count_eq "[H]" rest) in *. set (hc := Nat.div2 n).
  change ".[O]" with (String dot "[O]"). rewrite repeat_str_tailstr.
  pose proof (fun k => rewrite_step "[H]" "[O]" hc hc r g0 rest k IH eq_refl SP) as RS. cbv zeta in RS.
  destruct (RS "H") as [E [NE1 [SP' _]]].
  rewrite (after_nonempty _ _ _ _ NE1). split; [rewrite E; exists g0; eexists; split; [reflexivity|exact SP']|].
  intros k. destruct (RS k) as [_ [_ [_ Q]]]. rewrite Q. fold n. rewrite cmp_H, cmp_W, cmp_O.
  pose proof (even_double n EV) as DB. fold hc in DB.
  apply (element_cases k); [intros ->|intros ->|intros N1 N2]; simpl.
  - lia.
  - lia.
  - destruct (String.eqb_spec k "H"); [contradiction|]. destruct (String.eqb_spec k "O"); [contradiction|]. lia.
Qed.

Theorem modify_o_keeps_imbalance r p : std p -> let '(r', p') := modify_o r p in forall k, imbalance r' p' k = imbalance r p k.
Proof.
  intros S. unfold modify_o. destruct S as [g0 [rest [-> SP]]]. pose proof SP as [D0 [NE [NM OK]]].
  assert (IO : In "[O]" markers) by (simpl; auto). assert (IP : In "OO" markers) by (simpl; auto).
  destruct (contains ".[O]" _).
  - destruct (Nat.even _); [auto|].
    change ".[O]" with (String dot "[O]"). rewrite (count_marker "[O]" eq_refl g0 rest D0 (OK _ IO)).
    set (n := count_eq "[O]" rest). rewrite repeat_str_HH.
    pose proof (fun k => rewrite_step "[O]" "[H]" (2 * n) n r g0 rest k IO eq_refl SP) as RS. cbv zeta in RS.
    destruct (RS "H") as [_ [NE1 _]]. rewrite (after_nonempty _ _ _ _ NE1).
    intros k. destruct (RS k) as [_ [_ [_ Q]]]. rewrite Q. fold n. rewrite cmp_H, cmp_W, cmp_O.
    apply (element_cases k); [intros ->|intros ->|intros N1 N2]; simpl.
    + lia.
    + lia.
    + destruct (String.eqb_spec k "H"); [contradiction|]. destruct (String.eqb_spec k "O"); [contradiction|]. lia.
  - destruct (contains ".OO" _); [|auto].
    change ".OO" with (String dot "OO"). rewrite (count_marker "OO" eq_refl g0 rest D0 (OK _ IP)).
    set (n := count_eq "OO" rest). rewrite repeat_str_HH.
    pose proof (fun k => rewrite_step "OO" "[H]" (2 * n) (2 * n) r g0 rest k IP eq_refl SP) as RS. cbv zeta in RS.
    destruct (RS "H") as [_ [NE1 _]].
    destruct (String.eqb_spec (replace (String dot "OO") "" (g0 ++ tailstr rest)) ""); [contradiction|].
    intros k. destruct (RS k) as [_ [_ [_ Q]]]. rewrite Q. fold n. rewrite cmp_H, cmp_W, cmp_P.
    apply (element_cases k); [intros ->|intros ->|intros N1 N2]; simpl.
    + lia.
    + lia.
    + destruct (String.eqb_spec k "H"); [contradiction|]. destruct (String.eqb_spec k "O"); [contradiction|]. lia.
Qed.

Theorem modify_keeps_imbalance r p r' p' : std p -> modify r p = (r', p') -> forall k, imbalance r' p' k = imbalance r p k.
Proof.
  intros S H k. unfold modify in H. pose proof (modify_h_keeps_imbalance r p S) as A.
  destruct (modify_h r p) as [r1 p1]. destruct A as [S1 A].
  pose proof (modify_o_keeps_imbalance r1 p1 S1) as B. rewrite H in B. rewrite B. apply A.
Qed.
Corollary constraint_fit_keeps_imbalance ban r p r' p' : std p -> constraint_fit ban r p = Some (r', p') ->
  forall k, imbalance r' p' k = imbalance r p k.
Proof.
  intros S H. unfold constraint_fit in H. destruct (modify r p) as [r1 p1] eqn:M. destruct (accepts ban r1 p1); [|discriminate].
  inversion H; subst. eapply modify_keeps_imbalance; eauto.
Qed.
End Sum.
