(* C15: what remove_atom_mapping does to a string, exactly; no map number survives. *)
From Coq Require Import String Ascii List Bool Arith Lia.
From SynRBL Require Import Base.Strs Model.Aam Proofs.StrProofs.
Import ListNotations.
Open Scope string_scope.
Arguments Ascii.eqb : simpl never.
Arguments is_digit : simpl never.

Definition hd_digit (s : string) : bool := match s with String d _ => is_digit d | EmptyString => false end.

(* ---------------------------------------------------------------- pass 1 *)
Lemma ncd_cons c t : no_colon_digit (String c t) = negb (Ascii.eqb c ":" && hd_digit t) && no_colon_digit t.
Proof. destruct t; reflexivity. Qed.

Lemma pass1_inv s : forall b,
  no_colon_digit (strip_colon_digits_go b s) = true /\
  (b = true -> hd_digit (strip_colon_digits_go b s) = false) /\
  (b = false -> hd_digit (strip_colon_digits_go b s) = true -> hd_digit s = true).
Proof.
  induction s as [|c t IH]; intros b; [simpl; repeat split; auto; discriminate|].
  cbn [strip_colon_digits_go].
  destruct (b && is_digit c) eqn:E1.
  - destruct (IH true) as [A [B _]]. apply andb_prop in E1 as [-> E1]. repeat split; auto; discriminate.
  - destruct (Ascii.eqb_spec c ":") as [->|NE].
    + destruct t as [|d t'].
      * repeat split; auto.
      * destruct (is_digit d) eqn:E3.
        -- destruct (IH true) as [A [B _]]. repeat split; auto. intros _ H. rewrite (B eq_refl) in H. discriminate.
        -- destruct (IH false) as [A [_ C]].
           assert (H0 : hd_digit (strip_colon_digits_go false (String d t')) = false).
           { pose proof (C eq_refl) as C'. destruct (hd_digit (strip_colon_digits_go false (String d t'))); auto. specialize (C' eq_refl). simpl in C'. congruence. }
           rewrite ncd_cons, A, H0. repeat split; auto.
    + destruct (IH false) as [A [_ C]]. rewrite ncd_cons, A.
      assert (H : Ascii.eqb c ":" = false) by (now apply Ascii.eqb_neq). rewrite H. repeat split; auto.
      intros ->. simpl in E1. exact E1.
Qed.
Theorem pass1_no_colon_digit s : no_colon_digit (strip_colon_digits s) = true.
Proof. apply (pass1_inv s false). Qed.

(* ---------------------------------------------------------------- pass 2: the equations *)
Lemma pass2_go_skip x : forall r, pass2_go (String.length x) (x ++ r) = pass2_go 0 r.
Proof. induction x as [|a x IH]; intros r; simpl; auto. Qed.
Lemma close_spec t w : close t = Some w -> has_char rbr w = false /\ exists r, t = w ++ String rbr r.
Proof.
  revert w. induction t as [|c t IH]; intros w H; simpl in H; [discriminate|].
  destruct (Ascii.eqb c rbr) eqn:E.
  - inversion H; subst. apply Ascii.eqb_eq in E. subst c. split; [reflexivity|exists t; reflexivity].
  - destruct (close t) as [w'|]; [|discriminate]. inversion H; subst. destruct (IH w' eq_refl) as [A [r B]].
    split; [simpl; rewrite Ascii.eqb_sym, E; exact A|exists r; simpl; now rewrite B].
Qed.
Lemma close_app w r : has_char rbr w = false -> close (w ++ String rbr r) = Some w.
Proof.
  induction w as [|c w IH]; simpl; intros H.
  - reflexivity.
  - apply orb_false_iff in H as [H1 H2]. rewrite Ascii.eqb_sym, H1, (IH H2). reflexivity.
Qed.

Lemma pass2_other c t : Ascii.eqb c lbr = false -> pass2 (String c t) = String c (pass2 t).
Proof. intros H. unfold pass2. cbn [pass2_go]. now rewrite H. Qed.
Lemma pass2_copy w : has_char lbr w = false -> forall r, pass2 (w ++ r) = w ++ pass2 r.
Proof.
  induction w as [|c w IH]; simpl; intros H r; auto. apply orb_false_iff in H as [H1 H2].
  rewrite pass2_other; [|now rewrite Ascii.eqb_sym]. now rewrite IH.
Qed.
(* a bracket group "[w]" (w up to the first ']') *)
Theorem pass2_bracket w r : has_char rbr w = false ->
  pass2 (String lbr (w ++ String rbr r)) =
  if negb (has_char lbr w) && organic12 (strip_h w) then strip_h w ++ pass2 r
  else String lbr (pass2 (w ++ String rbr r)).
Proof.
  intros H. unfold pass2. cbn [pass2_go]. rewrite Ascii.eqb_refl, (close_app w r H).
  destruct (negb (has_char lbr w) && organic12 (strip_h w)); auto.
  f_equal. replace (S (String.length w)) with (String.length (w ++ String rbr "")).
  - replace (w ++ String rbr r) with ((w ++ String rbr "") ++ r) by (rewrite app_assoc_s; reflexivity). apply pass2_go_skip.
  - clear. induction w; simpl; auto.
Qed.
(* ... that is not one or two organic-subset symbols with an optional H count is returned verbatim *)
Corollary pass2_bracket_kept w r : has_char rbr w = false -> has_char lbr w = false -> organic12 (strip_h w) = false ->
  pass2 (String lbr (w ++ String rbr r)) = String lbr (w ++ String rbr (pass2 r)).
Proof.
  intros H1 H2 H3. rewrite pass2_bracket; auto. rewrite H3, andb_false_r. f_equal.
  rewrite pass2_copy by auto. rewrite pass2_other by reflexivity. reflexivity.
Qed.

(* ---------------------------------------------------------------- pass 2 keeps "no colon-digit" *)
Definition letter_ok (c : ascii) : bool := one_letter c || Ascii.eqb c "l" || Ascii.eqb c "r".
Fixpoint all_chars (f : ascii -> bool) (s : string) : bool :=
  match s with EmptyString => true | String c t => f c && all_chars f t end.
Lemma count_syms_letters : forall n u, String.length u <= n -> forall k, count_syms u = Some k -> all_chars letter_ok u = true.
Proof.
  induction n as [|n IH]; intros u L k H.
  - destruct u; [reflexivity|simpl in L; lia].
  - destruct u as [|c t]; [reflexivity|]. cbn [count_syms] in H. destruct t as [|d t'].
    + destruct (one_letter c) eqn:E; [|discriminate]. simpl. unfold letter_ok. now rewrite E.
    + destruct ((Ascii.eqb c "C" && Ascii.eqb d "l") || (Ascii.eqb c "B" && Ascii.eqb d "r")) eqn:E.
      * destruct (count_syms t') as [k'|] eqn:E2; [|discriminate]. simpl in L.
        assert (A : all_chars letter_ok t' = true) by (apply (IH t' ltac:(lia) k' E2)).
        cbn [all_chars]. rewrite A.
        apply orb_prop in E as [E|E]; apply andb_prop in E as [Ea Eb]; apply Ascii.eqb_eq in Ea, Eb; subst; reflexivity.
      * destruct (one_letter c) eqn:E1; [|discriminate].
        destruct (count_syms (String d t')) as [k'|] eqn:E2; [|discriminate]. simpl in L.
        assert (A : all_chars letter_ok (String d t') = true) by (apply (IH (String d t') ltac:(simpl; lia) k' E2)).
        cbn [all_chars] in *. rewrite A. unfold letter_ok at 1. now rewrite E1.
Qed.
Lemma organic12_letters u : organic12 u = true -> u <> "" /\ all_chars letter_ok u = true.
Proof.
  unfold organic12. destruct (count_syms u) as [k|] eqn:E; [|discriminate]. intros H. split.
  - intros ->. simpl in E. inversion E; subst. discriminate.
  - eapply count_syms_letters; eauto.
Qed.
Lemma letter_not_colon_digit c : letter_ok c = true -> Ascii.eqb c ":" = false /\ is_digit c = false.
Proof.
  unfold letter_ok, one_letter. simpl. intros H.
  repeat (apply orb_prop in H as [H|H]); try discriminate; apply Ascii.eqb_eq in H; subst; split; reflexivity.
Qed.
Lemma ncd_letters_app u x : all_chars letter_ok u = true -> u <> "" ->
  no_colon_digit (u ++ x) = no_colon_digit x /\ hd_digit (u ++ x) = false.
Proof.
  induction u as [|c u IH]; intros A N; [contradiction|]. cbn [all_chars] in A. apply andb_prop in A as [A1 A2].
  destruct (letter_not_colon_digit c A1) as [C1 C2]. split; [|simpl; exact C2].
  change (String c u ++ x) with (String c (u ++ x)). rewrite ncd_cons, C1. simpl.
  destruct u as [|d u']; [reflexivity|]. now apply IH.
Qed.
Lemma ncd_suffix x y : no_colon_digit (x ++ y) = true -> no_colon_digit y = true.
Proof.
  induction x as [|c x IH]; cbn [append]; auto.
  intros H. rewrite ncd_cons in H. apply andb_prop in H as [_ H]. auto.
Qed.

Lemma pass2_inv : forall n s, String.length s <= n -> no_colon_digit s = true ->
  no_colon_digit (pass2 s) = true /\ (hd_digit (pass2 s) = true -> hd_digit s = true).
Proof.
  induction n as [|n IH]; intros s L H.
  - destruct s; [split; auto|simpl in L; lia].
  - destruct s as [|c t]; [split; auto|]. simpl in L.
    assert (L' : String.length t <= n) by lia.
    rewrite ncd_cons in H. apply andb_prop in H as [H1 H2].
    destruct (IH t L' H2) as [A B].
    assert (Keep : no_colon_digit (String c (pass2 t)) = true /\ (hd_digit (String c (pass2 t)) = true -> hd_digit (String c t) = true)).
    { split; [|auto]. rewrite ncd_cons, A, andb_true_r. destruct (Ascii.eqb c ":"); auto. simpl in *.
      destruct (hd_digit (pass2 t)) eqn:E; auto. rewrite (B eq_refl) in H1. discriminate. }
    destruct (Ascii.eqb c lbr) eqn:E; [|rewrite pass2_other; auto].
    apply Ascii.eqb_eq in E. subst c. change (pass2 (String lbr t)) with (pass2_go 0 (String lbr t)). cbn [pass2_go]. rewrite Ascii.eqb_refl.
    destruct (close t) as [w|] eqn:C; [|exact Keep].
    destruct (negb (has_char lbr w) && organic12 (strip_h w)) eqn:G; [|exact Keep].
    destruct (close_spec t w C) as [W [r ->]]. apply andb_prop in G as [_ G].
    destruct (organic12_letters _ G) as [N1 N2].
    replace (S (String.length w)) with (String.length (w ++ String rbr "")) by (clear; induction w; simpl; auto).
    replace (w ++ String rbr r) with ((w ++ String rbr "") ++ r) by (rewrite app_assoc_s; reflexivity).
    rewrite pass2_go_skip. fold (pass2 r).
    assert (Lr : String.length r <= n).
    { clear - L'. revert L'. induction w; simpl in *; intros; lia. }
    assert (Hr : no_colon_digit r = true).
    { apply (ncd_suffix ((w ++ String rbr "")) r). rewrite app_assoc_s. exact H2. }
    destruct (IH r Lr Hr) as [A' _]. destruct (ncd_letters_app (strip_h w) (pass2 r) N2 N1) as [X1 X2].
    rewrite X1, X2. split; auto; discriminate.
Qed.
Theorem pass2_no_colon_digit s : no_colon_digit s = true -> no_colon_digit (pass2 s) = true.
Proof. intros H. apply (pass2_inv (String.length s) s (le_n _) H). Qed.

Theorem no_map_survives s : no_colon_digit (remove_atom_mapping s) = true.
Proof. unfold remove_atom_mapping. apply pass2_no_colon_digit, pass1_no_colon_digit. Qed.
