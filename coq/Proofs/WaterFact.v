(* The oracle fact H2 of C03 / C18 ("the water molecules inserted by the both-side shortcut never balance a reaction by themselves")
   DERIVED from two more primitive facts about the composition oracle, both of which are C07 theorems for the real decompose:
     (A) every composition dictionary is well-formed (unique keys, no zero entry, positive element counts);
     (B) appending n water molecules to a side adds n x {H:2, O:1} to its composition (additivity over the components of a mixture).
   No assumption on the shape of the reaction string is needed: where the ">>" separators sit decides only which side receives the
   appended text, and in every case a reaction the comparator called "Both" cannot become "Balance". *)
From Coq Require Import String Ascii ZArith List Bool Arith Lia.
From SynRBL Require Import Base.Dict Base.Strs Model.Comp Model.Pipeline Proofs.StrProofs Proofs.CompProofs Proofs.Balanced.
Import ListNotations.
Open Scope string_scope.

(* ---- str.split(">>") of a string extended by text without '>' : only the last piece grows *)
Fixpoint app_last (l : list string) (x : string) : list string :=
  match l with [] => [] | [a] => [a ++ x] | a :: t => a :: app_last t x end.
Lemma split_go_nonnil sep : forall s skip cur, split_go sep skip cur s <> [].
Proof.
  induction s as [|c t IH]; intros skip cur; simpl; [discriminate|].
  destruct skip; [destruct (prefixb sep (String c t)); [discriminate|apply IH]|apply IH].
Qed.
Lemma app_last_cons a l x : l <> [] -> app_last (a :: l) x = a :: app_last l x.
Proof. destruct l; [contradiction|reflexivity]. Qed.
Lemma prefixb_gg_app c t add : nogt add = true -> prefixb ">>" (String c (t ++ add)) = prefixb ">>" (String c t).
Proof.
  intros N. cbn [prefixb]. destruct (Ascii.eqb ">" c); [|reflexivity]. cbn [andb].
  destruct t as [|d t']; cbn [append prefixb].
  - destruct add as [|e add']; [reflexivity|]. unfold nogt in N. cbn [nochar] in N. apply andb_prop in N as [N1 _].
    apply negb_true_iff in N1. unfold gt in N1.
    cbn [prefixb]. destruct (Ascii.eqb ">"%char e); [discriminate N1|reflexivity].
  - reflexivity.
Qed.
Lemma split_go_app_tail add : nogt add = true ->
  forall s skip cur, skip <= String.length s -> split_go ">>" skip cur (s ++ add) = app_last (split_go ">>" skip cur s) add.
Proof.
  intros N. induction s as [|c t IH]; intros skip cur L.
  - simpl in L. assert (skip = 0) by lia. subst. cbn [append split_go app_last]. now rewrite (split_go_end add N cur).
  - cbn [append]. destruct skip as [|k].
    + cbn [split_go]. rewrite (prefixb_gg_app c t add N). destruct (prefixb ">>" (String c t)) eqn:P.
      * assert (T : 1 <= String.length t).
        { cbn [prefixb] in P. destruct (Ascii.eqb ">" c); [|discriminate]. destruct t; [discriminate|simpl; lia]. }
        cbn [String.length Nat.sub]. rewrite (IH 1 "" T). symmetry. apply app_last_cons. apply split_go_nonnil.
      * apply IH. lia.
    + cbn [split_go]. apply IH. simpl in L. lia.
Qed.
Lemma split_app_tail s add : nogt add = true -> split ">>" (s ++ add) = app_last (split ">>" s) add.
Proof. intros N. unfold split. apply split_go_app_tail; auto. lia. Qed.

Lemma nogt_repeat_water n : nogt (repeat_str ".O" n) = true.
Proof. induction n as [|n IH]; [reflexivity|]. cbn [repeat_str]. unfold nogt in *. now rewrite nochar_app, IH. Qed.

(* the three shapes: no separator, exactly one, two or more *)
Lemma sides_after_append x add : nogt add = true ->
  (lhs (x ++ add) = lhs x ++ add /\ rhs (x ++ add) = rhs x /\ rhs x = "") \/
  (lhs (x ++ add) = lhs x /\ rhs (x ++ add) = rhs x ++ add) \/
  (lhs (x ++ add) = lhs x /\ rhs (x ++ add) = rhs x).
Proof.
  intros N. unfold lhs, rhs. rewrite (split_app_tail x add N).
  pose proof (split_go_nonnil ">>" x 0 "") as NN. fold (split ">>" x) in NN.
  destruct (split ">>" x) as [|p0 [|p1 [|p2 rest]]]; [contradiction| | |].
  - left. simpl. auto.
  - right. left. simpl. auto.
  - right. right. simpl. auto.
Qed.

Section W.
Variable OR : oracles.
Open Scope Z_scope.
Definition water (k : string) : Z := if String.eqb k "H" then 2 else if String.eqb k "O" then 1 else 0.
Hypothesis dec_ok : forall s, nodupk (decomp OR s) /\ wf (decomp OR s) /\ pos (decomp OR s).
Hypothesis water_additive : forall p n k, getd (decomp OR (p ++ repeat_str ".O" n)) k = getd (decomp OR p) k + Z.of_nat n * water k.

Lemma water_nonneg k : water k >= 0.
Proof. unfold water. destruct (String.eqb k "H"); [lia|]. destruct (String.eqb k "O"); lia. Qed.
Lemma water_q : water "Q" = 0. Proof. reflexivity. Qed.
Lemma water_o : water "O" = 1. Proof. reflexivity. Qed.

Lemma classify_both_compare r p d : classify r p = (d, Both) -> compare_dicts r p = Both.
Proof.
  unfold classify. destruct (compare_dicts r p) eqn:C; intros H; try (inversion H; fail); reflexivity.
Qed.

Theorem water_never_balances : forall r, bal OR (rxn (rb_water OR r)) = true -> rxn (rb_water OR r) = rxn r.
Proof.
  intros r. unfold rb_water, rb_classify.
  set (x := rxn r). set (dl := decomp OR (lhs x)). set (dp := decomp OR (rhs x)).
  destruct (classify dl dp) as [d v] eqn:CL.
  destruct v; try (destruct r; reflexivity).
  destruct (get d "O") as [w|] eqn:GO; [|destruct r; reflexivity].
  set (n := Z.to_nat w). set (add := repeat_str ".O" n).
  assert (RX : forall y, rxn (set_rxn r y) = y) by (intros; destruct r; reflexivity).
  assert (GOAL : bal OR (x ++ add) = true -> x ++ add = x).
  { destruct n as [|n'] eqn:En.
    - intros _. unfold add. simpl. apply app_nil_r_s.
    - intros B. exfalso.
      pose proof (classify_both_compare dl dp d CL) as CB.
      destruct (dec_ok (lhs x)) as [N1 [W1 P1]]. destruct (dec_ok (rhs x)) as [N2 [W2 P2]]. fold dl in N1, W1, P1. fold dp in N2, W2, P2.
      unfold bal in B. apply verdict_eqb_eq in B.
      assert (NA : nogt add = true) by apply nogt_repeat_water.
      destruct (sides_after_append x add NA) as [[E1 [E2 E3]]|[[E1 E2]|[E1 E2]]]; rewrite E1, E2 in B.
      + (* no separator: the water lands on the left side *)
        destruct (dec_ok (lhs x ++ add)) as [_ [W3 _]].
        apply (compare_balance_iff _ _ W3 W2) in B. fold dp in B.
        assert (LE : le_all dl dp).
        { intros k. specialize (B k). unfold add in B. rewrite water_additive in B. fold dl in B. pose proof (water_nonneg k). lia. }
        assert (QE : getd dl "Q" = getd dp "Q").
        { specialize (B "Q"). unfold add in B. rewrite water_additive, water_q in B. fold dl in B. lia. }
        pose proof (compare_spec dl dp W1 W2 P1 P2 QE) as SP. rewrite CB in SP. destruct SP as [_ NL]. contradiction.
      + (* one separator: the water lands on the right side *)
        destruct (dec_ok (rhs x ++ add)) as [_ [W3 _]].
        apply (compare_balance_iff _ _ W1 W3) in B. fold dl in B.
        assert (GE : ge_all dl dp).
        { intros k. specialize (B k). unfold add in B. rewrite water_additive in B. fold dp in B. pose proof (water_nonneg k). lia. }
        assert (QE : getd dl "Q" = getd dp "Q").
        { specialize (B "Q"). unfold add in B. rewrite water_additive, water_q in B. fold dp in B. lia. }
        pose proof (compare_spec dl dp W1 W2 P1 P2 QE) as SP. rewrite CB in SP. destruct SP as [NG _]. contradiction.
      + (* two or more separators: neither side changes *)
        fold dl dp in B. congruence. }
  assert (FIN : rxn (set_rxn r (x ++ add)) = x ++ add) by apply RX.
  destruct ((getd (del d "O") "H" - 2 * w >=? 0)%Z); rewrite RX; exact GOAL.
Qed.
End W.

(* ---- (A) and (B) are C07 theorems: for every reading `par` of a SMILES string as (atomic numbers incl. one 1 per hydrogen, net charge)
   that reads appended water molecules as appended O, H, H atoms -- RDKit's is one, validated by C07's correspondence -- the composition
   oracle built from the verified decompose satisfies both facts. *)
Section FromC07.
Variable tbl : list (Z * string).
Hypothesis sym_H : sym tbl 1 = "H".
Hypothesis sym_O : sym tbl 8 = "O".
Variable par : string -> list Z * Z.
Open Scope Z_scope.
Definition waters (n : nat) : list Z := concat (repeat [8; 1; 1] n).
Hypothesis par_water : forall p n, par (p ++ repeat_str ".O" n) = ((fst (par p) ++ waters n)%list, snd (par p)).
Hypothesis par_noq : forall s, no_q_atom tbl (fst (par s)).
Definition decomp_of (s : string) : dict := decompose tbl (fst (par s)) (snd (par s)).

Lemma facts_A s : nodupk (decomp_of s) /\ wf (decomp_of s) /\ pos (decomp_of s).
Proof. unfold decomp_of. split; [apply decompose_nodupk|split; [apply decompose_wf|apply decompose_pos]]. Qed.

Lemma waters_noq n : no_q_atom tbl (waters n).
Proof.
  induction n as [|n IH]; intros z I; [destruct I|]. unfold waters in *. cbn [repeat concat app] in I.
  destruct I as [<-|[<-|[<-|I]]]; [rewrite sym_O; discriminate|rewrite sym_H; discriminate|rewrite sym_H; discriminate|apply IH; exact I].
Qed.
Lemma cnt_cons k z l : cnt tbl k (z :: l) = (if String.eqb (sym tbl z) k then 1 else 0) + cnt tbl k l.
Proof. unfold cnt. cbn [filter]. destruct (String.eqb (sym tbl z) k); cbn [length]; lia. Qed.
Lemma cnt_waters k n : cnt tbl k (waters n) = Z.of_nat n * water k.
Proof.
  induction n as [|n IH]; [reflexivity|].
  unfold waters in *. cbn [repeat concat app]. rewrite !cnt_cons, IH, sym_O, sym_H. unfold water.
  rewrite (String.eqb_sym "O" k), (String.eqb_sym "H" k).
  destruct (String.eqb_spec k "H") as [->|N1].
  { replace (String.eqb "H" "O") with false by reflexivity. lia. }
  destruct (String.eqb_spec k "O") as [->|N2]; lia.
Qed.
Lemma facts_B p n k : getd (decomp_of (p ++ repeat_str ".O" n)) k = getd (decomp_of p) k + Z.of_nat n * water k.
Proof.
  unfold decomp_of. rewrite par_water. cbn [fst snd].
  replace (snd (par p)) with (snd (par p) + 0) at 1 by lia.
  rewrite decompose_additive; [|apply par_noq|apply waters_noq]. f_equal.
  rewrite decompose_getd. cbn [Z.eqb]. destruct (String.eqb_spec k "Q") as [->|N].
  - rewrite (cnt_q_zero tbl _ (waters_noq n)). unfold water. simpl. lia.
  - apply cnt_waters.
Qed.
End FromC07.
