(* Python str operations on Coq strings: split, join, count, replace, `in`, repetition.
   Everything is structural recursion on the scanned string (a skip counter stands for
   "jump over the match"), so the functions compute with vm_compute and are amenable to induction. *)
From Coq Require Import String Ascii List Bool Arith Lia.
Import ListNotations.
Open Scope string_scope.

Fixpoint prefixb (p s : string) : bool :=
  match p, s with
  | EmptyString, _ => true
  | String a p', String b s' => Ascii.eqb a b && prefixb p' s'
  | String _ _, EmptyString => false
  end.

Fixpoint rev_acc (s acc : string) : string :=
  match s with EmptyString => acc | String c t => rev_acc t (String c acc) end.
Definition srev (s : string) : string := rev_acc s "".

(* s.split(sep) for a non-empty sep *)
Fixpoint split_go (sep : string) (skip : nat) (cur : string) (s : string) : list string :=
  match s with
  | EmptyString => [srev cur]
  | String c t =>
    match skip with
    | S k => split_go sep k cur t
    | O => if prefixb sep s then srev cur :: split_go sep (String.length sep - 1) "" t
           else split_go sep 0 (String c cur) t
    end
  end.
Definition split (sep s : string) : list string := split_go sep 0 "" s.

(* the special case sep = "." written directly (the form the C02 lemmas reason about) *)
Definition dot : ascii := "."%char.
Fixpoint comps (s : string) : list string :=
  match s with
  | EmptyString => [""]
  | String c t =>
    if Ascii.eqb c dot then "" :: comps t
    else match comps t with h :: r => String c h :: r | [] => [String c ""] end
  end.

Fixpoint join (sep : string) (l : list string) : string :=
  match l with
  | [] => ""
  | [x] => x
  | x :: t => x ++ sep ++ join sep t
  end.

(* s.count(sub), non-overlapping, left to right; sub non-empty *)
Fixpoint count_go (sub : string) (skip : nat) (s : string) : nat :=
  match s with
  | EmptyString => 0
  | String c t =>
    match skip with
    | S k => count_go sub k t
    | O => if prefixb sub s then S (count_go sub (String.length sub - 1) t) else count_go sub 0 t
    end
  end.
Definition count (sub s : string) : nat := count_go sub 0 s.

(* s.replace(sub, new); sub non-empty *)
Fixpoint replace_go (sub new : string) (skip : nat) (s : string) : string :=
  match s with
  | EmptyString => EmptyString
  | String c t =>
    match skip with
    | S k => replace_go sub new k t
    | O => if prefixb sub s then new ++ replace_go sub new (String.length sub - 1) t
           else String c (replace_go sub new 0 t)
    end
  end.
Definition replace (sub new s : string) : string := replace_go sub new 0 s.

(* sub in s *)
Fixpoint contains (sub s : string) : bool :=
  prefixb sub s || match s with EmptyString => false | String _ t => contains sub t end.

Fixpoint repeat_str (s : string) (n : nat) : string :=
  match n with O => "" | S k => s ++ repeat_str s k end.

Fixpoint count_eq (x : string) (l : list string) : nat :=
  match l with [] => 0 | y :: t => (if String.eqb x y then 1 else 0) + count_eq x t end.
Definition mem_str (x : string) (l : list string) : bool := existsb (String.eqb x) l.

Definition is_digit (c : ascii) : bool :=
  let n := nat_of_ascii c in (48 <=? n)%nat && (n <=? 57)%nat.

(* re.sub(r":\d+", "", s): drop every colon that is followed by a digit, with the whole digit run *)
Fixpoint strip_colon_digits_go (dropping : bool) (s : string) : string :=
  match s with
  | EmptyString => EmptyString
  | String c t =>
    if dropping && is_digit c then strip_colon_digits_go true t
    else if Ascii.eqb c ":"%char then
      match t with
      | String d _ => if is_digit d then strip_colon_digits_go true t
                      else String c (strip_colon_digits_go false t)
      | EmptyString => String c EmptyString
      end
    else String c (strip_colon_digits_go false t)
  end.
Definition strip_colon_digits (s : string) : string := strip_colon_digits_go false s.

Fixpoint list_eqb {A} (eqb : A -> A -> bool) (a b : list A) : bool :=
  match a, b with
  | [], [] => true
  | x :: a', y :: b' => eqb x y && list_eqb eqb a' b'
  | _, _ => false
  end.
Definition opt_eqb {A} (eqb : A -> A -> bool) (a b : option A) : bool :=
  match a, b with Some x, Some y => eqb x y | None, None => true | _, _ => false end.
Fixpoint list_eqb2 {A B} (eqb : A -> B -> bool) (a : list A) (b : list B) : bool :=
  match a, b with
  | [], [] => true
  | x :: a', y :: b' => eqb x y && list_eqb2 eqb a' b'
  | _, _ => false
  end.
