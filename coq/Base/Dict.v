(* Association-list dictionaries with Python-dict semantics (insertion order kept,
   first binding wins on lookup; the operations below never create a second binding). *)
From Coq Require Import String ZArith List Bool Lia.
Import ListNotations.
Open Scope string_scope. Open Scope Z_scope.

Definition dict := list (string * Z).

Fixpoint get (d : dict) (k : string) : option Z :=
  match d with
  | [] => None
  | (k', v) :: t => if String.eqb k k' then Some v else get t k
  end.
Definition mem (d : dict) (k : string) : bool :=
  match get d k with Some _ => true | None => false end.
Definition getd (d : dict) (k : string) : Z :=
  match get d k with Some v => v | None => 0 end.
Definition keys (d : dict) : list string := map fst d.

Fixpoint set (d : dict) (k : string) (v : Z) : dict :=
  match d with
  | [] => [(k, v)]
  | (k', v') :: t => if String.eqb k k' then (k, v) :: t else (k', v') :: set t k v
  end.
Fixpoint del (d : dict) (k : string) : dict :=
  match d with
  | [] => []
  | (k', v') :: t => if String.eqb k k' then del t k else (k', v') :: del t k
  end.
Definition incr (d : dict) (k : string) (n : Z) : dict := set d k (getd d k + n).

(* keys are unique *)
Fixpoint nodupk (d : dict) : Prop :=
  match d with [] => True | (k, _) :: t => get t k = None /\ nodupk t end.
(* no stored zero *)
Definition wf (d : dict) : Prop := forall k v, get d k = Some v -> v <> 0.
(* every stored element count (every key but the charge key) is positive *)
Definition pos (d : dict) : Prop := forall k v, get d k = Some v -> k <> "Q" -> v > 0.

Lemma mem_get d k : mem d k = true <-> exists v, get d k = Some v.
Proof.
  unfold mem. destruct (get d k); split; intros H; eauto; try discriminate.
  destruct H as [v H]; discriminate.
Qed.
Lemma mem_false d k : mem d k = false <-> get d k = None.
Proof. unfold mem. destruct (get d k); split; intros; congruence. Qed.
Lemma getd_none d k : get d k = None -> getd d k = 0.
Proof. unfold getd; intros ->; reflexivity. Qed.
Lemma getd_some d k v : get d k = Some v -> getd d k = v.
Proof. unfold getd; intros ->; reflexivity. Qed.

Lemma get_in_keys d k v : get d k = Some v -> In k (keys d).
Proof.
  induction d as [|[k' v'] t IH]; simpl; [discriminate|].
  destruct (String.eqb_spec k k'); subst; auto.
Qed.
Lemma in_keys_get d k : In k (keys d) -> exists v, get d k = Some v.
Proof.
  induction d as [|[k' v'] t IH]; simpl; [tauto|]. intros [->|H].
  - rewrite String.eqb_refl; eauto.
  - destruct (String.eqb k k'); eauto.
Qed.
Lemma not_in_keys_get d k : ~ In k (keys d) -> get d k = None.
Proof.
  intros H. destruct (get d k) eqn:G; auto. apply get_in_keys in G. tauto.
Qed.
Lemma mem_in_keys d k : mem d k = true <-> In k (keys d).
Proof.
  rewrite mem_get. split; [intros [v H]; eapply get_in_keys; eauto | apply in_keys_get].
Qed.

Lemma get_set_same d k v : get (set d k v) k = Some v.
Proof.
  induction d as [|[k' v'] t IH]; simpl; [now rewrite String.eqb_refl|].
  destruct (String.eqb k k') eqn:E; simpl; rewrite ?String.eqb_refl, ?E; auto.
Qed.
Lemma get_set_other d k k' v : k' <> k -> get (set d k v) k' = get d k'.
Proof.
  intros N. induction d as [|[k2 v2] t IH]; simpl.
  - destruct (String.eqb_spec k' k); congruence.
  - destruct (String.eqb_spec k k2); simpl; subst.
    + destruct (String.eqb_spec k' k2); congruence.
    + destruct (String.eqb_spec k' k2); auto.
Qed.
Lemma get_del_same d k : get (del d k) k = None.
Proof.
  induction d as [|[k' v'] t IH]; simpl; auto.
  destruct (String.eqb k k') eqn:E; simpl; rewrite ?E; auto.
Qed.
Lemma get_del_other d k k' : k' <> k -> get (del d k) k' = get d k'.
Proof.
  intros N. induction d as [|[k2 v2] t IH]; simpl; auto.
  destruct (String.eqb_spec k k2); simpl; subst.
  - destruct (String.eqb_spec k' k2); congruence.
  - destruct (String.eqb_spec k' k2); auto.
Qed.

Lemma getd_set_same d k v : getd (set d k v) k = v.
Proof. unfold getd; now rewrite get_set_same. Qed.
Lemma getd_set_other d k k' v : k' <> k -> getd (set d k v) k' = getd d k'.
Proof. intros; unfold getd; now rewrite get_set_other. Qed.
Lemma getd_set d k k' v :
  getd (set d k v) k' = if String.eqb k' k then v else getd d k'.
Proof.
  destruct (String.eqb_spec k' k) as [->|N];
    [apply getd_set_same | now apply getd_set_other].
Qed.
Lemma getd_del d k k' :
  getd (del d k) k' = if String.eqb k' k then 0 else getd d k'.
Proof.
  unfold getd. destruct (String.eqb_spec k' k) as [->|N].
  - now rewrite get_del_same.
  - now rewrite get_del_other.
Qed.
Lemma getd_incr d k n k' :
  getd (incr d k n) k' = if String.eqb k' k then getd d k + n else getd d k'.
Proof. unfold incr. apply getd_set. Qed.

Lemma keys_set_in d k v k' : In k' (keys (set d k v)) <-> k' = k \/ In k' (keys d).
Proof.
  induction d as [|[k2 v2] t IH]; simpl.
  - intuition.
  - destruct (String.eqb_spec k k2); simpl; subst; [intuition|].
    rewrite IH. intuition.
Qed.
Lemma keys_del_in d k k' : In k' (keys (del d k)) <-> k' <> k /\ In k' (keys d).
Proof.
  induction d as [|[k2 v2] t IH]; simpl.
  - intuition.
  - destruct (String.eqb_spec k k2); simpl; subst.
    + rewrite IH. intuition. subst. tauto.
    + rewrite IH. intuition. subst. tauto.
Qed.

Lemma nodupk_set d k v : nodupk d -> nodupk (set d k v).
Proof.
  induction d as [|[k2 v2] t IH]; simpl; [tauto|].
  intros [G N]. destruct (String.eqb_spec k k2); simpl; subst; [tauto|].
  split; [|auto]. rewrite get_set_other; auto.
Qed.
Lemma nodupk_del d k : nodupk d -> nodupk (del d k).
Proof.
  induction d as [|[k2 v2] t IH]; simpl; [tauto|].
  intros [G N]. destruct (String.eqb_spec k k2); simpl; subst; [auto|].
  split; [|auto]. rewrite get_del_other; auto.
Qed.
Lemma nodupk_NoDup d : nodupk d -> NoDup (keys d).
Proof.
  induction d as [|[k v] t IH]; simpl; [constructor|].
  intros [G N]. constructor; auto. intros H. apply in_keys_get in H as [w H]. congruence.
Qed.

Lemma length_set_mem d k v : mem d k = true -> length (set d k v) = length d.
Proof.
  unfold mem. induction d as [|[k2 v2] t IH]; simpl; [discriminate|].
  destruct (String.eqb_spec k k2); simpl; auto.
Qed.
Lemma length_set_new d k v : get d k = None -> length (set d k v) = S (length d).
Proof.
  induction d as [|[k2 v2] t IH]; simpl; auto.
  destruct (String.eqb_spec k k2); simpl; [discriminate|auto].
Qed.

(* building a dictionary by a loop "for k, v in l: if F k v is not None: d[k] = F k v" *)
Definition upd (F : string -> Z -> option Z) (d : dict) (kv : string * Z) : dict :=
  match F (fst kv) (snd kv) with Some x => set d (fst kv) x | None => d end.

Lemma fold_upd_get F l : nodupk l -> forall d0 k,
  get (fold_left (upd F) l d0) k =
  match get l k with
  | Some v => match F k v with Some x => Some x | None => get d0 k end
  | None => get d0 k
  end.
Proof.
  induction l as [|[k1 v1] t IH]; simpl; [reflexivity|].
  intros [G N] d0 k. rewrite (IH N).
  destruct (String.eqb_spec k k1) as [->|Hk].
  - rewrite G. unfold upd; simpl. destruct (F k1 v1); [apply get_set_same|reflexivity].
  - assert (E : get (upd F d0 (k1, v1)) k = get d0 k).
    { unfold upd; simpl. destruct (F k1 v1); [now apply get_set_other|reflexivity]. }
    rewrite E. reflexivity.
Qed.

Lemma fold_upd_nodupk F l : forall d0, nodupk d0 -> nodupk (fold_left (upd F) l d0).
Proof.
  induction l as [|[k1 v1] t IH]; simpl; auto.
  intros d0 H. apply IH. unfold upd; simpl. destruct (F k1 v1); auto using nodupk_set.
Qed.

Lemma forallb_false_ex {A} (f : A -> bool) l :
  forallb f l = false -> exists x, In x l /\ f x = false.
Proof.
  induction l as [|a t IH]; simpl; [discriminate|].
  destruct (f a) eqn:E; simpl; intros H.
  - destruct (IH H) as [x [I Fx]]. eauto.
  - eauto.
Qed.

(* ordered (representation) equality, used by the correspondence checks *)
Fixpoint dict_eqb (a b : dict) : bool :=
  match a, b with
  | [], [] => true
  | (k, v) :: a', (k', v') :: b' => String.eqb k k' && (v =? v') && dict_eqb a' b'
  | _, _ => false
  end.
Lemma dict_eqb_eq a b : dict_eqb a b = true <-> a = b.
Proof.
  revert b. induction a as [|[k v] a IH]; intros [|[k' v'] b]; simpl; split; try congruence; auto.
  - intros H. apply andb_prop in H as [H1 H3]. apply andb_prop in H1 as [H1 H2].
    apply String.eqb_eq in H1. apply Z.eqb_eq in H2. apply IH in H3. congruence.
  - intros [= -> -> ->]. rewrite String.eqb_refl, Z.eqb_refl. simpl. now apply IH.
Qed.

(* boolean versions, for obligations discharged by computation on generated data *)
Fixpoint nodupkb (d : dict) : bool :=
  match d with [] => true | (k, _) :: t => negb (mem t k) && nodupkb t end.
Lemma nodupkb_spec d : nodupkb d = true -> nodupk d.
Proof.
  induction d as [|[k v] t IH]; simpl; auto. intros H. apply andb_prop in H as [A B].
  split; auto. apply negb_true_iff in A. now apply mem_false.
Qed.
Definition deqb (a b : dict) : bool :=
  forallb (fun k => getd a k =? getd b k) (keys a ++ keys b).
Lemma deqb_spec a b : deqb a b = true -> forall k, getd a k = getd b k.
Proof.
  unfold deqb. rewrite forallb_forall. intros H k.
  destruct (get a k) as [v|] eqn:Ga.
  - apply Z.eqb_eq. apply H. apply in_or_app. left. eapply get_in_keys; eauto.
  - destruct (get b k) as [w|] eqn:Gb.
    + apply Z.eqb_eq. apply H. apply in_or_app. right. eapply get_in_keys; eauto.
    + unfold getd. now rewrite Ga, Gb.
Qed.

(* pointwise equality of dictionaries as finite maps with default 0 *)
Definition deq (a b : dict) : Prop := forall k, getd a k = getd b k.
