(* List utilities with Python semantics: stable sorts, chunks, option-concat. *)
From Coq Require Import ZArith List Bool Lia Permutation.
Import ListNotations.

Section Sort.
Context {A : Type} (key : A -> Z).
(* sorted(l, key=key, reverse=True): stable, descending *)
Fixpoint insert_desc (x : A) (l : list A) : list A :=
  match l with
  | [] => [x]
  | y :: t => if (key y >=? key x)%Z then y :: insert_desc x t else x :: y :: t
  end.
Definition sort_desc (l : list A) : list A := fold_left (fun acc x => insert_desc x acc) l [].
(* sorted(l, key=key): stable, ascending *)
Fixpoint insert_asc (x : A) (l : list A) : list A :=
  match l with
  | [] => [x]
  | y :: t => if (key y <=? key x)%Z then y :: insert_asc x t else x :: y :: t
  end.
Definition sort_asc (l : list A) : list A := fold_left (fun acc x => insert_asc x acc) l [].

Lemma insert_desc_perm x l : Permutation (x :: l) (insert_desc x l).
Proof.
  induction l as [|y t IH]; simpl; auto.
  destruct (key y >=? key x)%Z; auto.
  eapply perm_trans; [apply perm_swap|]. now apply perm_skip.
Qed.
Lemma insert_asc_perm x l : Permutation (x :: l) (insert_asc x l).
Proof.
  induction l as [|y t IH]; simpl; auto.
  destruct (key y <=? key x)%Z; auto.
  eapply perm_trans; [apply perm_swap|]. now apply perm_skip.
Qed.
Lemma fold_insert_desc_perm l : forall acc,
  Permutation (l ++ acc) (fold_left (fun acc x => insert_desc x acc) l acc).
Proof.
  induction l as [|x t IH]; intros acc; simpl; auto.
  eapply perm_trans; [|apply IH].
  eapply perm_trans; [apply Permutation_middle|].
  apply Permutation_app_head. apply insert_desc_perm.
Qed.
Lemma sort_desc_perm l : Permutation l (sort_desc l).
Proof. unfold sort_desc. rewrite <- (app_nil_r l) at 1. apply fold_insert_desc_perm. Qed.
Lemma fold_insert_asc_perm l : forall acc,
  Permutation (l ++ acc) (fold_left (fun acc x => insert_asc x acc) l acc).
Proof.
  induction l as [|x t IH]; intros acc; simpl; auto.
  eapply perm_trans; [|apply IH].
  eapply perm_trans; [apply Permutation_middle|].
  apply Permutation_app_head. apply insert_asc_perm.
Qed.
Lemma sort_asc_perm l : Permutation l (sort_asc l).
Proof. unfold sort_asc. rewrite <- (app_nil_r l) at 1. apply fold_insert_asc_perm. Qed.
Lemma sort_desc_in x l : In x (sort_desc l) <-> In x l.
Proof.
  split; apply Permutation_in; [apply Permutation_sym|]; apply sort_desc_perm.
Qed.
Lemma sort_asc_in x l : In x (sort_asc l) <-> In x l.
Proof.
  split; apply Permutation_in; [apply Permutation_sym|]; apply sort_asc_perm.
Qed.
End Sort.

(* concatenation of optional results; None (abnormal termination) is contagious *)
Fixpoint concat_opt {A} (l : list (option (list A))) : option (list A) :=
  match l with
  | [] => Some []
  | None :: _ => None
  | Some x :: t => match concat_opt t with None => None | Some y => Some (x ++ y) end
  end.
Lemma concat_opt_in {A} (l : list (option (list A))) res x :
  concat_opt l = Some res -> In x res -> exists y, In (Some y) l /\ In x y.
Proof.
  revert res. induction l as [|[a|] t IH]; simpl; intros res H I.
  - inversion H; subst. destruct I.
  - destruct (concat_opt t) as [y|] eqn:E; [|discriminate]. inversion H; subst.
    apply in_app_or in I as [I|I]; [eauto|].
    destruct (IH y eq_refl I) as [z [I1 I2]]. eauto.
  - discriminate.
Qed.

(* keep the first of each class of an equivalence given as a boolean relation *)
Fixpoint dedup_by {A} (same : A -> A -> bool) (seen : list A) (l : list A) : list A :=
  match l with
  | [] => []
  | x :: t => if existsb (same x) seen then dedup_by same seen t
              else x :: dedup_by same (seen ++ [x]) t
  end.
Lemma dedup_by_in {A} (same : A -> A -> bool) l : forall seen x,
  In x (dedup_by same seen l) -> In x l.
Proof.
  induction l as [|y t IH]; simpl; intros seen x H; auto.
  destruct (existsb (same y) seen); [right; eauto|].
  destruct H as [->|H]; [left; auto | right; eauto].
Qed.

(* DataLoader: consecutive chunks of size n (n >= 1); fuel = length *)
Fixpoint chunks_go {A} (fuel n : nat) (l : list A) : list (list A) :=
  match fuel with
  | O => []
  | S f => match l with
           | [] => []
           | _ => firstn n l :: chunks_go f n (skipn n l)
           end
  end.
Definition chunks {A} (n : nat) (l : list A) : list (list A) := chunks_go (length l) n l.

Fixpoint zmin_list (x : Z) (l : list Z) : Z :=
  match l with [] => x | y :: t => zmin_list (Z.min x y) t end.
