"""C03 -- a declined reaction is returned untouched and with a reason."""
import random
from common import *
import pipe, gens

RULE = ("the real Balancer (n_jobs=1, default threshold) on corpus reactions (quick: 300 sampled; thorough: the whole validation set) "
        "(MCS-solved ones re-run with the score forced to 0.0 = the default threshold boundary, and to 1.0; solvable ones re-run with the carbon count of one of their molecules shifted, so that the carbon label and the formula comparison disagree) and on generated reactions (hand-written stage-targeted cases, curated reactions with molecules dropped/inserted, random "
        "small-molecule reactions), in batches; every recorded batch is replayed through Model/Pipeline.run inside Coq (all public "
        "columns of all rows + the seven statistics) and every row is checked by RDKit-only oracles.  Non-trivial: a row that some "
        "stage edited (water insertion, completion, MCS append) before it was declined, or a declined carbon-deficit row, or a solved "
        "row; distinct = distinct input reaction.")
ASSUMPTIONS = ["H1/H2/H3 of C03_solved_rows_have_empty_or_absent_issue and C03_carbon_deficit_declined (impute needs an empty search issue; inserted water never balances; impute refuses carbon deficit) -- checked on the recorded answers of every batch; H1 and H3 are theorems for refined oracle records (modelled control flow of impute_reaction, replayed call by call), H2 is derived from the composition facts (A) well-formed dictionaries and (B) additivity for appended water, both checked on every recorded composition (C03_remaining_clauses_from_composition_facts)", "oracle answers (decompose, carbon counts, can_parse, MCS state, impute_reaction, PostProcess, confidence) are recorded from the real run and are functions of the row's strings (conflicting recordings are counted as timing_unstable and excluded)",
               "joblib runs in-process with n_jobs=1, so module-attribute wrappers observe every call"]
TRUSTED = ["RDKit for the independent oracles"]
METHODS = ("input-balanced", "rule-based", "mcs-based")


def hypotheses(ctx, b):
    """the oracle facts the two last C03 theorems assume (H1, H2, H3), checked on the recorded answers of this batch"""
    ms = {k: v for k, v in b["tables"]["mcs_state"]}
    dec = {k for k, v in b["tables"]["decomp"]}
    for k, v in b["tables"]["impute"]:
        if v[0] != "ok":
            continue
        ctx.count("hypotheses", "H1_H3_checked")
        if k in ms and (ms[k][1] or "") != "":
            ctx.mismatch("oracle hypothesis H1 (impute_reaction succeeds only on an empty search issue)", k, ms[k], None)
        if k.count(">>") == 1:
            l, p = k.split(">>")
            cl, cp = pipe.carbons(l), pipe.carbons(p)
            if cl is not None and cp is not None and cp > cl:
                ctx.mismatch("oracle hypothesis H3 (impute_reaction refuses reactant-side carbon imbalance)", k, v[1], None)
    # H2 is evaluated inside Coq on the model's own water step with the recorded composition tables (see run()); the two primitive facts
    # it is derived from (Proofs/WaterFact.v) are checked here on every recorded composition: (A) no zero entry, positive element counts;
    # (B) a side recorded with and without trailing water molecules differs by exactly n x {H:2, O:1}
    decd = {k: v for k, v in b["tables"].get("decomp", [])}
    for k, v in decd.items():
        ctx.count("hypotheses", "A_checked")
        if any((x == 0) or (kk != "Q" and x < 0) for kk, x in v.items()):
            ctx.mismatch("composition fact (A): well-formed composition dictionary", k, v, None)
    for k, v in decd.items():
        base, n = k, 0
        while base.endswith(".O") and base[:-2] != "":
            base, n = base[:-2], n + 1
            if base in decd:
                ctx.count("hypotheses", "B_checked")
                w = dict(decd[base]); w["H"] = w.get("H", 0) + 2 * n; w["O"] = w.get("O", 0) + n
                if {a: x for a, x in w.items() if x != 0} != {a: x for a, x in v.items() if x != 0}:
                    ctx.mismatch("composition fact (B): appended water adds n x {H:2, O:1}", k, v, decd[base])


def oracle(ctx, b, forced_carbon=False):
    if not forced_carbon:
        hypotheses(ctx, b)
    edited = {k for k, v in b["tables"]["impute"] if v[0] == "ok"}
    for inp, r in zip(b["inputs"], b["rows"]) if len(b["inputs"]) == len(b["rows"]) else []:
        ctx.evaluations += 1
        case = {"input": inp, "row": r}
        if b.get("force_conf") is not None:
            case["forced_confidence"] = b["force_conf"]
        if b.get("force_carbon"):
            case["forced_carbon"] = b["force_carbon"]
        if b.get("matrix"):
            case["matrix"] = b["matrix"]; case["inputs"] = list(b["inputs"])
        if not r["solved"]:
            if r["reaction"] != r["input_reaction"]:
                ctx.fail("declined-row-altered", case, {})
            if not (isinstance(r["issue"], str) and r["issue"] != ""):
                ctx.fail("declined-without-reason", case, {})
            if r["input_reaction"] in edited:
                ctx.nontrivial.add(inp)
        else:
            if r["solved_by"] not in METHODS:
                ctx.fail("solved-without-method", case, {})
            if r["issue"] not in (None, ""):
                ctx.fail("solved-with-issue", case, {})
            ctx.nontrivial.add(inp)
        # carbon deficit => declined
        if inp.count(">>") == 1 and not forced_carbon:
            l, p = inp.split(">>")
            cl, cp = pipe.carbons(l), pipe.carbons(p)
            if cl is not None and cp is not None and cp > cl:
                ctx.count("oracle", "carbon_deficit_rows")
                ctx.nontrivial.add(inp)
                if r["solved"]:
                    ctx.fail("carbon-deficit-solved", case, {"carbons": [cl, cp]})
        ctx.count("oracle", "solved" if r["solved"] else "declined")
        ctx.count("by", str(r["solved_by"]))


def gen_run(ctx):
    rng = random.Random("gen|%s|%s" % (ctx.seed, ctx.tier))
    n = (60, 200) if ctx.quick() else (1500, 3000)
    rx = gens.generated(rng, *n)
    rng.shuffle(rx)
    batches = [rx[i:i + 20] for i in range(0, len(rx), 20)]
    name = "gen_%s_%d" % (ctx.tier, ctx.seed)
    val, hit = pipe.cached(name, lambda: pipe.run_batches(batches))
    return val


def forced_run(ctx, bs):
    """the scoring oracle's answer space: MCS-solved corpus reactions re-run with every score forced to 0.0
    (the default threshold's boundary) and to 1.0"""
    mcs = [inp for b in bs if len(b["rows"]) == len(b["inputs"]) for inp, r in zip(b["inputs"], b["rows"]) if r["solved_by"] == "mcs-based"]
    mcs = mcs[:24 if ctx.quick() else 240]
    batches = [mcs[i:i + 6] for i in range(0, len(mcs), 6)]
    name = "c03forced_%s_%d" % (ctx.tier, ctx.seed)
    val, _ = pipe.cached(name, lambda: pipe.run_batches(batches, force_conf=0.0) + pipe.run_batches(batches[:2], force_conf=1.0))
    return val


def forced_carbon_run(ctx, bs):
    """the carbon counter's answer space: solvable corpus reactions re-run with the count of ONE of their molecules shifted by one
    (reactant side up: the label says 'products' while the formula comparison may say Balance after completion; product side up:
    the label says 'reactants').  The theorems hold for every oracle answer, so the property must hold on these runs too."""
    rng = random.Random("fc|%s|%s" % (ctx.seed, ctx.tier))
    cand = [inp for b in bs if len(b["rows"]) == len(b["inputs"]) for inp, r in zip(b["inputs"], b["rows"])
            if r["solved_by"] in ("rule-based", "mcs-based", "input-balanced") and inp.count(">>") == 1]
    cand = rng.sample(cand, min(len(cand), 16 if ctx.quick() else 200))
    def compute():
        out = []
        for inp in cand:
            l, p = pipe.run_batch([inp])["rows"][0]["input_reaction"].split(">>") if False else inp.split(">>")
            side = rng.choice([l, p])
            tok = rng.choice(side.split("."))
            out.append(pipe.run_batch([inp], force_carbon={tok: rng.choice([1, 1, 2])}))
        return out
    val, _ = pipe.cached("c03fcarbon_%s_%d" % (ctx.tier, ctx.seed), compute)
    return val


def run(ctx):
    from rdkit import RDLogger
    RDLogger.DisableLog("rdApp.*")
    bs = pipe.corpus_run(ctx)
    gs = gen_run(ctx)
    fc = forced_carbon_run(ctx, bs)
    ctx.count("inputs", "forced_carbon_rows", len(fc))
    for b in fc:
        if len(b["rows"]) == len(b["inputs"]):
            oracle(ctx, b, forced_carbon=True)
    fs = forced_run(ctx, bs)
    ctx.count("inputs", "forced_confidence_rows", sum(len(b["inputs"]) for b in fs))
    for b in fs:
        if len(b["rows"]) == len(b["inputs"]):
            oracle(ctx, b)
    gs = gs + fs + fc
    ctx.count("inputs", "corpus_rows", sum(len(b["inputs"]) for b in bs))
    ctx.count("inputs", "generated_rows", sum(len(b["inputs"]) for b in gs))
    for b in bs + gs:
        if len(b["rows"]) != len(b["inputs"]):
            ctx.count("inputs", "batches_with_lost_rows(C05)")
            continue
        oracle(ctx, b)
    import matrix
    for run in matrix.runs(ctx):
        ctx.count("matrix", run["config"][:40])
        # the statement is about the default threshold and about rows that do not pre-populate the tool's own output columns
        if (run.get("t") or 0) != 0 or "threshold 0.5" in run["config"] or "fed in again" in run["config"]:
            continue
        if not run["error"] and len(run["rows"]) == len(run["given"]):
            oracle(ctx, dict(matrix.as_batch(run), matrix=run["config"]))
    ctx.sample({"input": bs[0]["inputs"][0], "row": bs[0]["rows"][0] if bs[0]["rows"] else None})
    ctx.sample({"input": gs[0]["inputs"][0], "row": gs[0]["rows"][0] if gs[0]["rows"] else None})
    pipe.eval_pipeline_cases(ctx, bs + gs, "c03")
    h2_check(ctx, bs + gs, "c03h2")
    impute_flow(ctx, bs + gs, "c03imp")


def impute_flow(ctx, batches, name):
    """impute_reaction's control flow (Model/Impute.v) against every recorded call: with what build_compounds + merge, the
    standardizers and is_carbon_balanced answered in that call, the model returns the call's result or its exception text; the
    carbon label the call saw is the label of the reaction it imputed (carbon_of with the recorded atom counts).  This is what
    turns C03's oracle facts H1 and H3 into theorems (Proofs/ImputeProofs.v)."""
    HDR = pipe.PIPE_HDR.replace("Model.Pipeline ", "Model.Pipeline Model.Impute ")
    DEFS = """
Definition imp_eqb (a b : imp_result) : bool :=
  match a, b with ImpOk m r, ImpOk m' r' => String.eqb m m' && list_eqb String.eqb r r' | ImpFail x, ImpFail y => String.eqb x y | _, _ => false end.
Definition clabel_eqb (a b : clabel) : bool := match a, b with CBalanced, CBalanced | CProducts, CProducts | CReactants, CReactants => true | _, _ => false end.
Definition icase (issue : string) (c : clabel) (rxn : string) (m : outcome2 (string * list string)) (sin : string) (sout : outcome2 string)
    (carg : string) (cb : bool) (cc : list (string * Z)) (e : imp_result) : bool :=
  imp_eqb (impute_reaction {| merged_raw := fun _ => m; standardized := fun x => if String.eqb x sin then sout else Fail2 "UNREACHED";
                              carbon_balanced_after := fun x => if String.eqb x carg then cb else false |} issue c rxn) e
  && clabel_eqb (carbon_of (mk [] [] [] cc [] [] [] []) rxn) c.
"""
    LAB = {"balanced": "CBalanced", "products": "CProducts", "reactants": "CReactants"}
    exprs, meta, seen = [], [], set()
    for b in batches:
        if b["conflicts"] or "impute_fine" not in b["tables"]:
            continue
        res = {k: v for k, v in b["tables"]["impute"]}
        cc = {k: v for k, v in b["tables"]["ccount"]}
        for k, f in b["tables"]["impute_fine"]:
            if k in seen or k not in res:
                continue
            seen.add(k)
            v = res[k]
            try:
                if not isinstance(f["issue"], str) or f["carbon"] not in LAB:
                    ctx.count("impute_flow", "skipped_non_string_issue_or_label"); continue
                if v[0] == "ok":
                    if not v[1].startswith(k + "."):
                        ctx.mismatch("impute_reaction returns '{reaction}.{merged}'", k, v[1], None); continue
                    e = "(ImpOk %s %s)" % (cstr(v[1][len(k) + 1:]), clist(v[2], cstr))
                else:
                    e = "(ImpFail %s)" % cstr(v[1])
                m = f["merged"]
                mt = "(Fail2 \"UNREACHED\")" if m is None else ("(Ok2 (%s, %s))" % (cstr(m[1]), clist(m[2], cstr)) if m[0] == "ok" else "(Fail2 %s)" % cstr(m[1]))
                st = f["std"]
                sin = cstr(st[0]) if st else cstr("")
                sout = "(Fail2 \"UNREACHED\")" if not st else ("(Ok2 %s)" % cstr(st[2]) if st[1] == "ok" else "(Fail2 %s)" % cstr(st[2]))
                cb = f["cbal"]
                toks = sorted({t for side in k.split(">>") for t in side.split(".")})
                cct = clist([t for t in toks if t in cc], lambda t: cpair(cstr(t), cz(cc[t])))
                exprs.append("icase %s %s %s %s %s %s %s %s %s %s" % (cstr(f["issue"]), LAB[f["carbon"]], cstr(k), mt, sin, sout,
                                                                   cstr(cb[0]) if cb else cstr(""), cbool(cb[1]) if cb else "false", cct, e))
                meta.append((k, f, v))
                ctx.count("impute_flow", "ok" if v[0] == "ok" else ("previous_issue" if f["issue"] != "" else ("deficit" if f["carbon"] == "reactants" and m and m[0] == "ok" else
                          ("merge_failed" if m and m[0] != "ok" else ("standardizer_failed" if st and st[1] != "ok" else "carbon_check_failed")))))
            except (TypeError, ValueError):
                ctx.count("impute_flow", "skipped_unrenderable")
    sh("timeout 900 make -j%d Model/Impute.vo Model/Tables.vo 2>&1" % NPROC, cwd=COQ)
    bad, errors = eval_cases(name, HDR, DEFS, exprs, ctx.work, shard=300)
    for fn, o in errors:
        ctx.broken.append({"what": "case file did not evaluate", "where": fn, "detail": o})
    for i in bad:
        ctx.mismatch("impute_reaction vs Model/Impute.impute_reaction (stage answers of the recorded call)", meta[i][0], meta[i][2], meta[i][1])
    ctx.extra["impute_calls_checked_in_coq"] = len(exprs)


def h2_check(ctx, batches, name):
    """oracle fact H2 (inserted water alone never balances a reaction): the model's water step, with the recorded composition
    tables, on every parsable reaction of every batch -- evaluated inside Coq"""
    H2_HDR = pipe.PIPE_HDR.replace("Model.Pipeline ", "Model.Pipeline Proofs.Balanced ")
    H2_DEFS = pipe.PIPE_DEFS + """
Definition h2case (o : oracles) (s : string) : bool :=
  let r := validate o M_INPUT true false None (mkRow 0 s s false None None CBalanced None None None) in
  let w := rb_water o r in implb (bal o (rxn w)) (String.eqb (rxn w) (rxn r)).
"""
    exprs, meta = [], []
    for b in batches:
        if b["conflicts"]:
            continue
        try:
            ss = [k for k, v in b["tables"]["parse"] if v]
            exprs.append("forallb (h2case %s) %s" % (pipe.coq_oracle(b), clist(ss, cstr))); meta.append(b["inputs"][:3])
            ctx.count("hypotheses", "H2_checked_reactions", len(ss))
        except (TypeError, ValueError):
            pass
    sh("timeout 900 make -j%d Proofs/Balanced.vo 2>&1" % NPROC, cwd=COQ)
    bad, errors = eval_cases(name, H2_HDR, H2_DEFS, exprs, ctx.work, shard=8)
    for fn, o in errors:
        ctx.broken.append({"what": "case file did not evaluate", "where": fn, "detail": o})
    for i in bad:
        ctx.mismatch("oracle hypothesis H2 (inserted water alone never balances a reaction)", meta[i], None, None)


def replay(ctx, rep):
    case = rep.get("failing_input")
    inp = case["input"] if isinstance(case, dict) and "input" in case else None
    if inp is None:
        print(json.dumps(rep, indent=1)[:3000]); return 0
    b = pipe.run_batch([inp], force_conf=case.get("forced_confidence"), force_carbon=case.get("forced_carbon"))
    print(json.dumps(b["rows"], indent=1))
    n = len(ctx.failures); oracle(ctx, b, forced_carbon=bool(case.get("forced_carbon")))
    return 1 if len(ctx.failures) > n else 0
