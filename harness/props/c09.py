"""C09 -- fragment merging conserves atoms and its reported rules explain the result."""
import random, json, collections
from common import *
import corpus, gen_data

RULE = ("(molecule, acyclic single bond between heavy atoms) pairs from corpus components (quick 90 molecules, thorough 2500) and a "
        "generated family (esters, amides, ethers, thioethers, phosphonates, boronic acids, N-N / N-O / S-halogen / O-halogen bonds): "
        "the two fragments are built by deleting the other side's atoms (index map under the generator's control, radicals closed with "
        "the repository's own add_hydrogens_to_radicals; for every other cut the fragments are handed over as SMILES strings with translated boundary indices, as build_compounds does, first in a merge with a bond and then alone; molecules that already carry a radical are skipped, the closing step would saturate it) and handed to merge() as two compounds with one boundary each [mode A], and "
        "each fragment alone with its boundary [mode B: completion by an expansion rule], the core left after two cuts as one fragment with two boundaries [mode D] and a fragment next to an alcohol spectator [mode E], cross merges of open fragments from different molecules [mode X: a raise is tolerated, a returned product must be valid, closed-shell, complete], and the two fragments together with spectator compounds (water, benzene, triethylamine, dichloromethane; up to three kept spectators, adjacent and apart) in every position of the set [mode C].  Oracle (RDKit): mode A reconstructs the "
        "original (canonical SMILES ignoring stereo) unless a restriction rule (no bond) is reported; in every mode the product is a valid "
        "molecule, carbons are conserved, heavy atoms = fragments + compounds named by the reported expansion rules.  Correspondence: "
        "the merged molecule's atom list and bond multiset vs Model/Merge.merge_two_mols, and the reported merge / expansion rule vs "
        "Model/Merge.select_rule / expand_boundary under the implementation's own condition answers, inside Coq.  Non-trivial: a cut "
        "whose merge reports a rule other than 'default single bond', or any completed single fragment; distinct = distinct (molecule, bond, mode).")
ASSUMPTIONS = ["rule conditions (functional groups, patterns, symbols) and rule actions are oracles: their answers are taken from the implementation's own condition objects at the moment of the call",
               "validity of the merged product is RDKit's sanitisation"]
TRUSTED = ["RDKit for fragment construction, canonical SMILES comparison and formula counts"]
HDR = ("From Coq Require Import String List Bool Arith.\nFrom SynRBL Require Import Model.Merge Gen.GenMerge.\nImport ListNotations.\nOpen Scope string_scope.\n")
DEFS = """
Definition beq (a b : nat * nat * nat) : bool :=
  let '(x, y, t) := a in let '(u, v, w) := b in Nat.eqb t w && ((Nat.eqb x u && Nat.eqb y v) || (Nat.eqb x v && Nat.eqb y u)).
Fixpoint rem1 (b : nat * nat * nat) (l : list (nat * nat * nat)) : option (list (nat * nat * nat)) :=
  match l with [] => None | h :: t => if beq b h then Some t else option_map (cons h) (rem1 b t) end.
Fixpoint msub (a b : list (nat * nat * nat)) : bool := match a with [] => true | h :: t => match rem1 h b with Some b' => msub t b' | None => false end end.
Fixpoint seqb (a b : list string) : bool := match a, b with [], [] => true | x :: a', y :: b' => String.eqb x y && seqb a' b' | _, _ => false end.
Definition geq (g h : mgraph) : bool := seqb (matoms g) (matoms h) && Nat.eqb (length (mbonds g)) (length (mbonds h)) && msub (mbonds g) (mbonds h).
(* the merged molecule is merge_two_mols of the two fragments in one of the two orders *)
Definition mcase (g1 g2 : mgraph) (i j : nat) (bt : option nat) (res : mgraph) : bool :=
  geq (merge_two_mols g1 g2 i j bt) res || geq (merge_two_mols g2 g1 j i bt) res.
Fixpoint lookc (l : list (string * bool * bool)) (n : string) : bool * bool :=
  match l with [] => (false, false) | (k, a, b) :: t => if String.eqb n k then (a, b) else lookc t n end.
(* rule selection under the recorded condition answers: tbl gives (cond1(x)&&cond2(y), cond1(y)&&cond2(x)) per rule name *)
Definition rcase (tbl : list (string * bool * bool)) (e : option string) : bool :=
  let mc := fun (n : string) (x y : compound * nat) => if Nat.eqb (snd x) 0 then fst (lookc tbl n) else snd (lookc tbl n) in
  let c0 := {| cmol := {| matoms := []; mbonds := [] |}; cbounds := []; crules := [] |} in
  match select_rule mc merge_rules (c0, 0) (c0, 1), e with
  | Some r, Some n => String.eqb (mname r) n | None, None => true | _, _ => false end.
Fixpoint looke (l : list (string * bool)) (n : string) : bool := match l with [] => false | (k, a) :: t => if String.eqb n k then a else looke t n end.
Definition ecase (tbl : list (string * bool)) (e : option string) : bool :=
  let c0 := {| cmol := {| matoms := []; mbonds := [] |}; cbounds := []; crules := [] |} in
  match expand_boundary (fun n _ => looke tbl n) expand_rules (c0, 0), e with
  | Some r, Some n => String.eqb (ename r) n | None, None => true | _, _ => false end.
"""
FAMILY = ["CCOC(C)=O", "CC(=O)NC", "CCOCC", "CSC", "CC(=O)SC", "CP(=O)(OC)OC", "COP(=O)(O)O", "OB(O)c1ccccc1", "CNN", "CON", "CSCl", "COCl", "CN(C)Cl",
          "CC(=O)OC(C)=O", "c1ccccc1OC", "CC(O)CO", "NCC(=O)O", "CS(=O)(=O)Cl", "C[Si](C)(C)Cl", "C[Mg]Br", "CC(C)=NO", "CCN=C=O", "OCCN", "CC#CC", "C=CC",
          "CCBr", "CC(=O)Cl", "c1ccccc1C(=O)OC", "COC(=O)OC", "CNC(=O)OC", "CC(=O)N(C)C", "CSSC", "COO", "CN=NC",
          # hydrogens that stay in the molecular graph (isotope labels): atom count != heavy-atom count
          # phosphorus / halide partners for cross merges
          "CP(C)(=O)Cl", "CCOP(=O)(Cl)OCC", "BrP(Br)Br", "CP(C)Cl", "COP(=O)(Cl)OC", "CC(=O)OC", "CCOC(C)(C)C", "CS(=O)(=O)Nc1ccccc1",
          # atoms with two or more explicit hydrogens at the cut ([NH3+], [SiH3], [BH4-])
          "C[NH3+]", "CC[NH3+]", "C[SiH3]", "C[SiH2]C", "C[BH3-]", "CC[PH2]", "C[NH2+]C",
          # cuts at an atom that keeps an explicit hydrogen count in its fragment ([nH], [NH2+], [SH](=O)=O)
          "Cn1cccc1", "CC(=O)n1cccc1", "Cn1ccnc1", "C[NH+](C)C", "CS(C)(=O)=O", "Cn1c2ccccc2cc1", "CCn1cccc1",
          "[2H]c1ccc(C(=O)OCC)cc1", "[2H]C([2H])([2H])OC(C)=O", "[2H]OCC", "CC([2H])([2H])OC", "[3H]CC(=O)NC", "[2H]N(C)C(C)=O"]


def nostereo(smi):
    from rdkit import Chem
    m = Chem.MolFromSmiles(smi) if isinstance(smi, str) else Chem.Mol(smi)
    if m is None:
        return None
    Chem.RemoveStereochemistry(m)
    return Chem.MolToSmiles(m)


def sides(m, u, v):
    seen, st = {u}, [u]
    while st:
        x = st.pop()
        for n in m.GetAtomWithIdx(x).GetNeighbors():
            j = n.GetIdx()
            if (x == u and j == v) or j in seen:
                continue
            seen.add(j); st.append(j)
    return sorted(seen), sorted(set(range(m.GetNumAtoms())) - seen)


def frag(m, keep, b):
    from rdkit import Chem
    from synrbl.SynMCSImputer.MissingGraph.molcurator import MoleculeCurator
    rw = Chem.RWMol(m)
    for i in sorted(set(range(m.GetNumAtoms())) - set(keep), reverse=True):
        rw.RemoveAtom(i)
    idx = {old: new for new, old in enumerate(keep)}
    fm = rw.GetMol()
    try:
        Chem.SanitizeMol(fm)
    except Exception:
        return None, None
    fm = MoleculeCurator.add_hydrogens_to_radicals(fm)
    # closing the cut at a stereo double bond (C=N with / \ marks) leaves the new hydrogen as an ATOM of the graph; such a fragment is
    # not "the molecule cut at one bond" any more (its atom list differs, string round trips drop the atom): the cut is skipped
    if sum(1 for a in fm.GetAtoms() if a.GetAtomicNum() == 1) > sum(1 for i in keep if m.GetAtomWithIdx(i).GetAtomicNum() == 1):
        return None, None
    if isinstance(b, (list, tuple)):
        return fm, [idx[x] for x in b]
    return fm, idx[b]


def as_arg(fm, idx, as_str):
    """a compound argument for CompoundSet.add_compound: the fragment molecule itself, or -- as build_compounds does in the pipeline --
    its SMILES string with the boundary index translated to the atom order of that string"""
    from rdkit import Chem
    if not as_str:
        return Chem.Mol(fm), idx
    smi = Chem.MolToSmiles(fm)
    order = list(fm.GetPropsAsDict(True, True)["_smilesAtomOutputOrder"])
    return smi, order.index(idx)


def heavy(m):
    c = collections.Counter(a.GetSymbol() for a in m.GetAtoms() if a.GetAtomicNum() > 1)
    return dict(c)


SPECT = {"b": "c1ccccc1", "t": "CCN(CC)CC", "d": "ClCCl"}


def run(ctx):
    from rdkit import RDLogger, Chem
    RDLogger.DisableLog("rdApp.*")
    import logging
    from synrbl.SynMCSImputer.structure import CompoundSet
    import synrbl.SynMCSImputer.merge as mg
    from synrbl.SynMCSImputer.rules import MergeRule, ExpandRule
    rng = random.Random("c09|%s|%s" % (ctx.seed, ctx.tier))
    comps = [c for c in corpus.unmapped_components() if 4 <= len(c) <= 60]
    mols = FAMILY + rng.sample(comps, min(len(comps), 90 if ctx.quick() else 2500))
    expand_smiles = {r.name: r.compound["smiles"] for r in ExpandRule.get_all()}
    restriction = {r.name for r in MergeRule.get_all() if r.bond is None}
    with_actions = {r.name for r in MergeRule.get_all() if r.action1 or r.action2}
    mexprs, mmeta, rexprs, rmeta = [], [], [], []
    xpool, xfixed = [], []
    calls = []
    o_mb, o_eb = mg.merge_boundaries, mg.expand_boundary

    def mb(b1, b2):
        tbl = []
        for r in MergeRule.get_all():
            try:
                a = bool(r.condition1(b1) and r.condition2(b2)); b = bool(r.condition1(b2) and r.condition2(b1))
            except Exception:
                a = b = False
            tbl.append((r.name, a, b))
        g1, g2, i1, i2 = gen_data.mgraph(b1.compound.mol), gen_data.mgraph(b2.compound.mol), b1.index, b2.index
        res = o_mb(b1, b2)
        name = res.rules[-1].name if res is not None and res.rules else None
        calls.append({"kind": "merge", "tbl": tbl, "rule": name, "g1": g1, "g2": g2, "i1": i1, "i2": i2,
                      "res": gen_data.mgraph(res.mol) if res is not None else None})
        return res

    def eb(b):
        tbl = [(r.name, bool(r.can_apply(b))) for r in ExpandRule.get_all()]
        try:
            c = o_eb(b)
            name = c.rules[-1].name
        except mg.NoExpandRule:
            calls.append({"kind": "expand", "tbl": tbl, "rule": None}); raise
        calls.append({"kind": "expand", "tbl": tbl, "rule": name})
        return c
    mg.merge_boundaries, mg.expand_boundary = mb, eb
    logging.disable(logging.CRITICAL)
    try:
        for smi in mols:
            m = Chem.MolFromSmiles(smi)
            if m is None or m.GetNumAtoms() > 40 or m.GetNumAtoms() < 3:
                continue
            if any(a.GetNumRadicalElectrons() for a in m.GetAtoms()):
                # the fragment builder closes the cut with add_hydrogens_to_radicals, which would also saturate a radical the
                # molecule already has: such a cut is not "the two fragments of the molecule" (found by the thorough tier, seed 2)
                ctx.count("cuts", "open_shell_molecule_skipped")
                continue
            ref = nostereo(smi)
            bonds = [b for b in m.GetBonds() if not b.IsInRing() and b.GetBondType() == Chem.BondType.SINGLE]
            if len(bonds) > 5:
                bonds = rng.sample(bonds, 5)
            for b in bonds:
                u, v = b.GetBeginAtomIdx(), b.GetEndAtomIdx()
                A, B = sides(m, u, v)
                fa, ia = frag(m, A, u); fb, ib = frag(m, B, v)
                if fa is None or fb is None:
                    ctx.count("cuts", "fragment_not_sanitisable")
                    continue
                as_str = (smi in FAMILY) or rng.random() < 0.5        # this cut hands its fragments over as SMILES strings (first with a bond, then alone)
                ctx.count("cuts", "fragments_as_smiles_strings" if as_str else "fragments_as_molecules")
                # ---- mode A: two fragments
                for order in ((fa, ia, v, fb, ib, u),) if rng.random() < 0.5 else ((fb, ib, u, fa, ia, v),):
                    f1, i1, n1, f2, i2, n2 = order
                    case = {"smiles": smi, "bond": [u, v], "mode": "two-fragments"}
                    calls.clear()
                    ctx.evaluations += 1
                    try:
                        cs = CompoundSet()
                        a1, j1 = as_arg(f1, i1, as_str); a2, j2 = as_arg(f2, i2, as_str)
                        c1 = cs.add_compound(a1, src_mol=m); c1.add_boundary(j1, neighbor_index=n1)
                        c2 = cs.add_compound(a2, src_mol=m); c2.add_boundary(j2, neighbor_index=n2)
                        res = mg.merge(cs)
                    except Exception as e:
                        ctx.fail("merge-raised", case, {"error": "%s: %s" % (type(e).__name__, str(e)[:160])})
                        continue
                    names = [r.name for r in res.rules]
                    ctx.count("rules", "|".join(names))
                    if names != ["default single bond"]:
                        ctx.nontrivial.add((smi, u, v, "A"))
                    out = res.mol
                    try:
                        Chem.SanitizeMol(Chem.Mol(out))
                    except Exception as e:
                        ctx.fail("merged-product-invalid", case, {"rules": names, "error": str(e)[:120]})
                        continue
                    if res.boundaries:
                        ctx.fail("open-boundary-left", case, {"rules": names})
                    if heavy(out) != heavy(m):
                        ctx.fail("atoms-not-conserved", case, {"rules": names, "in": heavy(m), "out": heavy(out)})
                    elif any(n in restriction for n in names):
                        if len(Chem.GetMolFrags(out)) < 2:
                            ctx.fail("restriction-rule-formed-a-bond", case, {"rules": names})
                    elif nostereo(out) != ref:
                        ctx.fail("original-not-reconstructed", case, {"rules": names, "expected": ref, "got": nostereo(out)})
                    for c in calls:
                        if c["kind"] == "merge":
                            rexprs.append("rcase %s %s" % (clist(c["tbl"], lambda t: "(%s, %s, %s)" % (cstr(t[0]), cbool(t[1]), cbool(t[2]))), copt(c["rule"], cstr)))
                            rmeta.append(case)
                            if c["rule"] and c["rule"] not in with_actions and c["res"] is not None:
                                r = [x for x in MergeRule.get_all() if x.name == c["rule"]][0]
                                from synrbl.SynMCSImputer.rules import parse_bond_type
                                bt, _ = parse_bond_type(r.bond)
                                mexprs.append("mcase %s %s %s %s %s %s" % (c["g1"], c["g2"], cnat(c["i1"]), cnat(c["i2"]), copt(None if bt is None else int(bt), cnat), c["res"]))
                                mmeta.append(case)
                # ---- mode C: the same two fragments with spectator compounds (water = removed by a compound rule, benzene = kept
                # and concatenated) in every position of the compound set
                if rng.random() < (0.5 if ctx.quick() else 0.3):
                    layouts = [["w", 1, 2], [1, "w", 2], [1, 2, "w"], ["w", "b", 1, 2], [1, "b", "w", 2], ["b", 1, 2],
                               # two and three spectators that are kept, next to each other and apart
                               [1, 2, "t", "d"], ["t", "d", 1, 2], [1, "t", "d", 2], ["t", 1, "d", 2], ["b", "t", "d", 1, 2], [1, 2, "d", "b", "t"]]
                    lay = rng.choice(layouts)
                    case = {"smiles": smi, "bond": [u, v], "mode": "two-fragments+spectators", "layout": lay}
                    calls.clear()
                    ctx.evaluations += 1
                    try:
                        cs = CompoundSet()
                        for x in lay:
                            if x == "w":
                                cs.add_compound("O", src_mol="O")
                            elif x in SPECT:
                                cs.add_compound(SPECT[x], src_mol=SPECT[x])
                            elif x == 1:
                                c1 = cs.add_compound(Chem.Mol(fa), src_mol=m); c1.add_boundary(ia, neighbor_index=v)
                            else:
                                c2 = cs.add_compound(Chem.Mol(fb), src_mol=m); c2.add_boundary(ib, neighbor_index=u)
                        res = mg.merge(cs)
                        names = [r.name for r in res.rules]
                        ctx.nontrivial.add((smi, u, v, "C", json.dumps(lay)))
                        ctx.count("spectators", "|".join(str(x) for x in lay))
                        want = collections.Counter(heavy(m))
                        for x in lay:
                            if x in SPECT:
                                want.update(heavy(Chem.MolFromSmiles(SPECT[x])))
                        if dict(want) != heavy(res.mol):
                            ctx.fail("atoms-not-conserved", case, {"rules": names, "expected": dict(want), "got": heavy(res.mol)})
                        elif not any(n in restriction for n in names):
                            exp = nostereo(".".join([smi] + [SPECT[x] for x in lay if x in SPECT]))
                            if nostereo(res.mol) != exp:
                                ctx.fail("original-not-reconstructed", case, {"rules": names, "expected": exp, "got": nostereo(res.mol)})
                    except Exception as e:
                        ctx.fail("merge-raised", case, {"error": "%s: %s" % (type(e).__name__, str(e)[:160])})
                # ---- mode D (once per molecule): the core left after cutting TWO bonds, one fragment with two boundaries, both completed by
                # expansion; and mode E: one open fragment next to an alcohol spectator (the compound rule that lets the alcohol react)
                if b is bonds[0] and len(bonds) >= 2:
                    b2 = bonds[1]
                    u2, v2 = b2.GetBeginAtomIdx(), b2.GetEndAtomIdx()
                    A2, B2 = sides(m, u2, v2)
                    for keep1, in1, out1 in ((A, u, v), (B, v, u)):
                        S2 = A2 if in1 in A2 else B2
                        in2, out2 = (u2, v2) if u2 in S2 else (v2, u2)
                        core = sorted(set(keep1) & set(S2))
                        if in1 not in core or in2 not in core or in1 == in2 or len(core) < 2:
                            continue
                        fc, jj = frag(m, core, [in1, in2])
                        if fc is None:
                            continue
                        j1, j2 = jj
                        case = {"smiles": smi, "bonds": [[u, v], [u2, v2]], "mode": "core-with-two-boundaries", "fragment": Chem.MolToSmiles(fc)}
                        ctx.evaluations += 1
                        try:
                            cs = CompoundSet()
                            cc = cs.add_compound(Chem.Mol(fc), src_mol=m)
                            cc.add_boundary(j1, neighbor_index=out1); cc.add_boundary(j2, neighbor_index=out2)
                            res = mg.merge(cs)
                            names = [r.name for r in res.rules]
                            ctx.count("two_boundaries", "|".join(names) or "(none)")
                            ctx.nontrivial.add((smi, u, v, u2, v2, "D"))
                            want = collections.Counter(heavy(fc))
                            for n in names:
                                if n in expand_smiles:
                                    want.update(heavy(Chem.MolFromSmiles(expand_smiles[n])))
                            if dict(want) != heavy(res.mol):
                                ctx.fail("result-not-explained-by-reported-rules", case, {"rules": names, "expected_heavy_atoms": dict(want), "got": heavy(res.mol)})
                        except Exception as e:
                            ctx.fail("merge-raised", case, {"error": "%s: %s" % (type(e).__name__, str(e)[:160])})
                        break
                    for (f1, i1, n1) in ((fa, ia, v), (fb, ib, u)):
                        for first in (True, False):
                            case = {"smiles": smi, "bond": [u, v], "mode": "fragment+alcohol", "fragment": Chem.MolToSmiles(f1), "alcohol_first": first}
                            ctx.evaluations += 1
                            try:
                                cs = CompoundSet()
                                if first:
                                    cs.add_compound("CCO", src_mol="CCO")
                                c1 = cs.add_compound(Chem.Mol(f1), src_mol=m); c1.add_boundary(i1, neighbor_index=n1)
                                if not first:
                                    cs.add_compound("CCO", src_mol="CCO")
                                res = mg.merge(cs)
                                names = [r.name for r in res.rules]
                                ctx.count("alcohol", "|".join(names) or "(none)")
                                want = collections.Counter(heavy(f1)); want.update(heavy(Chem.MolFromSmiles("CCO")))
                                for n in names:
                                    if n in expand_smiles:
                                        want.update(heavy(Chem.MolFromSmiles(expand_smiles[n])))
                                if dict(want) != heavy(res.mol):
                                    ctx.fail("result-not-explained-by-reported-rules", case, {"rules": names, "expected_heavy_atoms": dict(want), "got": heavy(res.mol)})
                            except Exception as e:
                                ctx.fail("merge-raised", case, {"error": "%s: %s" % (type(e).__name__, str(e)[:160])})
                if len(xpool) < 400 and smi in FAMILY:
                    xpool.append((Chem.Mol(fa), ia, m, v, smi)); xpool.append((Chem.Mol(fb), ib, m, u, smi))
                # ---- mode B: one open fragment, completed by expansion
                for (f1, i1, n1) in ((fa, ia, v), (fb, ib, u)):
                    case = {"smiles": smi, "bond": [u, v], "mode": "single-fragment", "fragment": Chem.MolToSmiles(f1)}
                    calls.clear()
                    ctx.evaluations += 1
                    try:
                        cs = CompoundSet()
                        a1, j1 = as_arg(f1, i1, as_str)
                        c1 = cs.add_compound(a1, src_mol=m); c1.add_boundary(j1, neighbor_index=n1)
                        res = mg.merge(cs)
                    except Exception as e:
                        ctx.fail("merge-raised", case, {"error": "%s: %s" % (type(e).__name__, str(e)[:160])})
                        continue
                    names = [r.name for r in res.rules]
                    ctx.nontrivial.add((smi, u, v, "B", Chem.MolToSmiles(f1)))
                    ctx.count("expansion", "|".join(names) or "(none)")
                    out = res.mol
                    try:
                        Chem.SanitizeMol(Chem.Mol(out))
                    except Exception as e:
                        ctx.fail("merged-product-invalid", case, {"rules": names, "error": str(e)[:120]})
                        continue
                    if res.boundaries:
                        ctx.fail("open-boundary-left", case, {"rules": names})
                    want = collections.Counter(heavy(f1))
                    for n in names:
                        if n in expand_smiles:
                            want.update(heavy(Chem.MolFromSmiles(expand_smiles[n])))
                    if dict(want) != heavy(out):
                        ctx.fail("result-not-explained-by-reported-rules", case, {"rules": names, "expected_heavy_atoms": dict(want), "got": heavy(out)})
                    if heavy(out).get("C", 0) != heavy(f1).get("C", 0) + sum(heavy(Chem.MolFromSmiles(expand_smiles[n])).get("C", 0) for n in names if n in expand_smiles):
                        ctx.fail("carbon-count-changed", case, {"rules": names})
                    for c in calls:
                        if c["kind"] == "expand":
                            rexprs.append("ecase %s %s" % (clist(c["tbl"], lambda t: cpair(cstr(t[0]), cbool(t[1]))), copt(c["rule"], cstr)))
                            rmeta.append(case)
                        else:
                            rexprs.append("rcase %s %s" % (clist(c["tbl"], lambda t: "(%s, %s, %s)" % (cstr(t[0]), cbool(t[1]), cbool(t[2]))), copt(c["rule"], cstr)))
                            rmeta.append(case)
        # ---- mode X: cross merges -- two open fragments that come from DIFFERENT molecules (what the imputation does when it joins
        # the missing parts of several reactants).  A merge that the rules cannot perform may raise (counted); a product that IS returned
        # must be a valid closed-shell molecule without open boundary whose heavy atoms are those of the two fragments
        # fixed partners: oxygen / nitrogen fragments of carbonyl compounds against P-H fragments (the phosphorus rules change bond orders
        # and may fail half-way) -- given as SMILES with boundary and neighbour indices, the way build_compounds passes them
        OX = [("O", 0, "CC(C)=O", 1), ("CO", 1, "CC(=O)OC", 1), ("CCO", 2, "CCOC(C)(C)C", 3), ("CN", 1, "CC(=O)NC", 1), ("CCO", 2, "CCOC(=O)c1ccccc1", 3), ("O", 0, "CCO", 1)]
        PH = [("C[PH](C)=O", 1, "CP(C)(=O)Cl", 4), ("CCO[PH](=O)OCC", 3, "CCOP(=O)(Cl)OCC", 5), ("BrPBr", 1, "BrP(Br)Br", 2), ("C[PH]C", 1, "CP(C)Cl", 3), ("CO[PH](=O)OC", 2, "COP(=O)(Cl)OC", 5)]
        for a in OX:
            for b in PH:
                for first, second in ((a, b), (b, a)):
                    xpool_fixed = [(Chem.MolFromSmiles(first[0]), first[1], Chem.MolFromSmiles(first[2]), first[3], first[2]), (Chem.MolFromSmiles(second[0]), second[1], Chem.MolFromSmiles(second[2]), second[3], second[2])]
                    xfixed.append(xpool_fixed)
        for it in range((250 if ctx.quick() else 3000) + len(xfixed)):
            if it < len(xfixed):
                (f1, i1, m1, n1, s1), (f2, i2, m2, n2, s2) = xfixed[it]
            else:
                if len(xpool) < 2:
                    break
                (f1, i1, m1, n1, s1), (f2, i2, m2, n2, s2) = rng.sample(xpool, 2)
            if s1 == s2:
                continue
            case = {"mode": "cross-merge", "fragments": [Chem.MolToSmiles(f1), Chem.MolToSmiles(f2)], "boundaries": [i1, i2], "sources": [s1, s2]}
            ctx.evaluations += 1
            try:
                cs = CompoundSet()
                c1 = cs.add_compound(Chem.Mol(f1), src_mol=m1); c1.add_boundary(i1, neighbor_index=n1)
                c2 = cs.add_compound(Chem.Mol(f2), src_mol=m2); c2.add_boundary(i2, neighbor_index=n2)
                res = mg.merge(cs)
            except Exception as e:
                ctx.count("cross", "raised")
                continue
            names = [r.name for r in res.rules]
            ctx.count("cross", "|".join(names) or "(none)")
            ctx.nontrivial.add(("X", case["fragments"][0], case["fragments"][1], i1, i2))
            out = res.mol
            try:
                Chem.SanitizeMol(Chem.Mol(out))
            except Exception as e:
                ctx.fail("merged-product-invalid", case, {"rules": names, "error": str(e)[:120]})
                continue
            rad_in = sum(a.GetNumRadicalElectrons() for f in (f1, f2) for a in f.GetAtoms())
            rad_out = sum(a.GetNumRadicalElectrons() for a in Chem.MolFromSmiles(Chem.MolToSmiles(out)).GetAtoms()) if Chem.MolFromSmiles(Chem.MolToSmiles(out)) is not None else -1
            # (only when nothing but single-bond rules was applied: how many hydrogens a DOUBLE bond between fragments of different
            # molecules should consume is not fixed by the property, which speaks of the two fragments of one molecule)
            if rad_out != rad_in and all(n in ("default single bond", "phosphor single bond") for n in names):
                ctx.fail("merged-product-invalid", case, {"rules": names, "product": Chem.MolToSmiles(out), "unpaired_electrons": rad_out})
            if res.boundaries:
                ctx.fail("open-boundary-left", case, {"rules": names})
            want = collections.Counter(heavy(f1)); want.update(heavy(f2))
            for n in names:
                if n in expand_smiles:
                    want.update(heavy(Chem.MolFromSmiles(expand_smiles[n])))
            if dict(want) != heavy(out):
                ctx.fail("atoms-not-conserved", case, {"rules": names, "expected": dict(want), "got": heavy(out)})
    finally:
        mg.merge_boundaries, mg.expand_boundary = o_mb, o_eb
    ctx.count("cuts", "merge_graph_cases", len(mexprs)); ctx.count("cuts", "rule_selection_cases", len(rexprs))
    if mmeta:
        ctx.sample(mmeta[0])
    if rmeta:
        ctx.sample(rmeta[-1])
    rc, out = sh("timeout 900 make -j%d Model/Merge.vo Gen/GenMerge.vo 2>&1" % NPROC, cwd=COQ)
    if rc != 0:
        ctx.broken.append({"what": "model does not build", "detail": out[-1500:]})
        return
    bad, errors = eval_cases("c09m", HDR, DEFS, mexprs, ctx.work, shard=150)
    for fn, o in errors:
        ctx.broken.append({"what": "case file did not evaluate", "where": fn, "detail": o})
    for i in bad:
        ctx.mismatch("merged molecule (atoms, bonds) vs Model/Merge.merge_two_mols", mmeta[i], None, "model disagrees")
    bad, errors = eval_cases("c09r", HDR, DEFS, rexprs, ctx.work, shard=400)
    for fn, o in errors:
        ctx.broken.append({"what": "case file did not evaluate", "where": fn, "detail": o})
    for i in bad:
        ctx.mismatch("reported merge / expansion rule vs first applicable rule of the generated list (Model/Merge.select_rule / expand_boundary)", rmeta[i], None, "model disagrees")
    ctx.extra["graph_cases_in_coq"] = len(mexprs); ctx.extra["rule_cases_in_coq"] = len(rexprs)


def replay(ctx, rep):
    print(json.dumps(rep, indent=1)[:2500])
    return 0
