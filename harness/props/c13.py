"""C13 -- the confidence threshold only demotes low-confidence MCS results."""
import random, math
from common import *
import pipe

RULE = ("MCS-stage reactions of the corpus are run at threshold 0 to observe their confidences, then the same batches are re-run at "
        "thresholds {0.5, 1, each of several observed confidences c, nextafter(c, 0), nextafter(c, 1)}; every run is replayed "
        "through the model inside Coq with the threshold's float64 key; rows are compared across thresholds by an independent "
        "oracle.  Non-trivial: a (row, threshold) pair where the row is mcs-based; distinct = distinct (input, threshold).")
ASSUMPTIONS = ["(A5) the scoring model answers in [0,1] (checked on every scored row)",
               "floats cross into the model only as the order-preserving integer key of the non-negative float64"]
TRUSTED = ["numpy/xgboost scoring as an oracle; Python's float formatting for the threshold message"]


def threshold_runs(ctx):
    """shared with C18: the MCS-stage corpus reactions at thresholds {0, 0.5, 1, observed confidences and their float neighbours}"""
    from rdkit import RDLogger
    RDLogger.DisableLog("rdApp.*")
    base = pipe.corpus_run(ctx)
    # reactions that reached the MCS method at t = 0
    mcs_inputs = []
    for b in base:
        if len(b["rows"]) != len(b["inputs"]):
            continue
        for inp, r in zip(b["inputs"], b["rows"]):
            if r["solved_by"] == "mcs-based" and r["confidence"] is not None:
                mcs_inputs.append((inp, r["confidence"]))
    others = [inp for b in base if len(b["rows"]) == len(b["inputs"]) for inp, r in zip(b["inputs"], b["rows"]) if r["solved_by"] != "mcs-based"]
    rng = random.Random("c13|%s|%s" % (ctx.seed, ctx.tier))
    n = 24 if ctx.quick() else 160
    pick = rng.sample(mcs_inputs, min(n, len(mcs_inputs)))
    pick_o = rng.sample(others, min(n // 3, len(others)))
    inputs = [p[0] for p in pick] + pick_o
    rng.shuffle(inputs)
    bsz = 8
    batches = [inputs[i:i + bsz] for i in range(0, len(inputs), bsz)]
    confs = sorted({c for _, c in pick})
    chosen = rng.sample(confs, min(3 if ctx.quick() else 8, len(confs)))
    ths = [0, 0.5, 1]
    for c in chosen:
        ths += [c, math.nextafter(c, 0.0), math.nextafter(c, 1.0)]
    ths = sorted(set(ths))
    ctx.streams.setdefault("T", {})["thresholds"] = len(ths)
    ctx.streams.setdefault("T", {})["mcs_reactions"] = len(pick)
    name = "c13_%s_%d" % (ctx.tier, ctx.seed)

    def compute():
        out = {}
        import multiprocessing as mp
        jobs = [(b, t) for t in ths for b in batches]
        mctx = mp.get_context("spawn")
        with mctx.Pool(min(14, len(jobs)), initializer=pipe._worker_init) as pool:
            res = pool.starmap(pipe.run_batch, jobs, chunksize=1)
        return [{"t": t, "batch": r} for (b, t), r in zip(jobs, res)]
    runs, hit = pipe.cached(name, compute)
    return runs, ths, inputs


def run(ctx):
    runs, ths, inputs = threshold_runs(ctx)
    by_t = {}
    for x in runs:
        by_t.setdefault(x["t"], []).append(x["batch"])
    ref = {}
    for b in by_t[0]:
        for inp, r in zip(b["inputs"], b["rows"]):
            ref[inp] = r
    allb = []

    def confirmed(inp, t, differs):
        """a difference between the run at threshold t and the run at 0 counts only if it is reproducible: the input is run
        again alone, twice at 0 and once at t; RDKit's MCS search works under wall-clock budgets, so under load two runs of the
        same input can differ whatever the threshold"""
        a = pipe.run_batch([inp], 0)["rows"]; b = pipe.run_batch([inp], 0)["rows"]; c = pipe.run_batch([inp], t)["rows"]
        if a != b or len(a) != 1 or len(c) != 1:
            ctx.timing_unstable += 1
            return False
        if differs(c[0], a[0]):
            return True
        ctx.timing_unstable += 1
        return False
    for t, bs in sorted(by_t.items()):
        for b in bs:
            allb.append(b)
            if len(b["rows"]) != len(b["inputs"]):
                ctx.mismatch("rows lost at threshold %r" % t, b["inputs"][:2], len(b["rows"]), None)
                continue
            for inp, r in zip(b["inputs"], b["rows"]):
                ctx.evaluations += 1
                r0 = ref[inp]
                # wall-clock nondeterminism (RDKit's 1 s MCS budget, the 2 s thread wait) is not a threshold effect:
                # a row whose search timed out in either run is not comparable across runs
                if any("timeout" in (x.get("issue") or "") for x in (r, r0)):
                    ctx.timing_unstable += 1
                    continue
                case = {"input": inp, "threshold": t}
                if r["solved_by"] == "mcs-based":
                    ctx.nontrivial.add((inp, t))
                    c = r["confidence"]
                    if c is None or not (0.0 <= c <= 1.0):
                        ctx.fail("confidence-out-of-range", case, {"confidence": c})
                        continue
                    if c != r0["confidence"] and confirmed(inp, t, lambda x, y: x["confidence"] != y["confidence"]):
                        ctx.fail("confidence-depends-on-threshold", case, {"at_t": c, "at_0": r0["confidence"]})
                    if r["solved"] != (c >= t):
                        ctx.fail("threshold-not-exact", case, {"confidence": c, "solved": r["solved"]})
                    if not r["solved"] and "{:.2%}".format(t) not in (r["issue"] or ""):
                        ctx.fail("issue-does-not-name-threshold", case, {"issue": r["issue"]})
                    if r["reaction"] != r0["reaction"] and r["solved"] and confirmed(inp, t, lambda x, y: x["solved"] and x["reaction"] != y["reaction"]):
                        ctx.fail("result-depends-on-threshold", case, {"at_t": r["reaction"], "at_0": r0["reaction"]})
                else:
                    if r != r0 and confirmed(inp, t, lambda x, y: x["solved_by"] != "mcs-based" and x != y):
                        ctx.fail("other-rows-depend-on-threshold", case, {"at_t": r, "at_0": r0})
                if r["solved"] and not r0["solved"] and confirmed(inp, t, lambda x, y: x["solved"] and not y["solved"]):
                    ctx.fail("raising-threshold-solved-a-row", case, {})
    # the scoring oracle's answer space: every score forced to 0.0 and to 1.0, at thresholds on both sides (a score of exactly 0 is still a
    # score: it must be reported, compared and demoted like any other)
    mcs_inputs = [i for i in inputs][:6]
    for fc, t in ((0.0, 0.5), (0.0, 1.0), (0.0, 0.0), (1.0, 1.0), (1.0, 0.3)):
        b = pipe.run_batch(mcs_inputs, t=t, force_conf=fc)
        for inp, r in zip(b["inputs"], b["rows"]) if len(b["rows"]) == len(b["inputs"]) else []:
            if r["solved_by"] != "mcs-based":
                continue
            ctx.evaluations += 1
            ctx.count("forced", "score=%s t=%s" % (fc, t))
            case = {"input": inp, "threshold": t, "forced_confidence": fc}
            c = r["confidence"]
            if c is None or abs(c - fc) > 1e-6:
                ctx.fail("confidence-out-of-range", case, {"confidence": c, "forced": fc})
            elif r["solved"] != (c >= t):
                ctx.fail("threshold-not-exact", case, {"confidence": c, "solved": r["solved"], "issue": r["issue"]})
            elif not r["solved"] and "{:.2%}".format(t) not in (r["issue"] or ""):
                ctx.fail("issue-does-not-name-threshold", case, {"issue": r["issue"]})
    # the configuration matrix: every run carries its threshold; cached runs written under another threshold included
    import matrix
    conf_of = {}
    for run in matrix.runs(ctx):
        if run["error"] or len(run["rows"]) != len(run["given"]) or "fed in again" in run["config"]:
            continue
        t = run.get("t", 0) or 0
        ctx.count("matrix", run["config"][:40])
        for g, r in zip(run["given"], run["rows"]):
            if r["solved_by"] != "mcs-based" or r["confidence"] is None:
                continue
            ctx.evaluations += 1
            case = {"input": g, "threshold": t, "matrix": run["config"]}
            c = r["confidence"]
            if not (0.0 <= c <= 1.0):
                ctx.fail("confidence-out-of-range", case, {"confidence": c})
            if r["solved"] != (c >= t):
                ctx.fail("threshold-not-exact", case, {"confidence": c, "solved": r["solved"], "issue": r["issue"]})
            if not r["solved"] and "{:.2%}".format(t) not in (r["issue"] or ""):
                ctx.fail("issue-does-not-name-threshold", case, {"issue": r["issue"]})
            if g in conf_of and conf_of[g][0] != c:
                ctx.fail("confidence-depends-on-threshold", case, {"here": c, "there": conf_of[g][0], "other_run": conf_of[g][1]})
            conf_of.setdefault(g, (c, run["config"]))
    ctx.sample({"thresholds": ths, "example_input": inputs[0]})
    pipe.eval_pipeline_cases(ctx, allb, "c13")


def replay(ctx, rep):
    case = rep.get("failing_input", {})
    if isinstance(case, dict) and "input" in case:
        for t in (0, case.get("threshold", 0)):
            print(t, json.dumps(pipe.run_batch([case["input"]], t)["rows"]))
    return 0
