"""C07 -- composition accounting.  Correspondence: decompose / compare_dicts / diff_dicts /
BothSideReact / carbon label vs Model/Comp.v evaluated inside Coq; property oracle: true
compositions recomputed from RDKit atoms directly."""
import itertools, collections, copy
from common import *

RULE = ("streams: (A) decompose on corpus molecules, every element 1..118 as bare atom / hydride / ion / isotope, "
        "dummy atoms, random k-mixtures; (B) compare_dicts+diff_dicts+BothSideReact on ALL ordered pairs of dictionaries "
        "over keys {C,H,O} in {absent,1,2} x Q in {absent,-1,1,2} in shuffled key orders, plus a malformed stream with stored "
        "zeros/negative counts; (C) carbon label on corpus reactions.  A case is non-trivial when (A) the composition has >=2 keys, "
        "(B) the two dictionaries differ, (C) the reaction has >=3 molecules; distinct = distinct input.")
ASSUMPTIONS = ["(A1) RDKit parses a dot-joined mixture as the disjoint union of its components (validated on random mixtures each run)",
               "atoms/charge of a SMILES are read from RDKit (heavy atoms in order + GetTotalNumHs + formal charges) independently of SynRBL"]
TRUSTED = ["RDKit as the source of the true atom list of a SMILES (MolFromSmiles, GetAtomicNum, GetTotalNumHs, GetFormalCharge)"]

HDR = ("From Coq Require Import String ZArith List Bool.\nFrom SynRBL Require Import Base.Dict Model.Comp Gen.GenSymbols.\n"
       "Import ListNotations.\nOpen Scope string_scope. Open Scope Z_scope.\n")
DEFS = """
Definition dec (zs : list Z) (q : Z) (e : dict) : bool := dict_eqb (decompose (atomic_symbols ++ rdkit_symbols)%list zs q) e.
Definition cmp (r p : dict) (v : verdict) (d : dict) (cd : dict) (cv : verdict) : bool :=
  verdict_eqb (compare_dicts r p) v && dict_eqb (diff_dicts r p) d &&
  (let '(d', v') := classify r p in dict_eqb d' cd && verdict_eqb v' cv).
Definition clabel_eqb (a b : clabel) : bool := match a, b with CBalanced, CBalanced | CProducts, CProducts | CReactants, CReactants => true | _, _ => false end.
Definition car (r p : list Z) (l : clabel) : bool := clabel_eqb (carbon_label (sumZ r) (sumZ p)) l.
"""
CL = {"balanced": "CBalanced", "products": "CProducts", "reactants": "CReactants"}


def true_atoms(s):
    """Independent of SynRBL: atomic numbers (heavy atoms in order, then implicit/explicit-count Hs), charge, symbols."""
    from rdkit import Chem
    m = Chem.MolFromSmiles(s)
    if m is None:
        return None
    zs = [a.GetAtomicNum() for a in m.GetAtoms()]
    nh = sum(a.GetTotalNumHs() for a in m.GetAtoms())
    q = sum(a.GetFormalCharge() for a in m.GetAtoms())
    pt = Chem.GetPeriodicTable()
    true = collections.Counter()
    for z in zs:
        true[pt.GetElementSymbol(z) if z > 0 else "*"] += 1
    if nh:
        true["H"] += nh
    return zs + [1] * nh, q, dict(true)


def oracle_decompose(ctx, s, impl, zs, q, true):
    """Property: composition == true element counts, Q == true charge (absent when 0)."""
    got = {k: v for k, v in impl.items() if k != "Q"}
    gq = impl.get("Q", 0)
    if got == true and gq == q and all(v != 0 for v in impl.values()):
        return
    if any(z > 86 for z in zs) and {k: v for k, v in got.items() if k != "Unknown"} == {k: v for k, v in true.items() if k in got} \
            and got.get("Unknown", 0) == sum(1 for z in zs if z > 86) and gq == q:
        ctx.fail("unknown-above-86", s, {"impl": impl, "true": true, "charge": q})
    elif any(z == 0 for z in zs) and got == {k: v for k, v in true.items() if k != "*"}:
        ctx.fail("dummy-atom-Q", s, {"impl": impl, "true": true, "charge": q})
    else:
        ctx.fail("composition-wrong", s, {"impl": impl, "true": true, "charge": q})


def molecule_stream(ctx):
    from rdkit import Chem
    import corpus
    pt = Chem.GetPeriodicTable()
    comps = corpus.components()
    n = 1500 if ctx.quick() else len(comps)
    mols = ctx.rng.sample(comps, min(n, len(comps)))
    ctx.count("A", "corpus_molecules", len(mols))
    gen = []
    for z in range(1, 119):
        x = pt.GetElementSymbol(z)
        gen += ["[%s]" % x, "[%sH2]" % x, "[%s+]" % x, "[%s-2]" % x, "[13%s]" % x if z != 6 else "[13CH4]", "C[%s]" % x]
    gen += ["*", "C*", "[*+]", "[2H]O[2H]", "[H][H]", "[H+]", "[H-]", "[NH4+].[Cl-]", "[NH3+]CC([O-])=O", "C[N+](C)(C)[O-]",
            "[Na+].[O-]S(=O)(=O)[O-].[Na+]", "c1ccccc1", "[nH]1cccc1", "O=[Mn](=O)(=O)[O-].[K+]", "[U].[Th]", "F[U](F)(F)(F)(F)F"]
    ctx.count("A", "generated_molecules", len(gen))
    pool = [m for m in mols[:400]] + gen
    mix = []
    for _ in range(300 if ctx.quick() else 3000):
        k = ctx.rng.randint(2, 5)
        mix.append(".".join(ctx.rng.choice(pool) for _ in range(k)))
    ctx.count("A", "mixtures", len(mix))
    return mols + gen + mix, set(mix)


def run(ctx):
    from rdkit import RDLogger
    RDLogger.DisableLog("rdApp.*")
    from synrbl.SynProcessor.rsmi_decomposer import RSMIDecomposer
    from synrbl.SynProcessor.rsmi_comparator import RSMIComparator
    from synrbl.SynProcessor.rsmi_both_side_process import BothSideReact
    from synrbl.SynProcessor.check_carbon_balance import CheckCarbonBalance
    from synrbl.SynMCSImputer.utils import is_carbon_balanced
    exprs, meta = [], []

    # ---------------- stream A
    smiles, mixset = molecule_stream(ctx)
    cache = {}
    for s in smiles:
        ta = true_atoms(s)
        impl = RSMIDecomposer.decompose(s)
        ctx.evaluations += 1
        if ta is None:
            ctx.count("A", "unparsable")
            if impl != {}:
                ctx.mismatch("decompose(unparsable) = {}", s, impl, {})
            continue
        zs, q, true = ta
        cache[s] = impl
        if len(impl) >= 2:
            ctx.nontrivial.add(("A", s))
        ctx.count("A", "charged" if q else "neutral")
        if any(z > 86 for z in zs):
            ctx.count("A", "has_Z>86")
        oracle_decompose(ctx, s, impl, zs, q, true)
        try:
            exprs.append("dec %s %s %s" % (clist(zs, cz), cz(q), cdict(impl)))
            meta.append(("decompose", s, impl))
        except (TypeError, ValueError) as e:
            ctx.mismatch("decompose output not a str->int dict", s, repr(impl), str(e))
        if s in mixset:  # additivity over components (property) and (A1)
            parts = [RSMIDecomposer.decompose(c) for c in s.split(".")]
            tot = collections.Counter()
            for d in parts:
                for k, v in d.items():
                    tot[k] += v
            tot = {k: v for k, v in tot.items() if v != 0}
            if tot != {k: v for k, v in impl.items() if v != 0}:
                if "*" in s or "[*" in s:
                    ctx.fail("dummy-atom-Q", s, {"mixture": impl, "sum_of_components": tot})
                else:
                    ctx.fail("not-additive", s, {"mixture": impl, "sum_of_components": tot})
    ctx.sample({"stream": "A", "smiles": smiles[0], "impl": cache.get(smiles[0])})
    ctx.sample({"stream": "A", "smiles": smiles[-1], "impl": cache.get(smiles[-1])})

    # ---------------- stream B
    def dicts():
        out = []
        for c, h, o in itertools.product([None, 1, 2], repeat=3):
            for qv in [None, -1, 1, 2]:
                d = [(k, v) for k, v in (("C", c), ("H", h), ("O", o), ("Q", qv)) if v is not None]
                out.append(d)
        return out
    ds = dicts()
    pairs = [(a, b) for a in ds for b in ds]
    ctx.count("B", "wellformed_pairs_total", len(pairs))
    if ctx.quick():
        pairs = ctx.rng.sample(pairs, 3000)
        ctx.exhaustive = False
    else:
        ctx.exhaustive = True
    mal = []
    vals = [0, -1, 1, 3]
    for _ in range(400 if ctx.quick() else 3000):
        mk = lambda: [(k, ctx.rng.choice(vals)) for k in ctx.rng.sample(["C", "H", "O", "N", "Q"], ctx.rng.randint(0, 4))]
        mal.append((mk(), mk()))
    ctx.count("B", "malformed_pairs", len(mal))
    ctx.count("B", "wellformed_pairs_run", len(pairs))
    vhist = collections.Counter()

    def getd(d, k):
        return d.get(k, 0)

    for wfl, (a, b) in [(True, p) for p in pairs] + [(False, p) for p in mal]:
        a = list(a); b = list(b)
        ctx.rng.shuffle(a); ctx.rng.shuffle(b)
        r, p = dict(a), dict(b)
        v = RSMIComparator.compare_dicts(dict(r), dict(p))
        d = RSMIComparator.diff_dicts(dict(r), dict(p))
        r2, p2 = dict(r), dict(p)
        bs = BothSideReact([r2], [p2], [v], [copy.deepcopy(d)])
        cd, cv = bs.fit(n_jobs=1)
        cd, cv = cd[0], cv[0]
        ctx.evaluations += 1
        vhist[(v, cv)] += 1
        if r != p:
            ctx.nontrivial.add(("B", tuple(a), tuple(b)))
        try:
            exprs.append("cmp %s %s %s %s %s %s" % (cdict(r), cdict(p), v, cdict(d), cdict(cd), cv))
            meta.append(("compare", (a, b), (v, d, cd, cv)))
        except Exception as e:
            ctx.mismatch("comparator output shape", (a, b), repr((v, d, cd, cv)), str(e))
            continue
        if not wfl:
            continue
        # independent specification on well-formed compositions
        ks = set(r) | set(p)
        eq = all(getd(r, k) == getd(p, k) for k in ks)
        case = {"reactants": a, "products": b}
        if (v == "Balance") != eq:
            ctx.fail("verdict-wrong", case, {"verdict": v})
        if v == "Products" and not all(getd(r, k) == getd(p, k) + getd(d, k) for k in ks | set(d)):
            ctx.fail("diff-wrong", case, {"verdict": v, "diff": d})
        if v == "Reactants" and not all(getd(p, k) == getd(r, k) + getd(d, k) for k in ks | set(d)):
            ctx.fail("diff-wrong", case, {"verdict": v, "diff": d})
        if not all(abs(getd(d, k)) == abs(getd(r, k) - getd(p, k)) for k in ks | set(d)):
            ctx.fail("diff-wrong", case, {"verdict": v, "diff": d})
        if getd(r, "Q") == getd(p, "Q"):
            ge = all(getd(r, k) >= getd(p, k) for k in ks)
            le = all(getd(r, k) <= getd(p, k) for k in ks)
            spec = "Balance" if eq else "Products" if ge else "Reactants" if le else "Both"
            if v != spec:
                ctx.fail("verdict-wrong", case, {"verdict": v, "spec": spec})
        if cv in ("Products", "Both") and v != "Balance" and not all(getd(r, k) == getd(p, k) + getd(cd, k) for k in ks | set(cd)):
            ctx.fail("classification-wrong", case, {"verdict": cv, "formula": cd})
        if cv == "Reactants" and not all(getd(p, k) == getd(r, k) + getd(cd, k) for k in ks | set(cd)):
            ctx.fail("classification-wrong", case, {"verdict": cv, "formula": cd})
    ctx.streams.setdefault("B", {})["verdict_histogram"] = {"%s->%s" % k: n for k, n in sorted(vhist.items())}
    ctx.sample({"stream": "B", "reactants": pairs[0][0], "products": pairs[0][1]})

    # ---------------- stream C
    import corpus
    from rdkit import Chem
    rx = corpus.reactions()
    rx = ctx.rng.sample(rx, 600) if ctx.quick() else rx
    lh = collections.Counter()
    for rxn in rx:
        if rxn.count(">>") != 1:
            continue
        out = CheckCarbonBalance.process_reaction({"r": rxn}, "r", ">>", "C", {})["carbon_balance_check"]
        sides = []
        okp = True
        for side in rxn.split(">>"):
            cs = []
            for c in side.split("."):
                m = Chem.MolFromSmiles(c)
                if m is None:
                    okp = False
                    break
                cs.append(sum(1 for a in m.GetAtoms() if a.GetAtomicNum() == 6))
            sides.append(cs)
        if not okp:
            ctx.count("C", "unparsable")
            continue
        ctx.evaluations += 1
        lh[out] += 1
        if rxn.count(".") >= 2:
            ctx.nontrivial.add(("C", rxn))
        if out not in CL:
            ctx.mismatch("carbon label", rxn, out, None)
            continue
        exprs.append("car %s %s %s" % (clist(sides[0], cz), clist(sides[1], cz), CL[out]))
        meta.append(("carbon", rxn, out))
        cr, cp = sum(sides[0]), sum(sides[1])
        spec = "balanced" if cr == cp else "products" if cr > cp else "reactants"
        if out != spec:
            ctx.fail("carbon-label-wrong", rxn, {"label": out, "carbons": [cr, cp]})
        try:
            icb = is_carbon_balanced(rxn)
            if icb != (cr == cp):
                ctx.fail("carbon-label-wrong", rxn, {"is_carbon_balanced": icb, "carbons": [cr, cp]})
        except Exception as e:
            ctx.count("C", "is_carbon_balanced_raised")
    # the object-level API the pipeline uses (one checker object per pass, its own count cache), for several atom types one after the
    # other in this process: a label must be the label of the element it was asked for, whatever was counted before
    sub = [r for r in rx if r.count(">>") == 1 and all(Chem.MolFromSmiles(c) is not None for side in r.split(">>") for c in side.split("."))][:40 if ctx.quick() else 400]
    sub += ["CCCCO>>CCCC=O.O", "O=C=O>>OC(=O)c1ccccc1", "CC(=O)O.CC(=O)O>>CC(=O)OC(C)=O.O", "CN.CN>>CNC.N"]
    for at in ("O", "C", "N", "C", "Cl", "C"):
        num = Chem.GetPeriodicTable().GetAtomicNumber(at)
        try:
            res = CheckCarbonBalance([{"reactions": r} for r in sub], rsmi_col="reactions", atom_type=at, n_jobs=1).check_carbon_balance()
        except Exception as e:
            ctx.mismatch("check_carbon_balance raised", at, str(e)[:200], None)
            continue
        for r, o in zip(sub, res):
            ctx.evaluations += 1
            cnt = [sum(1 for c in side.split(".") for a in Chem.MolFromSmiles(c).GetAtoms() if a.GetAtomicNum() == num) for side in r.split(">>")]
            spec = "balanced" if cnt[0] == cnt[1] else "products" if cnt[0] > cnt[1] else "reactants"
            if o.get("carbon_balance_check") != spec:
                ctx.fail("carbon-label-wrong", r, {"label": o.get("carbon_balance_check"), "atom_type": at, "counts": cnt, "api": "CheckCarbonBalance(...).check_carbon_balance(), atom types O,C,N,C,Cl,C in one process"})
        ctx.count("C", "object_api_passes")
    ctx.streams.setdefault("C", {})["label_histogram"] = dict(lh)
    ctx.sample({"stream": "C", "reaction": rx[0]})

    # ---------------- run the model inside Coq on all cases
    if not ctx.model_built:
        ctx.notes.append("model not built: correspondence not evaluated")
        return
    bad, errors = eval_cases("c07", HDR, DEFS, exprs, ctx.work)
    for fn, out in errors:
        ctx.broken.append({"what": "case file did not evaluate", "where": fn, "detail": out})
    for i in bad:
        what, case, impl = meta[i]
        ctx.mismatch(what, case, impl, "model disagrees: " + exprs[i][:400])
    ctx.extra["cases_evaluated_in_coq"] = len(exprs)


def replay(ctx, rep):
    from synrbl.SynProcessor.rsmi_decomposer import RSMIDecomposer
    case = rep.get("failing_input")
    print("replay", rep.get("kind"), case)
    if isinstance(case, str):
        ta = true_atoms(case)
        impl = RSMIDecomposer.decompose(case)
        print("implementation:", impl, " true:", ta and ta[2], "charge", ta and ta[1])
        n = len(ctx.failures)
        if ta:
            oracle_decompose(ctx, case, impl, *ta)
        return 1 if len(ctx.failures) > n else 0
    return 0
