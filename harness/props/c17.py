"""C17 -- benchmark comparison ignores molecule order and SMILES spelling."""
import random, json, itertools
from common import *
import corpus

RULE = ("stereo-free corpus reactions (expected_reaction / reaction columns) and an isomer/anagram family (CCCO, CCOC, COCC, OCCC, "
        "CC(C)O, NCCO, OCCN, ...): every reaction is normalised (i) as written, (ii) in ALL permutations of its molecules when a side "
        "has <= 4 molecules (random permutations otherwise), (iii) with every molecule re-written as a random equivalent SMILES, with random atom maps and "
        "with every hydrogen written as an atom; normal forms must coincide, be idempotent, and variants must have similarity exactly 1; "
        "wc_similarity is checked for symmetry and range on perturbed pairs x {pathway, ecfp, ecfp_inv}; the benchmark sub-command is run on result files whose reaction column holds such variants of the expected column (every row must be counted correct).  Correspondence: "
        "normalize_smiles vs Model/Normalize.normalize inside Coq with the leaf table recorded from the implementation (this pins "
        "count_atoms, the character sum, the tie-break and the sort direction); the leaf contract (idempotent, one molecule) is "
        "checked on every token.  Non-trivial: a side with >= 2 molecules of equal atom count (a potential tie); distinct = distinct "
        "(reaction, variant).")
ASSUMPTIONS = ["RDKit canonical SMILES is spelling independent and idempotent (A3; checked on every token of this run)",
               "fingerprint similarities are symmetric and in [0,1] (checked on every pair of this run)"]
TRUSTED = ["RDKit canonicalisation and fingerprints (oracles)"]
HDR = ("From Coq Require Import String ZArith List Bool.\nFrom SynRBL Require Import Base.Strs Model.Normalize Model.Pipeline Model.Tables.\n"
       "Import ListNotations.\nOpen Scope string_scope.\n")
DEFS = "Definition nz (tbl : list (string * string)) (s e : string) : bool := String.eqb (normalize (fun t => look tbl t t) s) e.\n"
FAMILY = ["CCCO", "CCOC", "COCC", "OCCC", "CC(C)O", "NCCO", "OCCN", "CCN", "CNC", "NCC", "OCC", "CCO", "COC", "CC(=O)O", "OC(C)=O", "COC=O",
          "c1ccccc1O", "Oc1ccccc1", "CC=O", "C=CO", "C1CO1", "[2H]O[2H]", "[2H]C([2H])([2H])O", "[13CH3]O", "[18OH2]", "[2H]Cl", "CC([2H])=O", "ClCCBr", "BrCCCl", "CCl", "ClC", "[Na+].[Cl-]", "O", "[OH-]", "N#N", "OO", "[H]Cl", "Cl", "[H]O[H]", "[H][H]"]


def stereo_free(s):
    return not any(c in s for c in "@/\\")


def rand_variant(rng, side, maps=False):
    from rdkit import Chem
    out = []
    for c in side.split("."):
        m = Chem.MolFromSmiles(c)
        if m is None:
            return None
        for a in m.GetAtoms():
            a.SetAtomMapNum(0)
        if maps:
            nums = list(range(1, m.GetNumAtoms() + 1)); rng.shuffle(nums)
            for a, k in zip(m.GetAtoms(), nums):
                a.SetAtomMapNum(k)
            out.append(Chem.MolToSmiles(m))
        else:
            out.append(Chem.MolToSmiles(m, doRandom=True, canonical=False))
    return ".".join(out)


def run(ctx):
    from rdkit import RDLogger, Chem
    RDLogger.DisableLog("rdApp.*")
    from synrbl.SynUtils.chem_utils import normalize_smiles, wc_similarity, count_atoms
    rng = random.Random("c17|%s|%s" % (ctx.seed, ctx.tier))
    rx = [r for r in corpus.curated() + corpus.reactions() if r.count(">>") == 1 and stereo_free(r)]
    rx = [r for r in rx if all(Chem.MolFromSmiles(s) is not None for s in r.split(">>"))]
    rng.shuffle(rx)
    rx = rx[:250 if ctx.quick() else 4000]
    fam = []
    for _ in range(120 if ctx.quick() else 1500):
        l = [rng.choice(FAMILY) for _ in range(rng.randint(1, 4))]
        p = [rng.choice(FAMILY) for _ in range(rng.randint(1, 4))]
        fam.append(".".join(l) + ">>" + ".".join(p))
    leaf = {}
    exprs, meta = [], []

    def norm(s):
        return normalize_smiles(s)

    def tokens_of(s):
        return [t for side in s.split(">>") for t in side.split(".")]

    def add_case(s, expected):
        for t in tokens_of(s):
            if t not in leaf:
                leaf[t] = normalize_smiles(t) if t != "" else normalize_smiles(t)
        meta.append((s, expected))

    for base in rx + fam:
        try:
            n0 = norm(base)
        except Exception as e:
            ctx.count("skipped", "normalize_raised")
            continue
        l, p = base.split(">>")
        ls, ps = l.split("."), p.split(".")
        def tie(side):
            cs = [count_atoms(leaf.get(t) or normalize_smiles(t)) for t in side]
            return len(cs) != len(set(cs))
        nontrivial = tie(ls) or tie(ps)
        variants = [("identity", base)]
        # permutations
        if len(ls) <= 4 and len(ps) <= 4 and (len(ls) > 1 or len(ps) > 1):
            perms = list(itertools.product(itertools.permutations(ls), itertools.permutations(ps)))
            if len(perms) > 12:
                perms = rng.sample(perms, 12)
            for a, b in perms:
                variants.append(("perm", ".".join(a) + ">>" + ".".join(b)))
        else:
            for _ in range(3):
                a, b = list(ls), list(ps); rng.shuffle(a); rng.shuffle(b)
                variants.append(("perm", ".".join(a) + ">>" + ".".join(b)))
        for maps in (False, True):
            a, b = rand_variant(rng, l, maps), rand_variant(rng, p, maps)
            if a is not None and b is not None:
                variants.append(("mapped" if maps else "respelled", a + ">>" + b))
        # every hydrogen written as an atom ("[H]Cl", "[H]O[H]"): the same molecules
        try:
            def expl(side):
                out = []
                for c in side.split("."):
                    mm = Chem.MolFromSmiles(c)
                    out.append(Chem.MolToSmiles(Chem.AddHs(mm)) if mm.GetNumAtoms() <= 8 and any(a.GetAtomicNum() > 1 for a in mm.GetAtoms()) else c)   # RDKit itself canonicalises [HH] and [H][H] differently (A3 fails for H2): not varied
                return ".".join(out)
            variants.append(("explicit-H", expl(l) + ">>" + expl(p)))
        except Exception:
            pass
        for kind, v in variants:
            ctx.evaluations += 1
            ctx.count("variants", kind)
            try:
                nv = norm(v)
            except Exception as e:
                ctx.fail("normalize-raised", {"reaction": v}, {"error": str(e)})
                continue
            if nontrivial:
                ctx.nontrivial.add((base, v))
            add_case(v, nv)
            if nv != n0:
                ctx.fail("order-dependent-normal-form" if kind == "perm" else "spelling-dependent-normal-form",
                         {"reaction": base, "variant": v, "kind": kind}, {"normal_form": n0, "variant_normal_form": nv})
                continue
            if norm(nv) != nv:
                ctx.fail("normal-form-not-idempotent", {"reaction": v}, {"once": nv, "twice": norm(nv)})
            if kind != "identity" and ctx.evaluations % 5 == 0:
                for method in ("pathway", "ecfp", "ecfp_inv"):
                    s = wc_similarity(base, v, method)
                    if s != 1:
                        ctx.fail("variant-similarity-not-1", {"reaction": base, "variant": v, "method": method}, {"similarity": float(s)})
    # the benchmark sub-command itself (an observation point of the property): a result file whose `reaction` column holds reordered /
    # respelled variants of its `expected_reaction` column must be counted correct row by row, for every similarity method
    bench_pairs = [("CC#N.O>>CC(N)=O", "O.N#CC>>NC(C)=O"), ("C#CCO.CC(=O)Cl>>CC(=O)OCC#C.Cl", "ClC(=O)C.OCC#C>>Cl.C#CCOC(C)=O"),
                   ("CCO.CC(=O)O>>CCOC(C)=O.O", "OC(C)=O.OCC>>O.O=C(C)OCC"), ("N#N.[H][H].[H][H].[H][H]>>N.N", "[H][H].N#N.[H][H].[H][H]>>N.N")]
    for s0, e0 in meta:
        if len(bench_pairs) >= (12 if ctx.quick() else 120):
            break
        if s0 != e0 and s0.count(".") >= 1 and "," not in s0 and '"' not in s0:
            bench_pairs.append((e0, s0))          # expected = the normal form, reaction = the variant as written
    try:
        import tempfile, shutil, pandas as pd, logging
        import synrbl.SynCmd as cmd
        d = tempfile.mkdtemp(prefix="c17bench_")
        try:
            n = len(bench_pairs)
            for sb in ("rule-based", "mcs-based"):
                recs = [{"reaction": act, "solved": True, "input_reaction": exp, "issue": "", "rules": "[]", "solved_by": sb, "confidence": 1.0,
                         "expected_reaction": exp} for exp, act in bench_pairs]
                st = {"reaction_cnt": n, "balanced_cnt": 0, "rb_applied": n, "rb_solved": n if sb == "rule-based" else 0, "mcs_applied": n, "mcs_solved": n, "confident_cnt": n}
                for method in ("pathway", "ecfp", "ecfp_inv"):
                    rf, of = os.path.join(d, "r_%s_%s.csv" % (sb[:2], method)), os.path.join(d, "b_%s_%s.json" % (sb[:2], method))
                    pd.DataFrame(recs).to_csv(rf)
                    with open(rf + ".stats", "w") as f:
                        json.dump(st, f)
                    args = cmd.setup_argparser().parse_args(["benchmark", rf, "-o", of, "--similarity-method", method])
                    lv = logging.root.manager.disable; logging.disable(logging.CRITICAL)
                    try:
                        args.func(args)
                    except Exception as e:
                        ctx.fail("benchmark-miscounts-equal-reactions", {"pairs": bench_pairs, "solved_by": sb, "method": method},
                                 {"raised": "%s: %s" % (type(e).__name__, str(e)[:200])})
                        continue
                    finally:
                        logging.disable(lv)
                    with open(of) as f:
                        out = json.load(f)
                    ctx.evaluations += 1
                    ctx.count("benchmark_cli", "%s/%s" % (sb, method))
                    if out.get("total_correct") != n:
                        ctx.fail("benchmark-miscounts-equal-reactions", {"pairs": bench_pairs, "solved_by": sb, "method": method},
                                 {"total_correct": out.get("total_correct"), "rows": n})
        finally:
            shutil.rmtree(d, ignore_errors=True)
    except ImportError as e:
        ctx.notes.append("benchmark CLI stream skipped: %s" % e)
    # similarity: symmetry and range on perturbed pairs
    pairs = []
    for base in (rx[:60] if ctx.quick() else rx[:700]) + fam[:40]:
        l, p = base.split(">>")
        ps = p.split(".")
        alt = rng.choice(FAMILY)
        other = l + ">>" + ".".join(ps + [alt]) if rng.random() < 0.5 or len(ps) < 2 else l + ">>" + ".".join(ps[:-1] + [alt])
        pairs.append((base, other))
    # pairs that differ on BOTH sides, with sides of equal length that share molecules at other positions of the sorted normal form
    for base in (rx[:80] if ctx.quick() else rx[:900]) + fam[:60]:
        l, p = base.split(">>")
        ls, ps = l.split("."), p.split(".")
        if len(ls) + len(ps) < 3:
            continue
        ls2, ps2 = list(ls), list(ps)
        ls2[rng.randrange(len(ls2))] = rng.choice(FAMILY); ps2[rng.randrange(len(ps2))] = rng.choice(FAMILY)
        if rng.random() < 0.5:
            rng.shuffle(ls2); rng.shuffle(ps2)
        pairs.append((base, ".".join(ls2) + ">>" + ".".join(ps2)))
    for a, b in [("CCCCCCO.CCCCO>>CCCCCCOC(C)=O.CCCCO", "CCCCO.CCO>>CCCCOC(C)=O.CCO"), ("CCCCCCO.CCCCO.CC(=O)Cl>>CCCCCCOC(C)=O.CCCCO.Cl", "CCCCO.CCO.CC(=O)Cl>>CCCCOC(C)=O.CCO.Cl")]:
        pairs.append((a, b))
    for a, b in pairs:
        for method in ("pathway", "ecfp", "ecfp_inv"):
            ctx.evaluations += 1
            ctx.count("similarity", method)
            try:
                s1, s2 = float(wc_similarity(a, b, method)), float(wc_similarity(b, a, method))
            except Exception as e:
                ctx.count("skipped", "similarity_raised")
                continue
            if s1 != s2:
                ctx.fail("similarity-not-symmetric", {"a": a, "b": b, "method": method}, {"ab": s1, "ba": s2})
            if not (0.0 <= s1 <= 1.0):
                ctx.fail("similarity-out-of-range", {"a": a, "b": b, "method": method}, {"value": s1})
    # leaf contract
    for t, n in leaf.items():
        if "." in n or ">" in n or normalize_smiles(n) != n:
            ctx.mismatch("leaf oracle contract (idempotent, single molecule)", t, n, None)
    ctx.extra["leaf_tokens"] = len(leaf)
    ctx.sample({"reaction": meta[0][0], "normal_form": meta[0][1]})
    ctx.sample({"reaction": meta[-1][0], "normal_form": meta[-1][1]})
    # correspondence inside Coq (shards carry their own leaf table)
    rc, out = sh("timeout 900 make -j%d Model/Normalize.vo Model/Tables.vo 2>&1" % NPROC, cwd=COQ)
    if rc != 0:
        ctx.broken.append({"what": "model does not build", "detail": out[-1500:]})
        return
    keep = []
    for s, e in meta:
        try:
            toks = sorted(set(tokens_of(s)))
            tbl = clist(toks, lambda t: cpair(cstr(t), cstr(leaf[t])))
            exprs.append("nz %s %s %s" % (tbl, cstr(s), cstr(e))); keep.append((s, e))
        except (TypeError, ValueError):
            ctx.count("skipped", "non_ascii_or_unrenderable")
    if ctx.quick() and len(exprs) > 1500:
        idx = sorted(rng.sample(range(len(exprs)), 1500))
        exprs = [exprs[i] for i in idx]; keep = [keep[i] for i in idx]
    bad, errors = eval_cases("c17", HDR, DEFS, exprs, ctx.work, shard=250)
    for fn, o in errors:
        ctx.broken.append({"what": "case file did not evaluate", "where": fn, "detail": o})
    for i in bad:
        ctx.mismatch("normalize_smiles vs Model/Normalize.normalize", keep[i][0], keep[i][1], "model disagrees")
    ctx.extra["cases_evaluated_in_coq"] = len(exprs)


def replay(ctx, rep):
    from synrbl.SynUtils.chem_utils import normalize_smiles
    case = rep.get("failing_input", {})
    if "reaction" in case and "variant" in case:
        a, b = normalize_smiles(case["reaction"]), normalize_smiles(case["variant"])
        print(a, b)
        return 0 if a == b else 1
    print(json.dumps(rep, indent=1)[:2000])
    return 0
