"""C02 -- rebalancing only adds whole molecules; the given molecules are never altered."""
import random, json, re, collections
from common import *
import pipe, gens
from props import c03

RULE = ("listed witnesses first; a marker stream (rule-based / redox base reactions with spectator molecules [H][H], OO, hydroperoxides, "
        "peracids and explicit-H spellings inserted at every position of either or both sides, so that the substrings '.[H]', '.[O]', "
        "'.OO' occur inside given molecules); the corpus run and the generated run; rows given as dicts with their own id column (1-based, reversed, shuffled, sparse, textual ids); twins (mirror images, E/Z pairs, isotope-labelled and unlabelled) in one batch and in consecutive batches of one Balancer; cached re-runs of the same rows in other orders.  Every returned row is checked by an RDKit-only "
        "oracle: multiset of canonical molecules of each given side is contained in the same side of the returned reaction; "
        "input_reaction is the input with maps cleared (same molecules per side, no ':n' left).  Every batch is replayed through "
        "Model/Pipeline.run inside Coq; the oracle hypothesis of C02_partial (clean_str of every merged SMILES appended by the MCS "
        "stage) is evaluated inside Coq on every recorded answer.  Non-trivial: a row whose returned reaction differs from its input; "
        "distinct = distinct input reaction.")
ASSUMPTIONS = c03.ASSUMPTIONS + ["domain: valid closed-shell molecules, no free atomic H/O placeholders among the given molecules (rows outside are counted and skipped)",
                                 "impute_clean (hypothesis of C02_partial): merged SMILES appended by the MCS stage contain no '>' and no component cut by a marker -- evaluated on every recorded answer, exceptions are counted in the evidence and those rows are decided by the oracle alone"]
TRUSTED = ["RDKit for the independent molecule-multiset oracle"]
MARKERS = ("[H]", "[O]", "OO")
SPECT = ["[H][H]", "OO", "OOC", "OOCC", "CC(=O)OO", "[H]O[H]", "[H]OC", "[H]Cl", "[OH2]", "OOC(C)(C)C", "[O-][N+](=O)c1ccccc1", "O=O", "[H]C([H])([H])O"]
BASES = ["CCBr.O>>CCO", "CC(=O)OC.O>>CC(=O)O", "CC(C)=O>>CC(C)O", "CCO>>CC=O", "CC=O>>CC(=O)O", "CC(=O)Cl.OC>>CC(=O)OC", "CCBr>>CCO",
         "OC1CCCCC1>>O=C1CCCCC1", "CC(=O)C>>CC(O)C", "CCN.CC(=O)Cl>>CCNC(C)=O"]


def marker_stream(rng, n_random):
    out = []
    for base in BASES:
        l, p = base.split(">>")
        ls, ps = l.split("."), p.split(".")
        for s in SPECT:
            for i in range(len(ps) + 1):            # spectator on both sides (keeps the imbalance), every product position
                out.append(".".join(ls + [s]) + ">>" + ".".join(ps[:i] + [s] + ps[i:]))
            out.append(".".join([s] + ls) + ">>" + ".".join(ps))      # reactant only
            out.append(".".join(ls) + ">>" + ".".join(ps + [s]))      # product only
    for _ in range(n_random):
        base = rng.choice(BASES)
        l, p = base.split(">>")
        ls, ps = l.split("."), p.split(".")
        for _k in range(rng.randint(1, 3)):
            s = rng.choice(SPECT)
            side = rng.random()
            if side < 0.4 or side > 0.7:
                ls.insert(rng.randint(0, len(ls)), s)
            if side > 0.3:
                ps.insert(rng.randint(0, len(ps)), s)
        out.append(".".join(ls) + ">>" + ".".join(ps))
    seen, res = set(), []
    for x in out:
        if x not in seen:
            seen.add(x); res.append(x)
    return res


def placeholders(rxn):
    """free atomic H/O placeholders among the given molecules (excluded by the property's quantifier)"""
    return any(c in ("[H]", "[O]") for side in rxn.split(">>") for c in side.split("."))


def outside_guard(stripped):
    p = stripped.split(">>")[1] if stripped.count(">>") == 1 else ""
    return any(c.startswith(m) for c in p.split(".")[1:] for m in MARKERS)


def oracle(ctx, b, extra=None):
    if len(b["rows"]) != len(b["inputs"]):
        return
    pp = {k: v for k, v in b["tables"]["pp"] if v is not None}
    # merged SMILES appended by the MCS stage whose components a marker begins (hypothesis impute_clean unmet)
    dirty = {k for k, v in b["tables"]["impute"] if v[0] == "ok" and v[1].startswith(k + ".") and
             any(c.startswith(m) and c != m for c in v[1][len(k) + 1:].split(".") for m in MARKERS)}
    for inp, r in zip(b["inputs"], b["rows"]):
        ctx.evaluations += 1
        if inp.count(">>") != 1 or pipe.balanced(inp) is None:
            continue
        if not pipe.closed_shell(inp) or placeholders(inp):
            ctx.count("oracle", "out_of_domain_radical_or_placeholder")
            continue
        case = {"inputs": [inp], "row": r}
        if extra:
            case = dict(extra, row=r)
        l, p = inp.split(">>")
        ir = r["input_reaction"] or ""
        if re.search(r":\d", ir) and "[" in ir and re.search(r":\d+\]", ir):
            ctx.fail("input_reaction-keeps-atom-map", case, {})
        il, ip = (ir.split(">>") + [""])[:2]
        if pipe.canon_multiset(l) != pipe.canon_multiset(il) or pipe.canon_multiset(p) != pipe.canon_multiset(ip):
            ctx.fail("input_reaction-not-the-stripped-input", case, {"input": inp, "input_reaction": ir})
            continue
        out = r["reaction"] or ""
        if out.count(">>") != 1:
            ctx.fail("returned-reaction-malformed", case, {})
            continue
        ol, op = out.split(">>")
        missing = []
        for side, a, c in (("reactants", l, ol), ("products", p, op)):
            need, have = pipe.canon_multiset(a), pipe.canon_multiset(c)
            lost = {k: n - have.get(k, 0) for k, n in need.items() if have.get(k, 0) < n}
            if lost:
                missing.append({"side": side, "lost": {str(k): v for k, v in lost.items()}})
        guard_out = outside_guard(ir)
        ctx.count("guard", "outside" if guard_out else "inside")
        if out != ir:
            ctx.nontrivial.add(inp)
            ctx.count("changed_rows_by", str(r["solved_by"]))
        if not missing:
            continue
        detail = {"missing": missing, "input_reaction": ir, "returned": out, "post_processed": any(v == out for v in pp.values())}
        if (guard_out or ir in dirty) and all(m["side"] == "products" for m in missing):
            ctx.fail("replace-on-side-string", case, detail)
        else:
            ctx.fail("given-molecule-altered", case, detail)


CLEAN_HDR = ("From Coq Require Import String List Bool.\nFrom SynRBL Require Import Base.Strs Proofs.StrProofs Proofs.Whole.\n"
             "Import ListNotations.\nOpen Scope string_scope.\n")


def run(ctx):
    from rdkit import RDLogger
    RDLogger.DisableLog("rdApp.*")
    rng = random.Random("c02|%s|%s" % (ctx.seed, ctx.tier))
    ws = pipe.witness_inputs("C02")
    ms = marker_stream(rng, 40 if ctx.quick() else 600)
    if ctx.quick():
        ms = rng.sample(ms, 160)
    mb = [ms[i:i + 12] for i in range(0, len(ms), 12)]
    name = "c02markers_%s_%d" % (ctx.tier, ctx.seed)
    mv, _ = pipe.cached(name, lambda: pipe.run_batches(ws + mb))
    bs = pipe.corpus_run(ctx)
    gs = c03.gen_run(ctx)
    ctx.count("inputs", "witness_batches", len(ws))
    ctx.count("inputs", "marker_stream_rows", len(ms))
    ctx.count("inputs", "corpus_rows", sum(len(b["inputs"]) for b in bs))
    ctx.count("inputs", "generated_rows", sum(len(b["inputs"]) for b in gs))
    allb = mv + bs + gs
    for b in allb:
        oracle(ctx, b)
    # twins: two reactions of one batch (and of consecutive batches of one Balancer) that differ only in marks a normal form may
    # drop -- mirror images, E/Z, isotope labels; whatever is remembered about one must not be handed to the other
    def mirror(x):
        return x.replace("@@", "\0").replace("@", "@@").replace("\0", "@")
    TW = [("CC[C@H](C)C(C)=O>>CC[C@H](C)C(C)O", None), ("CC[C@H](C)C(C)O>>CC[C@H](C)C(C)=O", None), ("C[C@H](N)C(=O)Cl.CN>>C[C@H](N)C(=O)NC", None),
          ("C[C@H](O)CC=O>>C[C@H](O)CC(=O)O", None), ("C/C=C/C(C)=O>>C/C=C/C(C)O", "C/C=C\\C(C)=O>>C/C=C\\C(C)O"),
          ("[13CH3]C(C)=O>>[13CH3]C(C)O", "CC(C)=O>>CC(C)O"), ("[2H]C([2H])([2H])C=O>>[2H]C([2H])([2H])C(=O)O", "CC=O>>CC(=O)O"),
          ("C[C@H](Cl)C(=O)OC.O>>C[C@H](Cl)C(=O)O", None)]
    stereo = [i for b in bs if len(b["rows"]) == len(b["inputs"]) for i, r in zip(b["inputs"], b["rows"])
              if "@" in i and r["solved_by"] == "rule-based" and ":" not in i]
    TW += [(x, None) for x in stereo[:6 if ctx.quick() else 150]]
    twins = [[a, b if b is not None else mirror(a)] for a, b in TW]
    twins = [t for t in twins if t[0] != t[1]]
    tv, _ = pipe.cached("c02twins_%s_%d" % (ctx.tier, ctx.seed), lambda: pipe.run_batches(twins + [t[::-1] for t in twins]))
    for b in tv:
        ctx.count("twins", "batches")
        oracle(ctx, b)
    for t in twins:
        b = pipe.run_api(t, batch_size=1)          # one Balancer, consecutive batches
        ctx.count("twins", "consecutive_batches")
        oracle(ctx, b)
    # configurations: the cache switched on, the same rows submitted again in another order (what is served from the cache must still
    # be the row of the reaction it is returned for)
    import tempfile, shutil
    from synrbl import Balancer
    cdir = tempfile.mkdtemp(prefix="synrbl_c02_")
    try:
        base = ["CC(=O)Cl.CN>>CC(=O)NC", "CCBr.CN>>CCNC", "CC(=O)OC.O>>CC(=O)O", "CC(=O)C>>CC(O)C"]
        for order in ([0, 1, 2, 3], [2, 0, 3, 1], [1, 2, 3, 0], [0, 1, 2, 3]):
            ins = [base[i] for i in order]
            rows = Balancer(n_jobs=1, cache=True, cache_dir=cdir).rebalance(list(ins), output_dict=True)
            ctx.count("cached", "runs")
            oracle(ctx, {"inputs": ins, "rows": [{"input_reaction": r.get("input_reaction"), "reaction": r.get("reaction"), "solved_by": r.get("solved_by")} for r in rows],
                         "tables": {"pp": [], "impute": []}}, extra={"inputs": ins, "cache": "one cache directory, earlier runs held the same rows in other orders"})
    finally:
        shutil.rmtree(cdir, ignore_errors=True)
    import matrix
    for run in matrix.runs(ctx):
        ctx.count("matrix", run["config"][:40])
        if not run["error"]:
            oracle(ctx, matrix.as_batch(run), extra={"inputs": run["given"], "matrix": run["config"]})
    # rows given as dicts that carry their own id column (1-based, reversed, shuffled, sparse, textual): what a stage writes
    # back by id or position must still land in the row it was computed from
    pool = ["CC(=O)Cl.CN>>CC(=O)NC", "CC(=O)C>>CC(O)C", "CCBr.CN>>CCNC", "CC(=O)OC.O>>CC(=O)O", "CC(=O)O.CCO>>CC(=O)OCC.O", "CCCOC(=O)C>>OC(=O)C",
            "CCO>>CC=O", "C=C.BrBr>>BrCCBr", "CC(=O)OCC>>CCO", "c1ccccc1Br.OB(O)c1ccccc1>>c1ccccc1-c1ccccc1"] + [m for m in ms[:20] if m.count(">>") == 1]
    for j in range(8 if ctx.quick() else 120):
        rx = rng.sample(pool, rng.randint(3, 6))
        n = len(rx)
        ids = [list(range(1, n + 1)), list(range(n - 1, -1, -1)), rng.sample(range(n), n), [str(i) for i in rng.sample(range(n), n)],
               ["r%d" % i for i in range(n)], rng.sample(range(0, 3 * n), n)][j % 6]
        for col in ("id",):
            rows_in = [{"reaction": s, col: i} for s, i in zip(rx, ids)]
            try:
                b = pipe.run_api(rows_in)
            except Exception as e:
                ctx.count("dict_rows", "raised")
                continue
            ctx.count("dict_rows", "batches")
            b["inputs"] = rx
            oracle(ctx, b, extra={"inputs": rx, "ids": ids})
    for b in mv[:3]:
        if b["rows"]:
            ctx.sample({"input": b["inputs"][0], "row": b["rows"][0]})
    pipe.eval_pipeline_cases(ctx, allb, "c02")
    # the oracle hypothesis of C02_partial, evaluated inside Coq on every recorded impute answer
    merged = []
    for b in allb:
        for k, v in b["tables"]["impute"]:
            if v[0] == "ok" and v[1].startswith(k + "."):
                merged.append(v[1][len(k) + 1:])
    merged = sorted(set(merged))
    if merged:
        rc, out = sh("timeout 1500 make -j%d Proofs/Whole.vo 2>&1" % NPROC, cwd=COQ)
        exprs = []
        for m in merged:
            try:
                exprs.append("clean_str %s" % cstr(m))
            except (TypeError, ValueError):
                exprs.append("false")
        bad, errors = eval_cases("c02clean", CLEAN_HDR, "", exprs, ctx.work, shard=400)
        for fn, o in errors:
            ctx.broken.append({"what": "case file did not evaluate", "where": fn, "detail": o})
        ctx.extra["impute_clean_checked"] = len(merged)
        ctx.extra["impute_clean_unmet"] = [merged[i] for i in bad][:20]
        if bad:
            ctx.notes.append("hypothesis impute_clean of C02_partial not met by %d recorded merged SMILES (rows decided by the oracle alone)" % len(bad))


def replay(ctx, rep):
    case = rep.get("failing_input", {})
    if isinstance(case, dict) and "ids" in case:
        b = pipe.run_api([{"reaction": s, "id": i} for s, i in zip(case["inputs"], case["ids"])])
        b["inputs"] = case["inputs"]
        print(json.dumps(b["rows"], indent=1))
        n = len(ctx.failures); oracle(ctx, b, extra={"inputs": case["inputs"], "ids": case["ids"]})
        return 1 if len(ctx.failures) > n else 0
    if isinstance(case, dict) and "inputs" in case:
        b = pipe.run_batch(case["inputs"])
        print(json.dumps(b["rows"], indent=1))
        n = len(ctx.failures); oracle(ctx, b)
        return 1 if len(ctx.failures) > n else 0
    return 0
