"""C19 -- rule database under edits.  Correspondence: RuleImputeManager vs Model/RuleDB.v on
operation histories (exhaustive short ones from the empty database, random long ones from the
shipped databases); property oracle: invariant recomputed independently after every step."""
import itertools, collections, copy, json, io, contextlib
from common import *

RULE = ("histories of add_entry / add_entries / remove_entry over an alphabet of valid, invalid, duplicate-formula, "
        "duplicate-SMILES, charged, heavy-element, isotope-labelled, empty-string and non-canonically spelled compounds, bulk adds with a label clash inside the batch, removals that name some entry's SMILES instead of a formula: ALL histories up to length 3 (quick) / 4 (thorough) "
        "from the empty database, random histories up to length 40 from both shipped databases; the database after the history and "
        "every returned rejection list are compared with the model.  Non-trivial: a history with at least one accepted and one "
        "rejected operation; distinct = distinct (start, history).")
ASSUMPTIONS = ["atoms oracle = RDKit parse of each alphabet SMILES (table shipped with every case file)"]
TRUSTED = ["RDKit for validity and true composition of alphabet compounds"]
HDR = ("From Coq Require Import String ZArith List Bool.\nFrom SynRBL Require Import Base.Dict Base.Strs Model.Comp Model.Matcher Model.RuleDB Gen.GenSymbols Gen.GenRules.\n"
       "Import ListNotations.\nOpen Scope string_scope. Open Scope Z_scope.\n")

ALPHA = [("H2O", "O"), ("HCl", "Cl"), ("H2O", "OO"), ("water", "O"), ("bad", "XX"), ("OH-", "[OH-]"), ("e", ""),
         ("NaCl", "[Na+].[Cl-]"), ("U", "[U]"), ("Cl2", "ClCl"), ("NH3", "N"), ("H3N", "N"), ("H2", "[H][H]"), ("bad2", "C1CC"),
         # syntactically fine but chemically impossible: RDKit's sanitising parser rejects them
         ("CH5x", "C(C)(C)(C)(C)C"), ("NH5", "[NH5]"), ("arom", "c1cccn1"), ("F2x", "F=F"),
         # non-canonical spellings (the database stores the SMILES as offered) and a second label / a second spelling for them
         ("CH4O", "OC"), ("MeOH", "OC"), ("methanol", "CO"), ("nitrate", "[N+](=O)([O-])[O-]"), ("NO3-", "[N+](=O)([O-])[O-]"), ("boric", "B(O)(O)O"),
         # the same label for different compounds (inside one bulk add the first is accepted, the second rejected)
         ("acid", "CC(=O)O"), ("acid", "OC=O"), ("HCl", "C1"),
         # isotope-labelled hydrogens stay atoms of the graph (a hydrogen counter that also walks the neighbours counts them twice)
         ("D2O", "[2H]O[2H]"), ("DCl", "[2H]Cl"), ("CD3OD", "[2H]OC([2H])([2H])[2H]"),
         # labels / SMILES that differ from others only by surrounding white space (stored as offered, so they are different strings)
         ("H2O ", "[OH2]"), (" Cl2", "[Cl][Cl]"), ("water3", "O ")]


def atoms_of(s):
    from rdkit import Chem
    m = Chem.MolFromSmiles(s)
    if m is None:
        return None
    return [a.GetAtomicNum() for a in m.GetAtoms()] + [1] * sum(a.GetTotalNumHs() for a in m.GetAtoms()), sum(a.GetFormalCharge() for a in m.GetAtoms())


def true_comp(s):
    from rdkit import Chem
    m = Chem.MolFromSmiles(s)
    if m is None:
        return None
    c = collections.Counter()
    for a in m.GetAtoms():
        c[a.GetSymbol()] += 1
        c["H"] += a.GetTotalNumHs()
        c["Q"] += a.GetFormalCharge()
    return {k: v for k, v in c.items() if v != 0}


def cop(o):
    if o[0] == "add":
        return "Add %s %s" % (cstr(o[1]), cstr(o[2]))
    if o[0] == "many":
        return "AddMany %s" % clist(o[1], lambda e: cpair(cstr(e[0]), cstr(e[1])))
    return "Remove %s" % cstr(o[1])


def cdb(db):
    return clist(db, lambda d: "(%s, %s, %s)" % (cstr(d["formula"]), cstr(d["smiles"]), cdict(d["Composition"])))


def dup_pairs(db):
    out = set()
    for key in ("formula", "smiles"):
        c = collections.Counter(d[key] for d in db)
        out |= {(key, k) for k, n in c.items() if n > 1}
    return out


def check_inv(ctx, db, start_dups, case):
    new = dup_pairs(db) - start_dups
    if new:
        ctx.fail("duplicate-entries", case, {"duplicates": sorted(new)})
    old = dup_pairs(db) & start_dups
    if old:
        ctx.fail("shipped-duplicates", {"start": case["start"], "duplicates": sorted(old)}, {"note": "present in the shipped file before any operation"})
    for d in db:
        tc = true_comp(d["smiles"])
        if tc is None or {k: v for k, v in d["Composition"].items() if v != 0} != tc or "Q" not in d["Composition"]:
            ctx.fail("composition-not-true", case, {"record": d, "true": tc})


def run(ctx):
    from rdkit import RDLogger
    RDLogger.DisableLog("rdApp.*")
    from synrbl.SynRuleImputer.rule_data_manager import RuleImputeManager
    from synrbl.rule_based import RuleBasedMethod
    shipped = RuleBasedMethod("id", "reaction", "reaction").rules
    with open(os.path.join(REPO, "Data", "Rules", "automated_rules.json.gz")) as f:
        auto = json.load(f)
    starts = {"empty": [], "rules_manager": shipped, "automated_rules": auto}
    # the shipped files themselves (history of length 0)
    for name in ("rules_manager", "automated_rules"):
        ctx.evaluations += 1
        check_inv(ctx, starts[name], dup_pairs(starts[name]), {"start": name, "ops": []})

    ops_alpha = [("add", f, s) for f, s in ALPHA[:9]] + [("add",) + ALPHA[14]] + [("remove", "H2O"), ("remove", "OH-"), ("remove", "nope"),
                 ("many", [ALPHA[0], ALPHA[4], ALPHA[5]]), ("many", [ALPHA[3], ALPHA[1]]),
                 ("add",) + ALPHA[18], ("add",) + ALPHA[19], ("many", [ALPHA[24], ALPHA[25]]), ("many", [ALPHA[1], ALPHA[26], ALPHA[20]]),
                 # removal names a FORMULA: a string that is only some entry's SMILES ("O" = water's SMILES, "OC" = methanol's) names nothing
                 ("remove", "O"), ("remove", "OC"), ("add",) + ALPHA[27], ("add",) + ALPHA[30], ("many", [ALPHA[0], ALPHA[30], ALPHA[32]])]
    L = 3 if ctx.quick() else 4
    hist = []
    for n in range(1, L + 1):
        for seq in itertools.product(ops_alpha, repeat=n):
            hist.append(("empty", list(seq)))
    ctx.count("H", "exhaustive_histories_from_empty", len(hist))
    ctx.exhaustive = True
    ctx.extra["exhaustive_scope"] = "all histories of length <= %d over %d operations from the empty database" % (L, len(ops_alpha))
    nrand = 150 if ctx.quick() else 1500
    for _ in range(nrand):
        start = ctx.rng.choice(["rules_manager", "automated_rules", "empty"])
        seq = []
        for _ in range(ctx.rng.randint(1, 40)):
            r = ctx.rng.random()
            if r < 0.45:
                f, s = ctx.rng.choice(ALPHA + [(d["formula"], d["smiles"]) for d in ctx.rng.sample(shipped, 3)])
                seq.append(("add", f, s))
            elif r < 0.65:
                seq.append(("many", [ctx.rng.choice(ALPHA) for _ in range(ctx.rng.randint(0, 3))]))
            else:
                pool = [d["formula"] for d in starts[start]] + [f for f, _ in ALPHA] + [d["smiles"] for d in ctx.rng.sample(starts[start], min(3, len(starts[start])))] + ["O", "N", "CO"]
                seq.append(("remove", ctx.rng.choice(pool)))
        hist.append((start, seq))
    ctx.count("H", "random_histories", nrand)

    smiles_all = sorted({s for _, s in ALPHA} | {d["smiles"] for d in shipped + auto})
    tbl = clist(smiles_all, lambda s: cpair(cstr(s), copt(atoms_of(s), lambda a: cpair(clist(a[0], cz), cz(a[1])))))
    DEFS = """
Definition atoms_tbl : list (string * option (list Z * Z)) := %s.
Fixpoint atoms_lookup (l : list (string * option (list Z * Z))) (s : string) : option (list Z * Z) :=
  match l with [] => None | (k, v) :: t => if String.eqb s k then v else atoms_lookup t s end.
Definition atoms := atoms_lookup atoms_tbl.
Notation T := (atomic_symbols ++ rdkit_symbols)%%list.
Definition of_rules (rs : list rule) : list entry := map (fun r => {| eformula := rformula r; esmiles := rsmiles r; ecomp := rcomp r |}) rs.
Definition start (n : nat) : list entry := match n with O => [] | S O => of_rules rules_manager | _ => of_rules automated_rules end.
Definition ent_eq (a : entry) (b : string * string * dict) : bool :=
  String.eqb (eformula a) (fst (fst b)) && String.eqb (esmiles a) (snd (fst b)) && dict_eqb (ecomp a) (snd b).
Fixpoint db_eq (a : list entry) (b : list (string * string * dict)) : bool :=
  match a, b with [] , [] => true | x :: a', y :: b' => ent_eq x y && db_eq a' b' | _, _ => false end.
Definition pair_eq (a b : string * string) : bool := String.eqb (fst a) (fst b) && String.eqb (snd a) (snd b).
(* run a history, collecting the rejection lists of the bulk operations *)
Fixpoint runh (db : list entry) (ops : list op) : list entry * list (list (string * string)) :=
  match ops with
  | [] => (db, [])
  | o :: t =>
    let rej := match o with AddMany es => [snd (add_entries atoms T db es)] | _ => [] end in
    let '(db', r) := runh (step atoms T db o) t in (db', (rej ++ r)%%list)
  end.
Definition hck (n : nat) (ops : list op) (e : list (string * string * dict)) (rej : list (list (string * string))) : bool :=
  let '(db, r) := runh (start n) ops in db_eq db e && list_eqb (list_eqb pair_eq) r rej.
""" % tbl
    exprs, meta = [], []
    sidx = {"empty": 0, "rules_manager": 1, "automated_rules": 2}
    for start, seq in hist:
        db0 = copy.deepcopy(starts[start])
        start_dups = dup_pairs(db0)
        m = RuleImputeManager(db0)
        rejs = []
        acc = rej = 0
        buf = io.StringIO()
        crashed = False
        with contextlib.redirect_stdout(buf):
            for o in seq:
                if crashed:
                    break
                before = copy.deepcopy(m.database)
                if o[0] == "add":
                    try:
                        m.add_entry(o[1], o[2]); acc += 1
                        rejected = False
                    except ValueError:
                        rej += 1
                        rejected = True
                    except Exception as e:
                        ctx.fail("operation-raised", {"start": start, "ops": seq}, {"op": o, "error": "%s: %s" % (type(e).__name__, e)})
                        crashed = True
                        continue
                    # property: rejected <=> duplicate formula / duplicate smiles / invalid; a rejection changes nothing
                    should = (any(d["formula"] == o[1] for d in before) or any(d["smiles"] == o[2] for d in before) or true_comp(o[2]) is None)
                    if rejected != should:
                        ctx.fail("wrong-accept-or-reject", {"start": start, "ops": seq}, {"op": o, "rejected": rejected})
                    if rejected and m.database != before:
                        ctx.fail("reject-changed-database", {"start": start, "ops": seq}, {"op": o})
                elif o[0] == "many":
                    try:
                        r = m.add_entries([{"formula": f, "smiles": s} for f, s in o[1]])
                    except Exception as e:
                        ctx.fail("operation-raised", {"start": start, "ops": seq}, {"op": o, "error": "%s: %s" % (type(e).__name__, e)})
                        crashed = True
                        continue
                    rejs.append([(e["formula"], e["smiles"]) for e in r])
                    # property: exactly the entries that cannot be added are reported (independent rule: duplicate formula or SMILES
                    # among what the database holds at that moment, or an invalid SMILES)
                    cur, exp_rej = [(d["formula"], d["smiles"]) for d in before], []
                    for f_, s_ in o[1]:
                        if any(f_ == a for a, _ in cur) or any(s_ == b for _, b in cur) or true_comp(s_) is None:
                            exp_rej.append((f_, s_))
                        else:
                            cur.append((f_, s_))
                    if [(e["formula"], e["smiles"]) for e in r] != exp_rej:
                        ctx.fail("bulk-add-misreports-rejections", {"start": start, "ops": seq}, {"op": o, "reported": [(e["formula"], e["smiles"]) for e in r], "expected": exp_rej})
                    acc += len(o[1]) - len(r); rej += len(r)
                else:
                    try:
                        m.remove_entry(o[1])
                    except Exception as e:
                        ctx.fail("operation-raised", {"start": start, "ops": seq}, {"op": o, "error": "%s: %s" % (type(e).__name__, e)})
                        crashed = True
                        continue
                    named = [d for d in before if d["formula"] == o[1]]
                    exp = list(before)
                    if named:
                        exp.remove(named[0])
                    if m.database != exp:
                        ctx.fail("remove-deleted-wrong-entries", {"start": start, "ops": seq}, {"op": o})
        ctx.evaluations += 1
        if crashed:
            continue
        if acc and rej:
            ctx.nontrivial.add((start, json.dumps(seq)))
        check_inv(ctx, m.database, start_dups, {"start": start, "ops": seq})
        try:
            exprs.append("hck %s %s %s %s" % (cnat(sidx[start]), clist(seq, cop), cdb(m.database),
                                               clist(rejs, lambda r: clist(r, lambda e: cpair(cstr(e[0]), cstr(e[1]))))))
            meta.append(({"start": start, "ops": seq}, m.database))
        except (TypeError, ValueError) as e:
            ctx.mismatch("database shape", {"start": start, "ops": seq}, repr(m.database)[:500], str(e))
    ctx.sample({"start": hist[-1][0], "ops": hist[-1][1][:6]})
    ctx.sample({"start": "empty", "ops": hist[200][1]})
    if not ctx.model_built:
        ctx.notes.append("model not built (a proof obligation failed); correspondence evaluated against the model files only if they compile")
    # the model files (not the property file) are enough to run the correspondence
    rc, out = sh("timeout 900 make -j%d Model/RuleDB.vo Gen/GenRules.vo Gen/GenSymbols.vo 2>&1" % NPROC, cwd=COQ)
    if rc != 0:
        ctx.broken.append({"what": "model does not build", "detail": out[-1500:]})
        return
    bad, errors = eval_cases("c19", HDR, DEFS, exprs, ctx.work, shard=500)
    for fn, out in errors:
        ctx.broken.append({"what": "case file did not evaluate", "where": fn, "detail": out})
    for i in bad:
        ctx.mismatch("RuleImputeManager history", meta[i][0], meta[i][1], "model disagrees")
    ctx.extra["cases_evaluated_in_coq"] = len(exprs)


def replay(ctx, rep):
    print(json.dumps(rep, indent=1)[:3000])
    return 0
