"""C10 -- MCS search reports genuine, correctly attributed, largest common substructures."""
import random, json, itertools, collections
from common import *
import mcs, pipe, corpus

RULE = ("(T) get_largest_condition on synthetic result tables: 1-3 conditions x 1-3 reactions, every cell one of "
        "(total, first pattern) in {(0,0),(1,0),(1,1),(2,0),(2,1),(2,2),(3,1)} or empty/failed, ragged tables included (quick: sampled, "
        "thorough: ALL 2-condition x 2-reaction tables + samples of the rest), compared entry-by-entry with Model/McsSelect inside Coq; "
        "(R) corpus reactions that reach the MCS stage (plus batches of reactions that consist of the same compounds in different multiplicities), run through the real Balancer with observers on every search job: the attached "
        "record must be the row's own (id), one of its own job results, with the largest total among its conditions; its molecule list "
        "must be the multiset of molecules of the carbon-richer side and every pattern must match its molecule (RDKit); the observed job "
        "outcomes are replayed through Model/McsSelect.find inside Coq; the same batches again (S) with 3 worker threads and finished search jobs held back so that the "
        "completion order differs between conditions, and (F) with one condition of a row made to report 'uncertain' or to fail.  Non-trivial: a reaction with >= 2 conditions returning patterns; "
        "distinct = distinct table / reaction.")
ASSUMPTIONS = ["containment of an MCS pattern in its molecule and what the largest common substructure is are RDKit's contract (checked with HasSubstructMatch on every reported pair)"]
TRUSTED = ["RDKit FMCS / RascalMCES as oracles; observers (module-attribute wrappers; n_jobs=1, and joblib's threading backend for the schedule stream)"]
CELLS = [(0, 0), (1, 0), (1, 1), (2, 0), (2, 1), (2, 2), (3, 1), None]
HDR = mcs.HDR
DEFS = """
Definition dat (id c : nat) (ps : list nat) : mcsdata := {| mid := id; mcond := c; mres := ps; msorted := 0; missue := "" |}.
Definition tag (d : mcsdata) : nat * nat := (mid d, mcond d).
Fixpoint teq (a b : list (nat * nat)) : bool :=
  match a, b with [], [] => true | (x, y) :: a', (u, v) :: b' => Nat.eqb x u && Nat.eqb y v && teq a' b' | _, _ => false end.
Definition gcase (conds : list (list mcsdata)) (e : list (nat * nat)) : bool := teq (map tag (get_largest_condition conds)) e.
"""


def pats(cell):
    if cell is None:
        return []
    tot, first = cell
    out = ["C" * first if first else ""]
    rest = tot - first
    if rest:
        out.append("C" * rest)
    if tot == 0:
        out = [""] if first == 0 else out
    return out


def run(ctx):
    from rdkit import RDLogger, Chem
    RDLogger.DisableLog("rdApp.*")
    from synrbl.SynMCSImputer.SubStructure.extract_common_mcs import ExtractMCS
    rng = random.Random("c10|%s|%s" % (ctx.seed, ctx.tier))
    # ---- (T) selection tables
    tables = []
    if not ctx.quick():
        for cells in itertools.product(CELLS, repeat=4):
            tables.append([[cells[0], cells[1]], [cells[2], cells[3]]])
        ctx.exhaustive = True
        ctx.extra["exhaustive_scope"] = "all %d tables of 2 conditions x 2 reactions over %d cell values" % (len(CELLS) ** 4, len(CELLS))
    for _ in range(250 if ctx.quick() else 3000):
        nc, nr = rng.randint(1, 3), rng.randint(1, 3)
        t = [[rng.choice(CELLS) for _ in range(nr if rng.random() < 0.85 else rng.randint(0, nr))] for _ in range(nc)]
        tables.append(t)
    exprs, meta = [], []
    for t in tables:
        conds = [[{"id": i, "cond": c, "mcs_results": pats(cell), "sorted_reactants": [], "issue": ""} for i, cell in enumerate(col)] for c, col in enumerate(t)]
        try:
            res = ExtractMCS.get_largest_condition(*copy_conds(conds))
            exp = [(d["id"], d["cond"]) for d in res]
        except Exception as e:
            ctx.count("T", "raised")
            continue
        ctx.evaluations += 1
        if sum(1 for col in t for cell in col if cell and cell[0] > 0) >= 2:
            ctx.nontrivial.add(json.dumps(t))
        # oracle: retained entry has the largest total at its index, and is the row's own
        for (i, c) in exp:
            tot = lambda cell: 0 if cell is None else cell[0]
            colv = [tot(col[i]) for col in t if i < len(col)]
            if tot(t[c][i]) != max(colv):
                ctx.fail("retained-condition-not-largest", {"table": t}, {"retained": [i, c]})
        coq = clist(conds, lambda col: clist(col, lambda d: "(dat %s %s %s)" % (cnat(d["id"]), cnat(d["cond"]), clist([mcs.natoms(p) for p in d["mcs_results"]], cnat))))
        exprs.append("gcase %s %s" % (coq, clist(exp, lambda p: cpair(cnat(p[0]), cnat(p[1])))))
        meta.append((t, exp))
    ctx.count("T", "tables", len(exprs))
    rc, out = sh("timeout 900 make -j%d Model/McsSelect.vo 2>&1" % NPROC, cwd=COQ)
    if rc != 0:
        ctx.broken.append({"what": "model does not build", "detail": out[-1500:]})
        return
    bad, errors = eval_cases("c10t", HDR, DEFS, exprs, ctx.work, shard=500)
    for fn, o in errors:
        ctx.broken.append({"what": "case file did not evaluate", "where": fn, "detail": o})
    for i in bad:
        ctx.mismatch("get_largest_condition vs Model/McsSelect.get_largest_condition", {"table": meta[i][0]}, meta[i][1], "model disagrees")
    # ---- (R) corpus reactions at the MCS stage
    base = pipe.corpus_run(ctx)
    ins = [inp for b in base if len(b["rows"]) == len(b["inputs"]) for inp, r in zip(b["inputs"], b["rows"]) if r["solved_by"] not in ("input-balanced", "rule-based")]
    ins = ins[:36 if ctx.quick() else 600] + ["CC>>O", "c1ccccc1>>N", "CCO>>CCO", "CCOC(=O)C>>CC(=O)O",
                                              # sides that differ in AROMATIC carbons only / against the aliphatic difference
                                              "CC(=O)Cl>>CC(=O)c1ccccc1", "CCOC(=O)c1ccc(Br)cc1.CCO>>OC(=O)c1ccc(-c2ccccc2)cc1", "CC(=O)c1ccccc1>>CC(=O)O"]
    rng.shuffle(ins)
    items = [(ins[i:i + 6], None, 0) for i in range(0, len(ins), 6)]
    # equivalents: reactions of one batch that consist of the same compounds in different multiplicities (and exact repetitions)
    TB = "CCCC(=O)OCC(OC(=O)CCC)COC(=O)CCC"
    items += [([TB + ".CO.CO.CO>>CCCC(=O)OC", TB + ".CO.CO>>CCCC(=O)OC", TB + ".CO.CO.CO>>CCCC(=O)OC", "CC(=O)OCC.CN.CN>>CC(=O)NC", "CC(=O)OCC.CN>>CC(=O)NC"], None, 0),
              (["CC(=O)OCC.CN>>CC(=O)NC", "CC(=O)OCC.CN.CN>>CC(=O)NC", "CC(=O)OCC.CC(=O)OCC.CN>>CC(=O)NC", "CC(=O)OCC.CN>>CC(=O)NC"], None, 0)]
    # schedules: the same batches with 3 workers (threads) and finished search jobs held back so that the completion order differs
    # from condition to condition; faults: one condition of a row reports "uncertain" / fails / times out while the others succeed
    sched, faults = [], []
    for inputs, _, _ in items[:4 if ctx.quick() else 40]:
        plan = {"%d:%d" % (i, c): "hold:%s" % rng.choice(["0", "0.1", "0.25", "0.4"]) for i in range(len(inputs)) for c in range(3)}
        sched.append((inputs, {"search": plan}, 0, 3))
    for inputs, _, _ in items[:4 if ctx.quick() else 40]:
        plan = {"%d:%d" % (i, rng.randrange(3)): rng.choice(["uncertain", "uncertain", "raise"]) for i in range(len(inputs)) if rng.random() < 0.7}
        faults.append((inputs, {"search": plan}, 0))
    recs, _ = pipe.cached("c10_%s_%d" % (ctx.tier, ctx.seed), lambda: mcs.run_many(items + sched + faults))
    ctx.count("R", "scheduled_batches(3 workers, held jobs)", len(sched))
    ctx.count("R", "fault_batches(uncertain/raise in one condition)", len(faults))
    cases, cmeta = [], []
    for rec in recs:
        if rec["error"] or not rec["after_find"]:
            ctx.mismatch("MCS-stage run raised", rec["inputs"][:2], rec["error"], None)
            continue
        for pos, a in enumerate(rec["after_find"]):
            if rec["solved_before"][pos]:
                continue
            ctx.evaluations += 1
            case = {"inputs": rec["inputs"], "row": pos}
            if rec.get("plan"):
                case["plan"] = rec["plan"]; case["workers"] = rec.get("workers", 1)
            myjobs = {int(k.split(":")[1]): j for k, j in rec["jobs"].items() if int(k.split(":")[0]) == pos}
            if sum(1 for j in myjobs.values() if j["mcs_results"]) >= 2:
                ctx.nontrivial.add(rec["inputs"][pos])
            if a["none"]:
                ctx.count("R", "no_mcs")
                continue
            ctx.count("R", "with_mcs")
            if str(a["mcs_id"]) != str(a["id"]):
                ctx.fail("result-attached-to-another-reaction", case, {"row_id": a["id"], "data_id": a["mcs_id"]})
            tot = sum(mcs.natoms(s) for s in a["mcs_results"])
            # a search job that hit its wall-clock limit returns an empty record, but its worker thread keeps running and may fill that
            # record later: what the observer saw at return time is then not what the selection sees.  Such rows are not comparable.
            timed_out = any((j["issue"] or "") == "MCS search terminated by timeout." for j in myjobs.values())
            if not any(j["mcs_results"] == a["mcs_results"] for j in myjobs.values()):
                if timed_out:
                    ctx.timing_unstable += 1
                    continue
                ctx.fail("attached-data-not-own-job-result", case, {"attached": a["mcs_results"]})
            if not any(j["mcs_results"] == a["mcs_results"] and (j["issue"] or "") == "" for j in myjobs.values()):
                if timed_out:
                    ctx.timing_unstable += 1
                    continue
                ctx.fail("attached-data-from-a-job-that-reported-an-issue", case, {"attached": a["mcs_results"], "jobs": myjobs})
            if any(sum(mcs.natoms(s) for s in j["mcs_results"]) > tot for j in myjobs.values() if (j["issue"] or "") == ""):
                ctx.fail("retained-condition-not-largest", case, {"retained_total": tot, "totals": {c: sum(mcs.natoms(s) for s in j["mcs_results"]) for c, j in myjobs.items()}})
            if (a["issue"] or "") == "":
                rxn = a["reaction"]
                l, p = rxn.split(">>")
                # the carbon-richer side by an independent count (atomic number 6 with RDKit), not by the implementation's own label
                cl, cp = pipe.carbons(l), pipe.carbons(p)
                side = (l if cl >= cp else p) if (cl is not None and cp is not None) else (l if a["carbon"] in ("products", "balanced") else p)
                want, got = pipe.canon_multiset(side), pipe.canon_multiset(".".join(a["sorted_reactants"]))
                if want != got:
                    extra, missing = got - want, want - got
                    # the list is read from the row's 'reactants'/'products' keys, which Validator.check refreshes BEFORE it resets an
                    # unsolved reaction: after the both-side shortcut they still hold the inserted water molecules
                    keyside = (a.get("side_keys") or [None, None])[0 if a["carbon"] in ("products", "balanced") else 1]
                    stale = (not missing) and (set(extra) == {"O"} or (keyside is not None and pipe.canon_multiset(keyside) == got))
                    ctx.fail("stale-side-keys-after-water-step" if stale else "molecule-list-not-the-carbon-richer-side", case,
                             {"side": side, "sorted_reactants": a["sorted_reactants"]})
                for smi, pat in zip(a["sorted_reactants"], a["mcs_results"]):
                    m, q = Chem.MolFromSmiles(smi), Chem.MolFromSmarts(pat)
                    if m is not None and q is not None and q.GetNumAtoms() and not m.HasSubstructMatch(q):
                        ctx.fail("pattern-not-contained-in-its-molecule", case, {"molecule": smi, "pattern": pat})
        try:
            cases.append(mcs.coq_find_case(rec)); cmeta.append(rec["inputs"])
        except ValueError as e:
            # the same wall-clock effect as above: a record filled by a worker thread after its job had been reported as timed out
            if any((j["issue"] or "") == "MCS search terminated by timeout." for j in rec["jobs"].values()):
                ctx.timing_unstable += 1
            else:
                ctx.fail("attached-data-not-own-job-result", {"inputs": rec["inputs"]}, {"error": str(e)})
    bad, errors = eval_cases("c10f", mcs.HDR, mcs.DEFS, cases, ctx.work, shard=10)
    for fn, o in errors:
        ctx.broken.append({"what": "case file did not evaluate", "where": fn, "detail": o})
    for i in bad:
        ctx.mismatch("MCSSearch.find (observed job outcomes) vs Model/McsSelect.find", {"inputs": cmeta[i]}, None, "model disagrees")
    ctx.extra["find_batches_replayed_in_coq"] = len(cases)
    ctx.sample({"table": meta[0][0], "retained": meta[0][1]})
    if recs and recs[0]["after_find"]:
        ctx.sample({"inputs": recs[0]["inputs"][:2], "after_find": recs[0]["after_find"][:1]})


def copy_conds(conds):
    import copy
    return copy.deepcopy(conds)


def replay(ctx, rep):
    print(json.dumps(rep, indent=1)[:3000])
    case = rep.get("failing_input", {})
    if isinstance(case, dict) and "inputs" in case and "table" not in case:
        rec = mcs.run_with_plan(case["inputs"], case.get("plan"), 0, case.get("workers", 1))
        print(json.dumps(rec["after_find"], indent=1)[:3000])
    return 0
