"""C15 -- atom-map removal keeps every molecule chemically identical; no map number survives."""
import random, json, re, itertools
from common import *
import corpus

ALPHA = "[]:1ClHBr@+n"
P = 2147483629
RULE = ("(X) EXHAUSTIVE: every string of length <= 4 (quick) / <= 5 (thorough) over the 12-symbol alphabet '[ ] : 1 C l H B r @ + n' "
        "-- the implementation's two re.sub passes vs Model/Aam.remove_atom_mapping, compared through a positional digest that Coq "
        "computes by enumerating the domain itself (a mismatch is bisected to one string); (G) generated bracket atoms: every "
        "periodic-table and aromatic symbol x isotope x chirality x H count x charge x map number, embedded in molecule contexts; "
        "(R) corpus reactions with their shipped atom maps and with random maps; model output compared string-exactly.  Property "
        "oracle (RDKit only) on every valid closed-shell string: each molecule after map removal is the same molecule as the original "
        "with its maps cleared; no ':digit' survives; pipeline outputs carry no map -- for lists of strings, lists of dicts, Dataset(list / json / csv) inputs and for a cached re-run of one Balancer after remove_aam is switched on.  Non-trivial: a string containing a bracket atom "
        "with a map number; distinct = distinct string.")
ASSUMPTIONS = ["inputs are ASCII (Python's \\d would also match non-ASCII digits)", "RDKit decides molecule identity (canonical SMILES after clearing maps)"]
TRUSTED = ["Python re as the implementation's engine; RDKit for the identity oracle"]
HDR = ("From Coq Require Import String Ascii ZArith NArith List Bool.\nFrom SynRBL Require Import Base.Strs Model.Aam.\n"
       "Import ListNotations.\nOpen Scope string_scope.\n")
DIG_DEFS = """
Definition alphabet : list ascii := ["["; "]"; ":"; "1"; "C"; "l"; "H"; "B"; "r"; "@"; "+"; "n"]%char.
Fixpoint nth_str (k : nat) (i : N) : string :=
  match k with O => "" | S k' => let b := (12 ^ N.of_nat k')%N in String (nth (N.to_nat (i / b)) alphabet " "%char) (nth_str k' (i mod b)%N) end.
Fixpoint hash_go (h : N) (s : string) : N :=
  match s with EmptyString => h | String c t => hash_go ((h * 131 + N_of_ascii c + 1) mod 2147483629)%N t end.
Definition hash (s : string) : N := hash_go 7%N s.
Definition step (k : nat) (st : N * N) : N * N :=
  let '(i, acc) := st in ((i + 1)%N, ((acc + (i + 1) * hash (remove_atom_mapping (nth_str k i))) mod 2147483629)%N).
Definition digest (k : nat) (lo n : N) : N := snd (N.iter n (step k) (lo, 0%N)).
"""


def hash_py(s):
    h = 7
    for ch in s:
        h = (h * 131 + ord(ch) + 1) % P
    return h


def nth_str(k, i):
    out = []
    for j in range(k - 1, -1, -1):
        b = 12 ** j
        out.append(ALPHA[i // b]); i %= b
    return "".join(out)


def digest_py(f, k, lo, n):
    acc = 0
    for i in range(lo, lo + n):
        acc = (acc + (i + 1) * hash_py(f(nth_str(k, i)))) % P
    return acc


def coq_digests(ctx, queries):
    """queries: list of (k, lo, n) -> list of N"""
    body = HDR + DIG_DEFS + "\n".join("Eval vm_compute in (digest %d %d%%N %d%%N)." % q for q in queries) + "\n"
    fn = os.path.join(ctx.work, "c15dig.v")
    with open(fn, "w") as f:
        f.write(body)
    rc, out = coqc(fn, cwd=ctx.work, timeout=1500)
    vals = [int(x) for x in re.findall(r"=\s*(\d+)%N", out)]
    for ext in (".vo", ".vok", ".vos", ".glob"):
        try:
            os.remove(fn[:-2] + ext)
        except OSError:
            pass
    if rc != 0 or len(vals) != len(queries):
        ctx.broken.append({"what": "digest file did not evaluate", "detail": out[-1500:]})
        return None
    return vals


def same_molecules(a, b):
    """RDKit-only: per reaction side, the molecules of a (maps cleared) and of b are the same multiset. None = a invalid/out of domain"""
    from rdkit import Chem
    sa, sb = a.split(">>"), b.split(">>")
    if len(sa) != len(sb):
        return False
    for x, y in zip(sa, sb):
        mx = Chem.MolFromSmiles(x)
        if mx is None:
            return None
        if any(at.GetNumRadicalElectrons() for at in mx.GetAtoms()):
            return None
        for at in mx.GetAtoms():
            at.SetAtomMapNum(0)
        my = Chem.MolFromSmiles(y)
        if my is None:
            return False
        for at in my.GetAtoms():
            at.SetAtomMapNum(0)
        if Chem.MolToSmiles(mx) != Chem.MolToSmiles(my):
            return False
    return True


HYDRIDE = re.compile(r"\[(?:B|C|N|O|P|S|F|Cl|Br|I){1,2}(?:H\d?)?(?::\d+)?\]")


def classify(s):
    if re.search(r":\d", re.sub(r"\[[^\]]*\]", "", s)):      # a colon outside brackets is an aromatic bond; the digit after it a ring closure
        return "ring-closure-after-colon"
    if HYDRIDE.search(s):
        return "hypervalent-hydride-unbracketed"
    return "molecule-changed-by-map-removal"


def run(ctx):
    from rdkit import RDLogger, Chem
    RDLogger.DisableLog("rdApp.*")
    from synrbl.SynUtils.chem_utils import remove_atom_mapping as ram
    import gen_data
    rng = random.Random("c15|%s|%s" % (ctx.seed, ctx.tier))
    rc, out = sh("timeout 900 make -j%d Model/Aam.vo 2>&1" % NPROC, cwd=COQ)
    if rc != 0:
        ctx.broken.append({"what": "model does not build", "detail": out[-1500:]})
        return
    # ---- (X) exhaustive digest sweep
    L = 4 if ctx.quick() else 5
    queries = [(k, 0, 12 ** k) for k in range(0, L + 1)]
    vals = coq_digests(ctx, queries)
    total = sum(12 ** k for k in range(0, L + 1))
    ctx.evaluations += total
    ctx.count("X", "strings_enumerated", total)
    ctx.exhaustive = True
    ctx.extra["exhaustive_scope"] = "all %d strings of length <= %d over the alphabet %r (digest-compared)" % (total, L, ALPHA)
    if vals is not None:
        for (k, lo, n), v in zip(queries, vals):
            if digest_py(ram, k, lo, n) != v:
                # bisect to a single string
                while n > 1:
                    h = n // 2
                    r = coq_digests(ctx, [(k, lo, h)])
                    if r is None:
                        break
                    if digest_py(ram, k, lo, h) != r[0]:
                        n = h
                    else:
                        lo, n = lo + h, n - h
                s = nth_str(k, lo)
                rc2, o2, mv = eval_strings("c15one", HDR, "", ["remove_atom_mapping %s" % cstr(s)], ctx.work)
                ctx.mismatch("remove_atom_mapping vs Model/Aam on the exhaustive sweep", s, ram(s), mv[0] if mv else None)
    # ---- (G) generated bracket atoms
    import synrbl.SynProcessor.rsmi_decomposer as dec
    symbols = [v for k, v in sorted(dec.RSMIDecomposer.atomic_symbols.items()) if isinstance(v, str) and v.isalpha() and v != "Q"]
    symbols = list(dict.fromkeys(symbols + ["c", "n", "o", "s", "p", "b", "se", "as"]))
    ctxs = ["{}", "C{}", "{}C", "C({})C", "{}.O", "O{}O", "c1cc{}ccc1", "{}>>{}", "C{}C>>C{}C.O"]
    gen = []
    iso, chir, hc, chg, mp = ["", "2", "13"], ["", "@", "@@"], ["", "H", "H2", "H3", "H4"], ["", "+", "-", "+2"], ["", ":1", ":12"]
    combos = list(itertools.product(iso, chir, hc, chg, mp))
    for sym in symbols:
        picks = combos if not ctx.quick() and sym in ("C", "N", "O", "P", "S", "Cl", "B", "n", "c") else rng.sample(combos, 10 if ctx.quick() else 40)
        for (i, c, h, q, m) in picks:
            atom = "[%s%s%s%s%s%s]" % (i, sym, c, h, q, m)
            gen.append(rng.choice(ctxs).replace("{}", atom))
    gen += ["O=[PH2:1]O", "[SH4:1]", "c:1ccccc:1", "[PH5]", "[SH6:2]", "C[PH:1](C)(C)C", "O=[SH:3](=O)C", "[ClH2+:1]", "[IH2:1]C",
            "c1ccccc1", "c:1:c:c:c:c:c:1", "[CH3:1][CH2:2][OH:3]", "[Cl:1][CH2:2][Br:3]", "C[N+:5](C)(C)C", "[H][H]", "[2H:1]O[2H:2]"]
    ctx.count("G", "generated_strings", len(gen))
    # ---- (R) corpus reactions: shipped maps, and random maps on the unmapped form
    rx = corpus.reactions()
    rx = rng.sample(rx, 300 if ctx.quick() else len(rx))
    rnd = []
    for r in rx[:150 if ctx.quick() else 2000]:
        sides = []
        for side in r.split(">>"):
            m = Chem.MolFromSmiles(side)
            if m is None:
                sides = None; break
            nums = list(range(1, m.GetNumAtoms() + 1)); rng.shuffle(nums)
            for a, k in zip(m.GetAtoms(), nums):
                a.SetAtomMapNum(k if rng.random() < 0.8 else 0)
            sides.append(Chem.MolToSmiles(m, canonical=rng.random() < 0.5))
        if sides:
            rnd.append(">>".join(sides))
    ctx.count("R", "corpus_reactions", len(rx)); ctx.count("R", "randomly_mapped", len(rnd))
    exprs, meta = [], []
    for s in gen + rx + rnd:
        ctx.evaluations += 1
        out = ram(s)
        if re.search(r"\[[^\]]*:\d+\]", s):
            ctx.nontrivial.add(s)
        if re.search(r":\d", out):
            ctx.fail("map-number-survives", {"smiles": s}, {"output": out})
        ok = same_molecules(s, out)
        if ok is None:
            ctx.count("oracle", "out_of_domain_invalid_or_radical")
        elif ok is False:
            ctx.fail(classify(s), {"smiles": s}, {"output": out})
        else:
            ctx.count("oracle", "same_molecules")
        try:
            exprs.append("String.eqb (remove_atom_mapping %s) %s" % (cstr(s), cstr(out))); meta.append((s, out))
        except (TypeError, ValueError):
            ctx.count("oracle", "non_ascii_skipped")
    bad, errors = eval_cases("c15", HDR, "", exprs, ctx.work, shard=400)
    for fn, o in errors:
        ctx.broken.append({"what": "case file did not evaluate", "where": fn, "detail": o})
    for i in bad:
        ctx.mismatch("remove_atom_mapping vs Model/Aam.remove_atom_mapping", meta[i][0], meta[i][1], "model disagrees")
    ctx.extra["cases_evaluated_in_coq"] = len(exprs)
    ctx.sample({"smiles": gen[0], "output": ram(gen[0])}); ctx.sample({"smiles": rx[0][:120], "output": ram(rx[0])[:120]})
    # ---- pipeline outputs carry no atom-map numbers: corpus rows, and reactions in which only SOME atoms carry a map
    # (only the ions, only charged atoms, only a stereo centre, only one side)
    import pipe
    partial = ["[Na+:1].[Cl-:2]>>[Na+:1].[Cl-:2]", "CC(=O)[O-:3].[Na+:1]>>CC(=O)[O-:3].[Na+:1]", "C[N+:1](C)(C)C.[Cl-:2]>>C[N+:1](C)(C)C.[Cl-:2]",
               "F[C@:1](Cl)(Br)I>>F[C@:1](Cl)(Br)I", "CC(=O)O.[OH-:9]>>CC(=O)[O-:9].O", "CCBr.[OH-:1]>>CCO.[Br-:2]", "[NH4+:5].[Cl-:6]>>N.Cl",
               "CCBr.O>>CC[OH:7]", "[CH3:1]Br.O>>CO", "C[S@+:2]([O-:3])C>>C[S@+:2]([O-:3])C", "[13CH3:4]Br.O>>[13CH3:4]O", "c1cc[nH:8]c1>>c1cc[nH:8]c1"]
    base = ["CCBr.O>>CCO", "CC(=O)O.[OH-]>>CC(=O)[O-].O", "CC(=O)Cl.OC>>CC(=O)OC", "C[N+](C)(C)C.[Cl-]>>CN(C)C.CCl", "CC(=O)[O-].[Na+].Cl>>CC(=O)O.[Na+].[Cl-]"]
    for r in base:
        for _ in range(2 if ctx.quick() else 8):
            sides = []
            for side in r.split(">>"):
                m = Chem.MolFromSmiles(side)
                pick = rng.choice(["charged", "hetero", "one", "none"])
                k = 0
                for a in m.GetAtoms():
                    k += 1
                    if (pick == "charged" and a.GetFormalCharge() != 0) or (pick == "hetero" and a.GetAtomicNum() not in (6,)) or (pick == "one" and k == 1):
                        a.SetAtomMapNum(k)
                sides.append(Chem.MolToSmiles(m))
            partial.append(">>".join(sides))
    pb = pipe.run_batches([partial[i:i + 8] for i in range(0, len(partial), 8)])
    ctx.count("P", "partially_mapped_pipeline_inputs", len(partial))
    strip_exprs, strip_meta = [], []
    for b in pb:
        for k, v in b["tables"]["strip"]:
            try:
                strip_exprs.append("String.eqb (remove_atom_mapping %s) %s" % (cstr(k), cstr(v))); strip_meta.append((k, v))
            except (TypeError, ValueError):
                pass
        if len(b["rows"]) != len(b["inputs"]):
            continue
        for inp, r in zip(b["inputs"], b["rows"]):
            ok = same_molecules(inp, r["input_reaction"] or "")
            if ok is False:
                ctx.fail(classify(inp), {"smiles": inp}, {"input_reaction": r["input_reaction"]})
    # ---- the same for every input form of the public API (a form that skips the map removal is a form on which the property fails)
    # and for one Balancer whose remove_aam switch is turned on between two cached runs
    import tempfile, shutil, csv as _csv
    from synrbl import Balancer
    from synrbl.SynUtils.batching import Dataset
    tmpd = tempfile.mkdtemp(prefix="c15forms_")
    try:
        mapped = [x for x in partial if re.search(r":\d+\]", x)][:10 if ctx.quick() else 40]
        rows_in = [{"reaction": x} for x in mapped]
        jp, cp = os.path.join(tmpd, "in.json"), os.path.join(tmpd, "in.csv")
        with open(jp, "w") as f:
            json.dump(rows_in, f)
        with open(cp, "w", newline="") as f:
            w = _csv.writer(f); w.writerow(["reaction"]); [w.writerow([x]) for x in mapped]
        forms = {"list-of-dicts": lambda: rows_in, "Dataset(list)": lambda: Dataset([dict(d) for d in rows_in]),
                 "Dataset(json)": lambda: Dataset(jp), "Dataset(csv)": lambda: Dataset(cp)}

        def keeps_map(rows, form, extra=None):
            for inp, r in zip(mapped, rows):
                ctx.evaluations += 1
                for col in ("reaction", "input_reaction"):
                    if re.search(r":\d+\]", (r.get(col) or "") if isinstance(r, dict) else str(r)):
                        case = {"inputs": [inp], "form": form}
                        if extra:
                            case.update(extra)
                        ctx.fail("pipeline-output-keeps-atom-map", case, {"column": col, "value": r.get(col)})
                        return
        for form, mk in forms.items():
            try:
                rows = Balancer(n_jobs=1).rebalance(mk(), output_dict=True)
            except Exception as e:
                ctx.count("P", "input_form_raised:%s" % form)
                continue
            ctx.count("P", "input_form:%s" % form)
            if len(rows) == len(mapped):
                keeps_map(rows, form)
        # rows of whatever provenance that come back must be map-free: batches that also hold a row the pipeline cannot split (agent
        # form, no separator), and dict rows that already carry an `input_reaction` column (the records of an earlier run fed in again,
        # e.g. one made with remove_aam switched off)
        def any_map(rows, what, extra):
            for r in rows:
                ctx.evaluations += 1
                for col in ("reaction", "input_reaction"):
                    v = r.get(col) if isinstance(r, dict) else None
                    if isinstance(v, str) and re.search(r":\d+\]", v):
                        ctx.fail("pipeline-output-keeps-atom-map", dict({"form": what}, **extra), {"column": col, "value": v})
                        return
        for bad in ("CCO>CC>CCO", "C"):
            ins = mapped[:2] + [bad] + mapped[2:5]
            try:
                rows = Balancer(n_jobs=1, batch_size=3).rebalance(list(ins), output_dict=True)
            except Exception:
                ctx.count("P", "malformed_batch_raised"); continue
            ctx.count("P", "batches_with_a_malformed_row")
            any_map(rows, "list-of-str with a malformed row", {"inputs": ins, "batch_size": 3})
        b0 = Balancer(n_jobs=1); b0.remove_aam = False
        first = b0.rebalance(list(mapped[:6]), output_dict=True)
        fed = [{"reaction": r["reaction"], "input_reaction": r["input_reaction"], "solved_by": r.get("solved_by")} for r in first]
        fed2 = [{"reaction": m, "input_reaction": m} for m in mapped[:6]]
        for what, src in (("records of an earlier run (remove_aam off) fed in again", fed), ("dict rows that already carry input_reaction", fed2)):
            try:
                rows = Balancer(n_jobs=1).rebalance([dict(d) for d in src], output_dict=True)
            except Exception:
                ctx.count("P", "fed_back_rows_raised"); continue
            ctx.count("P", "fed_back_row_runs")
            any_map(rows, what, {"inputs": [d["reaction"] for d in src]})
        import matrix
        for run in matrix.runs(ctx):
            ctx.count("P", "matrix:" + run["config"][:36])
            if not run["error"]:
                any_map(run["rows"], "configuration matrix: " + run["config"], {"inputs": run["given"]})
        bal = Balancer(n_jobs=1, cache=True, cache_dir=os.path.join(tmpd, "cache"), batch_size=4)
        bal.remove_aam = False
        bal.rebalance(list(mapped), output_dict=True)
        bal.remove_aam = True
        rows = bal.rebalance(list(mapped), output_dict=True)
        ctx.count("P", "cached_reruns_with_remove_aam_switched_on")
        if len(rows) == len(mapped):
            keeps_map(rows, "list-of-str", {"history": "one Balancer, cache on: remove_aam=False, then remove_aam=True on the same batch"})
    finally:
        shutil.rmtree(tmpd, ignore_errors=True)
    bad2, err2 = eval_cases("c15strip", HDR, "", strip_exprs, ctx.work, shard=400)
    for i in bad2:
        ctx.mismatch("preprocess' atom-map removal (recorded) vs Model/Aam.remove_atom_mapping", strip_meta[i][0], strip_meta[i][1], "model disagrees")
    for b in pipe.corpus_run(ctx) + pb:
        for r in b["rows"]:
            ctx.evaluations += 1
            for col in ("reaction", "input_reaction"):
                if re.search(r":\d+\]", r[col] or ""):
                    ctx.fail("pipeline-output-keeps-atom-map", {"inputs": b["inputs"][:1]}, {"column": col, "value": r[col]})


def replay(ctx, rep):
    from synrbl.SynUtils.chem_utils import remove_atom_mapping as ram
    case = rep.get("failing_input", {})
    if isinstance(case, dict) and "smiles" in case:
        out = ram(case["smiles"])
        print(case["smiles"], "->", out, same_molecules(case["smiles"], out))
        return 1 if same_molecules(case["smiles"], out) is False or re.search(r":\d", out) else 0
    print(json.dumps(rep, indent=1)[:2000])
    return 0
