"""C20 -- tautomer standardisation conserves atoms and returns valid SMILES."""
import random, json, collections
from common import *
import corpus

RULE = ("molecules = a generated family (enols, enolates, gem-diols, hemiketals, orthoacids, metal alkoxides, several groups per "
        "molecule, mixtures) + corpus components containing an O (quick 150, thorough 3000); each is standardised as written and in 3 "
        "random atom orders (RDKit doRandom).  Oracle (RDKit only): the result parses, has the same elemental composition and net "
        "charge, no exception, second application = first.  Correspondence: FGQuery.get, the two step functions and CanonSmiles are "
        "recorded and the run is replayed through Model/Standardize.standardize inside Coq; the atoms each step picks are observed by "
        "spying on EditableMol.RemoveBond and compared with Model/Standardize.enol_pick / hemi_pick on the RDKit graph.  Non-trivial: a "
        "molecule with at least one enol/hemiketal group; distinct = distinct input string.")
ASSUMPTIONS = ["fgutils' group query and RDKit's edit/sanitise/canonicalise are oracles (recorded per run)"]
TRUSTED = ["RDKit for the composition oracle and for atom-order variants; the EditableMol spy"]
HDR = ("From Coq Require Import String List Bool Arith.\nFrom SynRBL Require Import Model.Standardize.\nImport ListNotations.\nOpen Scope string_scope.\n")
DEFS = """
Fixpoint look {A} (l : list (string * A)) (d : A) (s : string) : A :=
  match l with [] => d | (k, v) :: t => if String.eqb s k then v else look t d s end.
Fixpoint look2 (l : list (string * list nat * string)) (s : string) (i : list nat) : string :=
  match l with [] => "STEP-MISSING" | (k, j, v) :: t => if String.eqb s k && (if list_eq_dec Nat.eq_dec i j then true else false) then v else look2 t s i end.
Definition mkO (q : list (string * option (list (string * list nat)))) (e h : list (string * list nat * string)) (c : list (string * option string)) : soracle :=
  {| query := look q None; step_enol := look2 e; step_hemi := look2 h; canon := look c None |}.
Definition oeq (a b : option string) : bool := match a, b with Some x, Some y => String.eqb x y | None, None => true | _, _ => false end.
Definition scase (O : soracle) (s : string) (e : option string) : bool := oeq (standardize O s) e.
Definition nth_s (l : list string) (i : nat) : string := nth i l "?".
Definition bnd (l : list (nat * nat)) (a b : nat) : bool := existsb (fun p => (Nat.eqb (fst p) a && Nat.eqb (snd p) b) || (Nat.eqb (fst p) b && Nat.eqb (snd p) a)) l.
Definition teq (a b : option (nat * nat * nat)) : bool :=
  match a, b with Some (x, y, z), Some (u, v, w) => Nat.eqb x u && Nat.eqb y v && Nat.eqb z w | None, None => true | _, _ => false end.
Definition ecase (syms : list string) (bonds : list (nat * nat)) (idxs : list nat) (e : option (nat * nat * nat)) : bool :=
  teq (enol_pick (nth_s syms) (bnd bonds) idxs) e.
Definition hcase (syms : list string) (idxs : list nat) (e : option (nat * nat * nat)) : bool := teq (hemi_pick (nth_s syms) idxs) e.
"""
FAMILY = ["C=CO", "C(=C)O", "C(O)=C", "OC=C", "C(=CC)O", "CC=CO", "OC(=C)C", "C=C(C)O", "OC=CC=CO", "OC=CC", "C=C(O)C=C", "C=C[O-]", "[Na+].C=C[O-]",
          "C=C(O)O", "C=C(O)OC", "OC1=CCCCC1", "C1(O)=CCCCC1", "CC(O)(O)C", "C(O)(O)C", "OC(C)(O)C", "OC1(O)CCCC1", "C1(O)(O)CCCC1", "OCC(O)O",
          "OC(O)O", "C(O)(O)(O)O", "OC(O)(O)C", "COC(C)(C)O", "OC(C)(C)OC", "CC(C)(O)O[Li]", "CC(C)(O)O[Na]", "C=C(C)O[Na]", "C=C(O)C(O)(O)C",
          "NC(O)(O)C", "CCO.C=CO", "CC(O)(O)C.C=CO", "O", "CCO", "CC(=O)C", "c1ccccc1O", "OC(O)=O", "OC(O)c1ccccc1", "OC(O)C=C", "C=C(O)C(=O)O",
          "C[C@H](O)C=CO", "OC(=CC)CC", "FC(O)(O)F", "ClC(Cl)(Cl)C(O)O", "OC(O)C(O)O", "[NH3+]CC(O)O", "C=C(O)C[N+](C)(C)C",
          # enols whose OTHER olefinic carbon also carries an oxygen substituent (enol ethers / esters of enols)
          "COC=C(C)O", "CC(O)=COC", "CC(=O)OC=C(C)O", "OC1=COCCC1", "CC(O)=C1OCCO1", "CC(O)=C(C)O[Si](C)(C)C",
          # hemiacetals (the default functional-group tree reports them as 'hemiacetal', a child of 'hemiketal': they are left alone)
          "CC(O)OC", "OC1CCCCO1", "OC1OC(CO)C(O)C(O)C1O", "CCOC(C)O", "OC1CCCO1",
          # gem-diols whose first hydroxyl is written in brackets (the hydrogen is then an explicit count on the atom)
          "CC([OH])(O)C", "CC([18OH])(O)C", "[H]OC(C)(C)O", "CC([OH:1])(O)C", "[OH]C(O)C", "CC(O)([18OH])C"]


class Spy:
    """records FGQuery.get / step results / CanonSmiles, and the bonds each step removes"""
    def __init__(self):
        import synrbl.SynChemImputer.molecule_standardizer as ms
        from rdkit import Chem
        self.ms, self.Chem = ms, Chem
        self.q, self.e, self.h, self.c, self.picks = {}, {}, {}, {}, []
        S = ms.MoleculeStandardizer
        self.o_en, self.o_he = S.__dict__["standardize_enol"], S.__dict__["standardize_hemiketal"]
        self.o_canon = ms.Chem.CanonSmiles
        spy = self
        real_emol = Chem.EditableMol

        class EM:
            def __init__(self_, mol):
                self_._m, self_._e = mol, real_emol(mol)
                self_.removed = []
            def RemoveBond(self_, a, b):
                self_.removed.append((a, b)); return self_._e.RemoveBond(a, b)
            def AddBond(self_, *a, **k):
                return self_._e.AddBond(*a, **k)
            def GetMol(self_):
                spy.picks[-1]["removed"] = list(self_.removed)
                return self_._e.GetMol()
        self.EM, self.real_emol = EM, real_emol

        def en(smiles, atom_indices=[0, 1, 2]):
            idx = list(atom_indices)
            spy.picks.append({"kind": "enol", "smiles": smiles, "idx": idx, "removed": None})
            r = spy.o_en.__func__(smiles, atom_indices)
            spy.e[(smiles, tuple(idx))] = r
            return r

        def he(smiles, atom_indices):
            idx = list(atom_indices)
            spy.picks.append({"kind": "hemi", "smiles": smiles, "idx": idx, "removed": None})
            r = spy.o_he.__func__(smiles, atom_indices)
            spy.h[(smiles, tuple(idx))] = r
            return r
        S.standardize_enol, S.standardize_hemiketal = staticmethod(en), staticmethod(he)

        class ChemProxy:
            def __getattr__(self_, name):
                if name == "EditableMol":
                    return EM
                if name == "CanonSmiles":
                    def cs(s):
                        try:
                            r = spy.o_canon(s); spy.c[s] = r; return r
                        except Exception:
                            spy.c[s] = None; raise
                    return cs
                return getattr(Chem, name)
        ms.Chem = ChemProxy()

    def wrap_query(self, std):
        o = std.query.get
        spy = self

        def get(s):
            try:
                r = o(s); spy.q[s] = [(n, list(i)) for n, i in r]; return r
            except Exception:
                spy.q[s] = None; raise
        std.query.get = get

    def close(self):
        S = self.ms.MoleculeStandardizer
        S.standardize_enol, S.standardize_hemiketal = self.o_en, self.o_he
        self.ms.Chem = self.Chem


def comp(s):
    from rdkit import Chem
    m = Chem.MolFromSmiles(s)
    if m is None:
        return None
    c = collections.Counter()
    for a in m.GetAtoms():
        c[a.GetSymbol()] += 1; c["H"] += a.GetTotalNumHs(); c["Q"] += a.GetFormalCharge()
    return {k: v for k, v in c.items() if v}


REFQ = []


def classify(s, q0, raised, out):
    if not REFQ:
        try:
            from fgutils import FGQuery
            REFQ.append(FGQuery())
        except Exception:
            pass
    from rdkit import Chem
    groups = [g for g in (q0 or []) if g[0] in ("enol", "hemiketal")]
    m = Chem.MolFromSmiles(s)
    if len(groups) >= 2:
        return "stale-group-list"
    if len(groups) == 1:
        name, idx = groups[0]
        os_ = [m.GetAtomWithIdx(i) for i in idx if m.GetAtomWithIdx(i).GetSymbol() == "O"]
        if name == "enol" and any(a.GetFormalCharge() != 0 or a.GetTotalNumHs() == 0 for a in os_):
            return "charged-or-substituted-enol-oxygen"
        if name == "hemiketal" and any(a.GetTotalNumHs() == 0 or a.GetFormalCharge() != 0 for a in os_):
            # the known finding is about groups that the library's DEFAULT functional-group tree calls hemiketal; when only the
            # implementation's own query says so (hemiacetals are a child class of hemiketal there), it is another defect
            try:
                ref = REFQ[0].get(s) if REFQ else None
            except Exception:
                ref = None
            if ref is None or any(g[0] == "hemiketal" for g in ref):
                return "alkoxy-hemiketal"
        if name == "enol":
            return "enol-index-adjacency"
    return "standardisation-changed-molecule" if not raised else "standardisation-raised"


def run(ctx):
    from rdkit import RDLogger, Chem
    RDLogger.DisableLog("rdApp.*")
    from synrbl.SynChemImputer.molecule_standardizer import MoleculeStandardizer
    rng = random.Random("c20|%s|%s" % (ctx.seed, ctx.tier))
    comps = [c for c in corpus.unmapped_components() if "O" in c and len(c) <= 70]
    mols = FAMILY + rng.sample(comps, min(len(comps), 150 if ctx.quick() else 3000))
    inputs = []
    for s in mols:
        m = Chem.MolFromSmiles(s)
        if m is None:
            continue
        inputs.append(s)
        for _ in range(3):
            v = Chem.MolToSmiles(m, doRandom=True, canonical=False)
            if v not in inputs:
                inputs.append(v)
    ctx.count("inputs", "strings", len(inputs))
    exprs, meta, pexprs, pmeta = [], [], [], []
    spy = Spy()
    try:
        std = MoleculeStandardizer()
        spy.wrap_query(std)
        for s in inputs:
            spy.q, spy.e, spy.h, spy.c, spy.picks = {}, {}, {}, {}, []
            raised, out = None, None
            try:
                out = std(s)
            except Exception as e:
                raised = "%s: %s" % (type(e).__name__, str(e)[:120])
            ctx.evaluations += 1
            q0 = spy.q.get(s)
            has_group = any(g[0] in ("enol", "hemiketal") for g in (q0 or []))
            if has_group:
                ctx.nontrivial.add(s)
                ctx.count("groups", "with_enol_or_hemiketal")
            case = {"smiles": s}
            c0 = comp(s)
            if raised is not None:
                ctx.fail(classify(s, q0, True, None), case, {"raised": raised, "groups": q0})
            else:
                c1 = comp(out)
                if c1 is None or c1 != c0:
                    ctx.fail(classify(s, q0, False, out), case, {"output": out, "composition_in": c0, "composition_out": c1, "groups": q0})
                else:
                    # idempotence (outside the recording: a fresh call)
                    q1, e1, h1, c1_, p1 = spy.q, spy.e, spy.h, spy.c, spy.picks
                    try:
                        out2 = std(out)
                    except Exception as e:
                        out2 = "RAISED " + str(e)[:80]
                    spy.q, spy.e, spy.h, spy.c, spy.picks = q1, e1, h1, c1_, p1
                    if out2 != out:
                        ctx.fail("not-idempotent", case, {"once": out, "twice": out2})
            # model replay of the control flow
            try:
                qt = clist(list(spy.q.items()), lambda kv: cpair(cstr(kv[0]), copt(kv[1], lambda gs: clist(gs, lambda g: cpair(cstr(g[0]), clist(g[1], cnat))))))
                et = clist(list(spy.e.items()), lambda kv: "(%s, %s, %s)" % (cstr(kv[0][0]), clist(list(kv[0][1]), cnat), cstr(kv[1])))
                ht = clist(list(spy.h.items()), lambda kv: "(%s, %s, %s)" % (cstr(kv[0][0]), clist(list(kv[0][1]), cnat), cstr(kv[1])))
                ct = clist(list(spy.c.items()), lambda kv: cpair(cstr(kv[0]), copt(kv[1], cstr)))
                exprs.append("scase (mkO %s %s %s %s) %s %s" % (qt, et, ht, ct, cstr(s), copt(out, cstr)))
                meta.append(s)
            except (TypeError, ValueError):
                ctx.count("inputs", "unrenderable")
            # picks
            for p in spy.picks:
                m = Chem.MolFromSmiles(p["smiles"])
                if m is None:
                    continue
                syms = [a.GetSymbol() for a in m.GetAtoms()]
                bonds = [(b.GetBeginAtomIdx(), b.GetEndAtomIdx()) for b in m.GetBonds()]
                rem = p["removed"]
                if p["kind"] == "enol":
                    obs = None if not rem or len(rem) < 2 else (rem[0][0], rem[0][1], rem[1][1])
                    if rem is not None and len(rem) >= 2 or rem is None:
                        pexprs.append("ecase %s %s %s %s" % (clist(syms, cstr), clist(bonds, lambda b: cpair(cnat(b[0]), cnat(b[1]))), clist(p["idx"], cnat),
                                                              copt(obs, lambda t: "(%s, %s, %s)" % tuple(cnat(x) for x in t))))
                        pmeta.append(p)
                else:
                    obs = None if not rem or len(rem) < 2 else (rem[0][0], rem[0][1], rem[1][1])
                    pexprs.append("hcase %s %s %s" % (clist(syms, cstr), clist(p["idx"], cnat), copt(obs, lambda t: "(%s, %s, %s)" % tuple(cnat(x) for x in t))))
                    pmeta.append(p)
    finally:
        spy.close()
    ctx.sample({"smiles": inputs[0]}); ctx.sample({"smiles": inputs[-1]})
    rc, out = sh("timeout 900 make -j%d Model/Standardize.vo 2>&1" % NPROC, cwd=COQ)
    if rc != 0:
        ctx.broken.append({"what": "model does not build", "detail": out[-1500:]})
        return
    bad, errors = eval_cases("c20", HDR, DEFS, exprs, ctx.work, shard=200)
    for fn, o in errors:
        ctx.broken.append({"what": "case file did not evaluate", "where": fn, "detail": o})
    for i in bad:
        ctx.mismatch("MoleculeStandardizer.__call__ (recorded oracle answers) vs Model/Standardize.standardize", meta[i], None, "model disagrees")
    bad, errors = eval_cases("c20p", HDR, DEFS, pexprs, ctx.work, shard=300)
    for fn, o in errors:
        ctx.broken.append({"what": "case file did not evaluate", "where": fn, "detail": o})
    for i in bad:
        ctx.mismatch("atoms picked by the step function (observed RemoveBond calls) vs Model/Standardize.enol_pick / hemi_pick", pmeta[i], None, "model disagrees")
    ctx.extra["runs_replayed_in_coq"] = len(exprs); ctx.extra["picks_compared_in_coq"] = len(pexprs)


def replay(ctx, rep):
    from synrbl.SynChemImputer.molecule_standardizer import MoleculeStandardizer
    case = rep.get("failing_input", {})
    if isinstance(case, dict) and "smiles" in case:
        try:
            out = MoleculeStandardizer()(case["smiles"])
            print(case["smiles"], "->", out, comp(case["smiles"]), comp(out))
            return 0 if comp(out) == comp(case["smiles"]) else 1
        except Exception as e:
            print("RAISED", e); return 1
    return 0
