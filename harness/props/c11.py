"""C11 -- MCS-stage timeouts and failures are contained to the affected reaction."""
import random, json, itertools
from common import *
import mcs, pipe

RULE = ("a mixed batch (two or three MCS-stage reactions, a rule-based and an input-balanced one) is run through the real Balancer with "
        "faults injected at the realistic points -- inside MCSMissingGraphAnalyzer.fit (exception, sleep past the 2 s thread wait, "
        "mismatching result lists, an exception inside the per-reactant loop) per (reaction, search condition) job, and inside FindMissingGraphs.find_missing_parts_pairs "
        "(exception, sleep) per fragment-analysis job: thorough = ALL 64 subsets of the 2x3 search jobs hit by an exception + all 9 "
        "fragment-job patterns + sampled timeout/uncertain plans; quick = 14 exception subsets, 3 timeout plans, 4 fragment plans (incl. two overlapping hangs); plus the batch in descending order of result size with faults on its first reaction, and a batch with a repeated reaction whose first occurrence fails; every run in a fresh interpreter.  Each "
        "run is compared with the fault-free run: no row lost; rows whose jobs were not hit are identical; every row is either solved "
        "and balanced (RDKit recount) or returned unchanged with a reason; the observed job outcomes are replayed through "
        "Model/McsSelect.find inside Coq; after time-out plans the returned records are compared again after a 3 s grace period.  "
        "Non-trivial: a run with at least one injected fault; distinct = distinct plan.")
ASSUMPTIONS = ["faults are injected by wrapping the two analyzers (n_jobs=1, in-process); which jobs time out under real CPU load is not reproducible and is covered as 'any subset'"]
TRUSTED = ["thread scheduling / ThreadPool.terminate semantics as exercised"]
BATCH = ["CCOC(=O)C>>CC(=O)O", "CCBr.O>>CCO", "CC(=O)OCC.CN>>CC(=O)NC", "CCO>>CCO", "CC(=O)Oc1ccccc1>>Oc1ccccc1"]
MCS_POS = [0, 2]        # rows of BATCH whose search jobs are hit (row 4 is an unaffected MCS-stage row)
BATCH3 = ["CCOC(=O)C>>CC(=O)O", "CCBr.O>>CCO", "CC(=O)OCC.CN>>CC(=O)NC", "CCOC(=O)C>>CC(=O)O", "CCO>>CCO"]    # rows 0 and 3: the same reaction
BATCH2 = ["CC(=O)Oc1ccccc1>>Oc1ccccc1", "CCBr.O>>CCO", "CC(=O)OCC.CN>>CC(=O)NC", "CCO>>CCO", "CCOC(=O)C>>CC(=O)O"]   # largest result first


def check_run(ctx, rec, ref, batch_size=None):
    plan = rec["plan"]
    case = {"inputs": rec["inputs"], "plan": plan}
    if batch_size:
        case["batch_size"] = batch_size
    if rec["error"] or len(rec["rows"]) != len(rec["inputs"]):
        ctx.fail("rows-lost-under-fault", case, {"error": rec["error"], "rows": len(rec["rows"])})
        return
    hit = {int(k.split(":")[0]) for k in plan.get("search", {})} | {int(k) for k in plan.get("graph", {})}
    for pos, (inp, r) in enumerate(zip(rec["inputs"], rec["rows"])):
        ctx.evaluations += 1
        if r["solved"]:
            if pipe.balanced(r["reaction"]) is not True:
                ctx.fail("solved-but-unbalanced-under-fault", case, {"row": pos, "reaction": r["reaction"]})
        else:
            if r["reaction"] != r["input_reaction"] or not r["issue"]:
                ctx.fail("declined-row-altered-under-fault", case, {"row": pos, "row_value": r})
        if pos not in hit and r != ref["rows"][pos]:
            # the searches work under wall-clock budgets: under machine load a run can differ from another run of the same batch without
            # any fault.  A leak counts only if it reproduces: the fault-free batch and the plan are run once more.
            again = mcs.run_many([(rec["inputs"], None, 0, 1, batch_size), (rec["inputs"], plan, 0, 1, batch_size)])
            if again[0]["rows"] != ref["rows"] or len(again[1]["rows"]) != len(rec["rows"]) or again[1]["rows"][pos] == again[0]["rows"][pos]:
                ctx.timing_unstable += 1
                continue
            ctx.fail("fault-leaks-into-other-reaction", case, {"row": pos, "with_fault": r, "fault_free": ref["rows"][pos]})
    if rec["late_changes"]:
        ctx.fail("record-changed-after-return", case, {"late": rec["late_changes"]})


def run(ctx):
    from rdkit import RDLogger
    RDLogger.DisableLog("rdApp.*")
    rng = random.Random("c11|%s|%s" % (ctx.seed, ctx.tier))
    jobs6 = ["%d:%d" % (p, c) for p in MCS_POS for c in range(3)]
    plans = [{}]
    subsets = [s for n in range(1, 7) for s in itertools.combinations(jobs6, n)]
    if ctx.quick():
        subsets = rng.sample(subsets, 14)
    else:
        ctx.exhaustive = True
        ctx.extra["exhaustive_scope"] = "all 63 non-empty subsets of the 2 reactions x 3 conditions search jobs hit by an exception; all 8 non-trivial patterns of {none, raise, timeout} over 2 fragment jobs"
    for s in subsets:
        plans.append({"search": {k: "raise" for k in s}})
    gp = [p for p in itertools.product([None, "raise", "timeout"], repeat=2) if any(p)]
    if ctx.quick():
        gp = [("raise", None), (None, "raise"), ("timeout", None), ("timeout", "timeout")]   # two overlapping hangs before a healthy reaction
    for a, b in gp:
        plans.append({"graph": {str(p): v for p, v in zip(MCS_POS, (a, b)) if v}})
    tp = []
    for _ in range(3 if ctx.quick() else 12):
        s = rng.sample(jobs6, rng.randint(1, 2))
        tp.append({"search": {k: rng.choice(["timeout", "uncertain", "timeout"]) for k in s}})
    tp.append({"search": {"0:0": "timeout", "0:1": "raise", "0:2": "uncertain"}})
    plans += tp
    def grace(p):
        if any(v == "timeout" for v in p.get("graph", {}).values()):
            return 7.0
        return 4.0 if any(v == "timeout" for v in p.get("search", {}).values()) else 0
    items = [(BATCH, p, grace(p)) for p in plans]
    # the same reactions with the largest common substructure FIRST: a fault on the first reaction in a non-final condition, healthy
    # reactions with smaller results behind it (a position-based mix-up attaches the earlier, larger result)
    plans2 = [{}, {"search": {"0:0": "timeout"}}, {"search": {"0:1": "timeout"}}, {"search": {"0:0": "timeout", "0:1": "timeout"}},
              {"search": {"0:0": "raise"}}, {"search": {"0:0": "uncertain", "0:1": "raise"}}, {"graph": {"0": "timeout", "2": "timeout"}}]
    items2 = [(BATCH2, p, grace(p)) for p in plans2]
    # a batch in which one reaction occurs twice: every search job of its FIRST occurrence fails (exception; fault inside the per-reactant
    # loop) -- the second occurrence was not hit and must come back as in the fault-free run; each run in a fresh interpreter
    plans3 = [{}, {"search": {"0:0": "raise", "0:1": "raise", "0:2": "raise"}}, {"search": {"0:0": "inner"}}, {"search": {"2:0": "inner", "2:1": "inner"}},
              {"search": {"0:0": "inner", "0:1": "inner", "0:2": "inner"}}]
    items3 = [(BATCH3, p, 0) for p in plans3]
    # several batches on ONE Balancer (batch_size=2): every MCS-stage reaction of the first batch times out under one condition; the
    # reactions of the later batches were not hit and must come back as in the fault-free run of the same batching.  And: both kinds of
    # fault on one fragment-analysis job (the wait expires and the analysis fails, also on a second attempt).
    # (the later batches hold ring-forming reactions whose result comes from one particular search condition)
    B4 = ["CCOC(=O)C>>CC(=O)O", "CC(=O)OCC.CN>>CC(=O)NC", "C=1C=CC(=CC=1)C=CC(=O)OCC.CC(C)=O>>C1C(=O)CC(CC1C2=CC=CC=C2)=O", "C(=CC)C.C1=C(C(OO)=O)C=CC=C1>>C1(C(C)O1)C",
          "CC(=O)Oc1ccccc1>>Oc1ccccc1", "CCO>>CCO"]
    plans4 = [{}, {"search": {"0:1": "timeout", "1:1": "timeout"}}, {"search": {"0:0": "timeout", "1:0": "timeout"}}, {"search": {"0:2": "timeout", "1:2": "timeout"}}]
    items4 = [(B4, p, grace(p), 1, 2) for p in plans4]
    plans5 = [{}, {"graph": {"0": "timeout+raise"}}, {"graph": {"2": "slow+raise-always"}}, {"graph": {"0": "slow+raise-always", "2": "timeout+raise"}}]
    items5 = [(BATCH, p, 4.0 if p else 0) for p in plans5]
    recs, _ = pipe.cached("c11_%s_%d" % (ctx.tier, ctx.seed), lambda: mcs.run_many(items + items2 + items3 + items4 + items5, procs=8))
    n123 = len(items) + len(items2) + len(items3)
    recs4, recs5 = recs[n123:n123 + len(items4)], recs[n123 + len(items4):]
    recs = recs[:n123]
    for rec in recs4[1:]:
        ctx.nontrivial.add(json.dumps(["batched", rec["plan"]], sort_keys=True))
        check_run(ctx, rec, recs4[0], batch_size=2)
    for rec in recs5[1:]:
        ctx.nontrivial.add(json.dumps(["both-kinds", rec["plan"]], sort_keys=True))
        check_run(ctx, rec, recs5[0])
    ctx.count("plans", "batched_runs_on_one_balancer", len(items4)); ctx.count("plans", "timeout_and_failure_on_one_job", len(items5))
    recs, recs2, recs3 = recs[:len(items)], recs[len(items):len(items) + len(items2)], recs[len(items) + len(items2):]
    for rec in recs3[1:]:
        ctx.nontrivial.add(json.dumps(["repeated-reaction", rec["plan"]], sort_keys=True))
        check_run(ctx, rec, recs3[0])
    ctx.count("plans", "batch_with_a_repeated_reaction", len(items3))
    ctx.count("faults", "inner_faults_actually_raised", sum(r.get("inner_hits", 0) for r in recs3))
    for rec in recs2[1:]:
        ctx.nontrivial.add(json.dumps(["descending", rec["plan"]], sort_keys=True))
        check_run(ctx, rec, recs2[0])
    ctx.count("plans", "descending_size_batch", len(plans2))
    ref = recs[0]
    ctx.count("plans", "total", len(plans))
    cases, cmeta = [], []
    for rec in recs:
        if rec["plan"]:
            ctx.nontrivial.add(json.dumps(rec["plan"], sort_keys=True))
            for d in rec["plan"].values():
                for v in d.values():
                    ctx.count("faults", v)
        check_run(ctx, rec, ref)
        if rec["after_find"]:
            try:
                cases.append(mcs.coq_find_case(rec)); cmeta.append(rec["plan"])
            except ValueError as e:
                ctx.mismatch("observed job outcome not renderable", rec["plan"], str(e), None)
    # a second, different batch (random order, other reactions) under a few random plans
    base = pipe.corpus_run(ctx)
    pool = [inp for b in base if len(b["rows"]) == len(b["inputs"]) for inp, r in zip(b["inputs"], b["rows"]) if r["solved_by"] == "mcs-based"]
    extra_items = []
    for _ in range(2 if ctx.quick() else 10):
        batch = rng.sample(pool, min(3, len(pool))) + ["CCBr.O>>CCO"]
        rng.shuffle(batch)
        k = rng.randrange(len(batch))
        extra_items.append((batch, None, 0))
        extra_items.append((batch, {"search": {"%d:%d" % (k, c): "raise" for c in rng.sample(range(3), rng.randint(1, 3))}}, 0))
    erecs, _ = pipe.cached("c11x_%s_%d" % (ctx.tier, ctx.seed), lambda: mcs.run_many(extra_items, procs=8))
    for i in range(0, len(erecs), 2):
        check_run(ctx, erecs[i + 1], erecs[i])
        ctx.nontrivial.add(json.dumps([erecs[i + 1]["inputs"], erecs[i + 1]["plan"]], sort_keys=True))
        for rec in erecs[i:i + 2]:
            if rec["after_find"]:
                try:
                    cases.append(mcs.coq_find_case(rec)); cmeta.append(rec["plan"])
                except ValueError as e:
                    ctx.mismatch("observed job outcome not renderable", rec["plan"], str(e), None)
    rc, out = sh("timeout 900 make -j%d Model/McsSelect.vo 2>&1" % NPROC, cwd=COQ)
    if rc != 0:
        ctx.broken.append({"what": "model does not build", "detail": out[-1500:]})
        return
    bad, errors = eval_cases("c11", mcs.HDR, mcs.DEFS, cases, ctx.work, shard=10)
    for fn, o in errors:
        ctx.broken.append({"what": "case file did not evaluate", "where": fn, "detail": o})
    for i in bad:
        ctx.mismatch("MCSSearch.find under faults vs Model/McsSelect.find", {"plan": cmeta[i]}, None, "model disagrees")
    ctx.extra["find_batches_replayed_in_coq"] = len(cases)
    ctx.sample({"batch": BATCH, "plan": plans[1], "rows": [{"solved": r["solved"], "issue": r["issue"]} for r in recs[1]["rows"]]})
    ctx.sample({"plan": plans[-1]})


def replay(ctx, rep):
    case = rep.get("failing_input", {})
    if isinstance(case, dict) and "plan" in case:
        recs = mcs.run_many([(case["inputs"], None, 0, 1, case.get("batch_size")), (case["inputs"], case["plan"], 0, 1, case.get("batch_size"))])
        n = len(ctx.failures); check_run(ctx, recs[1], recs[0], batch_size=case.get("batch_size"))
        print(json.dumps(recs[1]["rows"], indent=1))
        return 1 if len(ctx.failures) > n else 0
    return 0
