"""C14 -- composition-determined outcomes ignore how the SMILES is written (metamorphic)."""
import random, json, collections
from common import *
import pipe, gens
from props import c03, c02

RULE = ("base reactions = corpus and generated rows whose outcome is input-balanced or rule-based (plus the marker stream of C02, fixed bases with alkali/hydride reagents, multi-element deficits and excess reagents written twice); "
        "each base is re-run in variants: every molecule re-written as a random equivalent SMILES (RDKit doRandom), kekulised, with "
        "random atom-map numbers, and with the molecules of each side shuffled (thorough: 6 variants per base, quick: 4).  Compared: "
        "solved_by / solved and the multiset of canonical molecules ADDED on each side (rows touched by the reagent post-processing "
        "compare the verdict only).  The hypothesis of the C14 theorems (entry-wise equal composition dictionaries, equal carbon sums) "
        "is checked on the recorded oracle tables of every (base, variant) pair; all batches are replayed through the model inside Coq.  "
        "Non-trivial: a base whose reaction was changed by the tool (something added); distinct = distinct (base, variant string).")
ASSUMPTIONS = c03.ASSUMPTIONS + ["RDKit produces equivalent spellings (the variants are re-parsed and compared by canonical SMILES before use)"]
TRUSTED = ["RDKit for variant generation and the canonical-multiset oracle"]


def variants(rng, rxn, n):
    from rdkit import Chem
    l, p = rxn.split(">>")
    def mols(side):
        out = []
        for c in side.split("."):
            m = Chem.MolFromSmiles(c)
            if m is None:
                return None
            for a in m.GetAtoms():
                a.SetAtomMapNum(0)
            out.append(m)
        return out
    L, P = mols(l), mols(p)
    if L is None or P is None:
        return []
    def write(ms, kind):
        out = []
        for m in ms:
            if kind == "random":
                out.append(Chem.MolToSmiles(m, doRandom=True, canonical=False))
            elif kind == "kekule":
                mk = Chem.Mol(m)
                try:
                    Chem.Kekulize(mk, clearAromaticFlags=True)
                    out.append(Chem.MolToSmiles(mk, kekuleSmiles=True))
                except Exception:
                    out.append(Chem.MolToSmiles(m))
            elif kind == "mapped":
                mm = Chem.Mol(m)
                nums = list(range(1, mm.GetNumAtoms() + 1)); rng.shuffle(nums)
                for a, k in zip(mm.GetAtoms(), nums):
                    a.SetAtomMapNum(k + rng.choice([0, 10, 100]))
                out.append(Chem.MolToSmiles(mm))
            else:
                out.append(Chem.MolToSmiles(m))
        return out
    res = []
    kinds = ["random", "kekule", "mapped", "shuffle", "random+shuffle", "mapped+shuffle"][:n]
    for kind in kinds:
        base = kind.split("+")[0]
        a, b = write(L, base if base != "shuffle" else "canon0"), write(P, base if base != "shuffle" else "canon0")
        if base == "shuffle":
            a, b = l.split("."), p.split(".")
            a = [Chem.MolToSmiles(m) for m in L]; b = [Chem.MolToSmiles(m) for m in P]
        if "shuffle" in kind:
            rng.shuffle(a); rng.shuffle(b)
        v = ".".join(a) + ">>" + ".".join(b)
        # equivalence is re-checked independently
        if pipe.canon_multiset(v.split(">>")[0]) == pipe.canon_multiset(l) and pipe.canon_multiset(v.split(">>")[1]) == pipe.canon_multiset(p):
            res.append((kind, v))
    return res


def added(inp_stripped, out):
    l, p = inp_stripped.split(">>"); ol, op = out.split(">>")
    a = pipe.canon_multiset(ol) - pipe.canon_multiset(l)
    b = pipe.canon_multiset(op) - pipe.canon_multiset(p)
    return {str(k): v for k, v in a.items()}, {str(k): v for k, v in b.items()}


def _heavy(smi):
    from rdkit import Chem
    m = Chem.MolFromSmiles(smi)
    return m.GetNumHeavyAtoms() if m is not None else 99


def run(ctx):
    from rdkit import RDLogger
    RDLogger.DisableLog("rdApp.*")
    rng = random.Random("c14|%s|%s" % (ctx.seed, ctx.tier))
    bs = pipe.corpus_run(ctx)
    gs = c03.gen_run(ctx)
    bases = []
    for b in bs + gs:
        if len(b["rows"]) != len(b["inputs"]):
            continue
        for inp, r in zip(b["inputs"], b["rows"]):
            if r["solved_by"] in ("input-balanced", "rule-based") and inp.count(">>") == 1 and pipe.closed_shell(inp) and not c02.placeholders(inp):
                bases.append((inp, r))
    # fixed bases that need something specific: alkali metal / hydride reagents (the four "no constraint" molecules of the
    # redox rewrite) in every position, and deficits of several different heavy elements (several equally ranked completions)
    fixed = ["[H-].[Na+].CCO>>CC[O-].[Na+]", "CCO.[Na+].[H-]>>CC[O-].[Na+]", "[K+].[H-].Oc1ccccc1>>[O-]c1ccccc1.[K+]", "CCO.[Na]>>CC[O-].[Na+]",
             "[Li].CC=O>>CC[O-].[Li+]", "CC(=O)C.[H-]>>CC(C)[O-]", "[K].CCO>>CC[O-].[K+]", "CC(N)=O.O.[Na+].[OH-]>>CC(=O)O",
             "CCBr.N.O>>CCO", "CC(=O)Cl.N.O>>CC(=O)O", "CCOC(C)=O.[Na+].[OH-].Cl>>CCO.CC(=O)O",
             # an excess reagent written identically twice on one side and once on the other (string-identical copies in the base,
             # differently spelled copies in the variants)
             "c1cc[nH]c1.CC(=O)Cl>>CC(=O)n1cccc1", "c1ccc2[nH]ccc2c1.CC(=O)Cl>>CC(=O)n1ccc2ccccc21", "O=c1cccc[nH]1.CC(=O)Cl>>CC(=O)n1ccccc1=O", "Oc1ccccc1.CC(=O)Cl>>CC(=O)Oc1ccccc1",
             "CCO.CCO.CC(=O)Cl>>CC(=O)OCC.CCO.Cl", "Nc1ccccc1.Nc1ccccc1.CC(=O)Cl>>CC(=O)Nc1ccccc1.Nc1ccccc1", "CC(=O)O.CC(=O)O.CCO>>CC(=O)OCC.CC(=O)O",
             "CCO.CCO.CCO.CC(=O)Cl>>CC(=O)OCC.CCO", "CN.CN.CCBr>>CCNC.CN", "c1ccccc1.c1ccccc1.CC(=O)Cl>>CC(=O)c1ccccc1.c1ccccc1.Cl"]
    import gen_data
    from synrbl.rule_based import RuleBasedMethod
    dbs = [d["smiles"] for d in RuleBasedMethod("id", "reaction", "reaction").rules if "." not in d["smiles"] and d["smiles"] not in ("[H]", "[O]")]
    for _ in range(12 if ctx.quick() else 150):
        extra = rng.sample(dbs, rng.randint(2, 3))
        # (the composition solver -- the real one and the Coq model alike -- searches the database exhaustively, and its cost grows
        # exponentially with the size of the deficit: 10 heavy atoms cost ~5 min per batch of 16 spellings in Coq, 14 more than 30 min; the
        # heaviest compounds are dropped until at most 8 heavy atoms are missing -- no further random draw, so every other base is unchanged)
        while len(extra) > 1 and sum(_heavy(x) for x in extra) > 8:
            extra.remove(max(extra, key=_heavy))
        core = rng.choice(["CC(=O)O", "CCO", "c1ccccc1", "CCN", "CC(C)=O"])
        fixed.append(".".join([core] + extra) + ">>" + core)
    fb = pipe.run_batches([fixed[i:i + 12] for i in range(0, len(fixed), 12)])
    # (kept whatever their outcome: the property is symmetric -- if ANY spelling of a reaction has a composition-determined outcome, every
    # spelling must have it; a base that a defect leaves unsolved is compared against its solved variants below)
    fixed_rows = [(inp, r) for b in fb if len(b["rows"]) == len(b["inputs"]) for inp, r in zip(b["inputs"], b["rows"]) if pipe.closed_shell(inp)]
    ctx.count("inputs", "fixed_bases_composition_determined", len(fixed_rows))
    marker = [m for m in c02.marker_stream(rng, 0) if pipe.closed_shell(m)]
    nb = 110 if ctx.quick() else 1500
    rng.shuffle(bases)
    # stratify: all rule-based first (rarer), then input-balanced
    bases = fixed_rows + sorted(bases, key=lambda x: x[1]["solved_by"] != "rule-based")[:nb]
    nv = 4 if ctx.quick() else 6
    jobs, meta = [], []
    for inp, r in bases:
        for kind, v in variants(rng, inp, nv):
            jobs.append(v); meta.append((inp, kind))
    mk = rng.sample(marker, 30 if ctx.quick() else 200)
    mjobs = []
    for inp in mk:
        mjobs.append(inp); meta.append((inp, "identity"))
        for kind, v in variants(rng, inp, nv):
            mjobs.append(v); meta.append((inp, kind))
    jobs += mjobs
    batches = [jobs[i:i + 16] for i in range(0, len(jobs), 16)]
    name = "c14_%s_%d" % (ctx.tier, ctx.seed)
    vb, _ = pipe.cached(name, lambda: pipe.run_batches(batches))
    rows = []
    for b in vb:
        if len(b["rows"]) != len(b["inputs"]):
            # some row of this batch was dropped: every input is run again alone; a spelling that has no row at all (while the base
            # has one) is a changed verdict
            for v in b["inputs"]:
                sb = pipe.run_batch([v])
                if len(sb["rows"]) == 1:
                    rows.append((sb["rows"][0], sb))
                else:
                    rows.append(("NOROW", sb))
        else:
            rows += list(zip(b["rows"], [b] * len(b["rows"])))
    base_rows = {inp: r for inp, r in bases}
    # marker bases: the identity run is the base row
    for (inp, kind), rr in zip(meta, rows):
        if kind == "identity" and rr is not None:
            base_rows[inp] = rr[0]
    ctx.count("inputs", "bases", len(base_rows)); ctx.count("inputs", "variant_runs", len(jobs))
    hyp_ok = hyp_bad = 0
    for (inp, kind), v, rr in zip(meta, jobs, rows):
        if rr is None or kind == "identity":
            continue
        r2, b2 = rr
        if r2 == "NOROW":
            r1 = base_rows.get(inp)
            if r1 is not None and r1["solved_by"] in ("input-balanced", "rule-based"):
                ctx.evaluations += 1
                ctx.fail("verdict-changed-by-spelling", {"base": inp, "variant_kind": kind, "inputs": [v]}, {"base_row": r1, "variant_row": None, "note": "the variant spelling has no result row at all"})
            continue
        r1 = base_rows.get(inp)
        if r1 is not None and r1["solved_by"] not in ("input-balanced", "rule-based") and r2["solved_by"] in ("input-balanced", "rule-based"):
            ctx.evaluations += 1
            mk_in = any(c02.outside_guard(x) or any(c.startswith(m) for c in x.replace(">>", ".").split(".") for m in c02.MARKERS)
                        for x in (r1["input_reaction"] or inp, r2["input_reaction"] or v))
            ctx.fail("marker-position-sensitive" if mk_in else "verdict-changed-by-spelling", {"base": v, "variant_kind": "base-spelling", "inputs": [inp]},
                     {"base_row": r2, "variant_row": r1})
            continue
        if r1 is None or r1["solved_by"] not in ("input-balanced", "rule-based"):
            ctx.count("skipped", "base_not_composition_determined")
            continue
        ctx.evaluations += 1
        ctx.count("variants", kind)
        if r1["reaction"] != r1["input_reaction"]:
            ctx.nontrivial.add((inp, v))
        # hypothesis of the theorems on the recorded tables: same composition per side, whatever the entry order
        dec = dict((k, vv) for k, vv in b2["tables"]["decomp"])
        vi = r2["input_reaction"]
        l1, p1 = r1["input_reaction"].split(">>"); l2, p2 = vi.split(">>")
        if pipe.comp(l1) == pipe.comp(l2) and pipe.comp(p1) == pipe.comp(p2) and dec.get(l2) == pipe.comp(l2) and dec.get(p2) == pipe.comp(p2):
            hyp_ok += 1
        else:
            hyp_bad += 1
        case = {"base": inp, "variant_kind": kind, "inputs": [v]}
        pp_touched = any(x is not None and x == r2["reaction"] for _, x in b2["tables"]["pp"]) or ("[K]" in r1["reaction"] or "[Mn]" in r1["reaction"])
        markers_in = c02.outside_guard(vi) or c02.outside_guard(r1["input_reaction"]) or any(c.startswith(m) for s in (vi, r1["input_reaction"]) for c in s.replace(">>", ".").split(".") for m in c02.MARKERS)
        if (r1["solved"], r1["solved_by"]) != (r2["solved"], r2["solved_by"]):
            ctx.fail("marker-position-sensitive" if markers_in else "verdict-changed-by-spelling", case,
                     {"base_row": r1, "variant_row": r2})
            continue
        if r1["solved_by"] == "rule-based" and not pp_touched:
            a1, a2 = added(r1["input_reaction"], r1["reaction"]), added(vi, r2["reaction"])
            if a1 != a2:
                # redox reagent templates are excluded by the statement
                redox = any(any(t in k for t in ("Mn", "Cr", "[K]", "[Na]", "[Li]", "B", "Al")) for side in a1 + a2 for k in side)
                if redox:
                    ctx.count("skipped", "redox_template_choice")
                else:
                    ctx.fail("marker-position-sensitive" if markers_in else "added-molecules-changed-by-spelling", case,
                             {"base_added": a1, "variant_added": a2, "base_row": r1, "variant_row": r2})
    ctx.extra["theorem_hypothesis_checked"] = {"holds": hyp_ok, "fails": hyp_bad}
    if hyp_bad:
        ctx.mismatch("decomp oracle is not spelling independent (hypothesis geq of the C14 theorems)", {"pairs": hyp_bad}, None, None)
    ctx.sample({"base": meta[0][0], "variant": jobs[0], "kind": meta[0][1]})
    ctx.sample({"base": meta[-1][0], "variant": jobs[-1], "kind": meta[-1][1]})
    pipe.eval_pipeline_cases(ctx, vb, "c14")


def replay(ctx, rep):
    case = rep.get("failing_input", {})
    if isinstance(case, dict) and "inputs" in case:
        b = pipe.run_batches([[case["base"]], case["inputs"]])
        print(json.dumps([x["rows"] for x in b], indent=1))
        r1, r2 = b[0]["rows"][0], b[1]["rows"][0]
        return 0 if (r1["solved"], r1["solved_by"]) == (r2["solved"], r2["solved_by"]) and added(r1["input_reaction"], r1["reaction"]) == added(r2["input_reaction"], r2["reaction"]) else 1
    return 0
