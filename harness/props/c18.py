"""C18 -- run statistics agree with the returned rows."""
import random, json, collections
from common import *
import pipe, gens
from props import c03, c13

RULE = ("every recorded batch of the corpus run and of the generated run, one batch for every non-empty combination of six row classes (input-balanced, rule-based, both sides unbalanced, MCS, carbon deficit, no solution), the MCS-stage reactions at thresholds {0, 0.5, 1, observed confidences and both float neighbours}, plus multi-batch runs (random batch sizes), cached re-runs of the same rows at other thresholds over one cache directory and consecutive CLI runs in one process (their .stats files) whose merged "
        "statistics are compared with the rows; each batch is replayed through the model inside Coq (rows + all seven counters); "
        "independent oracle recomputes every relation of the property from the returned rows.  Non-trivial: a batch with at least "
        "two different outcomes among its rows; distinct = distinct batch content.")
ASSUMPTIONS = c03.ASSUMPTIONS
TRUSTED = ["RDKit for the independent oracles"]


def relations(ctx, inputs, rows, st, case):
    by = collections.Counter(r["solved_by"] for r in rows)
    n_mcs_solved_rows = sum(1 for r in rows if r["solved"] and r["solved_by"] == "mcs-based")
    early = by["input-balanced"] + by["rule-based"]
    exp = {"reaction_cnt": len(inputs), "balanced_cnt": by["input-balanced"], "confident_cnt": n_mcs_solved_rows,
           "mcs_applied": len(rows) - early}
    for k, v in exp.items():
        rep = st.get(k)
        if rep is None and len(rows) != len(inputs):
            rep = 0            # every batch of the run was lost: no statistics were merged at all
        if rep != v:
            # the known mechanism concerns reaction_cnt only (inputs of a lost batch / filtered rows are not counted); the other
            # counters are compared with the rows that DID come back and must agree with them even then
            kind = "rows-lost-batch-not-counted" if (len(rows) != len(inputs) and k == "reaction_cnt") else "statistic-disagrees-with-rows"
            ctx.fail(kind, case, {"statistic": k, "reported": st.get(k), "from_rows": v})
    if st.get("rb_solved", 0) > st.get("rb_applied", 0) or st.get("mcs_solved", 0) > st.get("mcs_applied", 0):
        ctx.fail("solved-exceeds-applied", case, {"stats": st})
    if len(rows) == len(inputs):
        if st.get("rb_solved", 0) < by["rule-based"] or st.get("mcs_solved", 0) < by["mcs-based"]:
            ctx.fail("solved-below-attributed", case, {"stats": st, "by": dict(by)})


CLASSES = [("input-balanced", ["CC(=O)O.CCO>>CC(=O)OCC.O", "[Na+].[Cl-]>>[Na+].[Cl-]"]),
           ("rule-based", ["CC(=O)Cl.CN>>CC(=O)NC", "CC(=O)C>>CC(O)C"]),
           ("both-sides-unbalanced", ["CCBr>>CCCl", "CCO.[Na]>>CC[O-].[K+]"]),
           ("mcs", ["CCCOC(=O)C>>OC(=O)C", "CC(=O)OCC>>CCO"]),
           ("carbon-deficit", ["C>>CC"]),
           ("no-solution", ["CCO>>CCS", "c1ccccc1>>c1ccncc1"])]


def composition_run(ctx):
    import itertools
    rng = random.Random("c18comp|%s|%s" % (ctx.seed, ctx.tier))
    batches = []
    for mask in range(1, 2 ** len(CLASSES)):
        b = []
        for i, (_, reps) in enumerate(CLASSES):
            if mask >> i & 1:
                b += reps if not ctx.quick() else [reps[(mask + i) % len(reps)]]
        rng.shuffle(b)
        batches.append(b)
    val, _ = pipe.cached("c18comp_%s_%d" % (ctx.tier, ctx.seed), lambda: pipe.run_batches(batches))
    return val


def run(ctx):
    from rdkit import RDLogger
    RDLogger.DisableLog("rdApp.*")
    bs = pipe.corpus_run(ctx)
    gs = c03.gen_run(ctx)
    for b in bs + gs:
        ctx.evaluations += 1
        if len({(r["solved"], r["solved_by"]) for r in b["rows"]}) >= 2:
            ctx.nontrivial.add(json.dumps(b["inputs"]))
        relations(ctx, b["inputs"], b["rows"], b["stats"], {"inputs": b["inputs"]})
    # thresholds: the same relations must hold at every threshold, in particular at observed confidences and their float neighbours
    truns, ths, _ = c13.threshold_runs(ctx)
    tb = []
    for x in truns:
        b = x["batch"]
        ctx.evaluations += 1
        ctx.count("thresholds", "batches")
        if any(r["solved_by"] == "mcs-based" for r in b["rows"]):
            ctx.nontrivial.add(json.dumps([b["inputs"], x["t"]]))
        relations(ctx, b["inputs"], b["rows"], b["stats"], {"inputs": b["inputs"], "threshold": x["t"]})
        tb.append(b)
    # batch composition: every non-empty combination of row classes as one batch (a counter computed on a shortcut path that only
    # some compositions take -- no rule-based candidate, no MCS row, nothing unsolved -- is otherwise never looked at)
    cb = composition_run(ctx)
    for b in cb:
        ctx.evaluations += 1
        ctx.count("composition", "batches")
        if len({(r["solved"], r["solved_by"]) for r in b["rows"]}) >= 2:
            ctx.nontrivial.add(json.dumps(b["inputs"]))
        relations(ctx, b["inputs"], b["rows"], b["stats"], {"inputs": b["inputs"]})
    tb = tb + cb
    import matrix
    for run in matrix.runs(ctx):
        ctx.count("matrix", run["config"][:40])
        if not run["error"]:
            ctx.evaluations += 1
            relations(ctx, run["given"], run["rows"], run["stats"], {"inputs": run["given"], "matrix": run["config"]})
    # merged statistics of multi-batch runs through the public API
    from synrbl import Balancer
    rng = random.Random("c18|%s|%s" % (ctx.seed, ctx.tier))
    cheap = [i for b in gs if len(b["rows"]) == len(b["inputs"]) for i, r in zip(b["inputs"], b["rows"]) if r["solved_by"] in ("input-balanced", "rule-based")]
    for _ in range(6 if ctx.quick() else 40):
        ins = rng.sample(cheap, min(len(cheap), rng.randint(5, 30)))
        k = rng.randint(1, len(ins) + 1)
        st = {}
        rows = Balancer(n_jobs=1, batch_size=k).rebalance(list(ins), output_dict=True, stats=st)
        ctx.evaluations += 1
        ctx.count("merged", "multi_batch_runs")
        relations(ctx, ins, rows, st, {"inputs": ins, "batch_size": k})
    # cached re-runs: the statistics of a run served from the cache must describe the rows that run returns (other threshold, same rows)
    import tempfile, shutil, csv as _csv
    mcsrows = [i for b in bs if len(b["rows"]) == len(b["inputs"]) for i, r in zip(b["inputs"], b["rows"]) if r["solved_by"] == "mcs-based"][:6 if ctx.quick() else 30]
    ins = (mcsrows + cheap[:6])
    tmpc = tempfile.mkdtemp(prefix="synrbl_c18_")
    try:
        # thresholds that separate the observed confidences (a threshold with MCS rows on both sides of it), and the end points
        confs = sorted({r["confidence"] for b in bs for r in b["rows"] if r["solved_by"] == "mcs-based" and r["input_reaction"] in set(mcsrows) and r["confidence"] is not None})
        mid = (confs[len(confs) // 2] + (confs[len(confs) // 2 - 1] if len(confs) > 1 else 0)) / 2 if confs else 0.5
        for hist in ([0, mid, 1, 0], [1, 0, mid]) if ctx.quick() else ([0, mid, 1, 0], [1, 0, mid], [0.9, 0, 0.5], [mid, 0.3, 0.7, 0], [0.5, 0.5]):
            cdir = tempfile.mkdtemp(prefix="c", dir=tmpc)
            for t in hist:
                st = {}
                rows = Balancer(n_jobs=1, batch_size=5, confidence_threshold=t, cache=True, cache_dir=cdir).rebalance(list(ins), output_dict=True, stats=st)
                ctx.evaluations += 1
                ctx.count("cached", "runs")
                ctx.nontrivial.add(json.dumps(["cached", hist, t]))
                relations(ctx, ins, rows, st, {"inputs": ins, "threshold": t, "batch_size": 5, "cache_history": hist})
        # the CLI: consecutive runs of the `run` sub-command in ONE process, each writing <output>.stats next to its result file
        from synrbl.SynCmd.cmd_run import impute
        lists = [cheap[:5], cheap[3:11] + mcsrows[:1], cheap[2:6]]
        for k, lst in enumerate(lists):
            src, out = os.path.join(tmpc, "in%d.csv" % k), os.path.join(tmpc, "out%d.csv" % k)
            with open(src, "w", newline="") as f:
                w = _csv.writer(f); w.writerow(["reaction"]); [w.writerow([x]) for x in lst]
            try:
                import io, contextlib
                with contextlib.redirect_stdout(io.StringIO()):
                    impute(src, out, "reaction", [], [0, 0.5, 0][k], n_jobs=1, batch_size=[None, 3, 2][k])
                with open(out, newline="") as f:
                    got = list(_csv.DictReader(f))
                with open(out + ".stats") as f:
                    st = json.load(f)
            except Exception as e:
                ctx.mismatch("CLI run raised", lst[:2], str(e), None)
                continue
            rows = [{"solved": g["solved"] == "True", "solved_by": g["solved_by"] or None} for g in got]
            ctx.evaluations += 1
            ctx.count("cli", "consecutive_runs_in_one_process")
            relations(ctx, lst, rows, st, {"inputs": lst, "cli_run": k, "of": [len(x) for x in lists]})
    finally:
        shutil.rmtree(tmpc, ignore_errors=True)
    # malformed stream: lost batches / filtered rows (C05's mechanisms) and what the counters say then
    for ins, k in ((["C>>C", "C", "CC>>CC"], None), (["C>>C", "XX>>C", "CC>>CC"], None), (["C>>C", "C", "CC>>CC", "CCO>>CCO"], 2)):
        b = pipe.run_api(ins, k)
        ctx.evaluations += 1
        ctx.count("merged", "malformed_runs")
        relations(ctx, ins, b["rows"], b["stats"], {"inputs": ins, "batch_size": k})
    ctx.sample({"inputs": bs[0]["inputs"][:2], "stats": bs[0]["stats"]})
    pipe.eval_pipeline_cases(ctx, bs + gs + tb, "c18")
    c03.h2_check(ctx, bs + gs, "c18h2")


def replay(ctx, rep):
    case = rep.get("failing_input", {})
    if isinstance(case, dict) and "inputs" in case:
        from synrbl import Balancer
        st = {}
        rows = Balancer(n_jobs=1, batch_size=case.get("batch_size"), confidence_threshold=case.get("threshold", 0)).rebalance(list(case["inputs"]), output_dict=True, stats=st)
        n = len(ctx.failures); relations(ctx, case["inputs"], rows, st, case)
        print(st); return 1 if len(ctx.failures) > n else 0
    return 0
