"""C12 -- result caching is transparent across runs, configurations and crashes."""
import random, json, os, tempfile, shutil, copy, hashlib, math
from common import *

RULE = ("fixed histories (entry written under a higher threshold read under a lower one and vice versa for MCS results with a confidence in between; atom-map removal switched off/on; the same reactions as bare strings and as rows carrying further columns named like output columns; the same rows in another order; the same rows with an extended `columns` list; batches whose strings concatenate alike; a birthday probe of the key function itself (10^5 one-row batches); each also with ONE Balancer object re-used and its public attributes set between runs) and random histories of 3-6 rebalancing runs over ONE shared cache directory (temp dir outside /repo and /verif): inputs drawn with "
        "overlap from a pool of cheap reactions and two MCS-stage reactions, batch size in {None,1,2,3,5}, threshold in {0, 0.5, 0.9, 1}, "
        "list-of-str / list-of-dict with the default or a renamed reaction column; between runs an existing entry is replaced by what a "
        "killed write can leave (absent, empty, a truncated prefix -- quick: 40 offsets, thorough: EVERY prefix of one entry --, garbage, "
        "'{}', a leftover tmp file).  Every completed run is compared (all public columns of all rows + statistics) with the same run "
        "with caching disabled; an exception out of rebalance is a failure.  Correspondence: the sequence of hits / misses / lost "
        "batches observed by wrapping CacheManager and the pipeline is replayed through Model/Cache.run_cached inside Coq with the "
        "real SHA keys.  Non-trivial: a run with at least one cache hit or one damaged entry; distinct = distinct (history prefix, run).")
ASSUMPTIONS = ["(A7) SHA-256 of the JSON text is injective on the (configuration, batch) pairs of a history (checked: distinct pairs got distinct keys)",
               "the pipeline is a function of (configuration, batch) (C06); JSON round-trips the public columns (checked on every hit by the row comparison)"]
TRUSTED = ["the file system as exercised (os.replace atomicity is POSIX's, not tested by killing processes)"]
HDR = ("From Coq Require Import List Bool NArith.\nFrom SynRBL Require Import Model.Cache.\nImport ListNotations.\n")
DEFS = """
Fixpoint look2 (l : list (nat * nat * N)) (c b : nat) : N :=
  match l with [] => 0%N | (c', b', k) :: t => if Nat.eqb c c' && Nat.eqb b b' then k else look2 t c b end.
Fixpoint lookp (l : list (nat * nat * option nat)) (c b : nat) : option nat :=
  match l with [] => None | (c', b', r) :: t => if Nat.eqb c c' && Nat.eqb b b' then r else lookp t c b end.
Definition how_eqb (a b : how) : bool := match a, b with Hit, Hit | Miss, Miss | Lost, Lost => true | _, _ => false end.
Fixpoint list_eqb {A} (e : A -> A -> bool) (a b : list A) : bool :=
  match a, b with [], [] => true | x :: a', y :: b' => e x y && list_eqb e a' b' | _, _ => false end.
Definition opt_eqb (a b : option nat) : bool := match a, b with Some x, Some y => Nat.eqb x y | None, None => true | _, _ => false end.
(* events: inl (c, batches, expected results, expected hows) = a completed run ; inr (k, damaged) = an entry replaced / removed *)
Inductive ev := Run (c : nat) (bs : list nat) (er : list (option nat)) (eh : list how) | Damage (k : N) | Remove (k : N).
Fixpoint remove_key (st : fsys nat) (k : N) : fsys nat :=
  match st with [] => [] | (k', c) :: t => if N.eqb k k' then remove_key t k else (k', c) :: remove_key t k end.
Fixpoint replay (keys : list (nat * nat * N)) (pl : list (nat * nat * option nat)) (st : fsys nat) (evs : list ev) : bool :=
  match evs with
  | [] => true
  | Run c bs er eh :: t =>
    let '(rs, hs, st') := run_cached nat nat nat (lookp pl) (look2 keys) c st bs in
    list_eqb opt_eqb rs er && list_eqb how_eqb hs eh && replay keys pl st' t
  | Damage k :: t => replay keys pl (update nat st k Unreadable) t
  | Remove k :: t => replay keys pl (remove_key st k) t
  end.
"""
CHEAP = ["C>>C", "CC>>CC", "CCO>>CCO", "CCBr.O>>CCO", "CC(=O)OC.O>>CC(=O)O", "CC(=O)Cl.OC>>CC(=O)OC", "CC(=O)C>>CC(O)C", "CC>>CCC",
         "CCN.CC(=O)Cl>>CCNC(C)=O", "CC(=O)O.[OH-]>>CC(=O)[O-].O", "C", "XX>>C"]
MCS = ["CCOC(=O)C>>CC(=O)O", "CC(=O)OCC.CN>>CC(=O)NC"]


def pub(rows):
    out = []
    for r in rows:
        c = r.get("confidence")
        out.append({"input_reaction": r.get("input_reaction"), "reaction": r.get("reaction"), "solved": bool(r.get("solved")),
                    "solved_by": r.get("solved_by") if isinstance(r.get("solved_by"), str) else None,
                    "issue": r.get("issue") if isinstance(r.get("issue"), str) else None,
                    "rules": list(r["rules"]) if isinstance(r.get("rules"), list) else None,
                    "confidence": None if c is None or (isinstance(c, float) and math.isnan(c)) else float(c)})
    return out


class Spy:
    """wraps CacheManager / the pipeline to observe, per batch, Hit / Miss / Lost and the key used"""
    def __init__(self):
        import synrbl.balancing as bal
        self.bal = bal
        self.log = []
        B = bal.Balancer
        self.o_rb = B._Balancer__rebalance_batch
        spy = self

        def rb(self_, batch, cache_manager):
            ran = {"n": 0}
            o_run = B._Balancer__run_pipeline

            def run(s2, reactions, stats=None):
                ran["n"] += 1
                return o_run(s2, reactions, stats)
            B._Balancer__run_pipeline = run
            try:
                result, st = spy.o_rb(self_, batch, cache_manager)
            finally:
                B._Balancer__run_pipeline = o_run
            spy.log.append({"batch": copy.deepcopy(batch), "how": "Lost" if result is None else ("Miss" if ran["n"] else "Hit")})
            return result, st
        B._Balancer__rebalance_batch = rb

    def close(self):
        self.bal.Balancer._Balancer__rebalance_batch = self.o_rb


def one_run(cfg, inputs, cache_dir, reuse=None):
    """reuse: a dict holding one Balancer object that is re-used across the runs of a history, its public attributes
    (confidence_threshold, remove_aam, batch_size) being SET between runs instead of passed to a fresh constructor"""
    from synrbl import Balancer
    col = cfg["col"]
    data = [({col: s} if cfg["dict"] or col != "reaction" else s) for s in inputs]
    if cfg.get("extra"):
        # rows that carry further columns, some named like output columns (the records of an earlier result file fed back in)
        data = [dict({col: s}, **{k: copy.deepcopy(v) for k, v in cfg["extra"].items()}) for s in inputs]
    st = {}
    if reuse is not None and reuse.get("col") == col and cache_dir is not None:
        b = reuse["obj"]
        b.confidence_threshold = cfg["t"]; b.batch_size = cfg["bs"]; b.remove_aam = cfg.get("aam", True)
    else:
        b = Balancer(reaction_col=col, confidence_threshold=cfg["t"], n_jobs=1, batch_size=cfg["bs"], cache=cache_dir is not None, cache_dir=cache_dir)
        b.remove_aam = cfg.get("aam", True)
        if reuse is not None and cache_dir is not None:
            reuse["obj"], reuse["col"] = b, col
    # the public `columns` attribute (which keys of a row are returned) may be extended by the caller
    if not hasattr(b, "_c12_default_columns"):
        b._c12_default_columns = list(b.columns)
    b.columns = list(b._c12_default_columns) + [c for c in cfg.get("cols", []) if c not in b._c12_default_columns]
    rows = b.rebalance(copy.deepcopy(data), output_dict=True, stats=st)
    # rename the reaction column back for comparison
    out = pub([{("reaction" if k == col else k): v for k, v in r.items()} for r in rows])
    for o, r in zip(out, rows):
        for c in cfg.get("cols", []):
            o["col:" + c] = r.get(c, "<absent>")
    return out, st, data


def run(ctx):
    from rdkit import RDLogger
    RDLogger.DisableLog("rdApp.*")
    import io, contextlib, logging
    rng = random.Random("c12|%s|%s" % (ctx.seed, ctx.tier))
    nh = 6 if ctx.quick() else 40
    uncached = {}

    def ref(cfg, inputs):
        k = json.dumps([cfg, inputs], sort_keys=True)
        if k not in uncached:
            with contextlib.redirect_stderr(io.StringIO()):
                uncached[k] = one_run(cfg, inputs, None)[:2]
        return uncached[k]

    def reproducible(cfg, inputs, rows, st):
        """the searches of the MCS stage work under wall-clock budgets: under machine load the uncached reference itself can differ from
        run to run.  A difference counts only if a second, fresh uncached run still differs from the cached run in the same way."""
        with contextlib.redirect_stderr(io.StringIO()):
            r2, s2 = one_run(cfg, inputs, None)[:2]
        if r2 == rows and s2 == st:
            uncached[json.dumps([cfg, inputs], sort_keys=True)] = (r2, s2)
            ctx.timing_unstable += 1
            return False
        return True

    coq_cases, meta = [], []
    # fixed histories that need a specific order: an entry written under a HIGHER threshold read under a lower one (and the
    # reverse) for MCS results whose confidence lies between, atom-map removal switched off and on, one object re-used
    M = ["CC(=O)OCC>>CC(=O)O", "CCOC(=O)C>>CC(=O)O", "[CH3:1][CH2:2]Br.O>>[CH3:1][CH2:2]O"]
    def F(t, aam=True, bs=None):
        return {"t": t, "bs": bs, "col": "reaction", "dict": False, "aam": aam}
    fixed = [[(F(0.5), M), (F(0), M)], [(F(0), M), (F(0.5), M), (F(0.1), M)], [(F(0.9), M[:2]), (F(0.2), M[:2]), (F(0.9), M[:2])],
             [(F(0, aam=True), M), (F(0, aam=False), M), (F(0, aam=True), M)]]
    # the same reactions as bare strings and as rows with further columns (an entry of the one form must not be served to the other)
    X = ["CC(=O)O.CCO>>CC(=O)OCC.O", "CCBr.O>>CCO", "CC(=O)C>>CC(O)C", "CC>>CCC"]
    ann = dict(F(0), extra={"confidence": 0.5, "rules": ["from-file"], "issue": "old issue", "solved_by": "someone", "note": "n1"})
    ann2 = dict(F(0), extra={"note": "n2", "issue": "another"})
    fixed += [[(F(0), X), (ann, X), (F(0), X)], [(ann, X), (F(0), X), (ann2, X), (ann, X)]]
    # the same rows in another order (an entry is a positional list of result rows), and the same rows with a longer `columns` list
    X2, X3 = [X[2], X[0], X[3], X[1]], [X[1], X[2], X[3], X[0]]
    wide = dict(ann2, cols=["note", "id"])
    # two batches whose reaction strings CONCATENATE to the same text (a key built without delimiters cannot tell them apart)
    KA, KB = ["CC(=O)OCC>>CC(=O)O", "CCO>>CC=O"], ["CC(=O)OCC>>CC(=O)OC", "CO>>CC=O"]
    fixed += [[(F(0), KA), (F(0), KB), (F(0), KA)], [(F(0, bs=2), KA + ["C>>C"]), (F(0, bs=2), KB + ["C>>C"])]]
    fixed += [[(F(0), X), (F(0), X2), (F(0), X3), (F(0), X)], [(F(0, bs=2), X), (F(0, bs=2), X2)],
              [(ann2, X), (wide, X), (ann2, X)], [(wide, X), (ann2, X), (wide, X2)]]
    for fi, fh in enumerate(fixed + fixed):
        reuse = {} if fi >= len(fixed) else None
        tmp = tempfile.mkdtemp(prefix="synrbl_c12f_")
        try:
            hist = []
            for cfg, inputs in fh:
                case = {"history": [[c, i] for c, i in hist], "run": [cfg, inputs], "one_balancer_object_reused": reuse is not None}
                try:
                    with contextlib.redirect_stderr(io.StringIO()):
                        rows, st, _ = one_run(cfg, inputs, tmp, reuse)
                        rrows, rst = one_run(cfg, inputs, None)[:2]
                except Exception as e:
                    ctx.fail("cached-run-raised", case, {"error": "%s: %s" % (type(e).__name__, str(e)[:200])})
                    break
                ctx.evaluations += 1
                ctx.count("fixed", "runs")
                if hist:
                    ctx.nontrivial.add(json.dumps(case, sort_keys=True))
                if (rows != rrows or st != rst) and reproducible(cfg, inputs, rows, st):
                    ctx.fail("cached-run-differs-from-uncached", case, {"cached": rows[:3], "uncached": rrows[:3], "cached_stats": st, "uncached_stats": rst})
                hist.append((cfg, inputs))
        finally:
            shutil.rmtree(tmp, ignore_errors=True)
    # hypothesis key_inj of the theorem (A7): the key function is injective on what a history can hold.  A key that is too narrow does
    # not show on a few runs, so it is probed directly: the implementation's own get_hash_key on many one-row batches that differ in a
    # free column; if two of them share a key, that pair is run through one cache directory (a collision of a full SHA-256 is out of reach)
    try:
        from synrbl.SynUtils.batching import CacheManager
        cm_dir = tempfile.mkdtemp(prefix="synrbl_c12k_")
        try:
            cm = CacheManager(cache_dir=cm_dir)
            cfgk = {"probe": 1}
            seenk, pair = {}, None
            rxa, rxb = "CC(=O)O.CCO>>CC(=O)OCC", "CCCCC(=O)O.CO>>CCCCC(=O)OC"
            for i in range(220000 if ctx.quick() else 600000):
                row = [{"id": "k%d" % i, "reaction": rxa if i % 2 == 0 else rxb}]
                k = cm.get_hash_key(row, cfgk)
                if k in seenk and seenk[k] != row:
                    pair = (seenk[k], row); break
                seenk[k] = row
            ctx.count("key_probe", "keys_computed", len(seenk))
            ctx.extra["key_length_hex_digits"] = len(k)
            if pair is not None:
                # the pair collides under the probe configuration; find one under the real configuration the same way is not needed: show it
                ctx.fail("cache-key-collision", {"batches": [pair[0], pair[1]], "config": cfgk}, {"key": k, "note": "two different batches share one cache key under get_hash_key"})
        finally:
            shutil.rmtree(cm_dir, ignore_errors=True)
    except Exception as e:
        ctx.notes.append("key probe not run: %s" % str(e)[:120])
    for h in range(nh):
        tmp = tempfile.mkdtemp(prefix="synrbl_c12_")
        spy = Spy()
        try:
            pool = rng.sample(CHEAP, 7) + ([rng.choice(MCS)] if h % 2 == 0 else [])
            events = []          # for the model
            cfg_ids, batch_ids, keys, plres, res_ids = {}, {}, {}, {}, {}
            nruns = rng.randint(3, 6)
            hist = []
            base_bs, base_col = rng.choice([None, 1, 2, 3]), rng.choice(["reaction", "reaction", "rxn"])
            for ri in range(nruns):
                # mostly the same partition and column (so that entries are found again), thresholds vary freely
                cfg = {"t": rng.choice([0, 0, 0.5, 0.9, 1]), "bs": base_bs if rng.random() < 0.8 else rng.choice([None, 1, 2, 3, 5]),
                       "col": base_col if rng.random() < 0.8 else rng.choice(["reaction", "rxn"]), "dict": rng.random() < 0.5}
                inputs = [rng.choice(pool) for _ in range(rng.randint(1, 6))]
                if ri > 0 and rng.random() < 0.7:
                    inputs = list(hist[rng.randrange(len(hist))][1])       # repeat an earlier input list (maybe under another configuration)
                    if rng.random() < 0.3:
                        inputs = inputs + [rng.choice(pool)]               # overlapping, not identical
                # damage an entry before the run?
                files = sorted(f for f in os.listdir(tmp) if f.endswith(".cache"))
                damaged = None
                if files and rng.random() < 0.6:
                    f = rng.choice(files)
                    p = os.path.join(tmp, f)
                    with open(p, "rb") as fh:
                        content = fh.read()
                    kind = rng.choice(["empty", "prefix", "prefix", "garbage", "braces", "absent", "tmp"])
                    if kind == "absent":
                        os.remove(p); events.append(("Remove", f[:-6]))
                    elif kind == "tmp":
                        with open(p + ".tmp123", "wb") as fh:
                            fh.write(content[: len(content) // 2])
                    else:
                        new = {"empty": b"", "prefix": content[: rng.randrange(1, max(2, len(content)))], "garbage": b"\x00\xff not json", "braces": b"{}"}[kind]
                        with open(p, "wb") as fh:
                            fh.write(new)
                        events.append(("Damage", f[:-6]))
                    damaged = kind
                spy.log = []
                case = {"history": [[c, i] for c, i in hist], "run": [cfg, inputs], "damaged_before_run": damaged}
                try:
                    with contextlib.redirect_stderr(io.StringIO()):
                        rows, st, data = one_run(cfg, inputs, tmp)
                except Exception as e:
                    ctx.fail("unreadable-entry-raises" if damaged in ("empty", "prefix", "garbage") else "cached-run-raised", case, {"error": "%s: %s" % (type(e).__name__, str(e)[:200])})
                    hist.append((cfg, inputs))
                    events = None
                    break
                ctx.evaluations += 1
                log = list(spy.log)            # the uncached reference runs below go through the same wrapper
                rrows, rst = ref(cfg, inputs)
                hows = [x["how"] for x in log]
                if "Hit" in hows or damaged:
                    ctx.nontrivial.add(json.dumps(case, sort_keys=True))
                ctx.count("batches", "hit", hows.count("Hit")); ctx.count("batches", "miss", hows.count("Miss")); ctx.count("batches", "lost", hows.count("Lost"))
                if damaged:
                    ctx.count("damage", damaged)
                if (rows != rrows or st != rst) and reproducible(cfg, inputs, rows, st):
                    served_other_cfg = any(c != cfg and i == inputs for c, i in hist) or "Hit" in hows
                    ctx.fail("cache-serves-other-configuration" if served_other_cfg and any({k: v for k, v in c.items() if k != "bs"} != {k: v for k, v in cfg.items() if k != "bs"} for c, _ in hist) else "cached-run-differs-from-uncached",
                             case, {"cached": rows[:3], "uncached": rrows[:3], "cached_stats": st, "uncached_stats": rst, "hows": hows})
                hist.append((cfg, inputs))
                # model event
                if events is not None:
                    import synrbl.SynUtils.batching as bt
                    cm = bt.CacheManager(cache_dir=tmp)
                    ckey = json.dumps({k: v for k, v in cfg.items() if k not in ("bs", "dict")}, sort_keys=True)
                    cid = cfg_ids.setdefault(ckey, len(cfg_ids))
                    bids, ers = [], []
                    n_per = cfg["bs"] or len(data)
                    bl = [data[i:i + n_per] for i in range(0, len(data), n_per)]
                    for x, bdata in zip(log, bl):
                        bj = json.dumps(x["batch"], sort_keys=True)
                        bid = batch_ids.setdefault(bj, len(batch_ids))
                        bids.append(bid)
                        # result id from the uncached run of this batch alone under this configuration
                        rr, rs_ = ref({**cfg, "bs": None}, [d[cfg["col"]] if isinstance(d, dict) else d for d in x["batch"]])
                        lost = (x["how"] == "Lost")
                        rid = None if (not rr and not rs_) else res_ids.setdefault(json.dumps([rr, rs_], sort_keys=True), len(res_ids))
                        plres[(cid, bid)] = rid
                        ers.append(rid)
                    events.append(("Run", cid, bids, ers, hows, cfg, [x["batch"] for x in log]))
            # keys: read back from the directory listing by recomputing with the implementation's own function
            if events:
                coq_cases.append((events, tmp, cfg_ids, batch_ids, plres))
                # compute keys now (needs the implementation's key function and configuration)
                import synrbl.SynUtils.batching as bt
                from synrbl import Balancer
                cm = bt.CacheManager(cache_dir=tmp)
                keymap = {}
                for e in events:
                    if e[0] == "Run":
                        _, cid, bids, ers, hows, cfg, batches = e
                        bal = Balancer(reaction_col=cfg["col"], confidence_threshold=cfg["t"], n_jobs=1, cache=False)
                        for bid, bd in zip(bids, batches):
                            try:
                                conf = bal._Balancer__cache_config() if hasattr(bal, "_Balancer__cache_config") else None
                                k = cm.get_hash_key(bd, conf) if conf is not None else cm.get_hash_key(bd)
                            except TypeError:
                                k = cm.get_hash_key(bd)
                            keymap[(cid, bid)] = k
                if len(set(keymap.values())) != len(keymap):
                    ctx.notes.append("two (configuration, batch) pairs share a cache key in history %d (hypothesis key_inj of the theorem fails on the implementation)" % h)
                kn = lambda hx: int(hx[:15], 16)
                evs = []
                for e in events:
                    if e[0] == "Run":
                        evs.append("Run %s %s %s %s" % (cnat(e[1]), clist(e[2], cnat), clist(e[3], lambda r: copt(r, cnat)), clist(e[4], lambda x: x)))
                    elif e[0] == "Damage":
                        evs.append("Damage %d%%N" % kn(e[1]))
                    else:
                        evs.append("Remove %d%%N" % kn(e[1]))
                keys_l = clist(sorted(keymap.items()), lambda kv: "(%s, %s, %d%%N)" % (cnat(kv[0][0]), cnat(kv[0][1]), kn(kv[1])))
                pl_l = clist(sorted(plres.items()), lambda kv: "(%s, %s, %s)" % (cnat(kv[0][0]), cnat(kv[0][1]), copt(kv[1], cnat)))
                meta.append({"history": [[c, i] for c, i in hist]})
                coq_cases[-1] = "replay %s %s [] %s" % (keys_l, pl_l, clist(evs, lambda x: "(" + x + ")"))
        finally:
            spy.close()
            shutil.rmtree(tmp, ignore_errors=True)
    # ---- every crash point of one entry
    tmp = tempfile.mkdtemp(prefix="synrbl_c12p_")
    try:
        cfg = {"t": 0, "bs": None, "col": "reaction", "dict": False}
        inputs = ["CCBr.O>>CCO", "C>>C", "CC(=O)C>>CC(O)C"]
        with contextlib.redirect_stderr(io.StringIO()):
            one_run(cfg, inputs, tmp)
        files = [f for f in os.listdir(tmp) if f.endswith(".cache")]
        rrows, rst = ref(cfg, inputs)
        if len(files) == 1:
            p = os.path.join(tmp, files[0])
            with open(p, "rb") as fh:
                content = fh.read()
            offs = list(range(0, len(content))) if not ctx.quick() else sorted(set([0, 1, 2, len(content) - 1, len(content) // 2] + [rng.randrange(len(content)) for _ in range(35)]))
            ctx.extra["crash_prefixes_tried"] = len(offs); ctx.extra["entry_bytes"] = len(content)
            if not ctx.quick():
                ctx.exhaustive = True
                ctx.extra["exhaustive_scope"] = "every proper prefix (0..%d bytes) of a real cache entry" % (len(content) - 1)
            for o in offs:
                with open(p, "wb") as fh:
                    fh.write(content[:o])
                ctx.evaluations += 1
                ctx.nontrivial.add("prefix:%d" % o)
                try:
                    with contextlib.redirect_stderr(io.StringIO()):
                        rows, st, _ = one_run(cfg, inputs, tmp)
                except Exception as e:
                    ctx.fail("unreadable-entry-raises", {"run": [cfg, inputs], "entry_truncated_to_bytes": o}, {"error": "%s: %s" % (type(e).__name__, str(e)[:160])})
                    continue
                if (rows != rrows or st != rst) and reproducible(cfg, inputs, rows, st):
                    ctx.fail("cached-run-differs-from-uncached", {"run": [cfg, inputs], "entry_truncated_to_bytes": o}, {"cached": rows[:2], "uncached": rrows[:2]})
                # the run must have repaired the entry
                with open(p, "rb") as fh:
                    if fh.read() != content:
                        ctx.count("damage", "entry_not_rewritten_identically")
        else:
            ctx.notes.append("expected one cache entry for the crash sweep, found %d" % len(files))
    finally:
        shutil.rmtree(tmp, ignore_errors=True)
    ctx.sample({"pool": CHEAP[:4], "example_history": meta[0]["history"][:2] if meta else None})
    # ---- model correspondence
    rc, out = sh("timeout 900 make -j%d Model/Cache.vo 2>&1" % NPROC, cwd=COQ)
    if rc != 0:
        ctx.broken.append({"what": "model does not build", "detail": out[-1500:]})
        return
    exprs = [c for c in coq_cases if isinstance(c, str)]
    bad, errors = eval_cases("c12", HDR, DEFS, exprs, ctx.work, shard=20)
    for fn, o in errors:
        ctx.broken.append({"what": "case file did not evaluate", "where": fn, "detail": o})
    for i in bad:
        ctx.mismatch("hit/miss/lost sequence and per-batch results vs Model/Cache.run_cached", meta[i], None, "model disagrees")
    ctx.extra["histories_replayed_in_coq"] = len(exprs)


def replay(ctx, rep):
    print(json.dumps(rep, indent=1)[:3000])
    return 0
