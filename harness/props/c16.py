"""C16 -- functional-group recognition depends only on the molecular graph."""
import random, json
from common import *
import corpus, gen_data

RULE = ("molecules = corpus components (quick 120, thorough 2500) + a family built to stress the matcher (small rings, fused rings, "
        "poly-oxygenated carbons, tropylium-ol, dioxetane, peroxy/anhydride/carbonate motifs); for EVERY non-carbon atom and every one of "
        "the generated functional-group configurations the implementation's is_functional_group is compared with "
        "Model/FGMatch.check_functional_group evaluated inside Coq on the graph RDKit gives (symbols, neighbour order, bond types); "
        "pattern_match is compared for every distinct pattern / anti-pattern structure and checked against RDKit's substructure search "
        "(a positive answer without an occurrence = soundness failure, an occurrence that is missed = completeness failure); each "
        "molecule is renumbered with 3 random permutations and all answers must be unchanged.  Non-trivial: a (molecule, atom) with at "
        "least one positive group; distinct = distinct (molecule, atom).")
ASSUMPTIONS = ["RDKit's substructure search (query = the pattern molecule) is the reference for 'real occurrence with the same elements and bond types'"]
TRUSTED = ["RDKit graph extraction (GetNeighbors order, GetBondType) and GetSubstructMatches"]
HDR = ("From Coq Require Import String List Bool Arith.\nFrom SynRBL Require Import Model.FGMatch Proofs.FGComplete Gen.GenFG.\nImport ListNotations.\nOpen Scope string_scope.\n")
DEFS = """
Fixpoint beq (a b : list bool) : bool := match a, b with [], [] => true | x :: a', y :: b' => Bool.eqb x y && beq a' b' | _, _ => false end.
Definition fgbits (G : graph) (idxs : list nat) : list bool :=
  flat_map (fun i => map (fun c => check_functional_group G (snd c) i) fg_configs) idxs.
Definition structures : list graph :=
  flat_map (fun c => (map fst (fg_patterns (snd c)) ++ map snd (fg_patterns (snd c)) ++ fg_anti (snd c))%list) fg_configs.
Definition pmbits (G : graph) (idxs : list nat) : list bool := flat_map (fun i => map (fun P => pattern_match G P i) structures) idxs.
(* gwfb: the molecule graph handed over by the translator is well-formed (symmetric bonds, every bond in the neighbour lists) -- the
   hypothesis of C16_every_occurrence_is_recognised *)
Definition fcase (G : graph) (idxs : list nat) (e1 e2 : list bool) : bool := beq (fgbits G idxs) e1 && beq (pmbits G idxs) e2 && gwfb G.
"""
FAMILY = [# more than 24 atoms with a ring hetero atom next to an exocyclic C=O / OR (lactam, oxazolidinone, cyclic carbonate, THP acetal)
          "O=C1OCCN1c1ccc(cc1)C(=O)NCCc1ccccc1CCCC", "CCCCCCCCCCCCCCCCCCN1CCCC1=O", "O=C1OCC(CCCCCCCCCCCCCCCCCC)O1", "CCCCCCCCCCCCCCCCCCOC1CCCCO1",
          "O=C1CCCN1CCCCCCCCCCCCc1ccccc1", "CC(C)CCCCCCCCCCCCCCN1C(=O)OCC1C",
          # quinoid rings (conjugated, not aromatic) carrying OH / NH2
          "O=C1C=CC(=O)C(O)=C1", "O=C1C=C(O)C(=O)c2ccccc12", "NC1=CC(=O)C=CC1=O", "CNC1=CC(=O)C=CC1=O", "OC1=CC(=O)C=CC1=O",
          "Cn1cccc1O", "CC(=O)n1cccc1O", "Oc1cccn1-c1ccccc1", "COc1ccc(C)n1C",      # hydroxypyrroles with a substituted ring nitrogen
          "O[c+]1cccccc1", "C1OCO1", "CC(CCCc1ccccc1)c1cc2nc(O)c3c(c2cc1O)CCCC3", "Oc1ccccc1", "COc1ccccc1", "OC1CCCCC1", "CC(=O)OC(C)=O", "COC(=O)OC", "CC(=O)OO", "OCO", "COCOC", "COCO",
          "C1COCO1", "C1OCOCO1", "O=C1OCCO1", "CC(=O)N", "NC(=O)O", "NC(N)=O", "CC(=O)SC", "CC(O)=S", "C=CO", "CC(C)=O", "CC=O", "CC#N", "CN", "Nc1ccccc1",
          "ON", "O=NO", "C[N+](=O)[O-]", "CSC", "OC1=CC=CN1", "Oc1ccc[nH]1", "OC(O)O", "OC(O)(O)C", "C1CO1", "O1C=CC=C1", "c1ccoc1", "OB(O)c1ccccc1",
          "CCOC(C)=O", "CC(=O)O", "OC=O", "O=C(O)c1ccccc1O", "CC(=O)Oc1ccccc1C(=O)O", "OCC(O)CO", "C1CC2OC2C1", "O=C1CCC(=O)O1", "OC1OCCCC1"]


def run(ctx):
    from rdkit import RDLogger, Chem
    RDLogger.DisableLog("rdApp.*")
    from synrbl.SynUtils.functional_group_utils import functional_group_config as CFG, is_functional_group, pattern_match
    rng = random.Random("c16|%s|%s" % (ctx.seed, ctx.tier))
    comps = corpus.unmapped_components()
    comps = [c for c in comps if 2 <= len(c) <= 60]
    mols = rng.sample(comps, min(len(comps), 120 if ctx.quick() else 2500)) + FAMILY
    names = list(CFG.keys())
    structs = []
    for n in names:
        c = CFG[n]
        structs += list(c.pattern) + list(c.groups) + list(c.anti_pattern)
    ctx.count("S", "groups", len(names)); ctx.count("S", "structures", len(structs))
    exprs, meta = [], []
    known_struct = {}
    for smi in mols:
        m = Chem.MolFromSmiles(smi)
        if m is None or m.GetNumAtoms() > 40:
            continue
        idxs = [a.GetIdx() for a in m.GetAtoms() if a.GetSymbol() != "C"]
        if not idxs:
            continue
        if len(idxs) > 6:
            idxs = rng.sample(idxs, 6)
        bits, pbits = [], []
        for i in idxs:
            row = []
            for n in names:
                try:
                    row.append(bool(is_functional_group(m, n, i)))
                except Exception as e:
                    ctx.fail("is_functional_group-raised", {"smiles": smi, "atom": i, "group": n}, {"error": str(e)[:200]})
                    row.append(False)
            bits += row
            ctx.evaluations += len(names)
            if any(row):
                ctx.nontrivial.add((smi, i))
            for p in structs:
                ok, match = pattern_match(m, i, p)
                ok = bool(ok)
                pbits.append(ok)
                # reference: RDKit substructure occurrences that contain atom i
                occ = any(i in mt for mt in m.GetSubstructMatches(p, uniquify=False, maxMatches=2000))
                if ok and not occ:
                    atoms = [x[0] for x in match if isinstance(x, tuple)]
                    kind = "non-injective-match" if len(set(atoms)) < len(atoms) else "ring-closure-unchecked"
                    # the two known mechanisms accept something that is no embedding of the pattern's GRAPH.  When the graph (elements
                    # and connectivity, bond types ignored) does occur at the atom, the acceptance is about bond types: another defect.
                    try:
                        q = Chem.RWMol(p)
                        for a in q.GetAtoms():
                            q.ReplaceAtom(a.GetIdx(), Chem.AtomFromSmarts("[#%d]" % a.GetAtomicNum()))
                        for b in q.GetBonds():
                            q.ReplaceBond(b.GetIdx(), Chem.BondFromSmarts("~"))
                        if any(i in mt for mt in m.GetSubstructMatches(q.GetMol(), uniquify=False, maxMatches=2000)):
                            kind = "match-ignores-bond-types"
                    except Exception:
                        pass
                    ctx.fail(kind, {"smiles": smi, "atom": i, "pattern": Chem.MolToSmiles(p)}, {"matched_atoms": atoms})
                elif occ and not ok:
                    ctx.fail("occurrence-not-found", {"smiles": smi, "atom": i, "pattern": Chem.MolToSmiles(p)}, {})
        # renumbering invariance on the implementation
        for _ in range(3):
            order = list(range(m.GetNumAtoms())); rng.shuffle(order)
            m2 = Chem.RenumberAtoms(m, order)              # new atom k is old atom order[k]
            newidx = {old: k for k, old in enumerate(order)}
            for i, b0 in zip(idxs, [bits[j * len(names):(j + 1) * len(names)] for j in range(len(idxs))]):
                b1 = [bool(is_functional_group(m2, n, newidx[i])) for n in names]
                ctx.evaluations += len(names)
                if b1 != b0:
                    diff = [n for n, x, y in zip(names, b0, b1) if x != y]
                    ctx.fail("answer-depends-on-atom-numbering", {"smiles": smi, "atom": i, "order": order}, {"groups": diff})
        # the same molecule re-read from differently written SMILES: other atom order AND other neighbour / bond order (RenumberAtoms
        # keeps the order of the bonds)
        for _ in range(3):
            try:
                rs = Chem.MolToSmiles(m, doRandom=True, canonical=False)
                m3 = Chem.MolFromSmiles(rs)
                match = m3.GetSubstructMatch(m) if m3 is not None and m3.GetNumAtoms() == m.GetNumAtoms() else ()
            except Exception:
                match = ()
            if len(match) != m.GetNumAtoms():
                continue
            for i, b0 in zip(idxs, [bits[j * len(names):(j + 1) * len(names)] for j in range(len(idxs))]):
                b1 = [bool(is_functional_group(m3, n, match[i])) for n in names]
                ctx.evaluations += len(names)
                if b1 != b0:
                    diff = [n for n, x, y in zip(names, b0, b1) if x != y]
                    ctx.fail("answer-depends-on-atom-numbering", {"smiles": smi, "atom": i, "rewritten": rs}, {"groups": diff})
        try:
            exprs.append("fcase %s %s %s %s" % (gen_data.mol_graph(m), clist(idxs, cnat), clist(bits, cbool), clist(pbits, cbool)))
            meta.append((smi, idxs))
        except (TypeError, ValueError):
            pass
    ctx.count("S", "molecules", len(exprs))
    ctx.sample({"smiles": meta[0][0], "atoms": meta[0][1]}); ctx.sample({"smiles": FAMILY[0]})
    rc, out = sh("timeout 900 make -j%d Model/FGMatch.vo Gen/GenFG.vo 2>&1" % NPROC, cwd=COQ)
    if rc != 0:
        ctx.broken.append({"what": "model does not build", "detail": out[-1500:]})
        return
    bad, errors = eval_cases("c16", HDR, DEFS, exprs, ctx.work, shard=25)
    for fn, o in errors:
        ctx.broken.append({"what": "case file did not evaluate", "where": fn, "detail": o})
    for i in bad:
        ctx.mismatch("is_functional_group / pattern_match vs Model/FGMatch on the RDKit graph", {"smiles": meta[i][0], "atoms": meta[i][1]}, None, "model disagrees")
    ctx.extra["molecules_evaluated_in_coq"] = len(exprs)


def replay(ctx, rep):
    print(json.dumps(rep, indent=1)[:2500])
    return 0
