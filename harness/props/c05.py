"""C05 -- one result row per input row, in input order, for every input form."""
import random, json, itertools, os, tempfile, shutil, csv
from common import *
import pipe

RULE = ("ALL lists of length 1..4 (quick) / 1..5 (thorough) made of cheap valid reactions with one malformed row of each kind "
        "(unparsable side, no separator, reagent-style A>B>C, two separators, empty string, empty side, missing value) at every "
        "position, plus lists with two malformed rows, plus stage-mix lists of valid rows (solved early / completed only by the MCS stage and the second rule-based run / staying open), x all batch sizes 1..n+1; list-of-str, list-of-dict, CSV and JSON sources; "
        "the CLI's impute() with --out-columns (in-process; thorough adds real `python -m synrbl run` processes).  String-only "
        "runs are replayed through Model/Batch.rebalance over Model/Pipeline.run inside Coq (rows + merged statistics).  "
        "Non-trivial: a run containing at least one malformed row; distinct = distinct (input list, batch size, source form).")
ASSUMPTIONS = ["oracle answers recorded from the real run (see C03)", "CSV/JSON readers and the str/dict conversion are maps (checked by running all four source forms)"]
TRUSTED = ["pandas/csv/json readers as exercised"]
VALID = ["C>>C", "CC(=O)C>>CC(O)C", "CCOC(C)=O.O>>CC(O)=O", "[CH3:1][OH:2]>>[CH3:1][OH:2]", "CC(=O)O.[OH-]>>CC(=O)[O-].O", "CCO>>CC=O", "CC>>CC",
         # valid rows that a careless rewrite of the text can turn unparsable (neutral bracket atoms of Os, Sn, Co)
         "O=[Os](=O)(=O)=O.C=C>>C=C.O=[Os](=O)(=O)=O", "C[Sn](C)(C)C>>C[Sn](C)(C)C", "Cl[Co]Cl>>Cl[Co]Cl"]
MAL = {"unparsable": "XX>>C", "unparsable-product": "C>>C1CC", "no-separator": "C", "reagent-style": "CCO>CC>CCO", "two-separators": "C>>C>>C",
       "empty-string": "", "empty-side": "CC>>", "missing-value": None}


def expect_input_reaction(s):
    from rdkit import Chem
    return s  # compared through molecule multisets below


def check(ctx, form, inputs, bs, rows, err, kinds):
    """the property, on what came back"""
    case = {"form": form, "inputs": inputs, "batch_size": bs}
    n_in = len(inputs)
    if err is not None:
        ctx.fail("can_parse-raises" if any(k in ("missing-value",) for k in kinds) else "rebalance-raised", case, {"error": err})
        return
    ok = len(rows) == n_in
    if ok:
        for s, r in zip(inputs, rows):
            if isinstance(s, str) and s.count(">>") == 1 and pipe.balanced(s) is not None:
                l, p = s.split(">>"); l2, p2 = (r["input_reaction"] or ">>").split(">>")[:2]
                if pipe.canon_multiset(l) != pipe.canon_multiset(l2) or pipe.canon_multiset(p) != pipe.canon_multiset(p2):
                    ok = False
                # "each row describing that input": the returned reaction still contains the input's molecules
                out = r.get("reaction") or ""
                if ok and out.count(">>") == 1 and pipe.closed_shell(s):
                    ol, op = out.split(">>")
                    if (pipe.canon_multiset(l) - pipe.canon_multiset(ol)) or (pipe.canon_multiset(p) - pipe.canon_multiset(op)):
                        ctx.fail("row-describes-another-input", case, {"input": s, "returned_reaction": out})
    if ok:
        return
    # classify: which mechanism lost / shifted rows
    def bad_sep(s):
        return (not isinstance(s, str)) or s.count(">>") != 1
    def unparsable(s):
        return isinstance(s, str) and s.count(">>") == 1 and pipe.balanced(s) is None
    if not any(bad_sep(s) or unparsable(s) for s in inputs):
        ctx.fail("rows-lost-or-shifted-without-malformed-input", case, {"rows": [r["input_reaction"] for r in rows]})
        return
    # per batch
    k = bs if bs else n_in
    chunks = [inputs[i:i + k] for i in range(0, n_in, k)]
    pos = 0
    expl = True
    exp_rows = []
    for ch in chunks:
        if any(bad_sep(s) for s in ch):
            kind = "can_parse-raises"
        elif all(unparsable(s) for s in ch):
            kind = "unparsable-filtered"
        else:
            exp_rows += [s for s in ch if not unparsable(s)]
            kind = "unparsable-filtered" if any(unparsable(s) for s in ch) else None
        if kind:
            ctx.fail(kind, case, {"lost_from_batch": ch, "returned_rows": len(rows)})
    if len(exp_rows) != len(rows):
        ctx.fail("rows-lost-beyond-the-known-mechanisms", case, {"expected_survivors": exp_rows, "returned": [r["input_reaction"] for r in rows]})


def pub_rows(rows):
    return [{"input_reaction": r.get("input_reaction"), "reaction": r.get("reaction"), "solved": bool(r.get("solved")), "solved_by": r.get("solved_by")} for r in rows]


def run(ctx):
    from rdkit import RDLogger
    RDLogger.DisableLog("rdApp.*")
    from synrbl import Balancer
    from synrbl.SynUtils.batching import Dataset
    from synrbl.SynCmd.cmd_run import impute
    rng = random.Random("c05|%s|%s" % (ctx.seed, ctx.tier))
    L = 4 if ctx.quick() else 5
    cases = []
    for n in range(1, L + 1):
        base = [VALID[i % len(VALID)] for i in range(n)]
        cases.append((list(base), []))
        for kind, m in MAL.items():
            for pos in range(n):
                x = list(base); x[pos] = m
                cases.append((x, [kind]))
        if n >= 2:
            for (k1, m1), (k2, m2) in itertools.combinations(MAL.items(), 2):
                p1, p2 = rng.sample(range(n), 2)
                x = list(base); x[p1] = m1; x[p2] = m2
                cases.append((x, [k1, k2]))
    ctx.count("S", "input_lists", len(cases))
    ctx.exhaustive = True
    ctx.extra["exhaustive_scope"] = "every position of every malformed kind in lists of length 1..%d x every batch size 1..n+1" % L
    replay = []
    nrun = 0
    # stage mix (valid rows only): rows solved early before rows that only the later passes complete (MCS, second rule-based run
    # after the post-processing) and rows that stay open -- whatever a later pass writes back must find its own row
    BAL, EST, DM1, DM2, OP1, OP2, RED = ("CCO.CC(=O)O>>CC(=O)OCC.O", "CC(=O)OCC>>CC(=O)O", "COc1ccccc1>>Oc1ccccc1", "COc1ccc(C)cc1>>Oc1ccc(C)cc1",
                                         "CC>>CCCO", "CCN>>CCCN", "CC(=O)C>>CC(O)C")
    # one row for every reagent-template class of the post-processing (oxidations / reductions with the reagent missing)
    OXS = ["OC1CCCCC1>>O=C1CCCCC1", "CCO>>CC=O", "CC=O>>CC(=O)O", "CCCO>>CCC(=O)O", "CC(=O)C>>CC(O)C", "CC=O>>CCO", "CC(=O)O>>CCO", "CC(=O)OC>>CCO"]
    mixes = [[BAL, EST, OP1], [RED, DM1, BAL, OP1, EST, DM2, OP2], [BAL, DM1], [OP1, BAL, EST], [RED, BAL, DM2, OP2],
             [BAL] + OXS[:4] + [OP1], OXS[4:] + [BAL], [OXS[0], BAL, RED],
             [BAL, VALID[7], RED, VALID[8], VALID[9], "CC>>CC"], [VALID[8], BAL], [VALID[7]]]
    if not ctx.quick():
        for _ in range(12):
            m = [BAL, EST, DM1, DM2, OP1, OP2, RED]; rng.shuffle(m); mixes.append(m[:rng.randint(3, 7)])
    cases = [(m, []) for m in mixes] + cases
    ctx.count("inputs", "stage_mix_lists", len(mixes))
    for inputs, kinds in cases:
        sizes = list(range(1, len(inputs) + 2))
        if ctx.quick() and len(inputs) >= 3:
            sizes = sorted(set([1, len(inputs), len(inputs) + 1, rng.choice(sizes)]))
        for bs in sizes + [None]:
            stringy = all(isinstance(s, str) for s in inputs)
            if stringy:
                b = pipe.run_api(inputs, bs)
                rows, err = b["rows"], b["error"]
                if err is None and not b["conflicts"]:
                    replay.append(b)
            else:
                try:
                    rows = Balancer(n_jobs=1, batch_size=bs).rebalance([{"reaction": s} for s in inputs], output_dict=True)
                    err = None
                except Exception as e:
                    rows, err = [], "%s: %s" % (type(e).__name__, e)
            nrun += 1
            ctx.evaluations += 1
            if kinds or (len(inputs) >= 2 and "CC>>CCCO" in inputs):
                ctx.nontrivial.add((json.dumps(inputs), bs, "list"))
            check(ctx, "list-of-str" if stringy else "list-of-dict", inputs, bs, rows, err, kinds)
    # the configuration matrix: one row per given reaction, in order, for every source form / cache state / worker count
    import matrix
    for run in matrix.runs(ctx):
        if "fed in again" in run["config"]:
            continue           # rows that pre-populate the tool's own output columns are not in this property's domain
        ctx.evaluations += 1
        ctx.count("S", "matrix_runs")
        check(ctx, "configuration matrix: " + run["config"], run["given"], None, run["rows"], run["error"], [])
    # the cache switched on: a later list must get ITS rows even when an earlier list of the same length looks alike (same reactions in
    # another order; reaction strings that concatenate to the same text)
    cdir = tempfile.mkdtemp(prefix="synrbl_c05c_")
    try:
        KA, KB = ["CC(=O)OCC>>CC(=O)O", "CCO>>CC=O"], ["CC(=O)OCC>>CC(=O)OC", "CO>>CC=O"]
        for lst, bs in ((KA, None), (KB, None), (KA[::-1], None), (KA + ["C>>C"], 2), (KB + ["C>>C"], 2)):
            try:
                rows = pub_rows(Balancer(n_jobs=1, batch_size=bs, cache=True, cache_dir=cdir).rebalance(list(lst), output_dict=True)); err = None
            except Exception as e:
                rows, err = [], "%s: %s" % (type(e).__name__, e)
            ctx.evaluations += 1
            ctx.count("S", "cached_runs")
            check(ctx, "list-of-str, cache on (one directory, earlier lists look alike)", lst, bs, rows, err, [])
    finally:
        shutil.rmtree(cdir, ignore_errors=True)
    # other source forms + CLI on a subset
    tmp = tempfile.mkdtemp(prefix="synrbl_c05_")
    try:
        sub = [c for c in cases if all(isinstance(s, str) for s in c[0])]
        sub = [(["C>>C", "XX>>C", "CC>>CC"], ["unparsable"]), (["CCO>>CCO", "C>>C", "C>>C1CC", "CC>>CC"], ["unparsable-product"]),
               # the same reaction in several rows (also once atom-mapped), each with its own pass-through values
               (["C>>C", "CC>>CC", "C>>C", "[CH3:1][OH:2]>>[CH3:1][OH:2]", "CO>>CO", "C>>C"], []),
               (["CC(=O)C>>CC(O)C", "CC(=O)C>>CC(O)C", "CC>>CC"], [])] + rng.sample(sub, 12 if ctx.quick() else 60)
        for k, (inputs, kinds) in enumerate(sub):
            recs = [{"reaction": s, "tag": "tag%d" % i} for i, s in enumerate(inputs)]
            if k % 2 == 1:      # every other case: the user's rows carry their own 1-based "id" and a "name" column
                recs = [{"id": i + 1, "name": "n%d" % i, "reaction": s, "tag": "tag%d" % i} for i, s in enumerate(inputs)]
            pj = os.path.join(tmp, "in%d.json" % k); pc = os.path.join(tmp, "in%d.csv" % k)
            with open(pj, "w") as f:
                json.dump(recs, f)
            with open(pc, "w", newline="") as f:
                w = csv.DictWriter(f, fieldnames=list(recs[0].keys())); w.writeheader(); w.writerows(recs)
            for form, src in (("list-of-dict", recs), ("json-dataset", Dataset(pj)), ("csv-dataset", Dataset(pc))):
                bs = rng.choice([None, 1, 2, len(inputs)])
                try:
                    rows = Balancer(n_jobs=1, batch_size=bs).rebalance(src, output_dict=True); err = None
                except Exception as e:
                    rows, err = [], "%s: %s" % (type(e).__name__, e)
                ctx.evaluations += 1
                if kinds:
                    ctx.nontrivial.add((json.dumps(inputs), bs, form))
                check(ctx, form, inputs, bs, rows, err, kinds)
            # CLI (in-process impute): pass-through column must sit next to its reaction
            if inputs[0] and inputs[0].count(">>") == 1 and pipe.balanced(inputs[0]) is not None:
                out = os.path.join(tmp, "out%d.csv" % k)
                try:
                    impute(pc, out, "reaction", ["tag"] + (["id", "name"] if "id" in recs[0] else []), 0, n_jobs=1, batch_size=None)
                    with open(out, newline="") as f:
                        got = list(csv.DictReader(f))
                    err = None
                except Exception as e:
                    got, err = [], "%s: %s" % (type(e).__name__, e)
                ctx.evaluations += 1
                ctx.count("S", "cli_runs")
                tags = {"tag%d" % i: s for i, s in enumerate(inputs)}
                mis = []
                for g in got:
                    src_s = tags.get(g.get("tag"))
                    l, p = (src_s.split(">>") + [""])[:2] if src_s.count(">>") == 1 else ("?", "?")
                    l2, p2 = (g["input_reaction"].split(">>") + [""])[:2]
                    if src_s.count(">>") != 1 or pipe.canon_multiset(l) != pipe.canon_multiset(l2) or pipe.canon_multiset(p) != pipe.canon_multiset(p2):
                        mis.append({"tag": g.get("tag"), "tag_belongs_to": src_s, "row_describes": g["input_reaction"]})
                if len(got) == len(inputs):      # nothing dropped: row i carries the pass-through values of input row i
                    for i, g in enumerate(got):
                        if g.get("tag") != "tag%d" % i:
                            mis.append({"row": i, "tag_written": g.get("tag"), "expected": "tag%d" % i})
                if "id" in recs[0]:
                    for g in got:
                        if g.get("tag", "").startswith("tag") and str(g.get("id")) != str(int(g["tag"][3:]) + 1):
                            mis.append({"tag": g.get("tag"), "id_written": g.get("id")})
                if mis:
                    # the known mechanism needs a dropped row (zip of all inputs with the surviving outputs); with nothing dropped it is another defect
                    dropped = any((not isinstance(x, str)) or x.count(">>") != 1 or pipe.balanced(x) is None for x in inputs)
                    ctx.fail("cli-passthrough-misaligned" if dropped else "cli-passthrough-on-wrong-row", {"form": "cli", "inputs": inputs}, {"misaligned": mis[:3]})
                elif err is None and len(got) != len(inputs):
                    # a dropped LAST row shifts nothing: it is the known mechanism (unparsable side) seen through the CLI
                    dropped_known = any(isinstance(x, str) and x.count(">>") == 1 and pipe.balanced(x) is None for x in inputs)
                    ctx.fail("unparsable-filtered" if dropped_known else "cli-rows-lost", {"form": "cli", "inputs": inputs}, {"rows": len(got)})
        if not ctx.quick():
            inputs = ["C>>C", "XX>>C", "CC>>CC"]
            pc = os.path.join(tmp, "real.csv")
            with open(pc, "w", newline="") as f:
                w = csv.DictWriter(f, fieldnames=["reaction", "tag"]); w.writeheader()
                w.writerows([{"reaction": s, "tag": "tag%d" % i} for i, s in enumerate(inputs)])
            rc, out = sh("cd %s && PYTHONPATH=%s /venv/bin/python -m synrbl run -p 1 -o realout.csv --out-columns tag real.csv 2>&1" % (tmp, REPO), timeout=600)
            ctx.count("S", "cli_subprocess_runs")
            ctx.evaluations += 1
            if os.path.exists(os.path.join(tmp, "realout.csv")):
                with open(os.path.join(tmp, "realout.csv"), newline="") as f:
                    got = list(csv.DictReader(f))
                if [g["tag"] for g in got] != ["tag0", "tag2"] and len(got) == 2:
                    ctx.fail("cli-passthrough-misaligned", {"form": "cli-subprocess", "inputs": inputs}, {"rows": got})
    finally:
        shutil.rmtree(tmp, ignore_errors=True)
    ctx.sample({"inputs": cases[5][0], "kinds": cases[5][1]})
    ctx.sample({"inputs": cases[-1][0], "kinds": cases[-1][1]})
    # model correspondence on the string-only runs
    write_coqproject()
    rc, out = sh("timeout 1500 make -j%d Model/Batch.vo Model/Tables.vo Gen/GenRules.vo Gen/GenConst.vo 2>&1" % NPROC, cwd=COQ)
    if rc != 0:
        ctx.broken.append({"what": "batch model does not build", "detail": out[-1500:]})
        return
    exprs = []
    keep = []
    for b in replay:
        try:
            exprs.append(pipe.coq_case_api(b)); keep.append(b)
        except (TypeError, ValueError) as e:
            ctx.mismatch("api run not renderable", b["inputs"], str(e), None)
    bad, errors = eval_cases("c05", pipe.BATCH_HDR, pipe.BATCH_DEFS, exprs, ctx.work, shard=40)
    for fn, o in errors:
        ctx.broken.append({"what": "case file did not evaluate", "where": fn, "detail": o})
    for i in bad:
        b = keep[i]
        ctx.mismatch("Balancer.rebalance (batch_size API) vs Model/Batch.rebalance", {"inputs": b["inputs"], "batch_size": b["batch_size"]},
                     {"rows": b["rows"], "stats": b["stats"]}, "model disagrees")
    ctx.extra["api_runs_evaluated_in_coq"] = len(exprs)


def replay(ctx, rep):
    case = rep.get("failing_input", {})
    if isinstance(case, dict) and "inputs" in case and all(isinstance(s, str) for s in case["inputs"]):
        b = pipe.run_api(case["inputs"], case.get("batch_size"))
        print(json.dumps([r["input_reaction"] for r in b["rows"]]), b["error"])
        n = len(ctx.failures); check(ctx, "list-of-str", case["inputs"], case.get("batch_size"), b["rows"], b["error"], [])
        return 1 if len(ctx.failures) > n else 0
    return 0
