"""C04 -- an already balanced reaction passes through unchanged as input-balanced."""
import random, json
from common import *
import pipe, corpus
from props import c03

RULE = ("curated balanced reactions shipped with the repository (quick: 300 sampled; thorough: all), their reversals, doublings "
        "(every molecule twice) and unions of two reactions, hand-written ionic / heavy-element / isotope cases, atom-mapped and "
        "unmapped spellings; mixed batches (balanced rows shuffled among rows the rule-based stage rewrites and unparsable rows that are filtered out; rows matched to inputs through input_reaction; a valid balanced input must keep its row); result rows of an earlier run fed in again as dict rows; plus, for the converse, all rows of the corpus and generated runs.  Independent RDKit-only balance "
        "oracle decides what must be input-balanced.  Non-trivial: a balanced input with >= 3 molecules or a charge or a variant "
        "(reversed/doubled/union); distinct = distinct input reaction.")
ASSUMPTIONS = c03.ASSUMPTIONS
TRUSTED = ["RDKit for the independent composition oracle and for clearing atom maps in the expected input_reaction"]
HAND = ["[Na+].[Cl-]>>[Na+].[Cl-]", "[U]>>[U]", "F[U](F)(F)(F)(F)F>>F[U](F)(F)(F)(F)F", "[2H]O[2H]>>O", "[13CH4]>>C", "C[N+](C)(C)[O-]>>C[N+](C)(C)[O-]",
        "[NH3+]CC([O-])=O>>NCC(O)=O", "[Th]>>[Th]", "[Pu].[Pu]>>[Pu].[Pu]", "CC(=O)O.[OH-]>>CC(=O)[O-].O", "[H][H].C=C>>CC",
        "[Fe+2].[Fe+3]>>[Fe+3].[Fe+2]", "c1ccccc1>>C1=CC=CC=C1", "[CH3:1][OH:2]>>[CH3:1][OH:2]", "[Og]>>[Og]", "*>>*", "[U]>>[Th]",
        # equal element counts, different net charge (negative, positive, on either side): must NOT be input-balanced
        "[Cl-].[Cl-]>>ClCl", "ClCl>>[Cl-].[Cl-]", "[O-]C(=O)C([O-])=O>>O=C=O.O=C=O", "O=C=O.O=C=O>>[O-]C(=O)C([O-])=O", "[Fe+3]>>[Fe+2]", "[Fe+2]>>[Fe+3]",
        "[O-]c1ccc([O-])cc1>>O=C1C=CC(=O)C=C1", "[Cu+]>>[Cu]", "[Na]>>[Na+]", "[S-2]>>[S]",
        # a molecule written with a ring-closure bond across the dot (known finding cross-dot-ring-closure)
        "C1.C1O>>CCO", "CC(=O)O1.C1C>>CCOC(C)=O",
        # neutral bracket atoms of two-letter elements whose second letter is itself an element symbol (Os, Co, Sn, In, Cs, Sc, No)
        "O=[Os](=O)(=O)=O.C=C>>C=C.O=[Os](=O)(=O)=O", "C[Sn](C)(C)C>>C[Sn](C)(C)C", "Cl[Co]Cl>>Cl[Co]Cl", "Cl[In](Cl)Cl>>Cl[In](Cl)Cl", "F[Sc](F)F>>F[Sc](F)F",
        "C[Sn](C)(C)c1ccccc1.Brc1ccccc1>>c1ccc(-c2ccccc2)cc1.C[Sn](C)(C)Br"]


def oracle(ctx, b, expect_variant=False, by_input=False):
    if by_input:
        # a batch some of whose rows were filtered out (C05): the remaining rows are matched to their inputs through
        # input_reaction (the inputs of this stream are unmapped and pairwise different)
        pairs = [(r["input_reaction"], r) for r in b["rows"] if b["inputs"].count(r["input_reaction"]) == 1]
        ctx.count("inputs", "rows_matched_by_input_reaction", len(pairs))
    elif len(b["rows"]) != len(b["inputs"]):
        # rows were filtered out (C05's mechanism for unparsable input).  A VALID balanced input must still have its row.
        ctx.count("inputs", "batches_with_lost_rows(C05)")
        have = {r["input_reaction"] for r in b["rows"]}
        for inp in b["inputs"]:
            if inp.count(">>") == 1 and ":" not in inp and pipe.balanced(inp) is True and pipe.closed_shell(inp) and inp not in have:
                ctx.evaluations += 1
                ctx.fail("balanced-input-has-no-row", {"inputs": list(b["inputs"]), "missing": inp, "by_input": True}, {"rows_returned": len(b["rows"])})
        pairs = [(r["input_reaction"], r) for r in b["rows"] if b["inputs"].count(r["input_reaction"]) == 1]
        by_input = True
    else:
        pairs = list(zip(b["inputs"], b["rows"]))
    for inp, r in pairs:
        ctx.evaluations += 1
        if inp.count(">>") != 1:
            continue
        if not pipe.closed_shell(inp):
            ctx.count("oracle", "out_of_domain_radical_placeholder")
            continue
        bal = pipe.balanced(inp)
        case = {"inputs": list(b["inputs"]) if by_input else [inp], "row": r}
        if by_input:
            case["by_input"] = True
        if bal is True:
            ctx.count("oracle", "balanced_inputs")
            if inp.count(".") >= 2 or "+" in inp or "-]" in inp or expect_variant:
                ctx.nontrivial.add(inp)
            if not (r["solved"] and r["solved_by"] == "input-balanced"):
                # a molecule written with a ring-closure bond ACROSS the dot (valid SMILES): the side parses, one of its dot-separated
                # tokens alone does not -- the carbon counter works token by token and miscounts it (known finding)
                from rdkit import Chem
                cross = any(Chem.MolFromSmiles(t) is None for side in inp.split(">>") for t in side.split("."))
                ctx.fail("cross-dot-ring-closure" if cross else "balanced-input-not-input-balanced", case, {})
            elif r["reaction"] != r["input_reaction"]:
                ctx.fail("input-balanced-row-changed", case, {})
            else:
                # input_reaction = the input with maps removed, same molecules
                l, p = inp.split(">>"); l2, p2 = r["input_reaction"].split(">>")
                if pipe.canon_multiset(l) != pipe.canon_multiset(l2) or pipe.canon_multiset(p) != pipe.canon_multiset(p2):
                    ctx.count("oracle", "input_reaction_not_same_molecules(C15)")
        elif bal is False:
            ctx.count("oracle", "unbalanced_inputs")
            if r["solved_by"] == "input-balanced":
                ctx.fail("unbalanced-input-labelled-input-balanced", case, {"left": pipe.comp(inp.split(">>")[0]), "right": pipe.comp(inp.split(">>")[1])})


def variants(rng, cur, n):
    out = []
    for rx in rng.sample(cur, min(n, len(cur))):
        if rx.count(">>") != 1:
            continue
        l, p = rx.split(">>")
        out.append(rx)
        k = rng.random()
        if k < 0.33:
            out.append(p + ">>" + l)
        elif k < 0.66:
            out.append(".".join([l, l]) + ">>" + ".".join([p, p]))
        else:
            o = rng.choice(cur)
            if o.count(">>") == 1:
                l2, p2 = o.split(">>")
                out.append(l + "." + l2 + ">>" + p2 + "." + p)
    return out


def run(ctx):
    from rdkit import RDLogger
    RDLogger.DisableLog("rdApp.*")
    rng = random.Random("c04|%s|%s" % (ctx.seed, ctx.tier))
    cur = corpus.curated()
    rx = HAND + variants(rng, cur, 300 if ctx.quick() else len(cur))
    batches = [rx[i:i + 40] for i in range(0, len(rx), 40)]
    vs, hit = pipe.cached("c04_%s_%d" % (ctx.tier, ctx.seed), lambda: pipe.run_batches(batches))
    ctx.count("inputs", "curated_and_variants", len(rx))
    for b in vs:
        oracle(ctx, b, expect_variant=True)
    # mixed batches: balanced rows next to rows the rule-based stage rewrites and to unparsable rows that are filtered out, in
    # random order (what a stage writes back by position or id must not land in a balanced row)
    BAL = ["CC(=O)O.CCO>>CC(=O)OCC.O", "[Na+].[Cl-]>>[Na+].[Cl-]", "CC(=O)Cl.CN>>CC(=O)NC.Cl", "CC(=O)C.[H][H]>>CC(O)C", "CCO>>CCO",
           "C=C.BrBr>>BrCCBr", "[Fe+2].[Fe+3]>>[Fe+3].[Fe+2]", "CC(=O)O.[OH-]>>CC(=O)[O-].O", "N#N.[H][H].[H][H].[H][H]>>N.N"]
    RB = ["CC(=O)Cl.CN>>CC(=O)NC", "CC(=O)C>>CC(O)C", "CCBr.CN>>CCNC", "CC(=O)OC.O>>CC(=O)O"]
    BAD = ["InvalidString>>C", "C(C>>CC", "CC>>X"]
    mixed = []
    for _ in range(24 if ctx.quick() else 400):
        b = rng.sample(BAL, rng.randint(1, 4)) + rng.sample(RB, rng.randint(1, 3)) + rng.sample(BAD, rng.randint(0, 2))
        rng.shuffle(b)
        mixed.append(b)
    ms, _ = pipe.cached("c04mixed_%s_%d" % (ctx.tier, ctx.seed), lambda: pipe.run_batches(mixed))
    ctx.count("inputs", "mixed_batches", len(ms))
    for b in ms:
        oracle(ctx, b, by_input=True)
    # rows of an earlier run fed in again: their reaction is balanced now, whatever they say about themselves (solved, solved_by, issue)
    from synrbl import Balancer
    firsts = ["CC(=O)Cl.CN>>CC(=O)NC", "CC(=O)C>>CC(O)C", "CCBr.CN>>CCNC", "CC(=O)OC.O>>CC(=O)O", "CC(=O)O.CCO>>CC(=O)OCC.O"]
    res1 = Balancer(n_jobs=1).rebalance(list(firsts), output_dict=True)
    fed = [dict(r) for r in res1 if r.get("solved") and pipe.balanced(r["reaction"]) is True]
    for what, src in (("fed-back rows alone", fed), ("fed-back rows next to fresh rows", fed[:2] + [{"reaction": "CCO>>CCO"}, {"reaction": "[Na+].[Cl-]>>[Na+].[Cl-]"}] + fed[2:])):
        try:
            rows = Balancer(n_jobs=1).rebalance([dict(d) for d in src], output_dict=True)
        except Exception as e:
            ctx.count("inputs", "fed_back_run_raised"); continue
        ctx.count("inputs", "fed_back_runs")
        ins = [d["reaction"] for d in src]
        if len(rows) == len(ins):
            oracle(ctx, {"inputs": ins, "rows": [{"input_reaction": r.get("input_reaction"), "reaction": r.get("reaction"), "solved": r.get("solved") is True or r.get("solved") == 1,
                                                    "solved_by": r.get("solved_by") if isinstance(r.get("solved_by"), str) else None} for r in rows], "tables": {}},
                   expect_variant=True)
    import matrix
    for run in matrix.runs(ctx):
        ctx.count("matrix", run["config"][:40])
        if not run["error"]:
            oracle(ctx, matrix.as_batch(run), expect_variant=True)
    bs = pipe.corpus_run(ctx)
    gs = c03.gen_run(ctx)
    for b in bs + gs:
        oracle(ctx, b)
    ctx.sample({"input": vs[1]["inputs"][0], "row": vs[1]["rows"][0] if vs[1]["rows"] else None})
    ctx.sample({"input": vs[0]["inputs"][0], "row": vs[0]["rows"][0] if vs[0]["rows"] else None})
    pipe.eval_pipeline_cases(ctx, vs + bs + gs, "c04")


def replay(ctx, rep):
    case = rep.get("failing_input", {})
    if isinstance(case, dict) and "inputs" in case:
        b = pipe.run_batch(case["inputs"])
        print(json.dumps(b["rows"], indent=1))
        n = len(ctx.failures); oracle(ctx, b, by_input=bool(case.get("by_input")))
        return 1 if len(ctx.failures) > n else 0
    return 0
