"""C08 -- rule-based completions.  Correspondence: SyntheticRuleMatcher / single_impute /
RuleConstraint vs Model/Matcher.v + Model/Constraint.v inside Coq; property oracle:
completions re-summed from RDKit's true compositions, database records re-derived."""
import itertools, collections, copy, json
from common import *

RULE = ("streams: (M) matcher (select=all, ion_priority) on imbalance vectors over the database's elements and Q in [-2,2] "
        "(thorough: ALL vectors with <=4 atoms; quick: a sample) plus random vectors up to 10 atoms, for both shipped databases and "
        "their union, ranked lists compared in order; (S) single_impute on side strings, every imbalance with all three databases one after the other in one process; (K) RuleConstraint.fit on generated "
        "side strings containing the marker substrings; (R) RuleBasedMethod.run on corpus reactions.  Non-trivial: (M) vector with >=1 "
        "solution, (K) entry containing a marker, (R) reaction changed by the stage; distinct = distinct input.")
ASSUMPTIONS = ["RDKit gives the true composition of a database SMILES (oracle columns of Gen/GenRules.v)",
               "the RDKit validity test inside get_and_validate_smiles is true for joined database SMILES (observed on every case)"]
TRUSTED = ["RDKit for true compositions of database compounds and added molecules"]
HDR = ("From Coq Require Import String ZArith List Bool.\nFrom SynRBL Require Import Base.Dict Base.Strs Base.ListX Model.Comp Model.Matcher Model.Constraint Proofs.MatcherTermination Gen.GenRules Gen.GenConst.\n"
       "Import ListNotations.\nOpen Scope string_scope. Open Scope Z_scope.\n")
DEFS = """
Definition item_eq (a b : string * Z) : bool := String.eqb (fst a) (fst b) && (snd a =? snd b).
Definition db_of (n : nat) : list rule := match n with O => rules_manager | S O => automated_rules | _ => (rules_manager ++ automated_rules)%list end.
Definition mt (n : nat) (d : dict) (e : option (list (list (string * Z)))) : bool :=
  opt_eqb (list_eqb (list_eqb item_eq)) (option_map (map render_path) (match_all 80 (db_of n) d)) e &&
  (* the fuel bound of C08_solver_terminates: one more than the atoms of the imbalance gives the same answer *)
  (negb (forallb (fun kv => String.eqb (fst kv) "Q" || (snd kv >=? 0)) d) ||   (* the theorem is about imbalances without negative entries *)
   opt_eqb (list_eqb (list_eqb item_eq)) (option_map (map render_path) (match_all (S (Z.to_nat (atoms_of d))) (db_of n) d)) e).
Definition pair_eq (a b : string * string) : bool := String.eqb (fst a) (fst b) && String.eqb (snd a) (snd b).
Definition si (n : nat) (d : dict) (tp : bool) (r p : string) (e : option (option (string * string))) : bool :=
  opt_eqb (opt_eqb pair_eq) (single_impute 80 (db_of n) d tp r p) e.
Definition kf (r p : string) (e : option (string * string)) : bool :=
  opt_eqb pair_eq (constraint_fit ban_atoms_canon r p) e.
"""


def true_comp(smiles):
    from rdkit import Chem
    m = Chem.MolFromSmiles(smiles)
    if m is None:
        return None
    c = collections.Counter()
    for a in m.GetAtoms():
        c[a.GetSymbol()] += 1
        c["H"] += a.GetTotalNumHs()
        c["Q"] += a.GetFormalCharge()
    return {k: v for k, v in c.items() if v != 0}


def is_dihalogen(smiles):
    from rdkit import Chem
    m = Chem.MolFromSmiles(smiles)
    return (m is not None and m.GetNumAtoms() == 2 and all(a.GetAtomicNum() in (9, 17, 35, 53, 85) and a.GetFormalCharge() == 0 and a.GetTotalNumHs() == 0 for a in m.GetAtoms()))


def run(ctx):
    from rdkit import RDLogger
    RDLogger.DisableLog("rdApp.*")
    import gen_data
    from synrbl.SynRuleImputer.synthetic_rule_matcher import SyntheticRuleMatcher
    from synrbl.SynRuleImputer.synthetic_rule_imputer import SyntheticRuleImputer
    from synrbl.SynRuleImputer.synthetic_rule_constraint import RuleConstraint
    from synrbl.rule_based import RuleBasedMethod
    shipped = RuleBasedMethod("id", "reaction", "reaction").rules
    with open(os.path.join(REPO, "Data", "Rules", "automated_rules.json.gz")) as f:
        auto = json.load(f)
    dbs = [shipped, auto, shipped + auto]
    exprs, meta = [], []

    # ---- property: every record's composition is the true one (independent re-derivation)
    for name, db in (("rules_manager", shipped), ("automated_rules", auto)):
        for rec in db:
            tc = true_comp(rec["smiles"])
            rc = {k: v for k, v in rec["Composition"].items() if v != 0}
            ctx.evaluations += 1
            if tc != rc or "Q" not in rec["Composition"]:
                ctx.fail("record-composition-wrong", {"db": name, "record": rec}, {"true": tc})
    elements = sorted({k for db in dbs for r in db for k in r["Composition"] if k != "Q"})
    ctx.count("M", "elements", len(elements))

    # ---- stream M
    vecs = []
    for n in range(1, 5):
        for combo in itertools.combinations_with_replacement(elements, n):
            c = collections.Counter(combo)
            for q in (-2, -1, 0, 1, 2):
                vecs.append((dict(c), q))
    ctx.count("M", "small_vectors_total", len(vecs))
    if ctx.quick():
        vecs = ctx.rng.sample(vecs, 1200)
        ctx.exhaustive = False
    else:
        ctx.exhaustive = True
    rnd = []
    common = ["H", "O", "N", "Cl", "Br", "S", "C", "B", "Na", "K", "I", "F", "P"]
    for _ in range(300 if ctx.quick() else 3000):
        ks = ctx.rng.sample(common, ctx.rng.randint(1, 4))
        d = {k: ctx.rng.randint(1, 4) for k in ks}
        while sum(d.values()) > 10:
            k = ctx.rng.choice(list(d)); d[k] = max(1, d[k] - 1)
        rnd.append((d, ctx.rng.choice([-2, -1, 0, 0, 0, 1, 2])))
    ctx.count("M", "random_vectors", len(rnd))
    # vectors composed from database compounds (guaranteed solvable, mostly-valid stream)
    for _ in range(500 if ctx.quick() else 5000):
        tot = collections.Counter()
        for rec in ctx.rng.sample(shipped, ctx.rng.randint(1, 3)):
            m = ctx.rng.randint(1, 2)
            for k, v in rec["Composition"].items():
                tot[k] += v * m
        if sum(v for k, v in tot.items() if k != "Q") <= 12:
            q = tot.pop("Q", 0)
            rnd.append(({k: v for k, v in tot.items() if v}, q))
    ctx.count("M", "composed_vectors", len(rnd))
    # vectors with a surplus (negative count) on one or two elements: what the both-side shortcut of rule_based.run can hand over
    nneg = 0
    for (d, q) in list(rnd[:(250 if ctx.quick() else 2500)]) + [({"H": 2, "Cl": 2}, 0), ({"H": 4, "O": 2, "Cl": 2}, 0), ({"O": 1, "H": 2, "Br": 1}, 0)]:
        if len(d) < 2:
            continue
        d2 = dict(d)
        for k in ctx.rng.sample(sorted(d2), 1 if ctx.rng.random() < 0.7 else 2):
            d2[k] = -d2[k]
        rnd.append((d2, q)); nneg += 1
    ctx.count("M", "vectors_with_negative_entries", nneg)
    nsol = collections.Counter()
    for (d, q) in vecs + rnd:
        data = dict(d)
        style = ctx.rng.randint(0, 2)      # Q absent / explicit / with a stored zero entry
        if q != 0 or style == 1:
            data["Q"] = q
        if style == 2:
            data["Zz"] = 0
        items = list(data.items()); ctx.rng.shuffle(items); data = dict(items)
        dbi = 0 if ctx.rng.random() < 0.7 else ctx.rng.choice([1, 2])
        try:
            sols = SyntheticRuleMatcher(copy.deepcopy(dbs[dbi]), dict(data), select="all", ranking="ion_priority").match()
            exp = [[(it["smiles"], it["Ratio"]) for it in s] for s in sols]
        except (RecursionError, ValueError) as e:
            sols, exp = None, None
        ctx.evaluations += 1
        nsol[min(len(exp), 3) if exp is not None else "raised"] += 1
        if exp:
            ctx.nontrivial.add(("M", dbi, tuple(sorted(data.items()))))
        exprs.append("mt %s %s %s" % (cnat(dbi), cdict(data), copt(exp, lambda e: clist(e, lambda s: clist(s, lambda it: cpair(cstr(it[0]), cz(it[1])))))))
        meta.append(("matcher", {"db": dbi, "data": data}, exp))
        # property oracle: every completion re-sums to the imbalance
        want = {k: v for k, v in data.items() if v != 0}
        if exp and any(v < 0 for k, v in data.items() if k != "Q"):
            ctx.count("M", "negative_vector_with_solutions")
        smiles_db = {r["smiles"] for r in dbs[dbi]}
        for s in exp or []:
            tot = collections.Counter()
            ok = True
            for smi, ratio in s:
                if smi not in smiles_db or not isinstance(ratio, int) or ratio < 1:
                    ok = False
                for k, v in (true_comp(smi) or {}).items():
                    tot[k] += v * ratio
            tot = {k: v for k, v in tot.items() if v != 0}
            if not ok or tot != want:
                ctx.fail("completion-does-not-sum", {"db": dbi, "data": data}, {"solution": s, "sum": tot})
    ctx.streams.setdefault("M", {})["solutions_histogram"] = {str(k): v for k, v in nsol.items()}
    ctx.sample({"stream": "M", "data": vecs[0][0], "Q": vecs[0][1]})

    # ---- stream S
    sides = ["CCO", "CC(=O)O.CN", "c1ccccc1Br", "CCBr.[Na+].[OH-]", "O", "CC[N+](C)(C)C", ""]
    # every imbalance is solved with all three databases one after the other in the same process (anything remembered about an
    # imbalance must not leak from one database to the next)
    for _ in range(60 if ctx.quick() else 500):
        d, q = ctx.rng.choice(vecs + rnd)
        data = dict(d)
        if q:
            data["Q"] = q
        unb = ctx.rng.choice(["Products", "Reactants"])
        r, p = ctx.rng.choice(sides), ctx.rng.choice(sides)
        order = [0, 1, 2]; ctx.rng.shuffle(order)
        for dbi in order + [order[0]]:
            entry = {"Diff_formula": dict(data), "Unbalance": unb, "reactants": r, "products": p, "id": "0"}
            try:
                out = SyntheticRuleImputer.single_impute(entry, copy.deepcopy(dbs[dbi]), select="all", ranking="ion_priority")
                exp = (out["reactants"], out["products"]) if "new_reaction" in out else None
                if exp and out["new_reaction"] != exp[0] + ">>" + exp[1]:
                    ctx.mismatch("single_impute new_reaction", entry, out, None)
                e = "(Some %s)" % copt(exp, lambda x: cpair(cstr(x[0]), cstr(x[1])))
            except (RecursionError, ValueError):
                exp, e = None, "None"
            ctx.evaluations += 1
            if exp:
                # property: what was appended are compounds of the database in use, and they sum to the imbalance
                side_in, side_out = (p, exp[1]) if unb == "Products" else (r, exp[0])
                added = side_out[len(side_in):].lstrip(".").split(".") if side_out.startswith(side_in) else None
                smiles_db = {x["smiles"] for x in dbs[dbi]}
                if added is None or any(a not in smiles_db for a in added):
                    ctx.fail("completion-uses-compound-outside-database", {"db": dbi, "entry": entry}, {"out": exp, "added": added})
                else:
                    tot = collections.Counter()
                    for a in added:
                        tot.update(true_comp(a) or {})
                    want = {k: v for k, v in data.items() if v != 0}
                    if {k: v for k, v in tot.items() if v != 0} != want:
                        ctx.fail("completion-does-not-sum", {"db": dbi, "entry": entry}, {"out": exp, "sum": dict(tot)})
            exprs.append("si %d%%nat %s %s %s %s %s" % (dbi, cdict(data), cbool(unb == "Products"), cstr(r), cstr(p), e))
            meta.append(("single_impute", {"db": dbi, "entry": entry}, e))

    # ---- stream K
    ban = gen_data.observe_ban()
    given = ["CCO", "[H][H]", "OO", "OOC", "COO", "O", "[Na]", "[H-]", "[K]", "[Li]", "CC(=O)O", "ClCl", "[Na:1]", "c1ccccc1[OH:3]", "[O][O]", "C[O]", "BrI", "ICl", "N",
             "[H]/N=C(\\C)c1ccccc1", "[H]C(=O)O", "C([H])([H])O"]      # molecules whose own text holds the token "[H]"

    def side_comp(side):
        tot = collections.Counter()
        for c in side.split("."):
            if c == "":
                continue
            tc = true_comp(c)
            if tc is None:
                return None
            tot.update(tc)
        return tot

    def standalone(side):
        # every marker that follows a dot is a whole component: the string surgery then removes / adds complete molecules only
        # (and the side does not begin with one: in the pipeline completions are appended after the given, non-empty side, and free
        # atomic H / O among the given molecules are outside the property's domain)
        cs = side.split(".")
        return cs[0] not in ("[H]", "[O]", "OO") and all(not any(c.startswith(m) and c != m for m in ("[H]", "[O]", "OO")) for c in cs[1:])
    added = ["[H]", "[O]", "OO", "O", "ClCl", "BrBr", "[H+]", "[Cl-]", "FF", "II", "N", "O=O"]
    mk = collections.Counter()
    for _ in range(800 if ctx.quick() else 8000):
        r = ".".join(ctx.rng.choice(given) for _ in range(ctx.rng.randint(1, 3)))
        giv = [ctx.rng.choice(given) for _ in range(ctx.rng.randint(0, 2))]
        p = ".".join(giv + [ctx.rng.choice(added) for _ in range(ctx.rng.randint(1, 4))])
        if ctx.rng.random() < 0.3:
            r += "." + ".".join(ctx.rng.choice(added) for _ in range(ctx.rng.randint(1, 3)))
        entry = {"id": "0", "reactants": r, "products": p, "new_reaction": r + ">>" + p}
        cert, unc = RuleConstraint([copy.deepcopy(entry)], ban_atoms=list(ban["ban_raw"])).fit()
        ctx.evaluations += 1
        if len(cert) + len(unc) < 1:
            ctx.mismatch("RuleConstraint.fit lost the entry", entry, [cert, unc], None)
            continue
        exp = (cert[0]["reactants"], cert[0]["products"]) if cert else None
        if cert and cert[0]["new_reaction"] != exp[0] + ">>" + exp[1]:
            ctx.mismatch("RuleConstraint new_reaction", entry, cert[0], None)
        for m in (".[H]", ".[O]", ".OO"):
            if m in p:
                mk[m] += 1
        if any(m in p for m in (".[H]", ".[O]", ".OO")):
            ctx.nontrivial.add(("K", r, p))
        exprs.append("kf %s %s %s" % (cstr(r), cstr(p), copt(exp, lambda x: cpair(cstr(x[0]), cstr(x[1])))))
        meta.append(("constraint", entry, exp))
        if exp and standalone(p) and standalone(r):
            # property: the rewrite of atomic H / O / peroxide completions keeps the imbalance (what is added still sums to what is missing)
            a, b, c, d = side_comp(r), side_comp(p), side_comp(exp[0]), side_comp(exp[1])
            if None not in (a, b, c, d):
                d0 = {k: b.get(k, 0) - a.get(k, 0) for k in set(a) | set(b) if b.get(k, 0) != a.get(k, 0)}
                d1 = {k: d.get(k, 0) - c.get(k, 0) for k in set(c) | set(d) if d.get(k, 0) != c.get(k, 0)}
                ctx.count("K", "imbalance_preservation_checked")
                if d0 != d1:
                    ctx.fail("constraint-rewrite-changes-imbalance", entry, {"accepted": exp, "before": d0, "after": d1})
        if exp:  # property: no dihalogen / interhalogen among the molecules ADDED to the accepted product side
            for c in (collections.Counter(exp[1].split(".")) - collections.Counter(giv)).elements():
                if c and is_dihalogen(c):
                    ctx.fail("dihalogen-accepted", entry, {"accepted": exp, "given_products": giv})
    ctx.streams.setdefault("K", {})["marker_histogram"] = dict(mk)
    ctx.sample({"stream": "K", "reactants": r, "products": p})

    # ---- stream R: the stage on corpus reactions; added molecules checked independently
    import corpus
    from synrbl.SynProcessor.check_carbon_balance import CheckCarbonBalance
    from synrbl.SynUtils.chem_utils import remove_atom_mapping
    rx = [r for r in corpus.reactions() if r.count(">>") == 1]
    rx = ctx.rng.sample(rx, 500 if ctx.quick() else len(rx))
    rows = []
    for r in rx:
        s = remove_atom_mapping(r)
        if true_comp(s.split(">>")[0]) is None or true_comp(s.split(">>")[1]) is None:
            continue
        lab = CheckCarbonBalance.process_reaction({"r": s}, "r", ">>", "C", {})["carbon_balance_check"]
        rows.append({"id": str(len(rows)), "reaction": s, "carbon_balance_check": lab, "input": s})
    st = {}
    RuleBasedMethod("id", "reaction", "reaction", n_jobs=1).run(rows, stats=st)
    changed = 0
    for x in rows:
        ctx.evaluations += 1
        if x["reaction"] == x["input"]:
            continue
        changed += 1
        ctx.nontrivial.add(("R", x["input"]))
        r0, p0 = x["input"].split(">>"); r1, p1 = x["reaction"].split(">>")
        if true_comp(r1) is None or true_comp(p1) is None:
            continue
        addp = list((collections.Counter(p1.split(".")) - collections.Counter(p0.split("."))).elements())
        if any(is_dihalogen(c) for c in addp):
            ctx.fail("dihalogen-accepted", x["input"], {"new": x["reaction"]})
    ctx.count("R", "corpus_reactions", len(rows))
    ctx.count("R", "changed_by_stage", changed)
    ctx.streams["R"]["stats"] = st

    if not ctx.model_built:
        ctx.notes.append("model not built: correspondence not evaluated")
        return
    bad, errors = eval_cases("c08", HDR, DEFS, exprs, ctx.work, shard=300)
    for fn, out in errors:
        ctx.broken.append({"what": "case file did not evaluate", "where": fn, "detail": out})
    for i in bad:
        what, case, impl = meta[i]
        ctx.mismatch(what, case, impl, "model disagrees: " + exprs[i][:600])
    ctx.extra["cases_evaluated_in_coq"] = len(exprs)


def replay(ctx, rep):
    print(json.dumps(rep, indent=1)[:3000])
    return 0
