"""C01 -- a reaction reported as solved is balanced in every element and in charge."""
import random, json
from common import *
import pipe
from props import c03

RULE = ("listed witnesses first, then the corpus run (quick: 300 sampled validation reactions; thorough: all 5 032) and the generated "
        "run (stage-targeted, mutated curated, small-molecule reactions incl. heavy elements and ions); every solved row's reaction "
        "is re-parsed and re-counted with RDKit only (all elements incl. every H, net charge); every batch is replayed through the "
        "model inside Coq.  Non-trivial: a solved row whose reaction differs from its input (something was added); distinct = "
        "distinct input reaction.")
ASSUMPTIONS = c03.ASSUMPTIONS
TRUSTED = ["RDKit for the independent composition oracle"]


def oracle(ctx, b):
    if len(b["rows"]) != len(b["inputs"]):
        return
    pp = {k: v for k, v in b["tables"]["pp"] if v is not None}
    for inp, r in zip(b["inputs"], b["rows"]):
        ctx.evaluations += 1
        if not r["solved"]:
            continue
        if not pipe.closed_shell(inp):
            ctx.count("oracle", "out_of_domain_radical_placeholder")
            continue
        if r["reaction"] != r["input_reaction"]:
            ctx.nontrivial.add(inp)
        ok = pipe.balanced(r["reaction"])
        ctx.count("solved_by", str(r["solved_by"]))
        if ok is True:
            continue
        case = {"inputs": [inp], "row": r}
        replaced = [k for k, v in pp.items() if pipe.balanced(k) is True and (v == r["reaction"] or r["reaction"].startswith(v.split(">>")[0]))]
        if replaced and r["solved_by"] in ("rule-based", "mcs-based"):
            ctx.fail("post-process-overwrites-validated", case, {"validated": replaced[0], "returned": r["reaction"],
                                                                  "returned_balanced": ok, "left": pipe.comp(r["reaction"].split(">>")[0]),
                                                                  "right": pipe.comp(r["reaction"].split(">>")[1])})
        else:
            ctx.fail("solved-row-unbalanced" if ok is False else "solved-row-unparsable", case, {"balanced": ok})


def run(ctx):
    from rdkit import RDLogger
    RDLogger.DisableLog("rdApp.*")
    ws = pipe.witness_inputs("C01")
    wb = pipe.run_batches(ws) if ws else []
    bs = pipe.corpus_run(ctx)
    gs = c03.gen_run(ctx)
    ctx.count("inputs", "witness_batches", len(wb))
    ctx.count("inputs", "corpus_rows", sum(len(b["inputs"]) for b in bs))
    ctx.count("inputs", "generated_rows", sum(len(b["inputs"]) for b in gs))
    for b in wb + bs + gs:
        oracle(ctx, b)
    for b in (wb + bs)[:2]:
        if b["rows"]:
            ctx.sample({"input": b["inputs"][0], "row": b["rows"][0]})
    pipe.eval_pipeline_cases(ctx, wb + bs + gs, "c01")


def replay(ctx, rep):
    case = rep.get("failing_input", {})
    if isinstance(case, dict) and "inputs" in case:
        b = pipe.run_batch(case["inputs"])
        print(json.dumps(b["rows"], indent=1))
        n = len(ctx.failures); oracle(ctx, b)
        return 1 if len(ctx.failures) > n else 0
    return 0
