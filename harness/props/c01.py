"""C01 -- a reaction reported as solved is balanced in every element and in charge."""
import random, json
from common import *
import pipe
from props import c03

RULE = ("listed witnesses first, then the corpus run (quick: 300 sampled validation reactions; thorough: all 5 032) and the generated "
        "run (stage-targeted, mutated curated, small-molecule reactions incl. heavy elements and ions), spectator molecules/ions written on both sides with unequal multiplicities, and runs with 2-5 workers (threads and process pools) and batch sizes that do not divide the input; every solved row's reaction "
        "is re-parsed and re-counted with RDKit only (all elements incl. every H, net charge); every batch is replayed through the "
        "model inside Coq.  Non-trivial: a solved row whose reaction differs from its input (something was added); distinct = "
        "distinct input reaction.")
ASSUMPTIONS = c03.ASSUMPTIONS
TRUSTED = ["RDKit for the independent composition oracle"]


def oracle(ctx, b, config=None):
    if len(b["rows"]) != len(b["inputs"]):
        return
    pp = {k: v for k, v in b["tables"]["pp"] if v is not None}
    for inp, r in zip(b["inputs"], b["rows"]):
        ctx.evaluations += 1
        if not r["solved"]:
            continue
        if not pipe.closed_shell(inp):
            ctx.count("oracle", "out_of_domain_radical_placeholder")
            continue
        if r["reaction"] != r["input_reaction"]:
            ctx.nontrivial.add(inp)
        ok = pipe.balanced(r["reaction"])
        ctx.count("solved_by", str(r["solved_by"]))
        if ok is True:
            continue
        case = {"inputs": [inp], "row": r}
        if config:
            case = {"inputs": list(b["inputs"]), "row": r, "config": config}
        replaced = [k for k, v in pp.items() if pipe.balanced(k) is True and (v == r["reaction"] or r["reaction"].startswith(v.split(">>")[0]))]
        if replaced and r["solved_by"] in ("rule-based", "mcs-based"):
            ctx.fail("post-process-overwrites-validated", case, {"validated": replaced[0], "returned": r["reaction"],
                                                                  "returned_balanced": ok, "left": pipe.comp(r["reaction"].split(">>")[0]),
                                                                  "right": pipe.comp(r["reaction"].split(">>")[1])})
        else:
            ctx.fail("solved-row-unbalanced" if ok is False else "solved-row-unparsable", case, {"balanced": ok})


def run(ctx):
    from rdkit import RDLogger
    RDLogger.DisableLog("rdApp.*")
    ws = pipe.witness_inputs("C01")
    wb = pipe.run_batches(ws) if ws else []
    bs = pipe.corpus_run(ctx)
    gs = c03.gen_run(ctx)
    ctx.count("inputs", "witness_batches", len(wb))
    ctx.count("inputs", "corpus_rows", sum(len(b["inputs"]) for b in bs))
    ctx.count("inputs", "generated_rows", sum(len(b["inputs"]) for b in gs))
    for b in wb + bs + gs:
        oracle(ctx, b)
    # spectators with unequal multiplicities: a molecule or ion written on both sides, more often on one of them, next to an otherwise
    # balanced reaction (ions the rule database holds and ions it does not); such a row is balanced only if something complete is added
    rng = random.Random("c01|%s|%s" % (ctx.seed, ctx.tier))
    BASE = ["CC(=O)O.[OH-]>>CC(=O)[O-].O", "CCBr.[OH-]>>CCO.[Br-]", "CC(=O)OCC.O>>CC(=O)O.CCO", "c1ccccc1>>c1ccccc1", "CCO.CC(=O)Cl>>CC(=O)OCC.Cl"]
    # look-alike element symbols (one letter apart, very different elements): never balanced against each other
    LOOK = [("Np", "Nb"), ("Pa", "Pd"), ("Pu", "Pt"), ("Ac", "Ag"), ("Am", "Al"), ("Cm", "Cd"), ("Es", "Cs"), ("Ra", "Rb"), ("Fr", "Fe"), ("Th", "Tl"), ("Bk", "Br"),
            ("Cf", "Cd"), ("Md", "Mo"), ("Lr", "Li"), ("Rf", "Rh"), ("Db", "Pb"), ("Sg", "Sn"), ("Bh", "Bi"), ("Hs", "Hf"), ("Mt", "Mn"), ("No", "Nb"), ("Fm", "Fe")]
    SPEC = ["[Cs+]", "[Ag+]", "[Rb+]", "[Pd+2]", "[Na+]", "[K+]", "[Li+]", "[Cl-]", "[Br-]", "[NH4+]", "[Cu+2]", "O", "ClCCl", "[Zn+2]", "[F-]", "[Ba+2]"]
    spect = []
    for base in BASE:
        l, p = base.split(">>")
        for x in (SPEC if not ctx.quick() else rng.sample(SPEC, 7)):
            for nl, nr in ((2, 1), (1, 2), (3, 1), (1, 0), (0, 1)):
                ls, ps = l.split(".") + [x] * nl, p.split(".") + [x] * nr
                rng.shuffle(ls); rng.shuffle(ps)
                spect.append(".".join(ls) + ">>" + ".".join(ps))
    look = []
    for a, b2 in LOOK:
        look += [x for x in ("[%s]>>[%s]" % (a, b2), "O=[%s]=O.CC(=O)Cl.O>>O=[%s]=O.CC(=O)O" % (a, b2), "Cl[%s]Cl>>Cl[%s]Cl" % (b2, a),
                             "O=[%s+]=O.[Cl-]>>O=[%s+]=O.[Cl-]" % (a, b2)) if pipe.balanced(x) is not None]     # parsable ones only
    sb, _ = pipe.cached("c01spect_%s_%d" % (ctx.tier, ctx.seed), lambda: pipe.run_batches([spect[i:i + 25] for i in range(0, len(spect), 25)] + [look[i:i + 6] for i in range(0, len(look), 6)]))
    ctx.count("inputs", "look_alike_element_rows", len(look))
    ctx.count("inputs", "spectator_multiplicity_rows", len(spect))
    for b in sb:
        oracle(ctx, b)
    # configurations: worker counts > 1 and batch sizes that do not divide the input (rows only; the recorders need one worker)
    import joblib
    from synrbl import Balancer
    cheap = [i for b in bs + gs if len(b["rows"]) == len(b["inputs"]) for i, r in zip(b["inputs"], b["rows"]) if r["solved_by"] != "mcs-based" and pipe.closed_shell(i)]
    for nj, k, threads in ([(2, None, True), (3, 7, True)] if ctx.quick() else [(2, None, True), (3, 7, True), (2, 5, False), (3, None, False), (4, 9, True), (5, None, True)]):
        ins = rng.sample(cheap, min(len(cheap), rng.choice([11, 13, 17, 19])))
        try:
            if threads:
                with joblib.parallel_backend("threading", n_jobs=nj):
                    rows = Balancer(n_jobs=nj, batch_size=k).rebalance(list(ins), output_dict=True)
            else:
                rows = Balancer(n_jobs=nj, batch_size=k).rebalance(list(ins), output_dict=True)
        except Exception as e:
            ctx.mismatch("rebalance raised with n_jobs=%d" % nj, ins[:3], str(e), None)
            continue
        ctx.count("configurations", "n_jobs=%d batch_size=%s %s" % (nj, k, "threads" if threads else "processes"))
        oracle(ctx, {"inputs": ins, "rows": [{"reaction": r.get("reaction"), "input_reaction": r.get("input_reaction"), "solved": bool(r.get("solved")),
                                            "solved_by": r.get("solved_by") if isinstance(r.get("solved_by"), str) else None} for r in rows],
                     "tables": {"pp": []}}, config={"n_jobs": nj, "batch_size": k, "threads": threads})
    # the configuration matrix (cache, worker threads, dict rows, Dataset sources, re-used object, fed-back rows, CLI)
    import matrix
    for run in matrix.runs(ctx):
        ctx.count("matrix", run["config"][:40])
        if run["error"]:
            ctx.fail("rebalance-raised", {"inputs": run["given"], "config": {"matrix": run["config"]}}, {"error": run["error"]})
            continue
        oracle(ctx, matrix.as_batch(run), config={"matrix": run["config"]})
    bs = bs + sb
    for b in (wb + bs)[:2]:
        if b["rows"]:
            ctx.sample({"input": b["inputs"][0], "row": b["rows"][0]})
    pipe.eval_pipeline_cases(ctx, wb + bs + gs, "c01")


def replay(ctx, rep):
    case = rep.get("failing_input", {})
    if isinstance(case, dict) and "config" in case and "matrix" in case["config"]:
        import matrix
        n = len(ctx.failures)
        for run in matrix.compute():
            if run["config"] == case["config"]["matrix"]:
                oracle(ctx, matrix.as_batch(run), config=case["config"])
        return 1 if len(ctx.failures) > n else 0
    if isinstance(case, dict) and "config" in case:
        import joblib
        from synrbl import Balancer
        c = case["config"]
        if c.get("threads"):
            with joblib.parallel_backend("threading", n_jobs=c["n_jobs"]):
                rows = Balancer(n_jobs=c["n_jobs"], batch_size=c["batch_size"]).rebalance(list(case["inputs"]), output_dict=True)
        else:
            rows = Balancer(n_jobs=c["n_jobs"], batch_size=c["batch_size"]).rebalance(list(case["inputs"]), output_dict=True)
        n = len(ctx.failures)
        oracle(ctx, {"inputs": case["inputs"], "rows": rows, "tables": {"pp": []}}, config=c)
        return 1 if len(ctx.failures) > n else 0
    if isinstance(case, dict) and "inputs" in case:
        b = pipe.run_batch(case["inputs"])
        print(json.dumps(b["rows"], indent=1))
        n = len(ctx.failures); oracle(ctx, b)
        return 1 if len(ctx.failures) > n else 0
    return 0
