"""C06 -- a reaction's result does not depend on its batch context."""
import random, json, collections
from common import *
import pipe
from props import c03

RULE = ("a pool of reactions drawn from the corpus run (one third MCS-stage, one third rule-based, one third input-balanced/declined) plus fixed neighbour-sensitive rows (no common substructure at all, both-side imbalance, redox-curated, input-balanced) "
        "is processed (a) each alone, (b) all together in several random orders, (c) through the public batch_size API in random "
        "partitions, (d) with worker counts > 1 (joblib process pools), (e) with 3 worker threads and finished MCS search jobs held back so that completion order differs between conditions; all public columns of every row are compared across contexts "
        "and the merged statistics with the sum of the single-row statistics; (a) and (b) are replayed through the model inside Coq. "
        "A cross-context difference counts only if it reproduces (the row is re-run 3x alone; unstable rows are timing_unstable). "
        "Non-trivial: a (reaction, context) pair for a reaction edited by some stage; distinct = distinct pair.")
ASSUMPTIONS = c03.ASSUMPTIONS + ["(A8) joblib returns results in submission order"]
TRUSTED = ["joblib/loky scheduling as an oracle (worker-count variation is compared on public rows only)"]


def key(r):
    return json.dumps(r, sort_keys=True)


def add_stats(a, b):
    out = dict(a)
    for k, v in b.items():
        out[k] = out.get(k, 0) + v
    return out


def run(ctx):
    from rdkit import RDLogger
    RDLogger.DisableLog("rdApp.*")
    from synrbl import Balancer
    base = pipe.corpus_run(ctx)
    rng = random.Random("c06|%s|%s" % (ctx.seed, ctx.tier))
    pool = {"mcs-based": [], "rule-based": [], "other": []}
    for b in base:
        if len(b["rows"]) != len(b["inputs"]):
            continue
        for inp, r in zip(b["inputs"], b["rows"]):
            pool[r["solved_by"] if r["solved_by"] in ("mcs-based", "rule-based") else "other"].append(inp)
    n = 8 if ctx.quick() else 40
    rx = []
    for k in pool:
        rx += rng.sample(pool[k], min(n, len(pool[k])))
    # rows that need a particular neighbour to expose an index mix-up: no common substructure at all (dropped by
    # get_largest_condition), both-side imbalance with surplus O (in-place water step), input-balanced, redox-curated
    rx += ["CC>>O", "CCCCCC>>P", "c1ccccc1>>N", "CCOC(=O)C>>CC(=O)O", "CC(=O)O>>CCO", "CCO.CC(=O)O>>CC(=O)OCC.O", "CC(=O)C>>CC(O)C", "CCO>>CCO",
           # different inputs that are completed to the SAME output string (with and without the water): their scores differ
           "CC(=O)OCC>>CC(=O)O", "CC(=O)OCC.O>>CC(=O)O", "CCCOC(=O)C>>OC(=O)C", "CCCOC(=O)C.O>>OC(=O)C"]
    rx = list(dict.fromkeys(rx))
    ctx.count("pool", "reactions", len(rx))
    nperm = 2 if ctx.quick() else 6
    perms = []
    for _ in range(nperm):
        p = list(rx); rng.shuffle(p); perms.append(p)

    def compute():
        return {"alone": pipe.run_batches([[x] for x in rx]), "perms": pipe.run_batches(perms)}
    res, hit = pipe.cached("c06_%s_%d" % (ctx.tier, ctx.seed), compute)
    alone = {b["inputs"][0]: b for b in res["alone"]}
    ref = {i: (b["rows"][0] if len(b["rows"]) == 1 else None) for i, b in alone.items()}
    edited = {i for i, r in ref.items() if r and r["reaction"] != r["input_reaction"]}
    suspects = []

    def compare(context, inputs, rows, st):
        if len(rows) != len(inputs):
            ctx.fail("rows-lost-in-context", {"context": context, "inputs": inputs}, {"rows": len(rows)})
            return
        for inp, r in zip(inputs, rows):
            ctx.evaluations += 1
            if inp in edited:
                ctx.nontrivial.add((inp, context))
            if key(r) != key(ref[inp]):
                suspects.append((context, inp, r))
        if st is not None:
            tot = {}
            for inp in inputs:
                tot = add_stats(tot, alone[inp]["stats"])
            if {k: v for k, v in tot.items()} != {k: v for k, v in st.items()}:
                suspects.append((context + " [statistics]", tuple(inputs), {"merged": st, "sum_of_alone": tot}))

    for k, b in enumerate(res["perms"]):
        compare("one batch, order %d" % k, b["inputs"], b["rows"], b["stats"])
    # public API, partitions and worker counts
    def norm(rows):
        return json.loads(json.dumps([{kk: (None if (isinstance(v, float) and v != v) else v) for kk, v in r.items()} for r in rows]))
    def api_rows(rows):
        out = []
        for r in rows:
            c = r.get("confidence")
            out.append({"input_reaction": r.get("input_reaction"), "reaction": r.get("reaction"), "solved": bool(r.get("solved")),
                        "solved_by": r.get("solved_by") if isinstance(r.get("solved_by"), str) else None,
                        "issue": r.get("issue") if isinstance(r.get("issue"), str) else None,
                        "rules": list(r["rules"]) if isinstance(r.get("rules"), list) else None,
                        "confidence": None if c is None or (isinstance(c, float) and c != c) else float(c)})
        return out
    sizes = [1, 3, 7, len(rx) + 1] if ctx.quick() else [1, 2, 3, 5, 7, 11, len(rx), len(rx) + 1]
    for k in sizes:
        p = list(rx); rng.shuffle(p)
        st = {}
        rows = api_rows(Balancer(n_jobs=1, batch_size=k).rebalance(list(p), output_dict=True, stats=st))
        compare("batch_size=%d" % k, p, rows, st)
    for nj in ([2] if ctx.quick() else [2, 4, 16]):
        p = list(rx); rng.shuffle(p)
        st = {}
        rows = api_rows(Balancer(n_jobs=nj, batch_size=None).rebalance(list(p), output_dict=True, stats=st))
        compare("n_jobs=%d" % nj, p, rows, st)
        ctx.count("contexts", "worker_counts")
    # (e) worker threads with an adversarial schedule: finished MCS search jobs are held back so that the completion order differs
    # from condition to condition (process pools complete mostly in submission order, which hides order-dependent code)
    import mcs
    items = []
    for _ in range(2 if ctx.quick() else 12):
        p = rng.sample(pool["mcs-based"] and [x for x in rx if x in set(pool["mcs-based"])] or rx, min(5, len(rx))) + rng.sample(rx, 2)
        p = list(dict.fromkeys(p)); rng.shuffle(p)
        plan = {"%d:%d" % (i, c): "hold:%s" % rng.choice(["0", "0.1", "0.25", "0.4"]) for i in range(len(p)) for c in range(3)}
        items.append((p, {"search": plan}, 0, 3))
    for rec in mcs.run_many(items):
        if rec["error"]:
            ctx.mismatch("scheduled run raised", rec["inputs"][:2], rec["error"], None)
            continue
        n0 = len(suspects)
        compare("3 worker threads, held search jobs %s" % json.dumps(rec["plan"]["search"], sort_keys=True), rec["inputs"], rec["rows"], rec["stats"])
        ctx.count("contexts", "adversarial_schedules")
        if len(suspects) > n0:
            # worker threads share the interpreter: under load a search can hit its wall-clock budget in this context only.  The
            # schedule is run once more; a difference that does not come back the same way is timing, not the schedule.
            rec2 = mcs.run_with_plan(rec["inputs"], rec["plan"], 0, 3)
            keep = [x for x in suspects[n0:] if not isinstance(x[1], tuple) and x[1] in rec2["inputs"] and not rec2["error"]
                    and len(rec2["rows"]) == len(rec2["inputs"]) and key(rec2["rows"][rec2["inputs"].index(x[1])]) == key(x[2])]
            ctx.timing_unstable += len(suspects) - n0 - len(keep)
            del suspects[n0:]
            suspects.extend(keep)
    # (f) the configuration matrix: the same reaction must get the same row whatever the source form, cache state, object history
    import matrix
    seen = {}
    for run in matrix.runs(ctx):
        if not run["error"] and len(run["rows"]) != len(run["given"]):
            ctx.fail("rows-lost-in-context", {"context": "configuration matrix: " + run["config"], "inputs": run["given"]}, {"rows": len(run["rows"])})
            continue
        if run["error"] or (run.get("t") or 0) != 0 or "fed in again" in run["config"]:
            continue
        ctx.count("contexts", "matrix_runs")
        for g, r in zip(run["given"], run["rows"]):
            ctx.evaluations += 1
            k5 = json.dumps([r["input_reaction"], r["reaction"], r["solved"], r["solved_by"], r["issue"] or None], sort_keys=True)
            if g in seen and seen[g][0] != k5:
                ctx.fail("row-depends-on-configuration", {"input": g, "context": run["config"], "other_context": seen[g][1]}, {"here": json.loads(k5), "there": json.loads(seen[g][0])})
            seen.setdefault(g, (k5, run["config"]))
    ctx.count("contexts", "orders", len(res["perms"]))
    ctx.count("contexts", "batch_sizes", len(sizes))
    # reproducibility filter
    for context, inp, r in suspects:
        ins = list(inp) if isinstance(inp, tuple) else [inp]
        stable = True
        seen = set()
        for x in ins[:6]:
            for _ in range(3):
                b = pipe.run_batch([x])
                seen.add((x, key(b["rows"][0]) if b["rows"] else "lost"))
        per = collections.Counter(x for x, _ in seen)
        if any(c > 1 for c in per.values()):
            ctx.timing_unstable += 1
            continue
        ctx.fail("row-depends-on-batch-context", {"context": context, "input": inp}, {"in_context": r, "alone": ref.get(inp) if not isinstance(inp, tuple) else None})
    ctx.sample({"pool_example": rx[0], "alone_row": ref[rx[0]]})
    pipe.eval_pipeline_cases(ctx, res["alone"] + res["perms"], "c06")


def replay(ctx, rep):
    print(json.dumps(rep, indent=1)[:3000])
    return 0
