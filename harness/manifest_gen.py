"""Writes MANIFEST.json from the table below (kept in one place so it stays valid)."""
import json, os
V = os.path.dirname(os.path.dirname(os.path.abspath(__file__)))
CHECKS = {
 "C07": dict(
    text="Machine-checked proof (Coq) over the composition model: decompose is exact for every atomic number 1..118 (table regenerated from the source each run and re-proved injective), additive, permutation invariant; Balance <=> equal compositions; Products/Reactants verdicts imply the signed difference formula; four-way verdict exact when charges agree; the signed re-classification of the rule-based stage is sound; carbon label spec. The hand-written model is tied to the code by running it inside Coq (vm_compute) against RSMIDecomposer/RSMIComparator/BothSideReact/CheckCarbonBalance on corpus molecules, all elements, mixtures and all small dictionary pairs.",
    note="Trusted: Coq kernel+vm_compute, the translator (gen_data.py), RDKit as the source of a SMILES' true atoms and charge, the differential harness. All theorems closed under the global context.",
    technique="Coq proof over hand-written Gallina model + differential correspondence (vm_compute) + regenerated symbol table",
    design="7/C07"),
 "C08": dict(
    text="Machine-checked proof (Coq): every completion returned by the model of the DFS solver (any database with unique keys per record, any imbalance, any fuel) sums to the imbalance in every element and in charge, uses only database compounds, with multiplicities >= 1 for databases with positive counts; accepted completions contain no banned substring. Generated obligations re-proved on the current files each run: every record well-formed, recorded composition = composition of RDKit's atoms of its SMILES, every dihalogen of the database covered by the ban list. Correspondence: ranked solution lists of SyntheticRuleMatcher compared in order with the model inside Coq on enumerated/random/composed imbalance vectors for both databases, single_impute and RuleConstraint.fit on generated marker strings, the stage on corpus reactions.",
    note="Trusted: Coq kernel+vm_compute, translator, RDKit for true compositions (oracle columns), harness. Solver termination is modelled by fuel (fuel exhaustion = abnormal result, never observed; the correspondence would flag it).",
    technique="Coq proof (induction over the DFS) + generated-data obligations by vm_compute + differential correspondence",
    design="7/C08"),
 "C19": dict(
    text="Machine-checked proof (Coq): the invariant (unique formulas, unique SMILES, every record valid with the composition of its SMILES and an explicit charge) holds for the empty database, is preserved by add_entry/add_entries/remove_entry for every oracle, hence after every history; rejections happen exactly for duplicate formula / duplicate SMILES / invalid SMILES and change nothing; bulk add reports only rejected entries; removal deletes only the named record. Generated obligation: both shipped files are duplicate-free (re-proved each run). Correspondence: RuleImputeManager vs the model on all histories up to length 3/4 from empty and random histories up to 40 from the shipped databases.",
    note="Trusted: Coq kernel+vm_compute, translator, RDKit validity/atoms as the oracle, harness.",
    technique="Coq invariant proof by induction over operation histories + exhaustive short-history correspondence",
    design="7/C19"),
 "C03": dict(
    text="Machine-checked proof (Coq) over the pipeline model (Model/Pipeline.v, all eleven stages, every oracle answer universally quantified): every row of a completed run that is not solved returns exactly its input reaction and a non-empty issue (default threshold: no score below it), and every solved row names one of the three methods. The hand-written model is tied to the code by replaying every recorded real batch (corpus + stage-targeted generated reactions) through the model inside Coq: all public columns of all rows and all seven statistics must coincide; the stage order/flags of the real pipeline are traced and compared. Independent RDKit-only oracles check each returned row (untouched, reason, method, carbon-deficit declined).",
    note="Proved for every oracle: declined_untouched, solved_named. Kept visible but not proved (decided by correspondence+oracles only): 'solved rows have an empty issue' for mcs-based rows and 'carbon-deficit rows are declined' (both need facts about impute_reaction that the pipeline-level model treats as a black box). Trusted: Coq kernel+vm_compute, translator, recorders (module-attribute wrappers, n_jobs=1), RDKit for the oracles.",
    technique="Coq invariant proof over an 11-stage pipeline model + recorded-oracle replay of real batches inside Coq",
    design="7/C03"),
 "C12": dict(
    text="Machine-checked proof (Coq) over Model/Cache.v (the cache logic of Balancer.rebalance / CacheManager for an abstract pipeline, hash and configuration): for EVERY pipeline function, every injective hash of (configuration, batch) and EVERY history of completed runs, runs killed while an entry is written (leaving nothing, an unreadable file = empty / any truncated prefix / garbage, or the complete entry) and foreign non-result files, a completed cached run returns exactly the per-batch results of the uncached run, lost batches included (invariant: every stored result is the pipeline's result for the pair it is filed under; induction over the history). Instantiated with the pipeline model (configuration = threshold). The pinned tree violated the property twice (key ignored the configuration; unreadable entry raised out of rebalance; in-place writes): repaired in /repo by one fix: commit, the old design is kept as two refutation theorems. Correspondence: histories of real runs over a shared temp cache directory with overlapping inputs, varying threshold / batch size / column name / input form and damaged entries, each compared with the uncached run; every proper prefix of a real entry (thorough) as crash point; observed hit/miss/lost sequences replayed through the model inside Coq with the real SHA keys.",
    note="Oracle assumptions: SHA-256 injective on the pairs of a history (checked: distinct pairs, distinct keys), pipeline a function of (configuration, batch) (C06), JSON round-trips public columns (checked on every hit). Process kills are modelled by what they can leave on disk (os.replace atomicity is POSIX's), not exercised by killing processes. Trusted: Coq kernel+vm_compute, harness, file system.",
    technique="Coq invariant proof by induction over run/crash histories + history-based differential runs against the uncached implementation",
    design="7/C12"),
 "C13": dict(
    text="Machine-checked proof (Coq): for every oracle and input, an mcs-based row of a completed run carries the confidence, is solved exactly when its confidence key reaches the threshold key and otherwise carries the threshold message; for two thresholds on the same input the confidences, reactions, methods and rules coincide, all rows of other methods and declined rows are identical, and raising the threshold never solves an unsolved row. Correspondence: real runs at thresholds 0, 0.5, 1 and at observed confidences and both float neighbours, replayed in the model with float64 order keys; cross-threshold oracle on the real rows.",
    note="Confidence in [0,1] is the scoring model's contract (oracle assumption, checked on every scored row). Floats enter the model only as order-preserving integer keys. Trusted: Coq kernel+vm_compute, recorders, numpy/xgboost as oracle.",
    technique="Coq proof over the pipeline model's last stage + threshold-boundary correspondence with float64 keys",
    design="7/C13"),
 "C14": dict(
    text="Machine-checked proof (Coq) + metamorphic correspondence. Proved for every oracle, database and fuel: if two spellings/orders of a reaction give composition dictionaries that agree entry-wise (any entry order; this is what C07's permutation-invariance and additivity deliver for re-ordered atoms and molecules, kekulised forms and atom maps) and equal carbon sums, then the input check answers the same, the comparator verdict and the signed re-classification are the same, the difference formulas agree entry-wise, the same number of water molecules is inserted, and the solver returns the identical ranked list of completions (dfs/match_all ignore entry order) -- so the same molecules are proposed for the same side. NOT proved, decided by the metamorphic runs only: RuleConstraint's redox rewrite tests the side strings for marker substrings, which is order sensitive exactly where C02's guard fails (known finding C14/marker-position-sensitive); reagent post-processing is excluded by the statement. Correspondence: input-balanced / rule-based corpus and generated rows and marker-stream reactions re-run as random-SMILES, kekulised, randomly atom-mapped and shuffled variants; verdict and added canonical multisets compared; the theorems' hypothesis is checked on the recorded oracle tables of every pair; all variant batches replayed in the model inside Coq.",
    note="PARTIAL: the constraint rewrite's spelling sensitivity is outside the theorems. Trusted: Coq kernel+vm_compute, recorders, RDKit for variant generation and the canonical-multiset oracle.",
    technique="Coq proof (solver and comparator invariant under entry order of the composition dictionaries) + metamorphic differential runs",
    design="7/C14"),
 "C15": dict(
    text="Machine-checked proof (Coq) over Model/Aam.v (the two re.sub passes of remove_atom_mapping as deterministic scanners). Proved for EVERY input string: no ':' followed by a digit survives (no map number is left); and the exact effect of the second pass as three equations -- other characters are copied, a bracket group up to the first ']' is replaced by its symbols iff it is one or two organic-subset symbols with an optional H count, every other bracket atom (isotope, chirality, charge, aromatic, non-organic symbol) is returned verbatim. 'Chemically identical' thereby reduces to one oracle question (is the dropped explicit H count the implicit one?), answered by RDKit in the correspondence. The full statement is REFUTED (C15_refuted_PH2/SH4/ring_closure: hypervalent hydrides lose hydrogens, a ring-closure digit after an aromatic-bond colon is eaten) -- two recorded known findings. Correspondence: EXHAUSTIVE digest sweep of all strings of length <= 4/5 over a 12-symbol alphabet (Coq enumerates the domain), generated bracket atoms over the whole periodic table x isotope x chirality x H x charge x map, corpus reactions with shipped and random maps; RDKit identity oracle on every valid closed-shell string; pipeline outputs scanned for maps.",
    note="PARTIAL on chemistry: valence (whether an un-bracketed atom keeps its hydrogens) is RDKit's, not modelled. ASCII inputs. Trusted: Coq kernel+vm_compute, Python re as the implementation's engine, RDKit identity oracle.",
    technique="Coq proof (scanner model of two regex substitutions; invariant 'no colon-digit' through both passes; exact rewrite equations) + exhaustive short-string digest correspondence",
    design="7/C15"),
 "C17": dict(
    text="Machine-checked proof (Coq) over Model/Normalize.v (normalize_smiles and wc_similarity; leaf normalisation of one molecule and fingerprint similarity are oracles): for EVERY leaf oracle, two reactions whose sides have permuted lists of leaf images (any molecule order, any spelling the leaf maps to the same string) get the SAME normal form; normalisation is idempotent (leaf idempotent, one molecule per leaf image); equal normal forms give similarity exactly ONE; similarity is symmetric and in [0, ONE] for every symmetric fingerprint oracle with that range. All rest on the proved fact that the repaired sort key (atom count, character sum, string) is a total order (total, antisymmetric, transitive incl. a transitivity proof for String.leb) and that an insertion sort under a total order is permutation invariant. The pinned tree violated the order claim (two-component key ties on anagram isomers): repaired in /repo by a fix: commit; the old key is kept as C17_old_key_refuted. Correspondence: normalize_smiles vs the model inside Coq with recorded leaf tables on corpus reactions and an isomer family in all permutations / respellings / atom maps; oracle checks of idempotence, similarity 1, symmetry and range for the three methods.",
    note="Oracle contract (RDKit canonical SMILES spelling independent and idempotent; fingerprints symmetric in [0,1]) is checked on every token/pair of the run, not proved. Strings are assumed ASCII. Trusted: Coq kernel+vm_compute, RDKit, harness.",
    technique="Coq proof (total order on the sort key => permutation-invariant stable sort; idempotence; similarity algebra) + differential correspondence with recorded leaf oracle",
    design="7/C17"),
 "C18": dict(
    text="Machine-checked proof (Coq): for every completed batch of the pipeline model, reaction_cnt = number of input rows, balanced_cnt = number of rows labelled input-balanced, confident_cnt = number of rows solved by the MCS method, mcs_applied = number of rows not attributed to input-balanced/rule-based, rb_solved <= rb_applied, mcs_solved <= mcs_applied. Correspondence: every recorded real batch replayed in the model with all seven counters compared; merged statistics of multi-batch runs checked against rows by an independent oracle.",
    note="The two lower bounds (solved count >= rows finally attributed to the method) are checked by the oracle only, not proved. Lost batches (C05's finding) are outside completed runs. Trusted: Coq kernel+vm_compute, recorders, harness.",
    technique="Coq proof by positionwise stage invariants + recorded-batch replay inside Coq",
    design="7/C18"),
 "C01": dict(
    text="Machine-checked proof (Coq). The full statement (every solved row's reaction is found balanced) is REFUTED on the faithful pipeline model (C01_refuted: post-processing overwrites a validated reaction; the final pass never re-examines solved rows). C01_partial is proved for every oracle, database and input: every solved row of a completed run was found balanced by the validator on exactly the reaction it returns, unless post-processing replaced a validated rule-based/mcs-based reaction; with C07 (Balance <=> equal compositions; decompose exact for all 118 elements and charge) 'found balanced' is true element-and-charge balance. Correspondence: every recorded real batch replayed in the model inside Coq; RDKit-only oracle re-parses and re-counts every solved row.",
    note="The link 'validator verdict = true balance' goes through the decomp oracle (= decompose of RDKit's atoms, validated by C07's correspondence). Domain: closed-shell inputs (radical placeholders such as [O] are deliberately rewritten by the atom-map stripper). Trusted: Coq kernel+vm_compute, recorders, RDKit oracle.",
    technique="Coq proof (row-local pipeline form + validator invariant) with refuted/partial split + recorded-batch replay",
    design="7/C01"),
 "C04": dict(
    text="Machine-checked proof (Coq), both directions, for every oracle/database/input: in a completed run, a reaction whose stripped form the validator finds balanced (verdict Balance and carbon label balanced) gets a row solved by input-balanced whose reaction and input_reaction equal the stripped input; conversely a row labelled input-balanced implies the input was balanced and nothing was added. Uses the proved row-local form of the pipeline (id write-back = map). Correspondence: curated balanced reactions, reversals, doublings, unions, ionic/heavy/isotope cases and all corpus rows replayed in the model; RDKit-only balance oracle decides expected outcomes.",
    note="Balance is judged on the input as the tool reads it (after atom-map removal); inputs with radical placeholders ([O], [H]) are outside the domain and counted. Trusted: Coq kernel+vm_compute, recorders, RDKit oracle.",
    technique="Coq proof via row-locality lemma + validator fixed-point argument + differential replay",
    design="7/C04"),
 "C06": dict(
    text="Machine-checked proof (Coq): with ids = positions (established by preprocess, preserved by every stage) the id-based write-back of the rule-based stage equals a map, hence the whole pipeline is a map of a per-row function that does not read the id; therefore every row of a completed run equals the row its reaction gets alone, and the same reaction gets the same row in any two batches (any other rows, order, batch size). Correspondence/oracle: the same reactions alone, in random orders, random partitions (batch_size API) and with n_jobs>1, rows and merged statistics compared, reproducibility filter for timing.",
    note="PARTIAL on the runtime: oracles are modelled as functions of the row's strings; wall-clock MCS time-outs under load and joblib/loky scheduling cannot be exhibited by the model (rows with conflicting recorded answers are reported timing_unstable). Additivity of statistics over partitions is checked by the oracle, not proved. Trusted: Coq kernel+vm_compute, recorders, joblib ordering (A8).",
    technique="Coq proof (write-back-by-id = map under the id invariant; row-local pipeline) + context-variation differential runs",
    design="7/C06"),
 "C02": dict(
    text="Machine-checked proof (Coq), string level on purpose. The full statement (every given molecule appears unchanged with its multiplicity on its side of the returned reaction) is REFUTED on the faithful model and on the code (C02_refuted_fused, C02_refuted_lost: RuleConstraint deletes the substrings '.[H]', '.[O]', '.OO' from the whole product side string, so a given hydroperoxide is fused with its neighbour and a given hydrogen peroxide is deleted) -- recorded known finding. C02_partial is proved for every oracle, every database whose SMILES are not cut by a marker (re-proved for the shipped database each run), every threshold and input: if no given product component after the first begins with a marker, the returned sides are the given sides with whole components appended (given molecules unchanged and in place, on both sides), input_reaction is the stripped input; rows rewritten by the reagent post-processing keep the post-processed sides in the same sense or fall back to the input. Rests on proved lemmas about Python's str.replace/split/count on dot-joined strings (replace of '.m' = filter on components). Correspondence: marker stream (peroxides, [H][H], explicit-H spellings at every position), corpus and generated runs replayed in the model inside Coq; RDKit-only canonical-multiset oracle on every row.",
    note="Hypotheses of C02_partial: db_clean (generated obligation, vm_compute on the current file) and impute_clean (merged SMILES appended by the MCS stage has no component cut by a marker; evaluated inside Coq on every recorded answer, exceptions counted). What the reagent post-processing does to the molecules (it re-canonicalises both sides) is oracle-only. Domain: closed-shell molecules, no free [H]/[O] placeholders among the given molecules. Trusted: Coq kernel+vm_compute, recorders, RDKit oracle.",
    technique="Coq proof (str.replace/split lemmas on component lists + per-row pipeline invariant) with refuted/partial split + marker-stream correspondence",
    design="7/C02"),
 "C05": dict(
    text="Machine-checked proof (Coq). The full statement (one row per input row, in order, for every mixture of valid and malformed strings) is REFUTED on the faithful model and on the code (C05_refuted_filtered: a row whose side does not parse is dropped, later rows shift, the CLI's positional zip pairs pass-through values with the wrong reaction; C05_refuted_batch_lost: a string without exactly one '>>' raises in preprocess and its whole batch is lost) -- both are recorded known findings. Proved (C05_partial, C05_cli_passthrough_aligned, chunk lemmas): for every oracle/database/threshold, every batch size >= 1 and every list of well-formed rows the result has exactly one row per input in input order, each describing its input, and the CLI's pass-through pairing is aligned; DataLoader chunking loses/reorders nothing. Correspondence: all positions of every malformed kind in lists of length 1..4/5 x all batch sizes, list/dict/CSV/JSON sources and the CLI; string runs replayed through Model/Batch.rebalance over Model/Pipeline.run inside Coq.",
    note="Known findings C05/unparsable-filtered, C05/can_parse-raises, C05/cli-passthrough-misaligned are genuine defects recorded, not repaired (what a result row for an unparsable input should contain is a design decision). Any other loss/shift of rows is a VIOLATION. Trusted: Coq kernel+vm_compute, recorders, pandas/csv/json readers as exercised.",
    technique="Coq proof (chunks/concat induction + row-local pipeline) with refuted/partial split + exhaustive malformed-position correspondence",
    design="7/C05"),
}
NA = []
def main():
    checks = []
    for pid, c in sorted(CHECKS.items()):
        checks.append({
            "property_id": pid,
            "quick_cmd": "./harness/check.py %s --tier quick" % pid,
            "thorough_cmd": "./harness/check.py %s --tier thorough" % pid,
            "evidence_file": "/verif/evidence/%s.json" % pid,
            "replay_cmd_template": "./harness/check.py %s --replay {path}" % pid,
            "engine": "coq+harness",
            "level_claimed": {"category": "proof", "text": c["text"], "design_ref": c["design"]},
            "level_note": c["note"],
            "technique": c["technique"],
        })
    props = [json.loads(l)["id"] for l in open(os.path.join(V, "properties.jsonl"))]
    na = [x for x in NA]
    listed = set(CHECKS) | {x["property_id"] for x in na}
    for p in props:
        if p not in listed:
            na.append({"property_id": p, "reason": "check not built yet (in progress; the design in DESIGN.md section 7 applies)"})
    m = {
        "version": 1,
        "setup_cmd": "./setup.sh",
        "hooks": {"guard": "SYNRBL_VERIF", "enable": "no source hooks: the harness wraps module attributes after import when SYNRBL_VERIF=1",
                  "baseline_off_cmd": "./harness/run_baseline.sh", "source_commits": [], "add_only": True},
        "engines": [{"name": "coq+harness", "path": "/verif/harness/check.py", "serves_properties": sorted(CHECKS),
                     "kind_free_text": "Coq 8.16.1 development in /verif/coq (models, proofs, one Props/Cnn.v per property) + Python differential harness"}],
        "checks": checks,
        "not_applicable": na,
        "notes": "Every check regenerates coq/Gen/*.v from /repo, rebuilds the dependency cone of Props/Cnn.vo, re-runs Print Assumptions, then runs the model (inside Coq) against the implementation. Known findings: /verif/known_findings.json.",
    }
    with open(os.path.join(V, "MANIFEST.json"), "w") as f:
        json.dump(m, f, indent=1)
        f.write("\n")
if __name__ == "__main__":
    main()
