"""Writes MANIFEST.json from the table below (kept in one place so it stays valid)."""
import json, os
V = os.path.dirname(os.path.dirname(os.path.abspath(__file__)))
CHECKS = {
 "C07": dict(
    text="Machine-checked proof (Coq) over the composition model: decompose is exact for every atomic number 1..118 (table regenerated from the source each run and re-proved injective), additive, permutation invariant; Balance <=> equal compositions; Products/Reactants verdicts imply the signed difference formula; four-way verdict exact when charges agree; the signed re-classification of the rule-based stage is sound; carbon label spec. The hand-written model is tied to the code by running it inside Coq (vm_compute) against RSMIDecomposer/RSMIComparator/BothSideReact/CheckCarbonBalance on corpus molecules, all elements, mixtures and all small dictionary pairs.",
    note="Trusted: Coq kernel+vm_compute, the translator (gen_data.py), RDKit as the source of a SMILES' true atoms and charge, the differential harness. All theorems closed under the global context.",
    technique="Coq proof over hand-written Gallina model + differential correspondence (vm_compute) + regenerated symbol table",
    design="7/C07"),
}
NA = []
def main():
    checks = []
    for pid, c in sorted(CHECKS.items()):
        checks.append({
            "property_id": pid,
            "quick_cmd": "./harness/check.py %s --tier quick" % pid,
            "thorough_cmd": "./harness/check.py %s --tier thorough" % pid,
            "evidence_file": "/verif/evidence/%s.json" % pid,
            "replay_cmd_template": "./harness/check.py %s --replay {path}" % pid,
            "engine": "coq+harness",
            "level_claimed": {"category": "proof", "text": c["text"], "design_ref": c["design"]},
            "level_note": c["note"],
            "technique": c["technique"],
        })
    props = [json.loads(l)["id"] for l in open(os.path.join(V, "properties.jsonl"))]
    na = [x for x in NA]
    listed = set(CHECKS) | {x["property_id"] for x in na}
    for p in props:
        if p not in listed:
            na.append({"property_id": p, "reason": "check not built yet (in progress; the design in DESIGN.md section 7 applies)"})
    m = {
        "version": 1,
        "setup_cmd": "./setup.sh",
        "hooks": {"guard": "SYNRBL_VERIF", "enable": "no source hooks: the harness wraps module attributes after import when SYNRBL_VERIF=1",
                  "baseline_off_cmd": "./harness/run_baseline.sh", "source_commits": [], "add_only": True},
        "engines": [{"name": "coq+harness", "path": "/verif/harness/check.py", "serves_properties": sorted(CHECKS),
                     "kind_free_text": "Coq 8.16.1 development in /verif/coq (models, proofs, one Props/Cnn.v per property) + Python differential harness"}],
        "checks": checks,
        "not_applicable": na,
        "notes": "Every check regenerates coq/Gen/*.v from /repo, rebuilds the dependency cone of Props/Cnn.vo, re-runs Print Assumptions, then runs the model (inside Coq) against the implementation. Known findings: /verif/known_findings.json.",
    }
    with open(os.path.join(V, "MANIFEST.json"), "w") as f:
        json.dump(m, f, indent=1)
        f.write("\n")
if __name__ == "__main__":
    main()
