#!/bin/bash
# seed_run.sh <patch.diff> <Cnn> [<Cnn> ...]: apply a seeded change to /repo, run the quick checks, undo it straight afterwards.
PATCH=$1; shift
cd /verif
[ -z "$(git -C /repo status --porcelain)" ] || { echo "/repo not clean"; exit 2; }
git -C /repo apply "$PATCH" || exit 2
for P in "$@"; do
  timeout 3000 ./harness/check.py $P --tier ${TIER:-quick} > /tmp/_sr_$P.log 2>&1; RC=$?
  echo "== $P exit=$RC"; grep -E "^VIOLATION|^KNOWN-FINDING" /tmp/_sr_$P.log | cut -c1-260; tail -1 /tmp/_sr_$P.log
done
git -C /repo checkout -q -- . ; git -C /repo clean -fdq
[ -z "$(git -C /repo status --porcelain)" ] && echo "repo restored"
