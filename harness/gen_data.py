"""Translator /repo runtime objects -> coq/Gen/*.v (fail-closed, write-if-changed).
Imports the modules from the working tree and prints the *objects* as Gallina literals, so a
reformatting of the source does not matter but any change of content re-checks the theorems."""
import os, json
from common import *

HEADER = "(* GENERATED from %s by harness/gen_data.py on every run -- do not edit *)\n" \
         "From Coq Require Import String ZArith List.\nImport ListNotations.\nOpen Scope string_scope.\n\n"


class GenError(Exception):
    pass


def gen_symbols():
    from synrbl.SynProcessor.rsmi_decomposer import RSMIDecomposer
    tbl = RSMIDecomposer.atomic_symbols
    if not isinstance(tbl, dict) or not all(isinstance(k, int) and not isinstance(k, bool) and isinstance(v, str) for k, v in tbl.items()):
        raise GenError("atomic_symbols: unexpected shape")
    txt = HEADER % "synrbl/SynProcessor/rsmi_decomposer.py:RSMIDecomposer.atomic_symbols"
    txt += "Definition atomic_symbols : list (Z * string) :=\n  " + \
        clist(tbl.items(), lambda kv: cpair(cz(kv[0]), cstr(kv[1]))) + ".\n"
    # oracle table: what atom.GetSymbol() (the source's fallback) answers for every atomic number
    from rdkit import Chem
    pt = Chem.GetPeriodicTable()
    fb = [(0, Chem.MolFromSmiles("*").GetAtomWithIdx(0).GetSymbol())] + [(z, pt.GetElementSymbol(z)) for z in range(1, 119)]
    txt += "Definition rdkit_symbols : list (Z * string) :=\n  " + \
        clist(fb, lambda kv: cpair(cz(kv[0]), cstr(kv[1]))) + ".\n"
    return {"GenSymbols.v": txt}


def _atoms_of(smiles):
    """true atoms (after AddHs) and charge of a SMILES, read from RDKit directly"""
    from rdkit import Chem
    m = Chem.MolFromSmiles(smiles)
    if m is None:
        return None
    zs = [a.GetAtomicNum() for a in m.GetAtoms()] + [1] * sum(a.GetTotalNumHs() for a in m.GetAtoms())
    return zs, sum(a.GetFormalCharge() for a in m.GetAtoms()), sum(abs(a.GetFormalCharge()) for a in m.GetAtoms())


def _rule_records(name, recs):
    if not isinstance(recs, list):
        raise GenError(name + ": not a list")
    rules, atoms = [], []
    for r in recs:
        if not (isinstance(r, dict) and set(r) == {"formula", "smiles", "Composition"} and isinstance(r["formula"], str)
                and isinstance(r["smiles"], str) and isinstance(r["Composition"], dict)
                and all(isinstance(k, str) and isinstance(v, int) and not isinstance(v, bool) for k, v in r["Composition"].items())):
            raise GenError("%s: record of unexpected shape: %r" % (name, r))
        a = _atoms_of(r["smiles"])
        if a is None:
            raise GenError("%s: SMILES of a record does not parse: %r" % (name, r))
        rules.append("{| rformula := %s; rsmiles := %s; rcomp := %s; rabsq := %s |}" % (cstr(r["formula"]), cstr(r["smiles"]), cdict(r["Composition"]), cz(a[2])))
        atoms.append(cpair(clist(a[0], cz), cz(a[1])))
    return ("Definition %s : list rule :=\n  [ %s ].\n" % (name, ";\n    ".join(rules)) +
            "(* oracle columns: atoms after AddHs and net charge of each record's SMILES, read from RDKit *)\n"
            "Definition %s_atoms : list (list Z * Z) :=\n  [ %s ].\n" % (name, ";\n    ".join(atoms)))


def gen_rules():
    import importlib.resources, synrbl.SynRuleImputer
    from synrbl.rule_based import RuleBasedMethod
    shipped = RuleBasedMethod("id", "reaction", "reaction").rules        # what the pipeline really loads
    with open(os.path.join(REPO, "Data", "Rules", "automated_rules.json.gz")) as f:
        auto = json.load(f)
    txt = HEADER % "synrbl/SynRuleImputer/rules_manager.json.gz (as loaded by RuleBasedMethod) and Data/Rules/automated_rules.json.gz"
    txt += "From SynRBL Require Import Base.Dict Model.Matcher.\nOpen Scope Z_scope.\n\n"
    txt += _rule_records("rules_manager", shipped) + "\n" + _rule_records("automated_rules", auto)
    return {"GenRules.v": txt}


def observe_ban():
    """The ban list RuleBasedMethod.run hands to RuleConstraint, observed by running it once."""
    import synrbl.rule_based as rb
    from synrbl.SynRuleImputer.synthetic_rule_constraint import RuleConstraint
    seen = {}
    orig = RuleConstraint.__init__

    def spy(self, list_dict, ban_atoms=None, ban_atoms_reactants=None):
        orig(self, list_dict, ban_atoms=ban_atoms, ban_atoms_reactants=ban_atoms_reactants)
        seen["ban"] = list(self.ban_atoms)
        seen["ban_raw"] = list(ban_atoms) if ban_atoms is not None else None
        seen["ban_reactants"] = list(self.ban_atoms_reactants)
    rb.RuleConstraint.__init__ = spy
    try:
        m = rb.RuleBasedMethod("id", "reaction", "reaction", n_jobs=1)
        m.run([{"id": "0", "reaction": "CCBr>>CCO", "carbon_balance_check": "balanced"}])
    finally:
        rb.RuleConstraint.__init__ = orig
    if "ban" not in seen or not all(isinstance(x, str) for x in seen["ban"]):
        raise GenError("ban list of the rule-based stage not observed")
    return seen


def gen_const():
    """Literals the models share with the source, observed at run time."""
    seen = observe_ban()
    from synrbl import Balancer
    from synrbl.mcs_search import MCSSearch
    b = Balancer(n_jobs=1)
    txt = HEADER % "synrbl/rule_based.py (ban list handed to RuleConstraint, after Chem.CanonSmiles), synrbl/balancing.py (columns)"
    txt += "Definition ban_atoms_canon : list string := %s.\n" % clist(seen["ban"], cstr)
    txt += "Definition ban_atoms_reactants : list string := %s.\n" % clist(seen["ban_reactants"], cstr)
    txt += "Definition balancer_columns : list string := %s.\n" % clist(b.columns, cstr)
    txt += "Definition mcs_condition_count : nat := %d.\n" % len(MCSSearch("id").conditions)
    return {"GenConst.v": txt}


def mol_graph(m):
    """labelled graph of an RDKit molecule as the matcher sees it: symbols, neighbour lists in RDKit order, bond types"""
    syms = [a.GetSymbol() for a in m.GetAtoms()]
    nb = [[n.GetIdx() for n in a.GetNeighbors()] for a in m.GetAtoms()]
    bonds = [(b.GetBeginAtomIdx(), b.GetEndAtomIdx(), int(b.GetBondType())) for b in m.GetBonds()]
    return "(mkgraph %s %s %s)" % (clist(syms, cstr), clist(nb, lambda l: clist(l, cnat)),
                                   clist(bonds, lambda t: "(%s, %s, %s)" % (cnat(t[0]), cnat(t[1]), cnat(t[2]))))


def gen_fg():
    from synrbl.SynUtils.functional_group_utils import functional_group_config, FGConfig
    if not isinstance(functional_group_config, dict) or not functional_group_config:
        raise GenError("functional_group_config: unexpected shape")
    txt = HEADER % "synrbl/SynUtils/functional_group_utils.py:functional_group_config (patterns, group sub-patterns, anti-patterns as RDKit parses them)"
    txt += "From SynRBL Require Import Model.FGMatch.\n\n"
    items = []
    for name, c in functional_group_config.items():
        if not (isinstance(name, str) and isinstance(c, FGConfig) and len(c.pattern) == len(c.groups) and len(c.pattern) >= 1):
            raise GenError("functional group %r: unexpected shape" % (name,))
        pats = clist(list(zip(c.pattern, c.groups)), lambda pg: cpair(mol_graph(pg[0]), mol_graph(pg[1])))
        anti = clist(list(c.anti_pattern), mol_graph)
        items.append("(%s, {| fg_patterns := %s; fg_anti := %s |})" % (cstr(name), pats, anti))
    txt += "Definition fg_configs : list (string * fgconfig) :=\n  [ %s ].\n" % ";\n    ".join(items)
    return {"GenFG.v": txt}


def mgraph(m):
    """a molecule as Model/Merge.mgraph: atom symbols and (begin, end, bond type) triples"""
    return "{| matoms := %s; mbonds := %s |}" % (
        clist([a.GetSymbol() for a in m.GetAtoms()], cstr),
        clist([(b.GetBeginAtomIdx(), b.GetEndAtomIdx(), int(b.GetBondType())) for b in m.GetBonds()],
              lambda t: "(%s, %s, %s)" % (cnat(t[0]), cnat(t[1]), cnat(t[2]))))


def gen_merge():
    from rdkit import Chem
    from synrbl.SynMCSImputer.rules import MergeRule, ExpandRule, CompoundRule, parse_bond_type
    mr, er, cr = MergeRule.get_all(), ExpandRule.get_all(), CompoundRule.get_all()
    if not (isinstance(mr, list) and isinstance(er, list) and mr and er):
        raise GenError("merge / expand rules: unexpected shape")
    txt = HEADER % "synrbl/SynMCSImputer/merge_rules.json, expand_rules.json, compound_rules.json (as loaded by MergeRule/ExpandRule/CompoundRule.get_all)"
    txt += "From SynRBL Require Import Model.Merge.\n\n"
    ms = []
    for r in mr:
        bt, nr = parse_bond_type(r.bond)
        if not isinstance(r.name, str):
            raise GenError("merge rule without a name")
        ms.append("{| mname := %s; mbond := %s |}" % (cstr(r.name), copt(None if bt is None else int(bt), cnat)))
    es = []
    for r in er:
        c = r.compound
        if not (isinstance(c, dict) and isinstance(c.get("smiles"), str) and isinstance(c.get("index"), int)):
            raise GenError("expand rule %r: compound of unexpected shape" % (r.name,))
        m = Chem.MolFromSmiles(c["smiles"])
        if m is None:
            raise GenError("expand rule %r: compound SMILES does not parse" % (r.name,))
        es.append("{| ename := %s; ecompound := %s; eindex := %s |}" % (cstr(r.name), mgraph(m), cnat(c["index"])))
    txt += "Definition merge_rules : list mrule :=\n  [ %s ].\n" % ";\n    ".join(ms)
    txt += "Definition expand_rules : list erule :=\n  [ %s ].\n" % ";\n    ".join(es)
    txt += "Definition compound_rule_names : list string := %s.\n" % clist([r.name for r in cr], cstr)
    return {"GenMerge.v": txt}


GENERATORS = [gen_symbols, gen_rules, gen_const, gen_fg, gen_merge]


def generate():
    """Returns (changed_files, errors)."""
    changed, errors = [], []
    os.makedirs(os.path.join(COQ, "Gen"), exist_ok=True)
    for g in GENERATORS:
        try:
            for fn, txt in g().items():
                if write_if_changed(os.path.join(COQ, "Gen", fn), txt):
                    changed.append(fn)
        except Exception as e:  # fail closed: reported as a broken correspondence
            errors.append("%s: %s: %s" % (g.__name__, type(e).__name__, e))
    return changed, errors


if __name__ == "__main__":
    ensure_env()
    print(generate())
