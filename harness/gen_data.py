"""Translator /repo runtime objects -> coq/Gen/*.v (fail-closed, write-if-changed).
Imports the modules from the working tree and prints the *objects* as Gallina literals, so a
reformatting of the source does not matter but any change of content re-checks the theorems."""
import os, json
from common import *

HEADER = "(* GENERATED from %s by harness/gen_data.py on every run -- do not edit *)\n" \
         "From Coq Require Import String ZArith List.\nImport ListNotations.\nOpen Scope string_scope.\n\n"


class GenError(Exception):
    pass


def gen_symbols():
    from synrbl.SynProcessor.rsmi_decomposer import RSMIDecomposer
    tbl = RSMIDecomposer.atomic_symbols
    if not isinstance(tbl, dict) or not all(isinstance(k, int) and not isinstance(k, bool) and isinstance(v, str) for k, v in tbl.items()):
        raise GenError("atomic_symbols: unexpected shape")
    txt = HEADER % "synrbl/SynProcessor/rsmi_decomposer.py:RSMIDecomposer.atomic_symbols"
    txt += "Definition atomic_symbols : list (Z * string) :=\n  " + \
        clist(tbl.items(), lambda kv: cpair(cz(kv[0]), cstr(kv[1]))) + ".\n"
    # oracle table: what atom.GetSymbol() (the source's fallback) answers for every atomic number
    from rdkit import Chem
    pt = Chem.GetPeriodicTable()
    fb = [(0, Chem.MolFromSmiles("*").GetAtomWithIdx(0).GetSymbol())] + [(z, pt.GetElementSymbol(z)) for z in range(1, 119)]
    txt += "Definition rdkit_symbols : list (Z * string) :=\n  " + \
        clist(fb, lambda kv: cpair(cz(kv[0]), cstr(kv[1]))) + ".\n"
    return {"GenSymbols.v": txt}


GENERATORS = [gen_symbols]


def generate():
    """Returns (changed_files, errors)."""
    changed, errors = [], []
    os.makedirs(os.path.join(COQ, "Gen"), exist_ok=True)
    for g in GENERATORS:
        try:
            for fn, txt in g().items():
                if write_if_changed(os.path.join(COQ, "Gen", fn), txt):
                    changed.append(fn)
        except Exception as e:  # fail closed: reported as a broken correspondence
            errors.append("%s: %s: %s" % (g.__name__, type(e).__name__, e))
    return changed, errors


if __name__ == "__main__":
    ensure_env()
    print(generate())
