#!/venv/bin/python
"""seed_keep.py <Cnn> <k> <needs-to-manifest> <detected-by (comma list of 'Cnn:how')> [<strengthened>]
Files a confirmed seeded change under /verif/seeded/<Cnn>-<k>/ (patch.diff, demo.py, notes.md, meta.json)."""
import sys, os, json, shutil
pid, k, needs, detected = sys.argv[1:5]
strengthened = sys.argv[5] if len(sys.argv) > 5 else ""
src = "/tmp/seed_out/%s" % pid
dst = "/verif/seeded/%s-%s" % (pid, k)
os.makedirs(dst, exist_ok=True)
shutil.copy(os.path.join(src, "patch%s.diff" % k), os.path.join(dst, "patch.diff"))
shutil.copy(os.path.join(src, "demo%s.py" % k), os.path.join(dst, "demo.py"))
if os.path.exists(os.path.join(src, "notes%s.md" % k)):
    shutil.copy(os.path.join(src, "notes%s.md" % k), os.path.join(dst, "notes.md"))
ver = json.load(open(os.path.join(src, "verify%s.json" % k)))
meta = {
    "property": pid,
    "breaks": "see notes.md",
    "needs_to_manifest": needs,
    "origin": "written by an independent sub-agent that saw only the property text and a scratch worktree",
    "confirmed_in_scratch_worktree": {
        "commands": ["harness/seed_verify.sh <worktree> patch.diff demo.py out.json   (demo without patch, git apply, demo with patch, repository test suite with the 3 pre-existing failures deselected)"],
        "result": ver},
    "checks_run_against_it": {"how": "harness/seed_run.sh patch.diff <Cnn...>  (git -C /repo apply; quick checks; git -C /repo checkout -- .)",
                              "detected_by": [d.strip() for d in detected.split(",") if d.strip()]},
    "strengthening_needed": strengthened,
}
json.dump(meta, open(os.path.join(dst, "meta.json"), "w"), indent=1)
print("kept", dst)
