"""PRNG-driven structured generators of reaction SMILES (mostly valid; a separate malformed stream).
Every choice comes from the rng handed in, so cases replay from (seed, tier)."""
import corpus

SMALL = ["O", "Cl", "Br", "I", "[Na+]", "[Cl-]", "[Br-]", "OO", "[H][H]", "N", "O=O", "[OH-]", "[H+]", "[K+]", "N#N", "ClCl",
         "[NH4+]", "O=S(Cl)Cl", "B(O)(O)O", "[Li+]", "[I-]", "F", "S", "[Na]", "[H-]", "[K]", "[Li]"]
HAND = [
    # a ring-closure bond written across the '.' separator (valid SMILES): the per-molecule carbon counter and the whole-side formula disagree
    "CC(=O)OCC.O>>C1(=O)O.C1", "C1.C1O>>CCO", "CC(=O)OCC.O>>C1(=O)O.C1.CCO", "C1.C1Br.O>>CCO",
    "CCBr.O>>CCO", "CC(=O)OC.O>>CC(=O)O", "CC(O)C>>CC(=O)C", "CC(=O)C>>CC(O)C", "CCBr.[Na+]>>CCO", "CC>>CCC", "CCC>>CC",
    "[U]>>[Th]", "F[U](F)(F)(F)(F)F>>[U]", "CCBr.OO.O>>CCO.OO", "CCBr.O.OOCC>>CCO.OOCC", "CCBr.O.C>>CCO.OOC",
    "CC(=O)O.[Na+].[OH-]>>CC(=O)[O-].[Na+]", "CC(=O)Cl.CN>>CC(=O)NC", "c1ccccc1Br.OB(O)c1ccccc1>>c1ccccc1-c1ccccc1",
    "CCO.[O]>>CC=O", "CC=O>>CC(=O)O", "CC(=O)O>>CC=O", "CCO>>CC(=O)O", "CC(=O)OCC>>CCO", "OCC(O)C>>OCC(=O)C",
    "[H][H].CC=C>>CCC", "CC=C>>CCC", "C=C.[H][H]>>CC", "CCN.CC(=O)O>>CCNC(C)=O", "C[N+](C)(C)C.[Cl-]>>CN(C)C",
    "CC(=O)[O-].[Na+].Cl>>CC(=O)O", "O=[N+]([O-])c1ccccc1>>Nc1ccccc1", "Nc1ccccc1>>O=[N+]([O-])c1ccccc1",
    "CS(=O)(=O)Cl.OCC>>CS(=O)(=O)OCC", "CCOC(=O)C>>CC(=O)O.CCO", "CC#N.O>>CC(N)=O", "OO>>O", "O>>OO", "[Na+].[Cl-]>>[Na+]",
    "CC(C)=O.[BH4-]>>CC(C)O", "C1CCCCC1=O>>C1CCCCC1O", "OC1CCCCC1>>O=C1CCCCC1", "CC[O-].[Na+]>>CCO", "CCO.[Na]>>CC[O-].[Na+]",
    "CCO.[K]>>CC[O-].[K+]", "CC>>O", "CCCCCC>>P", "c1ccccc1>>N", "OCCO>>ClCCCl", "CCO.O>>CCCC", "OCCO.O>>BrCCBr", "OC(O)CO>>ClCC(Cl)Cl",
    "C=CC.[2H][2H]>>[2H]CC([2H])C", "[2H]C([2H])([2H])O.CC(=O)Cl>>[2H]C([2H])([2H])OC(C)=O", "CC(=O)C.[2H][2H]>>CC(O)C", "[2H]O[2H].CCBr>>CCO[2H]",
    "[13CH3]Br.O>>[13CH3]O", "CC(=O)OC.[18OH2]>>CC(=O)[18OH]", "C[C@H](Br)CC.O>>C[C@@H](O)CC", "F/C=C/F.[H][H]>>FCCF", "CC(=O)C.[H-]>>CC(C)[O-]", "CC=O.[Li]>>CC[O-].[Li+]", ">>", "CC>>", ">>CC", "C.C>>CC", "CC>>C.C",
]


def mutate_curated(rng, n):
    """drop / insert small molecules on a curated balanced reaction (stripped of maps)."""
    cur = corpus.curated()
    out = []
    for _ in range(n):
        r = corpus.strip_maps  # noqa (keeps import used)
        rx = rng.choice(cur)
        if rx.count(">>") != 1:
            continue
        l, p = rx.split(">>")
        ls, ps = l.split("."), p.split(".")
        k = rng.random()
        if k < 0.35 and len(ps) > 1:
            ps.pop(rng.randrange(len(ps)))
        elif k < 0.55 and len(ls) > 1:
            ls.pop(rng.randrange(len(ls)))
        elif k < 0.75:
            ps.append(rng.choice(SMALL))
        elif k < 0.9:
            ls.append(rng.choice(SMALL))
        else:
            ls.append(rng.choice(SMALL)); ps.append(rng.choice(SMALL))
        if rng.random() < 0.3:
            rng.shuffle(ls); rng.shuffle(ps)
        out.append(".".join(ls) + ">>" + ".".join(ps))
    return out


def small_world(rng, n):
    """reactions among small molecules only: cheap rows that exercise classification, water step,
    solver, constraint markers and the final validation without the MCS cost dominating"""
    pool = ["CCO", "CC=O", "CC(=O)O", "CCBr", "CCCl", "CCN", "CC(=O)OC", "CO", "C=C", "CC", "CC(C)=O", "CC(C)O", "c1ccccc1", "Oc1ccccc1",
            "CC(=O)[O-]", "CC[O-]", "C[NH3+]", "CC(=O)Cl", "CCOC", "CC#N", "CS", "CSC", "COO", "OOC", "CC(=O)OO"] + SMALL
    out = []
    for _ in range(n):
        ls = [rng.choice(pool) for _ in range(rng.randint(1, 3))]
        ps = [rng.choice(pool) for _ in range(rng.randint(1, 3))]
        out.append(".".join(ls) + ">>" + ".".join(ps))
    return out


MALFORMED = ["C", "", "XX>>C", "C>>XX", "C>>C>>C", "CCO>CC>CCO", "C1CC>>CC", ">", "CC>C", "c1ccccc>>CC", "[Xx]>>C", "C>>", ">>C"]


def generated(rng, n_mut, n_small):
    return HAND + mutate_curated(rng, n_mut) + small_world(rng, n_small)
