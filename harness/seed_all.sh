#!/bin/bash
# seed_all.sh [<repo>]: regression over every kept seeded change: apply it to <repo> (default: $SYNRBL_REPO or /repo), run the quick
# check of its property, revert.  Prints one line per seed: CAUGHT (exit 1 + VIOLATION) or MISSED.  Exit 1 if any seed is missed
# (seeds whose meta.json carries "status_after_repair" are expected to be harmless and are reported as such).
REPO=${1:-${SYNRBL_REPO:-/repo}}
export SYNRBL_REPO=$REPO
cd "$(dirname "$0")/.." || exit 2
[ -z "$(git -C "$REPO" status --porcelain)" ] || { echo "$REPO not clean"; exit 2; }
missed=0
for d in seeded/C*-*/; do
  s=$(basename "$d"); P=${s%%-*}
  git -C "$REPO" apply "$PWD/$d/patch.diff" || { echo "$s DOES-NOT-APPLY"; missed=1; continue; }
  timeout 3000 ./harness/check.py $P --tier quick > work/_seedall_$s.log 2>&1; RC=$?
  git -C "$REPO" checkout -q -- . ; git -C "$REPO" clean -fdq
  if [ $RC -eq 1 ] && grep -q "^VIOLATION property=$P" work/_seedall_$s.log; then
    echo "$s CAUGHT $(grep -c '^VIOLATION' work/_seedall_$s.log) $(grep '^VIOLATION' work/_seedall_$s.log | grep -c no-failing-input-found | sed 's/^/no-input:/')"
  elif grep -q status_after_repair "$d/meta.json"; then
    echo "$s HARMLESS-AFTER-REPAIR (exit $RC)"
  else
    echo "$s MISSED (exit $RC)"; missed=1
  fi
done
exit $missed
