"""setup: translator + forbidden-vernacular gate + full make of the Coq development."""
import sys, os
sys.path.insert(0, os.path.dirname(os.path.abspath(__file__)))
from common import *
ensure_env()
import gen_data
with coq_lock():
    changed, errors = gen_data.generate()
    print("generated:", changed, "errors:", errors)
    bad = forbidden_gate()
    if bad:
        print("FORBIDDEN vernacular:", bad)
        sys.exit(2)
    ok, log, failing = make()
    print(log[-2000:])
    if not ok:
        # a failing proof is reported by the checks themselves (it may be a violation); setup only builds
        print("make failed at", failing)
        sys.exit(0 if errors == [] else 2)
print("setup ok")
