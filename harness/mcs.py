"""MCS-stage engine shared by C10 and C11: runs the real Balancer (n_jobs=1) with observers around the
search jobs (single_mcs_safe), the selection and the fragment-analysis jobs, optionally injecting faults at
the realistic points (inside MCSMissingGraphAnalyzer.fit and FindMissingGraphs.find_missing_parts_pairs),
and renders the observed job outcomes as a case for Model/McsSelect.find."""
import copy, time, json, math
from common import *

COND_SIG = [("MCIS", True), ("MCIS", False), ("MCES", None)]


def cond_index(kw):
    m = kw.get("method", "MCES")
    if m == "MCES":
        return 2
    return 0 if kw.get("RingMatchesRingOnly", True) else 1


def run_with_plan(inputs, plan=None, grace=0.0, workers=1, batch_size=None):
    """plan: {"search": {"<input index>:<cond>": "raise"|"timeout"|"uncertain"|"inner"|"hold:<seconds>"}, "graph": {"<input index>": "raise"|"timeout"}}
    (input index = position among the batch's inputs; "hold" keeps a finished search job back, so that with workers > 1 -- joblib's
    threading backend, observers stay in-process -- the jobs of a condition complete in a chosen order).  Returns a JSON-able record."""
    import logging, warnings
    logging.disable(logging.CRITICAL); warnings.filterwarnings("ignore")
    from rdkit import RDLogger, Chem
    RDLogger.DisableLog("rdApp.*")
    import synrbl.SynMCSImputer.SubStructure.mcs_process as mp
    from synrbl.SynMCSImputer.SubStructure.mcs_graph_detector import MCSMissingGraphAnalyzer as An
    from synrbl.SynMCSImputer.MissingGraph.find_missing_graphs import FindMissingGraphs as FG
    from synrbl.mcs_search import MCSSearch
    import pipe
    plan = plan or {}
    sp, gp = plan.get("search", {}), plan.get("graph", {})
    jobs, glog, snap, undo = {}, [], {}, []
    state = {"rows": None, "id2pos": {}, "offset": 0}

    def patch(obj, name, new):
        undo.append((obj, name, obj.__dict__[name] if isinstance(obj, type) else getattr(obj, name)))
        setattr(obj, name, new)
    o_fit = An.fit

    def fit(reaction_dict, **kw):
        pos = state["id2pos"].get(reaction_dict.get("id"))
        act = sp.get("%s:%d" % (pos, cond_index(kw)))
        if act == "raise":
            raise RuntimeError("injected fault")
        if act == "timeout":
            time.sleep(5.0)    # well past the 2 s thread wait: the worker thread keeps running while later jobs are served
        if act == "inner":
            # a fault INSIDE the per-reactant loop of the search (the substructure lookup raises): the loop swallows it and leaves
            # an unusable entry in its result list, which the caller has to contain
            state["inner"] = True
            try:
                return o_fit(reaction_dict, **kw)
            finally:
                state["inner"] = False
        r = o_fit(reaction_dict, **kw)
        if act == "uncertain":
            return r[0], r[1], list(r[2]) + [None], r[3]
        return r
    patch(An, "fit", staticmethod(fit))
    import synrbl.SynMCSImputer.SubStructure.mcs_graph_detector as mgd
    o_ios = mgd.SubstructureAnalyzer.identify_optimal_substructure

    def ios(self_, *a, **kw):
        if state.get("inner"):
            state["inner_hits"] = state.get("inner_hits", 0) + 1
            raise RuntimeError("injected fault in the substructure lookup")
        return o_ios(self_, *a, **kw)
    patch(mgd.SubstructureAnalyzer, "identify_optimal_substructure", ios)
    o_safe = mp.single_mcs_safe

    def safe(data_dict, **kw):
        r = o_safe(data_dict, **kw)
        pos = state["id2pos"].get(data_dict.get("id"))
        act = sp.get("%s:%d" % (pos, cond_index(kw))) or ""
        if act.startswith("hold:"):
            time.sleep(float(act[5:]))
        jobs["%s:%d" % (pos, cond_index(kw))] = {"id": r.get("id"), "mcs_results": list(r.get("mcs_results", [])),
                                                  "sorted_reactants": list(r.get("sorted_reactants", [])), "issue": r.get("issue")}
        return r
    patch(mp, "single_mcs_safe", safe)
    o_fg = FG.find_missing_parts_pairs

    def fg(mol_list, mcs_list=None, *a, **kw):
        key = ".".join(Chem.MolToSmiles(m) for m in mol_list)
        pos = None
        for p, s in snap.get("_sorted", {}).items():
            if s == key:
                pos = p
        act = gp.get(str(pos))
        glog.append({"pos": pos, "act": act})
        if act == "raise":
            raise RuntimeError("injected fault")
        if act == "timeout":
            time.sleep(8.0)    # well past the 2 s thread wait, and long enough that two overlapping hangs still occupy their worker
                               # threads when the job after them is submitted and for more than its own 2 s wait
        if act == "timeout+raise":
            time.sleep(3.0)    # the wait expires AND the analysis fails: both kinds of fault on one job
            raise RuntimeError("injected fault after the wait expired")
        if act == "slow+raise-always":
            # the analysis of this reaction fails whenever it is tried (also when a time-out handler tries again), and is slow the first time
            if not state.get("slow_done_%s" % pos):
                state["slow_done_%s" % pos] = True
                time.sleep(3.0)
            raise RuntimeError("injected fault (every attempt)")
        return o_fg(mol_list, mcs_list, *a, **kw)
    patch(FG, "find_missing_parts_pairs", staticmethod(fg))
    o_find = MCSSearch.find

    def find(self_, reactions):
        # positions count through the batches of one run (batch_size): batch k starts at the number of rows of the batches before it
        state["id2pos"] = {r["id"]: state["offset"] + i for i, r in enumerate(reactions)}
        state["next_offset"] = state["offset"] + len(reactions)
        state["solved_before"] = [bool(r["solved"]) for r in reactions]
        import synrbl.mcs_search as ms
        o_glc = ms.ExtractMCS.get_largest_condition

        def glc(*conds):
            res = o_glc(*conds)
            snap["_sorted"] = {state["id2pos"].get(d["id"]): ".".join(d.get("sorted_reactants", [])) for d in res}
            snap["_selected"] = [{"pos": state["id2pos"].get(d["id"]), "mcs_results": list(d["mcs_results"])} for d in res]
            return res
        ms.ExtractMCS.get_largest_condition = staticmethod(glc)
        try:
            out = o_find(self_, reactions)
        finally:
            ms.ExtractMCS.get_largest_condition = staticmethod(o_glc)
        snap["after_find"] = [{"solved": bool(r["solved"]), "has_key": "mcs" in r, "none": r.get("mcs") is None, "issue": r.get("issue"),
                               "mcs_results": list(r["mcs"]["mcs_results"]) if r.get("mcs") else None,
                               "sorted_reactants": list(r["mcs"]["sorted_reactants"]) if r.get("mcs") else None,
                               "mcs_id": r["mcs"].get("id") if r.get("mcs") else None, "id": r.get("id"),
                               "carbon": r.get("carbon_balance_check"), "reaction": r.get("reaction"),
                               "side_keys": [r.get("reactants") if isinstance(r.get("reactants"), str) else None, r.get("products") if isinstance(r.get("products"), str) else None]} for r in reactions]
        state["rows"] = reactions
        state["offset"] = state["next_offset"]
        return out
    patch(MCSSearch, "find", find)
    st = {}
    t0 = time.time()
    try:
        if workers > 1:
            import joblib
            from synrbl import Balancer
            with joblib.parallel_backend("threading", n_jobs=workers):
                rows = Balancer(n_jobs=workers).rebalance(list(inputs), output_dict=True, stats=st)
        elif batch_size is not None:
            from synrbl import Balancer
            rows = Balancer(n_jobs=1, batch_size=batch_size).rebalance(list(inputs), output_dict=True, stats=st)
        else:
            rows = pipe.balancer(0).rebalance(list(inputs), output_dict=True, stats=st)
        err = None
    except Exception as e:
        rows, err = None, "%s: %s" % (type(e).__name__, e)
    finally:
        for obj, name, old in reversed(undo):
            setattr(obj, name, old)
    out = []
    for r in rows or []:
        c = r.get("confidence")
        out.append({"input_reaction": r.get("input_reaction"), "reaction": r.get("reaction"), "solved": bool(r.get("solved")),
                    "solved_by": r.get("solved_by") if isinstance(r.get("solved_by"), str) else None,
                    "issue": r.get("issue") if isinstance(r.get("issue"), str) else None,
                    "rules": list(r["rules"]) if isinstance(r.get("rules"), list) else None,
                    "confidence": None if c is None or (isinstance(c, float) and math.isnan(c)) else float(c)})
    late = None
    if grace:
        # a worker thread that outlived its time-out must not change a record that was already returned
        before = json.dumps(out, sort_keys=True)
        time.sleep(grace)
        again = []
        for r in rows or []:
            again.append({"reaction": r.get("reaction"), "issue": r.get("issue") if isinstance(r.get("issue"), str) else None, "solved": bool(r.get("solved"))})
        late = [a for a, b in zip(again, out) if (a["reaction"], a["issue"], a["solved"]) != (b["reaction"], b["issue"], b["solved"])]
    return {"inputs": list(inputs), "plan": plan, "workers": workers, "inner_hits": state.get("inner_hits", 0), "rows": out, "stats": st, "jobs": jobs, "graph_jobs": glog, "after_find": snap.get("after_find"),
            "selected": snap.get("_selected"), "solved_before": state.get("solved_before"), "error": err, "late_changes": late, "wall": time.time() - t0}


def run_many(items, procs=None):
    """items: list of (inputs, plan, grace[, workers[, batch_size]])"""
    procs = procs or min(NPROC - 2, 12)
    if len(items) <= 1:
        return [run_with_plan(*it) for it in items]
    import multiprocessing as mp
    import pipe
    ctx = mp.get_context("spawn")
    # one fresh interpreter per item: whatever a run leaves behind in module state (memo tables, pools) cannot help or hide the next
    with ctx.Pool(min(procs, len(items)), initializer=pipe._worker_init, maxtasksperchild=1) as pool:
        return pool.starmap(run_with_plan, items, chunksize=1)


def natoms(smarts):
    from rdkit import Chem
    try:
        m = Chem.MolFromSmarts(smarts)
        return m.GetNumAtoms() if m is not None else 0
    except Exception:
        return 0


HDR = ("From Coq Require Import String List Bool Arith.\nFrom SynRBL Require Import Model.McsSelect.\nImport ListNotations.\nOpen Scope string_scope.\n")
DEFS = """
Fixpoint lookj (l : list (nat * nat * job)) (id c : nat) : job :=
  match l with [] => JFailed "JOB-MISSING" | (i, k, j) :: t => if Nat.eqb id i && Nat.eqb c k then j else lookj t id c end.
Definition obs (r : srow) : option (option (nat * nat)) * option string :=
  (option_map (option_map (fun d => (mcond d, total d))) (smcs r), sissue r).
Definition oeq (a b : option (option (nat * nat)) * option string) : bool :=
  (match fst a, fst b with
   | None, None => true | Some None, Some None => true
   | Some (Some (x, y)), Some (Some (u, v)) => Nat.eqb x u && Nat.eqb y v
   | _, _ => false end) &&
  (match snd a, snd b with None, None => true | Some s, Some t => String.eqb s t | _, _ => false end).
Fixpoint leq (a b : list (option (option (nat * nat)) * option string)) : bool :=
  match a, b with [], [] => true | x :: a', y :: b' => oeq x y && leq a' b' | _, _ => false end.
Definition fcase (jobs : list (nat * nat * job)) (rows : list (nat * bool)) (e : list (option (option (nat * nat)) * option string)) : bool :=
  leq (map obs (find 3 (lookj jobs) (map (fun p => {| sid := fst p; ssolved := snd p; smcs := None; sissue := None |}) rows))) e.
"""


def coq_find_case(rec):
    """Gallina bool: Model/McsSelect.find reproduces, from the observed job outcomes, which condition's data (and issue) each row got."""
    jobs = []
    for k, j in sorted(rec["jobs"].items()):
        pos, c = k.split(":")
        iss = j["issue"] or ""
        if iss == "":
            jj = "(JOk %s %s)" % (clist([natoms(s) for s in j["mcs_results"]], cnat), cnat(len(j["sorted_reactants"])))
        elif iss == "Uncertian MCS.":
            jj = "JUncertain"
        elif iss == "MCS search terminated by timeout.":
            jj = "JTimeout"
        elif iss.startswith("MCS identification failed. "):
            jj = "(JFailed %s)" % cstr(iss[len("MCS identification failed. "):])
        else:
            raise ValueError("unknown job issue %r" % iss)
        jobs.append("(%s, %s, %s)" % (cnat(int(pos)), cnat(int(c)), jj))
    rows = clist(list(enumerate(rec["solved_before"])), lambda p: cpair(cnat(p[0]), cbool(p[1])))
    exp = []
    for pos, a in enumerate(rec["after_find"]):
        if rec["solved_before"][pos]:
            exp.append("(None, None)")
            continue
        if a["none"]:
            m = "(Some None)"
        else:
            # which condition's record was attached: identified by its pattern list
            tot = sum(natoms(s) for s in a["mcs_results"])
            cands = [int(k.split(":")[1]) for k, j in rec["jobs"].items() if int(k.split(":")[0]) == pos and j["mcs_results"] == a["mcs_results"] and (j["issue"] or "") == ""]
            if not cands:
                raise ValueError("attached data is none of the row's own job results")
            m = None
            exp_c = cands
            m = "(Some (Some (%s, %s)))" % ("COND", cnat(tot))
            a["_cands"] = cands
        exp.append((m, a))
    # several conditions may have returned identical pattern lists: accept the model's choice if it is one of them
    outs = []
    alts = [[]]
    for e in exp:
        if isinstance(e, str):
            alts = [x + [e] for x in alts]
        else:
            m, a = e
            iss = copt(a["issue"], cstr)
            if a["none"]:
                alts = [x + ["(%s, %s)" % (m, iss)] for x in alts]
            else:
                alts = [x + ["(%s, %s)" % (m.replace("COND", cnat(c)), iss)] for x in alts for c in sorted(set(a["_cands"]))][:16]
    return "(" + " || ".join("fcase %s %s %s" % (clist(jobs), rows, clist(x)) for x in alts) + ")"
