"""Configuration matrix shared by the row-level properties (C01 C02 C03 C04 C15 C18): ONE compact, mixed list of reactions is
sent through the public API in every way a user can hand it over -- plain strings, batches, worker threads, dict rows that
carry further columns and their own ids, Dataset(json/csv), a cold / warm / permuted / re-thresholded cache, one Balancer
object called again, result rows fed in again, the CLI -- and every run is returned as (config, given reactions, public rows,
statistics).  Each property applies its own RDKit-only row oracle to every run: the statements quantify over configurations,
and most realistic regressions need a particular one to show."""
import os, json, copy, csv, io, math, tempfile, shutil, contextlib
from common import *
import pipe

MIX = [
    "CC(=O)O.CCO>>CC(=O)OCC.O",                       # balanced
    "[Na+].[Cl-].CC(=O)O>>CC(=O)O.[Cl-].[Na+]",       # balanced, ions, other order
    "CC(=O)Cl.CN>>CC(=O)NC",                          # rule-based (HCl)
    "CC(=O)C>>CC(O)C",                                # rule-based reduction, reagent template
    "CCO>>CC=O",                                      # oxidation
    "CC(=O)OCC>>CC(=O)O",                             # MCS + second rule-based pass
    "CCCOC(=O)C>>OC(=O)C",                            # MCS
    "COc1ccccc1>>Oc1ccccc1",                          # MCS (CI), then HI
    "CC>>CCCO",                                       # stays open (carbon deficit)
    "CCO>>CCS",                                       # no solution
    "[CH3:1][CH2:2]Br.[OH2:3]>>[CH3:1][CH2:2][OH:3]",  # atom-mapped, rule-based
    "[2H]C([2H])([2H])C(=O)Cl.CN>>[2H]C([2H])([2H])C(=O)NC",   # isotope labels
    "C[Sn](C)(C)C.CC(=O)Cl>>C[Sn](C)(C)C.CC(=O)Cl",    # two-letter element, balanced
    "CC[C@H](C)C(C)=O>>CC[C@H](C)C(C)O",              # stereo twin 1
    "CC[C@@H](C)C(C)=O>>CC[C@@H](C)C(C)O",            # stereo twin 2
    "CC(=O)Cl.CN>>CC(=O)NC",                          # exact repetition of row 2
    "CC(=O)O>>CC(=O)NC",                              # two-sided imbalance with surplus O on the reactant side: declined
    "CCO.O>>CC(=O)O",                                 # primary alcohol -> acid (KMnO4 template that does not balance: restore stage)
    "CCCCO.O.O>>CCCC(=O)O",
    "[Np]>>[Nb]",                                     # look-alike symbols of different elements: never balanced
    "[CH3:1][C:2](=[O:3])[Cl:4].[CH3:5][NH2:6]>>[CH3:1][C:2](=[O:3])[NH:6][CH3:5]",   # the atom-mapped spelling of row 2
]
PUBLIC = ("input_reaction", "reaction", "solved", "solved_by", "issue", "rules", "confidence")


def pub(rows):
    out = []
    for r in rows or []:
        c = r.get("confidence")
        s = r.get("solved")
        out.append({"input_reaction": r.get("input_reaction"), "reaction": r.get("reaction"), "solved": (s is True) or (s == 1 and s is not None and not isinstance(s, float)) or s is True,
                    "solved_raw": None if isinstance(s, bool) else repr(s),
                    "solved_by": r.get("solved_by") if isinstance(r.get("solved_by"), str) else None,
                    "issue": r.get("issue") if isinstance(r.get("issue"), str) else None,
                    "rules": list(r["rules"]) if isinstance(r.get("rules"), list) else None,
                    "confidence": None if c is None or (isinstance(c, float) and math.isnan(c)) else float(c)})
    return out


def _run(cfg, given, make_input, **bal_kw):
    from synrbl import Balancer
    st = {}
    try:
        threads = bal_kw.pop("_threads", 0)
        b = bal_kw.pop("_balancer", None) or Balancer(**dict({"n_jobs": 1}, **bal_kw))
        if threads:
            import joblib
            with joblib.parallel_backend("threading", n_jobs=threads):
                rows = b.rebalance(make_input(), output_dict=True, stats=st)
        else:
            rows = b.rebalance(make_input(), output_dict=True, stats=st)
        return {"config": cfg, "given": list(given), "rows": pub(rows), "raw_keys": sorted({k for r in rows for k in r}) if rows else [], "stats": st, "error": None,
                "t": getattr(b, "confidence_threshold", 0)}
    except Exception as e:
        return {"config": cfg, "given": list(given), "rows": [], "raw_keys": [], "stats": st, "error": "%s: %s" % (type(e).__name__, str(e)[:200]), "t": bal_kw.get("confidence_threshold", 0)}


def compute():
    import logging, warnings
    logging.disable(logging.CRITICAL); warnings.filterwarnings("ignore")
    from rdkit import RDLogger
    RDLogger.DisableLog("rdApp.*")
    from synrbl import Balancer
    from synrbl.SynUtils.batching import Dataset
    runs = []
    M = list(MIX)
    runs.append(_run("list of strings", M, lambda: list(M)))
    runs.append(_run("batch_size=4", M, lambda: list(M), batch_size=4))
    runs.append(_run("batch_size=1", M, lambda: list(M), batch_size=1))
    runs.append(_run("3 worker threads, batch_size=7", M, lambda: list(M), n_jobs=3, batch_size=7, _threads=3))
    runs.append(_run("2 worker processes", M, lambda: list(M), n_jobs=2))
    runs.append(_run("threshold 0.5", M, lambda: list(M), confidence_threshold=0.5))
    # (further columns under names of their own; what should happen to user columns NAMED like output columns is not defined by any property)
    drows = [{"id": i + 1, "reaction": s, "note": "n%d" % i, "source": "file", "yield": 0.5} for i, s in enumerate(M)]
    runs.append(_run("dict rows with 1-based ids and further columns", M, lambda: copy.deepcopy(drows)))
    rev = list(reversed(M))
    runs.append(_run("dict rows, ids descending", rev, lambda: [{"id": len(rev) - i, "reaction": s} for i, s in enumerate(rev)], batch_size=5))
    tmp = tempfile.mkdtemp(prefix="synrbl_matrix_")
    try:
        jp, cp = os.path.join(tmp, "in.json"), os.path.join(tmp, "in.csv")
        with open(jp, "w") as f:
            json.dump([{"reaction": s, "tag": "t%d" % i} for i, s in enumerate(M)], f)
        with open(cp, "w", newline="") as f:
            w = csv.writer(f); w.writerow(["reaction", "tag"]); [w.writerow([s, "t%d" % i]) for i, s in enumerate(M)]
        runs.append(_run("Dataset(json)", M, lambda: Dataset(jp), batch_size=6))
        runs.append(_run("Dataset(csv)", M, lambda: Dataset(cp)))
        # cache: cold, warm, permuted, other threshold, other batch size -- one directory
        cdir = os.path.join(tmp, "cache")
        perm = [M[(3 * i + 5) % len(M)] for i in range(len(M))] if len(set((3 * i + 5) % len(M) for i in range(len(M)))) == len(M) else list(reversed(M))
        for cfg, given, kw in (("cache cold, batch_size=8", M, {}), ("cache warm, same rows", M, {}), ("cache warm, rows permuted", perm, {}),
                               ("cache warm, threshold 0.5", M, {"confidence_threshold": 0.5}), ("cache warm, threshold back to 0", M, {})):
            runs.append(_run(cfg, given, lambda given=given: list(given), cache=True, cache_dir=cdir, batch_size=8, **kw))
        # a second cache directory filled at a HIGH threshold first, then read at lower ones
        cdir2 = os.path.join(tmp, "cache2")
        for cfg, t in (("cache2 cold, threshold 0.9", 0.9), ("cache2 warm, threshold 0.2", 0.2), ("cache2 warm, threshold 0", 0), ("cache2 warm, threshold 1", 1)):
            runs.append(_run(cfg, M, lambda: list(M), cache=True, cache_dir=cdir2, batch_size=8, confidence_threshold=t))
        # one Balancer object called three times (second call: other rows; third: the first rows again)
        b = Balancer(n_jobs=1, batch_size=6)
        runs.append(_run("one Balancer object, call 1", M, lambda: list(M), _balancer=b))
        runs.append(_run("one Balancer object, call 2 (rows reversed)", rev, lambda: list(rev), _balancer=b))
        runs.append(_run("one Balancer object, call 3 (first rows again)", M, lambda: list(M), _balancer=b))
        # result rows fed in again (their reaction is what the first run returned)
        first = Balancer(n_jobs=1).rebalance(list(M), output_dict=True)
        fed = [dict(r) for r in first]
        runs.append(_run("result rows of an earlier run fed in again", [r["reaction"] for r in fed], lambda: copy.deepcopy(fed)))
        # the CLI (in-process), two consecutive runs
        from synrbl.SynCmd.cmd_run import impute
        for k, (lst, bs) in enumerate(((M, None), (rev, 5))):
            src, out = os.path.join(tmp, "cli%d.csv" % k), os.path.join(tmp, "cli%d_out.csv" % k)
            with open(src, "w", newline="") as f:
                w = csv.writer(f); w.writerow(["reaction", "tag"]); [w.writerow([s, "t%d" % i]) for i, s in enumerate(lst)]
            try:
                with contextlib.redirect_stdout(io.StringIO()):
                    impute(src, out, "reaction", ["tag"], 0, n_jobs=1, batch_size=bs)
                with open(out, newline="") as f:
                    got = list(csv.DictReader(f))
                with open(out + ".stats") as f:
                    st = json.load(f)
                rows = []
                for g in got:
                    c = g.get("confidence")
                    rows.append({"input_reaction": g.get("input_reaction"), "reaction": g.get("reaction"), "solved": g.get("solved") == "True", "solved_raw": None,
                                 "solved_by": g.get("solved_by") or None, "issue": g.get("issue") if g.get("issue") not in (None, "") else ("" if g.get("solved") == "True" else g.get("issue")),
                                 "rules": None, "confidence": float(c) if c not in (None, "", "nan") else None, "tag": g.get("tag")})
                runs.append({"config": "CLI run %d in one process (batch_size=%s)" % (k + 1, bs), "given": list(lst), "rows": rows, "raw_keys": sorted(got[0].keys()) if got else [], "stats": st, "error": None, "cli": True})
            except Exception as e:
                runs.append({"config": "CLI run %d" % (k + 1), "given": list(lst), "rows": [], "raw_keys": [], "stats": {}, "error": "%s: %s" % (type(e).__name__, str(e)[:200]), "cli": True})
    finally:
        shutil.rmtree(tmp, ignore_errors=True)
    return runs


def runs(ctx):
    val, hit = pipe.cached("matrix_%s" % ctx.tier, compute)
    return val


def as_batch(run):
    """the shape the property oracles take: inputs, rows, (empty) oracle tables"""
    return {"inputs": list(run["given"]), "rows": run["rows"], "stats": run["stats"], "tables": {"pp": [], "impute": [], "strip": [], "decomp": [], "ccount": [], "parse": [], "mcs_state": [], "conf": []},
            "trace": [], "conflicts": 0, "error": run["error"], "t": 0}
