#!/venv/bin/python
"""Entry point of every registered check:  harness/check.py Cnn [--tier quick|thorough] [--replay f]

1. regenerate coq/Gen/*.v from /repo's working tree, gate on forbidden vernacular,
   build the dependency cone of Props/Cnn.vo (full .vo), capture Print Assumptions;
2. run the property engine (correspondence model-vs-implementation + independent property
   oracles on the implementation's outputs, corpus first, then seeded generated cases);
3. filter through known_findings.json, write evidence/Cnn.json, print VIOLATION lines."""
import sys, os
sys.path.insert(0, os.path.dirname(os.path.abspath(__file__)))
from common import *
ensure_env()
import argparse, importlib, random, traceback, time, json, logging, warnings
logging.disable(logging.CRITICAL)
warnings.filterwarnings("ignore")


class Ctx:
    def __init__(self, pid, tier, seed):
        self.pid, self.tier, self.seed = pid, tier, seed
        self.rng = random.Random(seed)
        self.work = os.path.join(WORK, pid)
        os.makedirs(self.work, exist_ok=True)
        self.evaluations = 0
        self.nontrivial = set()
        self.samples = []
        self.streams = {}          # stream name -> dict of measured counts
        self.mismatches = []       # correspondence disagreements (model vs implementation)
        self.failures = []         # property failures seen on the implementation: dict(kind=..., case=..., detail=...)
        self.broken = []           # proof obligations / generators that no longer check
        self.notes = []
        self.assumptions = []
        self.exhaustive = None
        self.timing_unstable = 0
        self.extra = {}

    def quick(self):
        return self.tier == "quick"

    def count(self, stream, key, n=1):
        self.streams.setdefault(stream, {}).setdefault(key, 0)
        self.streams[stream][key] += n

    def sample(self, x, cap=12):
        if len(self.samples) < cap:
            self.samples.append(x)

    def mismatch(self, what, case, impl, model=None):
        self.mismatches.append({"correspondence": what, "case": case, "impl": impl, "model": model})

    def fail(self, kind, case, detail):
        self.failures.append({"kind": kind, "case": case, "detail": detail})


def main():
    ap = argparse.ArgumentParser()
    ap.add_argument("pid")
    ap.add_argument("--tier", default=os.environ.get("VERIF_TIER", "quick"), choices=["quick", "thorough"])
    ap.add_argument("--replay")
    a = ap.parse_args()
    pid = a.pid.upper()
    seed = int(os.environ.get("VERIF_SEED", "0") or 0)
    t0 = time.time()
    ctx = Ctx(pid, a.tier, seed)
    mod = importlib.import_module("props." + pid.lower())
    prop_rel = "Props/%s.v" % pid

    if a.replay:
        with open(a.replay) as f:
            rep = json.load(f)
        rc = mod.replay(ctx, rep)
        sys.exit(rc)

    # ---- 1. model tied to the source: regenerate, gate, build, assumptions
    import gen_data
    obligations, discharged, assumptions_txt, make_log = [], 0, {}, ""
    with coq_lock():
        changed, gen_errors = gen_data.generate()
        for e in gen_errors:
            ctx.broken.append({"what": "translator (fail-closed)", "detail": e})
        bad = forbidden_gate()
        for b in bad:
            ctx.broken.append({"what": "forbidden vernacular", "detail": b})
        write_coqproject()
        target = prop_rel[:-2] + ".vo"
        rc, make_log = sh("timeout 1500 make -j%d %s 2>&1" % (NPROC, target), cwd=COQ, timeout=1600)
        obligations = count_obligations(prop_rel)
        if rc != 0:
            m = re.search(r'File "\./([^"]+)", line (\d+), characters [\d-]+:\s*\n(.*?)(?:\nmake|\Z)', make_log, flags=re.S)
            where = "%s:%s" % (m.group(1), m.group(2)) if m else "?"
            thm = None
            if m:
                # name the theorem enclosing the failing line
                with open(os.path.join(COQ, m.group(1))) as fh:
                    lines = fh.read().split("\n")
                for ln in range(int(m.group(2)) - 1, -1, -1):
                    mm = THM.match(lines[ln]) or re.match(r"\s*(Definition|Fixpoint)\s+([A-Za-z0-9_']+)", lines[ln])
                    if mm:
                        thm = mm.group(2)
                        break
            ctx.broken.append({"what": "proof obligation no longer checks", "where": where, "theorem": thm,
                               "detail": (m.group(3) if m else make_log)[-1500:], "regenerated": changed})
            failing_file = m.group(1) if m else None
            discharged = len([o for o in obligations if failing_file and not o.startswith(failing_file + ":")]) if failing_file else 0
            if failing_file:
                # obligations in files depending on the failing file are not discharged either
                dependants = [f for f in deps_of(prop_rel) if failing_file in deps_of(f)]
                discharged = len([o for o in obligations if o.split(":")[0] not in dependants])
        else:
            discharged = len(obligations)
            rc2, out2, assumptions_txt = print_assumptions(prop_rel)
            if rc2 != 0:
                ctx.broken.append({"what": "Print Assumptions run failed", "detail": out2[-1500:]})
            for n, txt in assumptions_txt.items():
                if not txt.startswith("Closed under the global context"):
                    allowed = getattr(mod, "ALLOWED_AXIOMS", [])
                    names = re.findall(r"^\s*([A-Za-z0-9_.']+)\s*:", txt, flags=re.M)
                    extra = [x for x in names if x.split(".")[-1] not in allowed]
                    if extra or n == "_unparsed":
                        ctx.broken.append({"what": "unexpected assumptions", "theorem": n, "detail": txt})
    ctx.model_built = (rc == 0)
    coqchk_txt = None
    if rc == 0 and a.tier == "thorough":
        # independent re-check of the compiled property file and everything it depends on
        rc3, out3 = sh("timeout 2400 coqchk -o -silent -Q %s SynRBL SynRBL.Props.%s 2>&1" % (COQ, pid), cwd=VERIF, timeout=2500)
        m3 = re.search(r"CONTEXT SUMMARY.*", out3, flags=re.S)
        coqchk_txt = " ".join((m3.group(0) if m3 else out3[-800:]).split())
        if rc3 != 0 or "* Axioms: <none>" not in coqchk_txt:
            ctx.broken.append({"what": "coqchk did not accept the property file without axioms", "detail": out3[-1500:]})

    # ---- 2. engine
    try:
        mod.run(ctx)
    except Exception:
        ctx.broken.append({"what": "check engine crashed", "detail": traceback.format_exc()[-3000:]})

    # ---- 3. classify
    known = [k for k in load_known() if k.get("property") == pid and k.get("status", "open") == "open"]
    known_seen = {}
    unlisted = []
    for f in ctx.failures:
        hit = None
        for k in known:
            if k["id"].split("/", 1)[1] == f["kind"]:
                hit = k
                break
        if hit:
            known_seen.setdefault(hit["id"], []).append(f)
        else:
            unlisted.append(f)
    lines, exit_code = [], 0
    for k in known:
        seen = known_seen.get(k["id"], [])
        if seen:
            lines.append("KNOWN-FINDING: property=%s %s -- %s (seen %d time(s) this run, e.g. %s)" % (
                pid, k["id"], k["what"], len(seen), json.dumps(seen[0]["case"])[:160]))
        else:
            ctx.notes.append("listed finding %s was not reproduced in this run" % k["id"])
    violations = 0
    if unlisted:
        # group by kind; one VIOLATION line per kind with the smallest case as replay
        kinds = {}
        for f in unlisted:
            kinds.setdefault(f["kind"], []).append(f)
        for kind, fs in sorted(kinds.items()):
            fs.sort(key=lambda f: len(json.dumps(f["case"], default=str)))
            path = write_replay(pid, {"property": pid, "kind": kind, "failing_input": fs[0]["case"], "detail": fs[0]["detail"],
                                      "count": len(fs), "seed": seed, "tier": a.tier,
                                      "mismatches": ctx.mismatches[:3], "broken": ctx.broken[:3]})
            lines.append("VIOLATION property=%s replay=%s" % (pid, path))
            violations += 1
        exit_code = 1
    elif ctx.mismatches or ctx.broken:
        path = write_replay(pid, {"property": pid, "kind": "no-failing-input-found",
                                  "broken_obligations": ctx.broken[:5], "correspondence_mismatches": ctx.mismatches[:5],
                                  "n_mismatches": len(ctx.mismatches), "seed": seed, "tier": a.tier,
                                  "note": "the model/theorems no longer describe the implementation; no input violating the property itself was found by the search"})
        lines.append("VIOLATION property=%s replay=%s no-failing-input-found" % (pid, path))
        violations += 1
        exit_code = 1

    # ---- 4. evidence
    tb = ["Coq 8.16.1 kernel + vm_compute (no native_compute); coqc full .vo build of the dependency cone of " + prop_rel,
          "translator harness/gen_data.py (runtime objects of /repo -> Gen/*.v), correspondence harness harness/props/%s.py" % pid.lower()]
    for n, txt in sorted(assumptions_txt.items()):
        tb.append("Print Assumptions %s: %s" % (n, " ".join(txt.split())))
    if coqchk_txt:
        tb.append("coqchk -o (independent checker) on Props/%s.vo and its dependencies: %s" % (pid, coqchk_txt))
    tb += getattr(mod, "TRUSTED", [])
    ev = {
        "property_id": pid, "tier": a.tier, "seed": seed, "level": "proof",
        "coverage": {
            "obligations": len(obligations), "discharged": discharged,
            "checker_cmd": "cd /verif/coq && make -j%d %s && coqc -Q . SynRBL %s" % (NPROC, prop_rel[:-2] + ".vo", prop_rel),
            "trusted_base": tb,
            "obligation_names": obligations,
            "evaluations": ctx.evaluations, "distinct_nontrivial": len(ctx.nontrivial),
            "rule": getattr(mod, "RULE", ""), "samples": ctx.samples or ["(none)"],
            "streams": ctx.streams, "disagreements_checked": len(ctx.mismatches),
            "correspondence_mismatches": ctx.mismatches[:10], "broken_obligations": ctx.broken[:10],
            "known_findings_seen": {k: len(v) for k, v in known_seen.items()},
            "unlisted_failures": len(unlisted), "timing_unstable": ctx.timing_unstable,
            "regenerated_files_changed": changed, "notes": ctx.notes,
        },
        "assumptions": getattr(mod, "ASSUMPTIONS", []),
        "wall_s": round(time.time() - t0, 2), "violations": violations,
    }
    if ctx.exhaustive is not None:
        ev["coverage"]["exhaustive"] = ctx.exhaustive
    ev["coverage"].update(ctx.extra)
    write_evidence(pid, ev)
    for l in lines:
        print(l)
    print("%s %s: obligations %d/%d, evaluations %d (non-trivial distinct %d), mismatches %d, failures %d (unlisted %d), %.0fs"
          % (pid, a.tier, discharged, len(obligations), ctx.evaluations, len(ctx.nontrivial), len(ctx.mismatches),
             len(ctx.failures), len(unlisted), time.time() - t0))
    sys.exit(exit_code)


if __name__ == "__main__":
    main()
