#!/bin/bash
# Runs the repository's pinned test suite with the verification guard OFF and compares with BASELINE.json.
unset SYNRBL_VERIF
cd /repo && /venv/bin/python -m pytest -ra -q -p no:cacheprovider --timeout=900 --continue-on-collection-errors --junitxml=/tmp/synrbl_baseline_junit.xml > /tmp/synrbl_baseline.log 2>&1
/venv/bin/python - <<'PY'
import json, xml.etree.ElementTree as ET, sys
base = set(json.load(open('/root/.vp/BASELINE.json'))['stable_pass'])
t = ET.parse('/tmp/synrbl_baseline_junit.xml')
passed = set()
for tc in t.iter('testcase'):
    if not any(c.tag in ('failure', 'error', 'skipped') for c in tc):
        passed.add(tc.get('classname') + '::' + tc.get('name'))
missing = sorted(base - passed)
print('baseline tests passing: %d / %d' % (len(base & passed), len(base)))
for m in missing: print('NOT PASSING:', m)
sys.exit(1 if missing else 0)
PY
rc=$?
rm -f /tmp/synrbl_baseline_junit.xml /tmp/synrbl_baseline.log
exit $rc
