"""Shared plumbing for the SynRBL verification checks: paths, Coq literal printing,
Coq build / evaluation, evidence, replays, known findings."""
import os, sys, json, time, subprocess, hashlib, fcntl, re, shutil, contextlib

VERIF = os.path.dirname(os.path.dirname(os.path.abspath(__file__)))
REPO = os.environ.get("SYNRBL_REPO", "/repo")
COQ = os.path.join(VERIF, "coq")
WORK = os.path.join(VERIF, "work")
EVID = os.path.join(VERIF, "evidence")
REPLAYS = os.path.join(VERIF, "replays")
CORPUS = os.path.join(VERIF, "corpus")
COQC_TIMEOUT = 600
NPROC = min(16, os.cpu_count() or 4)

for d in (WORK, EVID, REPLAYS):
    os.makedirs(d, exist_ok=True)


def ensure_env():
    """Re-exec once with the fixed environment (hash seed, repo on the path, hooks guard)."""
    want = {"PYTHONHASHSEED": "0", "PYTHONPATH": REPO + ":" + os.path.join(VERIF, "harness"), "SYNRBL_VERIF": "1",
            "PIP_NO_INDEX": "1", "PYTHONDONTWRITEBYTECODE": "1"}
    if any(os.environ.get(k) != v for k, v in want.items()):
        os.environ.update(want)
        os.execv(sys.executable, [sys.executable] + sys.argv)
    if REPO not in sys.path:
        sys.path.insert(0, REPO)


# ---------------------------------------------------------------- Coq literals
def cstr(s):
    if not isinstance(s, str):
        raise TypeError("cstr: %r" % (s,))
    b = s.encode("utf-8")
    if any(c < 32 and c not in (9, 10) or c > 126 for c in b):
        raise ValueError("non-printable / non-ASCII character in %r" % s)
    return '"' + s.replace('"', '""') + '"'


def cz(n):
    if isinstance(n, bool) or not isinstance(n, int):
        raise TypeError("cz: %r" % (n,))
    return "(%d)%%Z" % n if n < 0 else "%d%%Z" % n


def cnat(n):
    if isinstance(n, bool) or not isinstance(n, int) or n < 0 or n > 5000:
        raise TypeError("cnat: %r" % (n,))
    return "%d%%nat" % n


def cbool(b):
    if not isinstance(b, bool):
        raise TypeError("cbool: %r" % (b,))
    return "true" if b else "false"


def clist(xs, f=lambda x: x):
    return "[" + "; ".join(f(x) for x in xs) + "]"


def cpair(a, b):
    return "(" + a + ", " + b + ")"


def copt(x, f):
    return "None" if x is None else "(Some " + f(x) + ")"


def cdict(d):
    """Python dict str->int, insertion order kept."""
    return clist(d.items(), lambda kv: cpair(cstr(kv[0]), cz(kv[1])))


# ---------------------------------------------------------------- files / locks
def write_if_changed(path, text):
    try:
        with open(path) as f:
            if f.read() == text:
                return False
    except FileNotFoundError:
        pass
    tmp = path + ".tmp%d" % os.getpid()
    with open(tmp, "w") as f:
        f.write(text)
    os.replace(tmp, path)
    return True


@contextlib.contextmanager
def coq_lock():
    os.makedirs(WORK, exist_ok=True)
    with open(os.path.join(WORK, ".coq.lock"), "w") as lf:
        fcntl.flock(lf, fcntl.LOCK_EX)
        try:
            yield
        finally:
            fcntl.flock(lf, fcntl.LOCK_UN)


def sh(cmd, timeout=None, cwd=None, env=None):
    p = subprocess.run(cmd, shell=isinstance(cmd, str), cwd=cwd, env=env, timeout=timeout,
                       stdout=subprocess.PIPE, stderr=subprocess.STDOUT, text=True)
    return p.returncode, p.stdout


# ---------------------------------------------------------------- Coq build
def v_files():
    out = []
    for sub in ("Base", "Gen", "Model", "Proofs", "Props"):
        d = os.path.join(COQ, sub)
        if os.path.isdir(d):
            out += sorted(os.path.join(sub, f) for f in os.listdir(d) if f.endswith(".v"))
    return out


def write_coqproject():
    head = "-Q . SynRBL\n-arg -w -arg -notation-overridden,-deprecated-hint-without-locality,-deprecated-instance-without-locality\n"
    changed = write_if_changed(os.path.join(COQ, "_CoqProject"), head + "\n".join(v_files()) + "\n")
    if changed or not os.path.exists(os.path.join(COQ, "Makefile")):
        rc, out = sh("coq_makefile -f _CoqProject -o Makefile", cwd=COQ, timeout=120)
        if rc != 0:
            raise RuntimeError("coq_makefile failed:\n" + out)


FORBIDDEN = re.compile(r"\b(Admitted|admit|Axiom|Parameter|Parameters|Conjecture|Axioms|Conjectures|Hypothesis|Variable|Variables|Hypotheses|Admit Obligations|Unset Guard Checking|bypass_check|Unset Positivity Checking|Unset Universe Checking|native_compute)\b")


def forbidden_gate():
    """No axioms, no admits, no switched-off checks anywhere in the development.
    Variable/Hypothesis are allowed only inside a Section."""
    bad = []
    for rel in v_files():
        depth = 0
        with open(os.path.join(COQ, rel)) as f:
            txt = f.read()
        txt = re.sub(r"\(\*.*?\*\)", lambda m: " " * len(m.group(0)) if "\n" not in m.group(0) else re.sub(r"[^\n]", " ", m.group(0)), txt, flags=re.S)
        for ln, line in enumerate(txt.split("\n"), 1):
            if re.match(r"\s*Section\b", line):
                depth += 1
            elif re.match(r"\s*End\b", line) and depth > 0:
                depth -= 1
            for m in FORBIDDEN.finditer(line):
                w = m.group(1)
                if w in ("Variable", "Variables", "Hypothesis", "Hypotheses") and depth > 0:
                    continue
                bad.append("%s:%d: %s" % (rel, ln, w))
    return bad


def make(timeout=1500):
    """Full .vo build of the development (no -vos). Returns (ok, log, failing_file)."""
    write_coqproject()
    rc, out = sh("timeout %d make -j%d 2>&1" % (timeout, NPROC), cwd=COQ, timeout=timeout + 30)
    failing = None
    if rc != 0:
        m = re.search(r'File "\./([^"]+)", line (\d+)', out)
        if m:
            failing = "%s:%s" % (m.group(1), m.group(2))
    return rc == 0, out, failing


def coqc(path, timeout=COQC_TIMEOUT, cwd=COQ, extra=""):
    rc, out = sh("timeout %d coqc -Q %s SynRBL -w -notation-overridden,-deprecated-hint-without-locality %s %s 2>&1"
                 % (timeout, COQ, extra, path), cwd=cwd, timeout=timeout + 30)
    return rc, out


THM = re.compile(r"^\s*(Theorem|Lemma|Corollary|Example|Fact|Remark|Proposition)\s+([A-Za-z0-9_']+)", re.M)


def deps_of(rel, seen=None):
    """Transitive SynRBL dependencies of a .v file (by Require lines)."""
    seen = seen if seen is not None else []
    if rel in seen:
        return seen
    seen.append(rel)
    with open(os.path.join(COQ, rel)) as f:
        txt = f.read()
    for m in re.finditer(r"From SynRBL Require (?:Import|Export) (.*?)\.\s", txt, flags=re.S):
        for name in m.group(1).split():
            p = name.replace(".", "/") + ".v"
            if os.path.exists(os.path.join(COQ, p)):
                deps_of(p, seen)
    return seen


def count_obligations(rel):
    names = []
    for f in deps_of(rel):
        with open(os.path.join(COQ, f)) as fh:
            for m in THM.finditer(fh.read()):
                names.append(f + ":" + m.group(2))
    return names


def print_assumptions(prop_rel):
    """Re-run coqc on the property file and return {theorem: assumptions text}."""
    rc, out = coqc(prop_rel)
    res = {}
    if rc != 0:
        return rc, out, res
    # output: sequences "Closed under the global context" or "Axioms:\n..." in order of Print Assumptions
    with open(os.path.join(COQ, prop_rel)) as f:
        names = re.findall(r"Print Assumptions ([A-Za-z0-9_']+)\.", f.read())
    chunks = re.split(r"(?=^Closed under the global context|^Axioms:|^Section Variables:)", out, flags=re.M)
    chunks = [c.strip() for c in chunks if c.strip().startswith(("Closed", "Axioms", "Section"))]
    for n, c in zip(names, chunks):
        res[n] = c
    if len(names) != len(chunks):
        res["_unparsed"] = out
    return rc, out, res


# ---------------------------------------------------------------- running the model
def eval_cases(name, header, defs, exprs, workdir, timeout=COQC_TIMEOUT, shard=400):
    """Evaluate a list of Coq expressions of type bool (model output = implementation output)
    inside Coq with vm_compute.  Returns the list of indices whose check is false, plus logs.
    `header` = Require/Import lines; `defs` = shared definitions; exprs[i] = Gallina bool term."""
    os.makedirs(workdir, exist_ok=True)
    files = []
    for s in range(0, len(exprs), shard):
        part = exprs[s:s + shard]
        fn = os.path.join(workdir, "%s_%04d.v" % (name, s // shard))
        body = [header, defs, "Definition checks : list bool := ["]
        body.append(";\n".join("  (" + e + ")" for e in part))
        body.append("].")
        body.append("Fixpoint bad (i : nat) (l : list bool) : list nat := match l with [] => [] | b :: t => if b then bad (S i) t else i :: bad (S i) t end.")
        body.append("Eval vm_compute in (length checks, bad 0 checks).")
        with open(fn, "w") as f:
            f.write("\n".join(body) + "\n")
        files.append((s, len(part), fn))
    from concurrent.futures import ThreadPoolExecutor
    def one(t):
        s, n, fn = t
        rc, out = coqc(fn, timeout=timeout, cwd=workdir)
        return s, n, fn, rc, out
    bad, errors, again = [], [], []
    pat = r"=\s*\((\d+)(?:%nat)?,\s*\[([^\]]*)\]\)"
    with ThreadPoolExecutor(max_workers=NPROC) as ex:
        for s, n, fn, rc, out in ex.map(one, files):
            m = re.search(pat, out.replace("\n", " "))
            if rc != 0 or not m or int(m.group(1)) != n:
                again.append((s, n, fn, out))
                continue
            bad += [s + int(x) for x in re.findall(r"\d+", m.group(2))]
    # a shard that did not come back (typically: the per-file time limit on a loaded machine) is evaluated once more, alone, with six
    # times the limit (the heaviest C14 thorough batch -- a core plus three database compounds, which the composition solver
    # searches exhaustively -- took 484 s alone and hit the 600 s limit beside fifteen others), before it is reported as an obligation that does not check
    for s, n, fn, out0 in again:
        rc, out = coqc(fn, timeout=6 * timeout, cwd=workdir)
        m = re.search(pat, out.replace("\n", " "))
        if rc != 0 or not m or int(m.group(1)) != n:
            errors.append((fn, (out or out0)[-3000:]))
            continue
        bad += [s + int(x) for x in re.findall(r"\d+", m.group(2))]
    for s, n, fn in files:
        for ext in (".vo", ".vok", ".vos", ".glob"):
            try:
                os.remove(fn[:-2] + ext)
            except OSError:
                pass
        try:
            os.remove(os.path.join(os.path.dirname(fn), "." + os.path.basename(fn)[:-2] + ".aux"))
        except OSError:
            pass
    return sorted(bad), errors


def eval_strings(name, header, defs, exprs, workdir, timeout=COQC_TIMEOUT):
    """Evaluate Coq expressions of type string and return their values (used to show the
    model's output for a mismatching case)."""
    os.makedirs(workdir, exist_ok=True)
    fn = os.path.join(workdir, name + ".v")
    body = [header, defs]
    for i, e in enumerate(exprs):
        body.append("Eval vm_compute in (%s)." % e)
    with open(fn, "w") as f:
        f.write("\n".join(body) + "\n")
    rc, out = coqc(fn, timeout=timeout, cwd=workdir)
    vals = []
    for m in re.finditer(r'=\s*"((?:[^"]|"")*)"\s*:\s*string', out, flags=re.S):
        vals.append(m.group(1).replace('""', '"'))
    return rc, out, vals


# ---------------------------------------------------------------- evidence / replays / findings
def load_known():
    p = os.path.join(VERIF, "known_findings.json")
    if not os.path.exists(p):
        return []
    with open(p) as f:
        return json.load(f)


def write_replay(pid, obj):
    d = os.path.join(REPLAYS, pid)
    os.makedirs(d, exist_ok=True)
    txt = json.dumps(obj, indent=1, sort_keys=True, default=str)
    h = hashlib.sha256(txt.encode()).hexdigest()[:12]
    p = os.path.join(d, h + ".json")
    with open(p, "w") as f:
        f.write(txt + "\n")
    return p


def write_evidence(pid, ev):
    p = os.path.join(EVID, pid + ".json")
    tmp = p + ".tmp%d" % os.getpid()
    with open(tmp, "w") as f:
        json.dump(ev, f, indent=1, sort_keys=True, default=str)
        f.write("\n")
    os.replace(tmp, p)
    return p


def tree_hash():
    """Hash of the working tree of the repository's python package + data (for scratch reuse)."""
    rc, out = sh("git -C %s rev-parse HEAD; git -C %s diff HEAD --stat; git -C %s status --porcelain" % (REPO, REPO, REPO))
    rc2, out2 = sh("git -C %s diff HEAD" % REPO)
    return hashlib.sha256((out + out2).encode()).hexdigest()[:16]
