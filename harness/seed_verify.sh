#!/bin/bash
# seed_verify.sh <worktree> <patch.diff> <demo.py> <out.json>
# Confirms a seeded change in a scratch worktree: demo passes without it, patch applies, demo fails with it,
# the repository's test suite still shows exactly the three pre-existing failures.
WT=$1; PATCH=$2; DEMO=$3; OUT=$4
cd "$WT" || exit 2
git checkout -q -- . ; git clean -fdq
export PYTHONPATH=$WT PYTHONHASHSEED=0 PYTHONDONTWRITEBYTECODE=1
cp "$DEMO" ./_demo.py
timeout 1200 /venv/bin/python _demo.py > /tmp/_sv_$$.a 2>&1; A=$?
git apply "$PATCH" || { echo '{"applies": false}' > "$OUT"; rm -f _demo.py; exit 1; }
timeout 1200 /venv/bin/python _demo.py > /tmp/_sv_$$.b 2>&1; B=$?
rm -f _demo.py
timeout 2400 /venv/bin/python -m pytest -q -p no:cacheprovider --timeout=900 --continue-on-collection-errors -x --deselect Test/SynMCSImputer/test_merge.py::TestCompounds::test_merge_with_charge --deselect Test/SynUtils/test_chem_utils.py::TestNormalizeReaction::test_edge_case_1 --deselect Test/SynVis/test_reaction_visualizer.py::TestReactionVisualizer::test_visualize_reaction > /tmp/_sv_$$.t 2>&1; T=$?
TAIL=$(tail -1 /tmp/_sv_$$.t)
git checkout -q -- . ; git clean -fdq
/venv/bin/python - "$A" "$B" "$T" "$TAIL" "$OUT" /tmp/_sv_$$.b <<'PY'
import sys, json
a, b, t, tail, out, fb = sys.argv[1:7]
json.dump({"applies": True, "demo_exit_without_patch": int(a), "demo_exit_with_patch": int(b), "suite_exit_with_patch": int(t),
           "suite_tail": tail, "demo_output_with_patch_tail": open(fb).read()[-600:]}, open(out, "w"), indent=1)
PY
rm -f /tmp/_sv_$$.*
