"""Pipeline engine shared by C01..C06, C13, C14, C18: runs the real Balancer in-process with
recorders around every oracle call, renders the batch as a Coq case for Model/Pipeline.v, and
provides independent property oracles (RDKit only, never SynRBL code)."""
import copy, collections, struct, json, os, hashlib, math
from common import *

FINAL_MSG = "Final reaction is unbalanced."
EXPECTED_TRACE = [("check", "input-balanced", False, None), ("rb", True), ("check", "rule-based", True, None), ("find",),
                  ("impute", True), ("check", "mcs-based", False, None), ("pp",), ("rb", False),
                  ("check", "mcs-based", True, FINAL_MSG), ("conf", True)]


def fkey(x):
    """order-preserving integer key of a non-negative float64"""
    x = float(x)
    if x != x or x < 0:
        raise ValueError("float key of %r" % x)
    return struct.unpack(">q", struct.pack(">d", x))[0]


class Recorder:
    """Wraps module attributes of the working tree's synrbl; all recorded values are deep copies."""

    def __init__(self, force_conf=None, force_carbon=None):
        self.force_conf = force_conf      # explore the scoring oracle's answer space: every score is this value
        self.force_carbon = force_carbon or {}   # explore the carbon counter's answer space: {molecule SMILES: delta}
        self.t = {k: {} for k in ("strip", "parse", "decomp", "ccount", "mcs_state", "impute", "pp", "conf", "impute_fine")}
        self.cur = None
        self.trace = []
        self.conflicts = []
        self._undo = []

    def put(self, tab, k, v):
        d = self.t[tab]
        if k in d and d[k] != v:
            self.conflicts.append((tab, k, d[k], v))
        d[k] = v

    def patch(self, obj, name, new):
        old = obj.__dict__[name] if isinstance(obj, type) else getattr(obj, name)
        self._undo.append((obj, name, old))
        setattr(obj, name, new)

    def install(self):
        import synrbl.preprocess as pre
        import synrbl.balancing as bal
        from synrbl.SynProcessor import RSMIDecomposer, RSMIProcessing
        from synrbl.SynProcessor.check_carbon_balance import CheckCarbonBalance
        import synrbl.SynMCSImputer.mcs_based_method as mbm
        from synrbl.SynChemImputer.post_process import PostProcess
        from synrbl.confidence_prediction import ConfidencePredictor
        from synrbl.mcs_search import MCSSearch
        from synrbl.postprocess import Validator
        from synrbl.rule_based import RuleBasedMethod
        R = self
        o_strip = pre.remove_atom_mapping

        def strip(s):
            r = o_strip(s); R.put("strip", s, r); return r
        self.patch(pre, "remove_atom_mapping", strip)
        o_dec = RSMIDecomposer.decompose

        def dec(s):
            r = o_dec(s); R.put("decomp", s, copy.deepcopy(r)); return r
        self.patch(RSMIDecomposer, "decompose", staticmethod(dec))
        o_cnt = CheckCarbonBalance.count_atoms

        def cnt(s, t, cache):
            r = o_cnt(s, t, cache)
            if s in R.force_carbon:
                r = r + R.force_carbon[s]      # the cache keeps the real count, so the shift is applied exactly once per call
            R.put("ccount", s, r); return r
        self.patch(CheckCarbonBalance, "count_atoms", staticmethod(cnt))
        o_parse = RSMIProcessing.can_parse

        def parse(s, symbol=">>"):
            r = o_parse(s, symbol); R.put("parse", s, bool(r)); return r
        self.patch(RSMIProcessing, "can_parse", staticmethod(parse))
        o_imp = mbm.impute_reaction

        def imp(rd, **kw):
            # also records, per call, what the stages of impute_reaction answered (Model/Impute.v models its control flow)
            k = rd[kw["reaction_col"]]
            cur = {"issue": rd[kw["issue_col"]] if kw["issue_col"] in rd else "", "carbon": rd.get(kw["carbon_balance_col"]),
                   "merged": None, "std": None, "cbal": None}
            stds = list(kw.get("smiles_standardizer") or [])

            def composite(x):
                try:
                    out = x
                    for f in stds:
                        out = f(out)
                except Exception as e:
                    cur["std"] = [x, "fail", str(e)]
                    raise
                cur["std"] = [x, "ok", out]
                return out
            kw2 = dict(kw); kw2["smiles_standardizer"] = [composite]
            R.cur = cur
            try:
                r = o_imp(rd, **kw2)
                R.put("impute", k, ("ok", r[0], list(r[1])))
                return r
            except Exception as e:
                if cur["merged"] is None and cur["issue"] == "":
                    cur["merged"] = ["fail", str(e)]
                R.put("impute", k, ("fail", str(e)))
                raise
            finally:
                R.cur = None
                R.put("impute_fine", k, cur)
        self.patch(mbm, "impute_reaction", imp)
        o_merge = mbm.merge

        def merge_(cset):
            r = o_merge(cset)
            if R.cur is not None:
                R.cur["merged"] = ["ok", r.smiles, [x.name for x in r.rules]]
            return r
        self.patch(mbm, "merge", merge_)
        o_icb = mbm.is_carbon_balanced

        def icb(x, *a, **k):
            r = o_icb(x, *a, **k)
            if R.cur is not None:
                R.cur["cbal"] = [x, bool(r)]
            return r
        self.patch(mbm, "is_carbon_balanced", icb)
        o_find = MCSSearch.find

        def find(self_, reactions):
            R.trace.append(("find",))
            before = {id(x): x["reaction"] for x in reactions}
            r = o_find(self_, reactions)
            for x in reactions:
                if "mcs" in x and not x["solved"]:
                    R.put("mcs_state", before[id(x)], (x["mcs"] is None, x["issue"]))
            return r
        self.patch(MCSSearch, "find", find)
        o_run = mbm.MCSBasedMethod.run

        def mrun(self_, reactions, stats=None):
            R.trace.append(("impute", stats is not None))
            return o_run(self_, reactions, stats=stats)
        self.patch(mbm.MCSBasedMethod, "run", mrun)
        o_pp = PostProcess.fit

        def ppfit(self_, data):
            R.trace.append(("pp",))
            before = {d[self_.id_col]: d[self_.reaction_col] for d in data}
            res = o_pp(self_, data)
            seen = set()
            for r in res:
                rid = r[self_.id_col]
                seen.add(rid)
                cur = r["curated_reaction"] if (r.get("label") != "unspecified" and "curated_reaction" in r) else None
                R.put("pp", before[rid], cur)
            for rid, rx in before.items():
                if rid not in seen:
                    R.put("pp", rx, None)
            return res
        self.patch(PostProcess, "fit", ppfit)
        o_pred = ConfidencePredictor.predict

        def pred(self_, reactions, stats=None, threshold=0):
            R.trace.append(("conf", stats is not None))
            before = {id(x): (x["input_reaction"], x["reaction"]) for x in reactions}
            if R.force_conf is not None:
                import numpy as np
                real, fc = self_.model, float(R.force_conf)

                class _Stub:
                    def predict_proba(self, X):
                        return np.array([[1.0 - fc, fc]] * len(X))
                self_.model = _Stub()
                try:
                    r = o_pred(self_, reactions, stats=stats, threshold=threshold)
                finally:
                    self_.model = real
            else:
                r = o_pred(self_, reactions, stats=stats, threshold=threshold)
            for x in r:
                R.put("conf", before[id(x)], x["confidence"])
            return r
        self.patch(ConfidencePredictor, "predict", pred)
        o_chk = Validator.check

        def chk(self_, reactions, override_unsolved=False, override_issue_msg=None):
            R.trace.append(("check", self_.method, bool(override_unsolved), override_issue_msg))
            return o_chk(self_, reactions, override_unsolved=override_unsolved, override_issue_msg=override_issue_msg)
        self.patch(Validator, "check", chk)
        o_rb = RuleBasedMethod.run

        def rb(self_, reactions, stats=None):
            R.trace.append(("rb", stats is not None))
            return o_rb(self_, reactions, stats=stats)
        self.patch(RuleBasedMethod, "run", rb)
        return self

    def uninstall(self):
        for obj, name, old in reversed(self._undo):
            setattr(obj, name, old)
        self._undo = []


_BAL = {}


def balancer(t=0):
    from synrbl import Balancer
    if t not in _BAL:
        _BAL[t] = Balancer(n_jobs=1, confidence_threshold=t)
    return _BAL[t]


def run_batch(inputs, t=0, force_conf=None, force_carbon=None):
    """One pipeline batch on the real code with recorders.  Returns a JSON-able dict."""
    rec = Recorder(force_conf, force_carbon).install()
    st = {}
    try:
        rows = balancer(t).rebalance(list(inputs), output_dict=True, stats=st)
        err = None
    except Exception as e:  # rebalance itself raised (never expected)
        rows, err = None, "%s: %s" % (type(e).__name__, e)
    finally:
        rec.uninstall()
    out = []
    for r in rows or []:
        c = r.get("confidence")
        out.append({"input_reaction": r.get("input_reaction"), "reaction": r.get("reaction"), "solved": bool(r.get("solved")),
                    "solved_by": r.get("solved_by") if isinstance(r.get("solved_by"), str) else None,
                    "issue": r.get("issue") if isinstance(r.get("issue"), str) else None,
                    "rules": list(r["rules"]) if isinstance(r.get("rules"), list) else None,
                    "confidence": None if c is None or (isinstance(c, float) and math.isnan(c)) else float(c)})
    tables = {k: [[kk, vv] for kk, vv in v.items()] for k, v in rec.t.items()}
    return {"inputs": list(inputs), "t": t, "rows": out, "stats": st, "tables": tables, "trace": [list(x) for x in rec.trace],
            "conflicts": len(rec.conflicts), "error": err, "force_conf": force_conf, "force_carbon": force_carbon}


def run_batches(batches, t=0, procs=None, force_conf=None, force_carbon=None):
    """Many batches, in parallel worker processes (each in-process joblib, n_jobs=1)."""
    procs = procs or min(NPROC - 2, 14)
    if len(batches) <= 2 or procs <= 1:
        return [run_batch(b, t, force_conf, force_carbon) for b in batches]
    import multiprocessing as mp
    ctx = mp.get_context("spawn")          # fork after xgboost/OpenMP is loaded deadlocks
    procs = min(procs, len(batches))
    with ctx.Pool(procs, initializer=_worker_init) as pool:
        return pool.starmap(run_batch, [(b, t, force_conf, force_carbon) for b in batches], chunksize=1)


def _worker_init():
    import logging, warnings
    logging.disable(logging.CRITICAL)
    warnings.filterwarnings("ignore")
    from rdkit import RDLogger
    RDLogger.DisableLog("rdApp.*")


# ------------------------------------------------------------------ Coq rendering
PIPE_HDR = ("From Coq Require Import String ZArith List Bool.\nFrom SynRBL Require Import Base.Dict Base.Strs Base.ListX Model.Comp Model.Matcher "
            "Model.Constraint Model.Pipeline Model.Tables Gen.GenRules Gen.GenConst.\nImport ListNotations.\nOpen Scope string_scope. Open Scope Z_scope.\n")
PIPE_DEFS = """
Definition ostr (a b : option string) : bool := opt_eqb String.eqb a b.
Definition row_eq (r : row) (e : string * string * bool * option string * option string * option (list string) * option Z) : bool :=
  let '(i, x, s, b, iss, ru, c) := e in
  String.eqb (rinput r) i && String.eqb (rxn r) x && Bool.eqb (solved r) s && ostr (sby r) b && ostr (issue r) iss &&
  opt_eqb (list_eqb String.eqb) (rules r) ru && opt_eqb Z.eqb (conf r) c.
Definition stats_eq (s : stats) (e : list nat) : bool :=
  list_eqb Nat.eqb [reaction_cnt s; balanced_cnt s; rb_applied s; rb_solved s; mcs_applied s; mcs_solved s; confident_cnt s] e.
Definition pcase (o : oracles) (t : Z) (tmsg : string) (ins : list string)
   (e : option (list (string * string * bool * option string * option string * option (list string) * option Z) * list nat)) : bool :=
  match run o rules_manager ban_atoms_canon 80 t tmsg ins, e with
  | Done (rows, st), Some (erows, est) => list_eqb2 row_eq rows erows && stats_eq st est
  | Raised _, None => true
  | _, _ => false
  end.
"""
STAT_KEYS = ["reaction_cnt", "balanced_cnt", "rb_applied", "rb_solved", "mcs_applied", "mcs_solved", "confident_cnt"]


def tmsg(t):
    return "Confidence is below the threshold of {:.2%}.".format(t)


def coq_case(b):
    """Gallina boolean: the model reproduces this recorded batch (rows, flags, stats)."""
    T = {k: v for k, v in b["tables"].items()}
    def tab(name, fv):
        return clist(T[name], lambda kv: cpair(cstr(kv[0]), fv(kv[1])))
    def imp_kv(kv):
        k, v = kv
        if v[0] != "ok":
            return cpair(cstr(k), "(ImpFail %s)" % cstr(v[1]))
        if not v[1].startswith(k + "."):      # impute_reaction returns "{reaction}.{merged}": the model appends, the oracle is `merged`
            raise ValueError("impute_reaction result %r does not extend its input %r" % (v[1], k))
        return cpair(cstr(k), "(ImpOk %s %s)" % (cstr(v[1][len(k) + 1:]), clist(v[2], cstr)))
    cf = clist(T["conf"], lambda kv: "(%s, %s, %s)" % (cstr(kv[0][0]), cstr(kv[0][1]), cz(fkey(kv[1]))))
    o = "(mk %s %s %s %s %s %s %s %s)" % (
        tab("strip", cstr), tab("parse", cbool), tab("decomp", cdict), tab("ccount", cz),
        tab("mcs_state", lambda v: cpair(cbool(v[0]), cstr(v[1]))), clist(T["impute"], imp_kv), tab("pp", lambda v: copt(v, cstr)), cf)
    if b["error"] is not None:
        raise ValueError("rebalance raised: " + b["error"])
    lost = (len(b["rows"]) == 0 and b["stats"] == {})
    if lost:
        e = "None"
    else:
        rows = clist(b["rows"], lambda r: "(%s, %s, %s, %s, %s, %s, %s)" % (
            cstr(r["input_reaction"]), cstr(r["reaction"]), cbool(r["solved"]), copt(r["solved_by"], cstr), copt(r["issue"], cstr),
            copt(r["rules"], lambda l: clist(l, cstr)), copt(r["confidence"], lambda c: cz(fkey(c)))))
        e = "(Some (%s, %s))" % (rows, clist([b["stats"].get(k, 0) for k in STAT_KEYS], cnat))
    return "pcase %s %s %s %s %s" % (o, cz(fkey(b["t"])), cstr(tmsg(b["t"])), clist(b["inputs"], cstr), e)


# ------------------------------------------------------------------ independent oracles (RDKit only)
def comp(smiles):
    """true composition incl. all H and net charge; None if unparsable"""
    from rdkit import Chem
    m = Chem.MolFromSmiles(smiles)
    if m is None:
        return None
    c = collections.Counter()
    for a in m.GetAtoms():
        c[a.GetSymbol()] += 1
        c["H"] += a.GetTotalNumHs()
        c["Q"] += a.GetFormalCharge()
    return {k: v for k, v in c.items() if v != 0}


def balanced(rxn):
    """True/False, or None when a side does not parse / not exactly one '>>'"""
    if rxn is None or rxn.count(">>") != 1:
        return None
    l, r = rxn.split(">>")
    a, b = comp(l), comp(r)
    if a is None or b is None:
        return None
    return a == b


def canon_multiset(side):
    from rdkit import Chem
    out = collections.Counter()
    for c in side.split("."):
        if c == "":
            continue
        m = Chem.MolFromSmiles(c)
        if m is None:
            out[("?", c)] += 1
            continue
        for a in m.GetAtoms():
            a.SetAtomMapNum(0)
        out[Chem.MolToSmiles(m)] += 1
    return out


def carbons(side):
    from rdkit import Chem
    m = Chem.MolFromSmiles(side)
    return None if m is None else sum(1 for a in m.GetAtoms() if a.GetAtomicNum() == 6)


_HH = []


def harness_hash():
    """digest of the harness sources: scratch computed by an older harness (other generators, other recorders) is never re-used"""
    if not _HH:
        import hashlib
        h = hashlib.sha1()
        root = os.path.dirname(os.path.abspath(__file__))
        for dp, dn, fn in sorted(os.walk(root)):
            for f in sorted(fn):
                if f.endswith(".py") or f.endswith(".sh"):
                    with open(os.path.join(dp, f), "rb") as fh:
                        h.update(f.encode()); h.update(fh.read())
        _HH.append(h.hexdigest()[:10])
    return _HH[0]


def cached(name, compute):
    """scratch shared between the properties of this engine, keyed by the tree hash of /repo"""
    d = os.path.join(WORK, "pipecache")
    os.makedirs(d, exist_ok=True)
    p = os.path.join(d, "%s_%s_%s.json" % (name, harness_hash(), tree_hash()))   # any change of the harness or of /repo invalidates the scratch
    if os.path.exists(p):
        try:
            with open(p) as f:
                return json.load(f), True
        except Exception:
            pass
    val = compute()
    tmp = p + ".tmp%d" % os.getpid()
    with open(tmp, "w") as f:
        json.dump(val, f)
    os.replace(tmp, p)
    for fn in os.listdir(d):  # drop scratch of other trees
        if fn.startswith(name + "_") and fn != os.path.basename(p) and fn.endswith(".json"):
            try:
                os.remove(os.path.join(d, fn))
            except OSError:
                pass
    return val, False


def corpus_batches(ctx, n_rows, bs=25, seed_salt=""):
    import corpus, random
    rng = random.Random("%s|%s|%s" % (ctx.seed, ctx.tier, seed_salt))
    rx = corpus.reactions()
    idx = list(range(len(rx)))
    if n_rows < len(rx):
        idx = rng.sample(idx, n_rows)
    return [[rx[i] for i in idx[k:k + bs]] for k in range(0, len(idx), bs)]


def corpus_run(ctx):
    """The shared corpus run of this tier (quick: 300 sampled rows; thorough: the whole validation set)."""
    n = 300 if ctx.quick() else 10 ** 9
    name = "corpus_%s_%d" % (ctx.tier, ctx.seed)
    def compute():
        return run_batches(corpus_batches(ctx, n))
    val, hit = cached(name, compute)
    ctx.notes.append("corpus run %s" % ("reused from scratch (same /repo tree)" if hit else "computed"))
    return val


def eval_pipeline_cases(ctx, batches, name):
    """Run the model on the recorded batches inside Coq; report mismatching batches."""
    exprs, keep = [], []
    for b in batches:
        if b["conflicts"]:
            ctx.timing_unstable += 1
            continue
        if [tuple(x) for x in b["trace"]] != EXPECTED_TRACE[:len(b["trace"])] or (b["rows"] and len(b["trace"]) != len(EXPECTED_TRACE)):
            ctx.mismatch("stage trace (order/flags of the pipeline stages)", b["inputs"][:3], b["trace"], [list(x) for x in EXPECTED_TRACE])
        try:
            exprs.append(coq_case(b)); keep.append(b)
        except (TypeError, ValueError) as e:
            ctx.mismatch("batch not renderable", b["inputs"][:3], str(e), None)
    if not exprs:
        return
    rc, out = sh("timeout 1500 make -j%d Model/Pipeline.vo Model/Tables.vo Gen/GenRules.vo Gen/GenConst.vo 2>&1" % NPROC, cwd=COQ)
    if rc != 0:
        ctx.broken.append({"what": "pipeline model does not build", "detail": out[-1500:]})
        return
    bad, errors = eval_cases(name, PIPE_HDR, PIPE_DEFS, exprs, ctx.work, shard=4)
    for fn, o in errors:
        ctx.broken.append({"what": "case file did not evaluate", "where": fn, "detail": o})
    for i in bad:
        b = keep[i]
        # narrow the mismatch to single rows where possible
        ctx.mismatch("Balancer.rebalance rows+stats vs Model/Pipeline.run", {"inputs": b["inputs"], "t": b["t"]},
                     {"rows": b["rows"], "stats": b["stats"]}, "model disagrees on this batch")
    ctx.extra["pipeline_batches_evaluated_in_coq"] = ctx.extra.get("pipeline_batches_evaluated_in_coq", 0) + len(exprs)
    ctx.extra["pipeline_rows_evaluated_in_coq"] = ctx.extra.get("pipeline_rows_evaluated_in_coq", 0) + sum(len(b["inputs"]) for b in keep)


def witness_inputs(pid):
    """minimised past failures / listed witnesses for a property: run first in every tier"""
    out = []
    for k in load_known():
        if k.get("property") == pid and isinstance(k.get("witness"), dict) and "inputs" in k["witness"]:
            out.append(list(k["witness"]["inputs"]))
    p = os.path.join(CORPUS, pid + ".json")
    if os.path.exists(p):
        with open(p) as f:
            out += [list(x) for x in json.load(f)]
    return out


def closed_shell(rxn):
    """True when every molecule of the reaction parses and no atom carries radical electrons
    (the domain 'valid closed-shell molecules' of C01/C02/C04/C15: the atom-map stripper deliberately
    rewrites hydrogen-free bracket atoms such as [O] to their normal-valence form)."""
    from rdkit import Chem
    for side in rxn.split(">>"):
        m = Chem.MolFromSmiles(side)
        if m is None:
            return False
        if any(a.GetNumRadicalElectrons() != 0 for a in m.GetAtoms()):
            return False
    return True


def run_api(inputs, batch_size=None, t=0):
    """Balancer.rebalance through its public batching API, with recorders; inputs may be str or dict rows."""
    from synrbl import Balancer
    rec = Recorder().install()
    st = {}
    try:
        rows = Balancer(n_jobs=1, confidence_threshold=t, batch_size=batch_size).rebalance(copy.deepcopy(list(inputs)), output_dict=True, stats=st)
        err = None
    except Exception as e:
        rows, err = None, "%s: %s" % (type(e).__name__, e)
    finally:
        rec.uninstall()
    out = []
    for r in rows or []:
        c = r.get("confidence")
        out.append({"input_reaction": r.get("input_reaction"), "reaction": r.get("reaction"), "solved": bool(r.get("solved")),
                    "solved_by": r.get("solved_by") if isinstance(r.get("solved_by"), str) else None,
                    "issue": r.get("issue") if isinstance(r.get("issue"), str) else None,
                    "rules": list(r["rules"]) if isinstance(r.get("rules"), list) else None,
                    "confidence": None if c is None or (isinstance(c, float) and math.isnan(c)) else float(c)})
    tables = {k: [[kk, vv] for kk, vv in v.items()] for k, v in rec.t.items()}
    return {"inputs": list(inputs), "batch_size": batch_size, "t": t, "rows": out, "stats": st, "tables": tables,
            "conflicts": len(rec.conflicts), "error": err}


BATCH_HDR = PIPE_HDR.replace("Model.Pipeline ", "Model.Pipeline Model.Batch ")
BATCH_DEFS = PIPE_DEFS + """
Definition bcase (o : oracles) (t : Z) (tmsg : string) (bs : option nat) (ins : list string)
   (erows : list (string * string * bool * option string * option string * option (list string) * option Z)) (est : list nat) : bool :=
  let '(rows, st) := rebalance (run o rules_manager ban_atoms_canon 80 t tmsg) bs ins in
  list_eqb2 row_eq rows erows && stats_eq st est.
"""


def coq_oracle(b):
    """the recorded oracle tables of a batch as a Gallina term of type oracles"""
    head = coq_case({"tables": b["tables"], "error": None, "rows": [], "stats": {"x": 1}, "t": b["t"], "inputs": []})
    return head[len("pcase "):head.index(" %s %s" % (cz(fkey(b["t"])), cstr(tmsg(b["t"]))))]


def coq_case_api(b):
    """Gallina boolean: Model/Batch.rebalance over Model/Pipeline.run reproduces this public-API run."""
    head = coq_case({"tables": b["tables"], "error": None, "rows": [], "stats": {"x": 1}, "t": b["t"], "inputs": []})
    o = head[len("pcase "):head.index(" %s %s" % (cz(fkey(b["t"])), cstr(tmsg(b["t"]))))]
    rows = clist(b["rows"], lambda r: "(%s, %s, %s, %s, %s, %s, %s)" % (
        cstr(r["input_reaction"]), cstr(r["reaction"]), cbool(r["solved"]), copt(r["solved_by"], cstr), copt(r["issue"], cstr),
        copt(r["rules"], lambda l: clist(l, cstr)), copt(r["confidence"], lambda c: cz(fkey(c)))))
    return "bcase %s %s %s %s %s %s %s" % (o, cz(fkey(b["t"])), cstr(tmsg(b["t"])), copt(b["batch_size"], cnat), clist(b["inputs"], cstr),
                                           rows, clist([b["stats"].get(k, 0) for k in STAT_KEYS], cnat))
