"""Corpus extraction from the data shipped in /repo (read at run time, never copied)."""
import os, csv, ast, functools, re
from common import REPO

VAL = os.path.join(REPO, "Data", "Validation_set", "validation_set.csv")


@functools.lru_cache(None)
def validation_rows():
    rows = []
    with open(VAL, newline="") as f:
        for r in csv.DictReader(f):
            rows.append(r)
    return rows


@functools.lru_cache(None)
def reactions():
    """Input reactions (atom-mapped, as shipped)."""
    return [r["reaction"] for r in validation_rows() if r.get("reaction")]


@functools.lru_cache(None)
def curated():
    """Curated balanced reactions ('expected_reaction'), where present."""
    return [r["expected_reaction"] for r in validation_rows() if r.get("expected_reaction")]


def strip_maps(s):
    # independent of the repository's remove_atom_mapping: RDKit clears the maps
    from rdkit import Chem
    m = Chem.MolFromSmiles(s)
    if m is None:
        return None
    for a in m.GetAtoms():
        a.SetAtomMapNum(0)
    return Chem.MolToSmiles(m)


@functools.lru_cache(None)
def components():
    """Distinct component molecule strings of all corpus reactions (as written, with maps)."""
    seen = {}
    for rxn in reactions() + curated():
        for side in rxn.split(">>"):
            for c in side.split("."):
                if c and c not in seen:
                    seen[c] = True
    return list(seen)


@functools.lru_cache(None)
def unmapped_components():
    from rdkit import Chem, RDLogger
    RDLogger.DisableLog("rdApp.*")
    seen = {}
    for c in components():
        s = strip_maps(c)
        if s and s not in seen:
            seen[s] = True
    return list(seen)
