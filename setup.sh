#!/bin/bash
# Builds the verification framework offline: regenerate coq/Gen from /repo, full .vo build.
set -e
cd "$(dirname "$0")"
export PYTHONPATH=/repo PYTHONHASHSEED=0 PIP_NO_INDEX=1 SYNRBL_VERIF=1 PYTHONDONTWRITEBYTECODE=1
mkdir -p work evidence replays
/venv/bin/python harness/build.py
