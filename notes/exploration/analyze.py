import json, glob, collections, re
from rdkit import Chem, RDLogger
RDLogger.DisableLog('rdApp.*')
def comp(smi):
    m = Chem.MolFromSmiles(smi)
    if m is None: return None
    m = Chem.AddHs(m)
    c = collections.Counter(a.GetAtomicNum() for a in m.GetAtoms())
    c['q'] = sum(a.GetFormalCharge() for a in m.GetAtoms())
    return {k:v for k,v in c.items() if v}
def balanced(rx):
    if rx.count('>>')!=1: return None
    r,p = rx.split('>>')
    a,b = comp(r), comp(p)
    if a is None or b is None: return None
    return a==b
def mols(side):
    out = collections.Counter()
    for s in side.split('.'):
        m = Chem.MolFromSmiles(s)
        out[Chem.MolToSmiles(m) if m else 'INVALID:'+s]+=1
    return out
rows=[]; stats=collections.Counter()
import pandas as pd
df = pd.read_csv('/repo/Data/Validation_set/validation_set.csv')
for f in sorted(glob.glob('/tmp/explore/val_*.json')):
    d = json.load(open(f))
    for i,r in zip(d['idx'], d['rows']): r['_i']=i; rows.append(r)
    stats.update(d['stats'])
print(len(rows), dict(stats))
print(collections.Counter((r['solved'], r.get('solved_by')) for r in rows))
c01=[];c02=[];c03=[];c04=[]
for r in rows:
    inp = r['input_reaction']; out = r['reaction']
    bi = balanced(inp); bo = balanced(out)
    if r['solved'] and bo is not True: c01.append(r)
    # containment
    ir,ip = inp.split('>>'); orr,op = out.split('>>')
    if (mols(ir)-mols(orr)) or (mols(ip)-mols(op)): c02.append(r)
    if not r['solved']:
        if out!=inp or not r.get('issue'): c03.append(r)
    else:
        if r.get('solved_by') not in ('input-balanced','rule-based','mcs-based') or (r.get('issue') not in ('',None) and r.get('issue')==r.get('issue')): c03.append(r)
    if bi and not (r['solved'] and r.get('solved_by')=='input-balanced' and out==inp): c04.append(r)
    if r.get('solved_by')=='input-balanced' and not (bi and out==inp): c04.append(r)
print('C01 viol', len(c01)); 
for r in c01[:8]: print('  ', r['_i'], r['solved_by'], r['input_reaction'][:80], '=>', r['reaction'][:200])
print('C02 viol', len(c02))
for r in c02[:8]: print('  ', r['_i'], r['solved'], r.get('solved_by'), r['input_reaction'][:100], '=>', r['reaction'][:200])
print('C03 viol', len(c03))
for r in c03[:8]: print('  ', r['_i'], r['solved'], r.get('solved_by'), repr(r.get('issue')), r['input_reaction'][:80], '=>', r['reaction'][:120])
print('C04 viol', len(c04))
for r in c04[:8]: print('  ', r['_i'], r['solved'], r.get('solved_by'), r['input_reaction'][:80], '=>', r['reaction'][:120])
print(collections.Counter((r.get('issue') or '')[:50] for r in rows if not r['solved']).most_common(20))
# maps in outputs
print('maps in output', sum(1 for r in rows if re.search(r':\d+\]', r['reaction'])))
json.dump(rows, open('/tmp/explore/val_all.json','w'))
