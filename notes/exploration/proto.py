"""Throw-away prototype of the pipeline model (what Pipeline.v will say), driven by recorded oracles.
Compares with the real pipeline on corpus rows. Exploration only."""
import sys, json, copy, re, collections, random, time, functools
from synrbl import Balancer
import synrbl.balancing as bal
from synrbl.SynProcessor import RSMIDecomposer, RSMIProcessing
from synrbl.SynProcessor.check_carbon_balance import CheckCarbonBalance
import synrbl.SynMCSImputer.mcs_based_method as mbm
from synrbl.SynChemImputer.post_process import PostProcess
from synrbl.confidence_prediction import ConfidencePredictor
from synrbl.mcs_search import MCSSearch
from synrbl.SynUtils.chem_utils import calculate_net_charge
from rdkit import Chem

O = {'decomp':{}, 'ccount':{}, 'parse':{}, 'impute':{}, 'pp':{}, 'conf':{}, 'mcsstate':{}}
od = RSMIDecomposer.decompose
def dec(s):
    r = od(s); O['decomp'][s] = copy.deepcopy(r); return r
RSMIDecomposer.decompose = staticmethod(dec)
oc = CheckCarbonBalance.count_atoms
def cc(s, t, cache):
    r = oc(s, t, cache); O['ccount'][s] = r; return r
CheckCarbonBalance.count_atoms = staticmethod(cc)
op = RSMIProcessing.can_parse
def cp(s, symbol='>>'):
    r = op(s, symbol); O['parse'][s] = r; return r
RSMIProcessing.can_parse = staticmethod(cp)
oi = mbm.impute_reaction
def imp(rd, **kw):
    k = (rd['id'], rd[kw['reaction_col']])
    try:
        r = oi(rd, **kw); O['impute'][k] = ('ok', r[0], list(r[1])); return r
    except Exception as e:
        O['impute'][k] = ('exc', str(e)); raise
mbm.impute_reaction = imp
ofind = MCSSearch.find
def find(self, reactions):
    r = ofind(self, reactions)
    for x in reactions:
        if 'mcs' in x: O['mcsstate'][x['id']] = (x['mcs'] is None, x['issue'])
    return r
MCSSearch.find = find
opp = PostProcess.fit
def ppfit(self, data):
    res = opp(self, copy.deepcopy(data))
    for r in res:
        O['pp'][r[self.id_col]] = (r['label'], r.get('curated_reaction'))
    return res
PostProcess.fit = ppfit
opred = ConfidencePredictor.predict
def pred(self, reactions, stats=None, threshold=0):
    r = opred(self, reactions, stats=stats, threshold=threshold)
    for x in r: O['conf'][x['id']] = x['confidence']
    return r
ConfidencePredictor.predict = pred

RULES = json.load(open('/repo/synrbl/SynRuleImputer/rules_manager.json.gz'))
ABSQ = {r['smiles']: sum(abs(a.GetFormalCharge()) for a in Chem.MolFromSmiles(r['smiles']).GetAtoms()) for r in RULES}
BAN = [Chem.CanonSmiles(a) for a in ["[O].[O]","F-F","Cl-Cl","Br-Br","I-I","Cl-Br","Cl-I","Br-I"]]

def strip(s):
    s = re.sub(r":\d+", "", s); return re.sub(r"\[(?P<atom>(B|C|N|O|P|S|F|Cl|Br|I){1,2})(?:H\d?)?\]", r"\g<atom>", s)
def compare(r, p):
    if set(r) != set(p):
        if all(k in r for k in p) and not all(k in p for k in r):
            return "Products" if all(r[k] >= p[k] for k in p) else "Both"
        if all(k in p for k in r) and not all(k in r for k in p):
            return "Reactants" if all(r[k] <= p[k] for k in r) else "Both"
        return "Both"
    if all(r[k]==p[k] for k in r): return "Balance"
    if all(r[k]>=p[k] for k in r): return "Products"
    if all(r[k]<=p[k] for k in r): return "Reactants"
    return "Both"
def diff(r, p):
    d = {}
    for k in r:
        if k in p:
            v = abs(r[k]-p[k])
            if v: d[k] = v
        elif r[k] != 0: d[k] = r[k]
    for k in p:
        if k not in r and p[k] != 0: d[k] = p[k]
    return d
def clabel(rxn):
    r, p = rxn.split('>>')
    a = sum(O['ccount'][s] for s in r.split('.')); b = sum(O['ccount'][s] for s in p.split('.'))
    return 'balanced' if a==b else ('products' if a>b else 'reactants')
def validator(rows, method, carbon=True, override=False, msg=None):
    for x in rows:
        r, p = x['rxn'].split('>>')
        b = compare(copy.deepcopy(O['decomp'][r]), copy.deepcopy(O['decomp'][p]))
        if carbon: x['carbon'] = clabel(x['rxn'])
        x['unb'] = b
        if b == 'Balance' and x['carbon']=='balanced' and not x['solved']:
            x['solved'] = True; x['by'] = method
        if override and not x['solved']:
            x['rxn'] = x['input']
            if msg is not None and x.get('issue') == "": x['issue'] = msg
def dfs_all(rules, data):
    sols = []
    def go(data, path):
        if len(data)==1 and data.get('Q',0)==0: sols.append(path); return
        for rule in rules:
            c = rule['Composition']
            if not all(k in data and data[k] >= v for k,v in c.items() if k!='Q'): continue
            ratio = abs(min((data[k]//v if v!=0 else 0) for k,v in c.items() if k!='Q'))
            nd = dict(data)
            for k,v in c.items():
                if k in nd:
                    nd[k] -= v*ratio
                    if nd[k]==0 and k!='Q': del nd[k]
            go(nd, path+[(rule['smiles'], ratio)])
    go(data, [])
    return sols
def match(data):
    rules = sorted(RULES, key=lambda r: len(r['Composition']), reverse=True)
    data = dict(data)
    if 'Q' not in data: data['Q'] = 0
    data = {k:v for k,v in data.items() if v!=0 or k=='Q'}
    sols = dfs_all(rules, data)
    seen=set(); uniq=[]
    for s in sols:
        fs = frozenset(s)
        if fs not in seen: seen.add(fs); uniq.append(s)
    if not uniq: return []
    m = min(len(s) for s in uniq)
    sh = [s for s in uniq if len(s)==m]
    return sorted(sh, key=lambda s: sum(ABSQ[sm]*ra for sm,ra in s), reverse=True)
def rule_based(rows, stats=None):
    n = len(rows)
    R = []; P = []
    for x in rows:
        r,p = x['rxn'].split('>>'); x['reactants']=r; x['products']=p
        R.append(copy.deepcopy(O['decomp'][r])); P.append(copy.deepcopy(O['decomp'][p]))
    unb = [compare(a,b) for a,b in zip(R,P)]
    dif = [diff(a,b) for a,b in zip(R,P)]
    for d in R+P:
        if 'Q' not in d: d['Q']=0
    for i in range(n):
        if unb[i]=='Both':
            dd = {}
            for k,v in R[i].items():
                w = v - P[i].get(k,0)
                if w: dd[k]=w
            for k,v in P[i].items():
                if k not in R[i]: dd[k] = -v
            if len(dd)==2 and 'Q' in dd:
                if any(v<0 for k,v in dd.items() if k!='Q'): dd = {k:-v for k,v in dd.items()}; u='Reactants'
                else: u='Products'
            else: u='Both'
            dif[i]=dd; unb[i]=u
    for i,f in enumerate(dif):
        if unb[i]=='Both':
            w = f.get('O')
            if w is None: continue
            add = ".O"*w
            rows[i]['products'] += add; rows[i]['rxn'] += add
            del f['O']
            f['H'] = f.get('H',0) - 2*w
            if f['H'] >= 0: unb[i]='Products'
            else: f['H'] = -f['H']; unb[i]='Reactants'
    cb = [i for i in range(n) if rows[i]['carbon']=='balanced']
    rb = [i for i in cb if unb[i] in ('Reactants','Products')]
    both = [i for i in cb if unb[i]=='Both']
    if stats is not None:
        stats['balanced_cnt'] = len(cb)-len(rb)-len(both); stats['rb_applied']=len(rb)
    solve = []
    for i in rb:
        sol = match(dif[i])
        e = {'id': rows[i]['id'], 'reactants': rows[i]['reactants'], 'products': rows[i]['products']}
        if sol and len(sol[0])>0:
            smi = ".".join(".".join([s]*r) for s,r in sol[0])
            key = 'products' if unb[i]=='Products' else 'reactants'
            e[key] += "."+smi
            e['new'] = e['reactants']+'>>'+e['products']
            solve.append(e)
    certain = []
    for e in solve:
        if ".[H]" in e['products']:
            reac = [re.sub(r":\d+","",s) for s in e['reactants'].split('.')]
            if not (set(reac) & {"[Na]","[K]","[Li]","[H-]"}):
                if e['products'].split('.').count('[H]') % 2 == 0:
                    hc = int(e['products'].count('.[H]')/2)
                    e['products'] = e['products'].replace('.[H]','')
                    e['reactants'] += '.[O]'*hc
                    e['products'] = e['products'] + '.O'*hc if e['products'] else 'O'*hc
        if '.[O]' in e['products']:
            if e['products'].split('.').count('[O]') % 2 != 0:
                ocn = e['products'].count('.[O]')
                e['products'] = e['products'].replace('.[O]','')
                e['reactants'] += '.[H].[H]'*ocn
                e['products'] = e['products'] + '.O'*ocn if e['products'] else 'O'*ocn
        elif '.OO' in e['products']:
            e['products'] = e['products'].replace('.OO','')
            e['reactants'] += '.[H].[H]'
            e['products'] = e['products'] + '.O.O' if e['products'] else 'O.O'
        e['new'] = e['reactants']+'>>'+e['products']
    banre = re.compile("|".join(map(re.escape, BAN)))
    for e in solve:
        if banre.search(e['products']): continue
        if len(re.findall(re.escape('.[H]'), e['reactants'])) % 2 != 0: continue
        certain.append(e)
    if stats is not None: stats['rb_solved'] = len(certain)
    for e in certain: rows[int(e['id'])]['rxn'] = e['new']
def model(inputs, t=0):
    stats = {'reaction_cnt': len(inputs)}
    rows = []
    for s in inputs:
        s2 = strip(s)
        if O['parse'][s2]: rows.append({'rxn': s2})
    for i,x in enumerate(rows): x.update(id=str(i), input=x['rxn'], solved=False)
    validator(rows, 'input-balanced')
    rule_based(rows, stats)
    validator(rows, 'rule-based', carbon=False, override=True)
    # mcs find
    for x in rows:
        if x['solved']: continue
        none, issue = O['mcsstate'][x['id']]
        x['mcs'] = None if none else 'data'; x['issue'] = issue
    a = s_ = 0
    for x in rows:
        if 'mcs' not in x: continue
        a += 1
        if x['mcs'] is None: continue
        r = O['impute'][(x['id'], x['rxn'])]
        if r[0]=='ok': x['rxn']=r[1]; x['rules']=r[2]; s_ += 1
        else: x['issue']=r[1]
    stats['mcs_applied']=a; stats['mcs_solved']=s_
    validator(rows, 'mcs-based')
    for x in rows:
        if 'by' in x and x['by']!='input-balanced':
            lab, cur = O['pp'][x['id']]
            if lab!='unspecified' and cur is not None: x['rxn']=cur
    rule_based(rows, None)
    validator(rows, 'mcs-based', override=True, msg="Final reaction is unbalanced.")
    c=0
    for x in rows:
        if x.get('by')=='mcs-based':
            x['conf']=O['conf'][x['id']]
            if x['conf'] >= t: c+=1
            else: x['solved']=False; x['issue']="Confidence is below the threshold of {:.2%}.".format(t)
    stats['confident_cnt']=c
    return rows, stats

if __name__ == '__main__':
    allrows = json.load(open('/tmp/explore/val_all.json'))
    seed = int(sys.argv[1]); n = int(sys.argv[2]); bs = int(sys.argv[3])
    import pandas as pd
    df = pd.read_csv('/repo/Data/Validation_set/validation_set.csv')
    rnd = random.Random(seed)
    idx = rnd.sample(range(len(df)), n)
    b = Balancer(n_jobs=1)
    nbad = 0; ntot=0; t0=time.time()
    for k in range(0, n, bs):
        ins = [df['reaction'][i] for i in idx[k:k+bs]]
        for v in O.values(): v.clear()
        st={}
        real = b.rebalance(ins, output_dict=True, stats=st)
        rows, mst = model(ins)
        if st != mst: print('STATS DIFF', st, mst); nbad+=1
        if len(real)!=len(rows): print('LEN DIFF'); nbad+=1; continue
        for a, m in zip(real, rows):
            ntot+=1
            ka = (a['input_reaction'], a['reaction'], a['solved'], a.get('solved_by'), a.get('issue'), a.get('rules') if isinstance(a.get('rules'), list) else None, a.get('confidence'))
            km = (m['input'], m['rxn'], m['solved'], m.get('by'), m.get('issue'), m.get('rules'), m.get('conf'))
            if ka != km:
                nbad+=1
                if nbad < 6: print('ROW DIFF\n  real', ka, '\n  modl', km)
    print('rows', ntot, 'bad', nbad, 'time', round(time.time()-t0))
