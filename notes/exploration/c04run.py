import sys, json, pandas as pd, time, random
from synrbl import Balancer
shard, nshard = int(sys.argv[1]), int(sys.argv[2])
df = pd.read_csv('/repo/Data/Validation_set/validation_set.csv')
exp = [e for e in df['expected_reaction'].dropna().tolist()]
exp = [e for i,e in enumerate(exp) if i % nshard == shard]
rev = ['>>'.join(reversed(e.split('>>'))) for e in exp]
rnd = random.Random(shard)
dbl = []
for e in exp[:150]:
    r,p = e.split('>>'); dbl.append(r+'.'+r+'>>'+p+'.'+p)
uni = []
for i in range(0, min(300,len(exp))-1, 2):
    a,b = exp[i], exp[i+1]; ar,ap = a.split('>>'); br,bp = b.split('>>'); uni.append(ar+'.'+br+'>>'+ap+'.'+bp)
b = Balancer(n_jobs=1, batch_size=100)
out = {}
for name, rx in [('exp',exp),('rev',rev),('dbl',dbl),('uni',uni)]:
    t=time.time(); st={}
    rs = b.rebalance(rx, output_dict=True, stats=st)
    out[name] = {'n': len(rx), 'rows': rs, 'stats': st, 'in': rx, 't': time.time()-t}
json.dump(out, open(f'/tmp/explore/c04_{shard}.json','w'))
print('done', {k:(v['n'], len(v['rows']), v['stats'], round(v['t'])) for k,v in out.items()})
