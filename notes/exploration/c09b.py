import json, random, collections, time
from rdkit import Chem, RDLogger
RDLogger.DisableLog('rdApp.*')
from synrbl.SynMCSImputer.MissingGraph.molcurator import MoleculeCurator
from synrbl.SynMCSImputer.structure import CompoundSet
from synrbl.SynMCSImputer.merge import merge
rows = json.load(open('/tmp/explore/val_all.json'))
mols = sorted({s for r in rows for side in r['input_reaction'].split('>>') for s in side.split('.')})
rnd = random.Random(11); rnd.shuffle(mols)
def nostereo(smi):
    m = Chem.MolFromSmiles(smi)
    if m is None: return None
    Chem.RemoveStereochemistry(m); return Chem.MolToSmiles(m)
def sides(m, u, v):
    seen = {u}; st=[u]
    while st:
        x = st.pop()
        for n in m.GetAtomWithIdx(x).GetNeighbors():
            j = n.GetIdx()
            if (x==u and j==v) or j in seen: continue
            seen.add(j); st.append(j)
    return sorted(seen), sorted(set(range(m.GetNumAtoms()))-seen)
def frag(m, keep, b):
    rw = Chem.RWMol(m)
    for i in sorted(set(range(m.GetNumAtoms()))-set(keep), reverse=True): rw.RemoveAtom(i)
    idx = {old:new for new, old in enumerate(keep)}
    fm = rw.GetMol()
    try: Chem.SanitizeMol(fm)
    except Exception: return None, None
    fm = MoleculeCurator.add_hydrogens_to_radicals(fm)
    return fm, idx[b]
stat = collections.Counter(); ex = collections.defaultdict(list); n=0; t=time.time()
for smi in mols[:600]:
    m = Chem.MolFromSmiles(smi)
    if m is None or m.GetNumAtoms()>40 or m.GetNumAtoms()<3: continue
    ref = nostereo(smi)
    for b in m.GetBonds():
        if b.IsInRing() or b.GetBondType()!=Chem.BondType.SINGLE: continue
        u, v = b.GetBeginAtomIdx(), b.GetEndAtomIdx()
        A, B = sides(m, u, v); n+=1
        try:
            fa, ia = frag(m, A, u); fb, ib = frag(m, B, v)
            if fa is None or fb is None: stat['frag-unsanitizable']+=1; continue
            cs = CompoundSet()
            c1 = cs.add_compound(fa, src_mol=m); c1.add_boundary(ia, neighbor_index=v)
            c2 = cs.add_compound(fb, src_mol=m); c2.add_boundary(ib, neighbor_index=u)
            res = merge(cs); rn = '|'.join(r.name for r in res.rules)
            out = nostereo(res.smiles)
            k = ('ok:' if out==ref else 'MISMATCH:')+rn
            stat[k]+=1
            if out!=ref and len(ex[k])<3: ex[k].append((smi, (m.GetAtomWithIdx(u).GetSymbol(), m.GetAtomWithIdx(v).GetSymbol()), Chem.MolToSmiles(fa), Chem.MolToSmiles(fb), res.smiles))
        except Exception as e:
            k='exc:'+type(e).__name__+':'+str(e)[:70]; stat[k]+=1
            if len(ex[k])<2: ex[k].append((smi,u,v))
print('cuts', n, round(time.time()-t))
for k,v in stat.most_common(): print(v, k); [print('     ', e) for e in ex.get(k,[])]
