import sys, json, pandas as pd, time
from synrbl import Balancer
shard, nshard = int(sys.argv[1]), int(sys.argv[2])
df = pd.read_csv('/repo/Data/Validation_set/validation_set.csv')
idx = [i for i in range(len(df)) if i % nshard == shard]
rx = [df['reaction'][i] for i in idx]
b = Balancer(n_jobs=1, batch_size=50)
st = {}
t = time.time()
rs = b.rebalance(rx, output_dict=True, stats=st)
with open(f'/tmp/explore/val_{shard}.json','w') as f:
    json.dump({'idx': idx, 'rows': rs, 'stats': st, 'time': time.time()-t}, f)
print('done', shard, len(rs), st, time.time()-t)
