open Model
let rec pos_of_int n = if n = 1 then XH else if n land 1 = 0 then XO (pos_of_int (n/2)) else XI (pos_of_int (n/2))
let z_of_int n = if n = 0 then Z0 else if n > 0 then Zpos (pos_of_int n) else Zneg (pos_of_int (-n))
let bit c i = (Char.code c lsr i) land 1 = 1
let ascii_of_char c = Ascii (bit c 0, bit c 1, bit c 2, bit c 3, bit c 4, bit c 5, bit c 6, bit c 7)
let coqstr s = let r = ref EmptyString in for i = String.length s - 1 downto 0 do r := String (ascii_of_char s.[i], !r) done; !r
let () =
  let r = [ (coqstr "C", z_of_int 2); (coqstr "H", z_of_int 6) ] and p = [ (coqstr "C", z_of_int 2); (coqstr "H", z_of_int 4) ] in
  print_endline (match compare_dicts r p with Balance -> "Balance" | Products -> "Products" | Reactants -> "Reactants" | Both -> "Both")
