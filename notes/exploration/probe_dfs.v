From Coq Require Import String ZArith List Bool Lia.
Import ListNotations.
Open Scope string_scope. Open Scope Z_scope.

Definition dict := list (string * Z).
Fixpoint get (d:dict) (k:string) : option Z :=
  match d with [] => None | (k',v)::t => if String.eqb k k' then Some v else get t k end.
Definition getd (d:dict) k := match get d k with Some v => v | None => 0 end.
Fixpoint set (d:dict) (k:string) (v:Z) : dict :=
  match d with [] => [(k,v)] | (k',v')::t => if String.eqb k k' then (k,v)::t else (k',v')::set t k v end.
Fixpoint del (d:dict) (k:string) : dict :=
  match d with [] => [] | (k',v')::t => if String.eqb k k' then del t k else (k',v')::del t k end.

Lemma get_set_same d k v : get (set d k v) k = Some v.
Proof. induction d as [|[k' v'] t IH]; simpl. now rewrite String.eqb_refl.
  destruct (String.eqb k k') eqn:E; simpl; rewrite ?String.eqb_refl, ?E; auto. Qed.
Lemma get_set_other d k k' v : k' <> k -> get (set d k v) k' = get d k'.
Proof. intros N. induction d as [|[k2 v2] t IH]; simpl.
  - destruct (String.eqb_spec k' k); congruence.
  - destruct (String.eqb_spec k k2); simpl; subst.
    + destruct (String.eqb_spec k' k2); congruence.
    + destruct (String.eqb_spec k' k2); auto. Qed.
Lemma get_del_same d k : get (del d k) k = None.
Proof. induction d as [|[k' v'] t IH]; simpl; auto. destruct (String.eqb k k') eqn:E; simpl; rewrite ?E; auto. Qed.
Lemma get_del_other d k k' : k' <> k -> get (del d k) k' = get d k'.
Proof. intros N. induction d as [|[k2 v2] t IH]; simpl; auto.
  destruct (String.eqb_spec k k2); simpl; subst.
  - destruct (String.eqb_spec k' k2); congruence.
  - destruct (String.eqb_spec k' k2); auto. Qed.

Record rule := { smiles : string; rcomp : dict }.

Definition can_match (c data : dict) : bool :=
  forallb (fun kv => let '(k,v) := kv in if String.eqb k "Q" then true else
     match get data k with Some x => x >=? v | None => false end) c.

(* min over non-Q keys of data[k] // v *)
Fixpoint ratios (c data: dict) : list Z :=
  match c with [] => [] | (k,v)::t =>
    if String.eqb k "Q" then ratios t data else (if v =? 0 then 0 else getd data k / v) :: ratios t data end.
Definition minl (l : list Z) : option Z :=
  match l with [] => None | x::t => Some (fold_left Z.min t x) end.

(* one subtraction step for a single (k,v) *)
Definition sub1 (nd: dict) (k:string) (v ratio:Z) : dict :=
  match get nd k with
  | Some x => let y := x - v*ratio in
              if (y =? 0) && negb (String.eqb k "Q") then del nd k else set nd k y
  | None => nd end.
Definition subtract (c data: dict) (ratio: Z) : dict :=
  fold_left (fun nd kv => sub1 nd (fst kv) (snd kv) ratio) c data.

Definition apply_rule (data: dict) (r: rule) : option (dict * Z) :=
  if can_match (rcomp r) data then
    match minl (ratios (rcomp r) data) with
    | None => None (* python: ValueError on min([]) *)
    | Some m => let ratio := Z.abs m in Some (subtract (rcomp r) data ratio, ratio) end
  else None.

Definition exit_ok (d: dict) : bool :=
  match d with [(k,v)] => String.eqb k "Q" && (v =? 0) | _ => false end.
(* NB python: len(data)==1 and data.get("Q",0)==0 ; a single non-Q key has get Q = 0 -> True! *)
Definition exit_py (d: dict) : bool := (Nat.eqb (length d) 1) && (getd d "Q" =? 0).

Definition path := list (string * Z).
Fixpoint dfs (fuel:nat) (rules: list rule) (data: dict) (p: path) : option (list path) :=
  match fuel with O => None | S f =>
    if exit_py data then Some [p] else
    fold_left (fun acc r =>
      match acc with None => None | Some sols =>
        match apply_rule data r with
        | None => Some sols
        | Some (nd, ratio) =>
           match dfs f rules nd (p ++ [(smiles r, ratio)])%list with None => None | Some s => Some (sols ++ s)%list end
        end end) rules (Some [])
  end.

(* keys unique *)
Fixpoint nodupk (d:dict) : Prop := match d with [] => True | (k,_)::t => get t k = None /\ nodupk t end.

(* pointwise effect of sub1 under: key unique in c, Q always present in nd *)
Lemma sub1_getd nd k v ratio k' : 
  get nd k <> None ->
  getd (sub1 nd k v ratio) k' = if String.eqb k' k then getd nd k - v*ratio else getd nd k'.
Proof.
  intros H. unfold sub1. destruct (get nd k) as [x|] eqn:G; [|congruence].
  destruct (String.eqb_spec k' k) as [->|N].
  - destruct ((x - v*ratio =? 0) && negb (String.eqb k "Q")) eqn:E.
    + unfold getd. rewrite get_del_same, G. apply andb_prop in E as [E _]. apply Z.eqb_eq in E. lia.
    + unfold getd. rewrite get_set_same, G. reflexivity.
  - destruct ((x - v*ratio =? 0) && negb (String.eqb k "Q")).
    + unfold getd. now rewrite get_del_other.
    + unfold getd. now rewrite get_set_other.
Qed.
Print Assumptions sub1_getd.
(* sanity: run on an example *)
Definition R (s:string) (c:dict) := {| smiles := s; rcomp := c |}.
Definition db := [R "O" [("O",1);("H",2);("Q",0)]; R "[H+]" [("Q",1);("H",1)]; R "[Cl-]" [("Q",-1);("Cl",1)]; R "[H]" [("Q",0);("H",1)]; R "ClCl" [("Cl",2);("Q",0)]].
Eval vm_compute in dfs 10 db [("H",1);("Cl",1);("Q",0)] [].
Eval vm_compute in dfs 10 db [("H",3);("O",1);("Q",0)] [].
