import json, collections, pandas as pd, re
from rdkit import Chem, RDLogger
RDLogger.DisableLog('rdApp.*')
rows = json.load(open('/tmp/explore/val_all.json'))
mols = set()
for r in rows:
    for side in r['reaction'].split('>>'):
        for s in side.split('.'): mols.add(s)
df = pd.read_csv('/repo/Data/Validation_set/validation_set.csv')
for rx in df['reaction']:
    for side in rx.split('>>'):
        for s in side.split('.'): mols.add(s)
print('distinct component strings', len(mols))
DV = {1:[1],5:[3],6:[4],7:[3],8:[2],9:[1],14:[4],15:[3,5],16:[2,4,6],17:[1],35:[1],53:[1,3,5]}
def model_h(a):
    z, q = a.GetAtomicNum(), a.GetFormalCharge()
    if a.GetNoImplicit(): return a.GetNumExplicitHs()
    if z not in DV: return None
    halves = 0
    for b in a.GetBonds():
        t = b.GetBondTypeAsDouble()
        halves += int(round(t*2))
    ev = (halves // 2) if halves % 2 == 0 else (halves+1)//2  # round .5 up? test
    ev += a.GetNumExplicitHs() + a.GetNumRadicalElectrons()
    # isoelectronic shift
    ze = z - q
    vals = DV.get(ze)
    if vals is None: return None
    for v in vals:
        if v >= ev: return v - ev + a.GetNumExplicitHs()
    return 'ERR'
stat = collections.Counter(); bad = collections.Counter(); natoms=0; nm=0
for s in mols:
    m = Chem.MolFromSmiles(s)
    if m is None: stat['invalid']+=1; continue
    nm+=1
    for a in m.GetAtoms():
        natoms+=1
        mh = model_h(a)
        th = a.GetTotalNumHs()
        if mh is None: stat['unmodelled']+=1; bad[('unmod', a.GetSymbol(), a.GetFormalCharge())]+=1
        elif mh == th: stat['ok']+=1
        else:
            stat['mismatch']+=1; bad[(a.GetSymbol(), a.GetFormalCharge(), a.GetIsAromatic(), a.GetNoImplicit(), mh, th)]+=1
print(nm, natoms, stat); print(bad.most_common(25))
