Require Import M.
From Coq Require Import Extraction ExtrOcamlBasic String ZArith List.
Extraction Language OCaml.
Set Extraction Output Directory ".".
Extraction "model.ml" compare_dicts.
