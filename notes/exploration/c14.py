import json, random, collections, time
from rdkit import Chem, RDLogger
RDLogger.DisableLog('rdApp.*')
from synrbl import Balancer
from synrbl.SynUtils.chem_utils import normalize_smiles
rows = json.load(open('/tmp/explore/val_all.json'))
rnd = random.Random(7)
cand = [r for r in rows if r.get('solved_by') in ('input-balanced','rule-based')]
pick = rnd.sample(cand, 150)
def respell(smi, mode):
    m = Chem.MolFromSmiles(smi)
    if m is None: return smi
    if mode=='random': return Chem.MolToSmiles(m, doRandom=True)
    if mode=='kek':
        Chem.Kekulize(m, clearAromaticFlags=True); return Chem.MolToSmiles(m, kekuleSmiles=True)
    if mode=='map':
        for i,a in enumerate(m.GetAtoms()): a.SetAtomMapNum(i+1)
        return Chem.MolToSmiles(m)
    return smi
def variant(rx, mode):
    sides = []
    for side in rx.split('>>'):
        ms = side.split('.')
        if mode=='perm': rnd.shuffle(ms)
        else: ms = [respell(x, mode) for x in ms]
        sides.append('.'.join(ms))
    return '>>'.join(sides)
def added(r):
    out=[]
    for a,b in zip(r['input_reaction'].split('>>'), r['reaction'].split('>>')):
        ca = collections.Counter(Chem.CanonSmiles(x) for x in a.split('.') if x); cb = collections.Counter(Chem.CanonSmiles(x) if Chem.MolFromSmiles(x) else x for x in b.split('.') if x)
        out.append(tuple(sorted((cb-ca).items())))
    return tuple(out)
b = Balancer(n_jobs=1)
base = b.rebalance([r['input_reaction'] for r in pick], output_dict=True)
stat = collections.Counter()
for mode in ['random','kek','map','perm']:
    vs = [variant(r['input_reaction'], mode) for r in pick]
    out = b.rebalance(vs, output_dict=True)
    if len(out)!=len(base): print('LEN', mode, len(out)); continue
    for r0, r1, v in zip(base, out, vs):
        k0 = (r0['solved'], r0.get('solved_by')); k1 = (r1['solved'], r1.get('solved_by'))
        if k0 != k1: stat[(mode,'verdict-diff')]+=1; print(mode, 'VERDICT', k0, k1, r0['input_reaction'][:80], '||', v[:80])
        elif r0.get('solved_by')=='rule-based' and added(r0)!=added(r1):
            stat[(mode,'added-diff')]+=1; print(mode, 'ADDED', added(r0), added(r1))
        else: stat[(mode,'same')]+=1
print(dict(stat))
# C17 idempotence on corpus reactions
bad=0; n=0
for r in rnd.sample(rows, 1500):
    s = r['reaction']
    try:
        n1 = normalize_smiles(s); n2 = normalize_smiles(n1); n+=1
        if n1!=n2: bad+=1; print('NOT IDEM', n1[:100], '|', n2[:100])
    except Exception as e: print('EXC', e)
print('idempotence', n, bad)
