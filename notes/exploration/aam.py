import re, itertools, time
from synrbl.SynUtils.chem_utils import remove_atom_mapping, remove_stereo_chemistry, count_atoms
TOK = ["B","C","N","O","P","S","F","Cl","Br","I"]
def split12(u):
    # can u be split into 1 or 2 tokens?
    if u in TOK: return True
    for t in TOK:
        if u.startswith(t) and u[len(t):] in TOK: return True
    return False
def scan(s):
    # pass 1
    out=[]; i=0; n=len(s)
    while i<n:
        if s[i]==':' and i+1<n and s[i+1].isdigit() and s[i+1] in '0123456789':
            i+=1
            while i<n and s[i] in '0123456789': i+=1
        else: out.append(s[i]); i+=1
    s=''.join(out)
    # pass 2
    out=[]; i=0; n=len(s)
    while i<n:
        if s[i]=='[':
            j = s.find(']', i+1)
            if j!=-1:
                w = s[i+1:j]
                u = w
                if u and u[-1] in '0123456789' and len(u)>=2 and u[-2]=='H': u=u[:-2]
                elif u and u[-1]=='H': u=u[:-1]
                if '[' not in w and split12(u):
                    out.append(u); i=j+1; continue
        out.append(s[i]); i+=1
    return ''.join(out)
alpha = list("[]:1ClHBr@+n")
t=time.time(); n=0; bad=0
for L in range(0,6):
    for tup in itertools.product(alpha, repeat=L):
        s=''.join(tup); n+=1
        if scan(s)!=remove_atom_mapping(s):
            bad+=1
            if bad<10: print('DIFF', repr(s), repr(scan(s)), repr(remove_atom_mapping(s)))
print(n, bad, round(time.time()-t,1))
# second alphabet with other tokens
alpha = list("[]:12OSIFPNH")
n=0;bad=0
for L in range(0,6):
    for tup in itertools.product(alpha, repeat=L):
        s=''.join(tup); n+=1
        if scan(s)!=remove_atom_mapping(s):
            bad+=1
            if bad<10: print('DIFF', repr(s), repr(scan(s)), repr(remove_atom_mapping(s)))
print(n, bad)
