From Coq Require Import String ZArith List Bool Lia.
Import ListNotations.
Open Scope string_scope. Open Scope Z_scope.

(* dict model: assoc list with unique keys; python dict semantics via get *)
Definition dict := list (string * Z).
Fixpoint get (d:dict) (k:string) : option Z :=
  match d with [] => None | (k',v)::t => if String.eqb k k' then Some v else get t k end.
Definition mem (d:dict) k := match get d k with Some _ => true | None => false end.
Definition getd (d:dict) k := match get d k with Some v => v | None => 0 end.
Definition keys (d:dict) := map fst d.

Definition check_keys (d1 d2 : dict) := forallb (fun k => mem d1 k) (keys d2).
Definition same_keys d1 d2 := check_keys d1 d2 && check_keys d2 d1.
Inductive verdict := Balance | Products | Reactants | Both.
Definition all_cmp (f: Z -> Z -> bool) (ks: list string) (r p: dict) :=
  forallb (fun k => f (getd r k) (getd p k)) ks.
Definition compare_dicts (r p : dict) : verdict :=
  if negb (same_keys r p) then
    if check_keys r p && negb (check_keys p r) then
      if all_cmp Z.geb (keys p) r p then Products else Both
    else if check_keys p r && negb (check_keys r p) then
      if all_cmp Z.leb (keys r) r p then Reactants else Both
    else Both
  else
    if all_cmp Z.eqb (keys r) r p then Balance
    else if all_cmp Z.geb (keys r) r p then Products
    else if all_cmp Z.leb (keys r) r p then Reactants
    else Both.

(* well-formedness: no stored zero *)
Definition wf (d:dict) := forall k v, get d k = Some v -> v <> 0.

Lemma mem_get d k : mem d k = true <-> exists v, get d k = Some v.
Proof. unfold mem. destruct (get d k); split; intros; eauto; try discriminate. destruct H; discriminate. Qed.

Lemma get_in_keys d k v : get d k = Some v -> In k (keys d).
Proof. induction d as [|[k' v'] t IH]; simpl; [discriminate|]. destruct (String.eqb_spec k k'); subst; auto. Qed.
Lemma in_keys_get d k : In k (keys d) -> exists v, get d k = Some v.
Proof. induction d as [|[k' v'] t IH]; simpl; [tauto|]. intros [->|H]. rewrite String.eqb_refl; eauto.
 destruct (String.eqb k k'); eauto. Qed.

Lemma check_keys_spec d1 d2 : check_keys d1 d2 = true <-> (forall k, In k (keys d2) -> mem d1 k = true).
Proof. unfold check_keys. rewrite forallb_forall. tauto. Qed.

Theorem balance_iff r p : wf r -> wf p ->
  (compare_dicts r p = Balance <-> forall k, getd r k = getd p k).
Proof.
  intros Wr Wp. unfold compare_dicts. split.
  - destruct (same_keys r p) eqn:SK; simpl.
    2:{ repeat match goal with |- context[if ?b then _ else _] => destruct b end; discriminate. }
    destruct (all_cmp Z.eqb (keys r) r p) eqn:E.
    2:{ repeat match goal with |- context[if ?b then _ else _] => destruct b end; discriminate. }
    intros _ k. unfold all_cmp in E. rewrite forallb_forall in E.
    unfold same_keys in SK. apply andb_prop in SK as [S1 S2].
    rewrite check_keys_spec in S1, S2.
    destruct (get r k) eqn:G.
    + apply Z.eqb_eq. apply E. eapply get_in_keys; eauto.
    + unfold getd at 1. rewrite G. unfold getd. destruct (get p k) eqn:G2; auto.
      apply get_in_keys in G2. apply S1 in G2. unfold mem in G2. rewrite G in G2. discriminate.
  - intros H.
    assert (SK: same_keys r p = true).
    { unfold same_keys. apply andb_true_intro; split; apply check_keys_spec; intros k Hk;
      apply in_keys_get in Hk as [v Hv]; unfold mem.
      - destruct (get r k) eqn:G; auto. specialize (H k). unfold getd in H. rewrite G, Hv in H. apply Wp in Hv. congruence.
      - destruct (get p k) eqn:G; auto. specialize (H k). unfold getd in H. rewrite G, Hv in H. apply Wr in Hv. congruence. }
    rewrite SK. simpl.
    assert (E: all_cmp Z.eqb (keys r) r p = true).
    { unfold all_cmp. apply forallb_forall. intros k _. apply Z.eqb_eq. apply H. }
    rewrite E. reflexivity.
Qed.
Print Assumptions balance_iff.
