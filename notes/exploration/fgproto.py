"""Prototype of FGMatch model: pure-Python over extracted graphs; compare with real pattern_match / is_functional_group."""
import itertools, json, random, collections, time
from rdkit import Chem, RDLogger
RDLogger.DisableLog('rdApp.*')
from synrbl.SynUtils.functional_group_utils import pattern_match, is_functional_group, functional_group_config
def graph(m):
    syms = [a.GetSymbol() for a in m.GetAtoms()]
    nbrs = [[n.GetIdx() for n in a.GetNeighbors()] for a in m.GetAtoms()]
    bt = {}
    for b in m.GetBonds():
        i,j = b.GetBeginAtomIdx(), b.GetEndAtomIdx(); bt[(i,j)] = bt[(j,i)] = str(b.GetBondType())
    return syms, nbrs, bt
def perms_map(match_syms, syms):
    out = []
    if len(syms) >= len(match_syms):
        for perm in itertools.permutations(list(enumerate(syms))):
            ok = True; mp = []
            for i, s1 in enumerate(match_syms):
                if s1 == perm[i][1]: mp.append((i, perm[i][0]))
                else: ok = False; break
            if ok: out.append(mp)
    return out
def fits(G, P, a, pa, va, vp):
    (gs, gn, gb), (ps, pn, pb) = G, P
    va = va+[a]; vp = vp+[pa]
    an = [x for x in gn[a] if x not in va]; pnn = [x for x in pn[pa] if x not in vp]
    ok = False; match = []
    if gs[a] == ps[pa]:
        match.append((a, pa))
        if pnn:
            for mp in perms_map([ps[x] for x in pnn], [gs[x] for x in an]):
                valid = True; nm = set()
                for pi, ai in mp:
                    if gb[(a, an[ai])] != pb[(pa, pnn[pi])]: valid=False; break
                    f, m2 = fits(G, P, an[ai], pnn[pi], va, vp)
                    if not f: valid=False; break
                    nm.update(m2)
                if valid: ok=True; match.extend(nm); break
        else: ok = True
    return ok, match
def pmatch(G, a, P, panchor=None):
    if panchor is None:
        for pa in range(len(P[0])):
            r = fits(G, P, a, pa, [], [])
            if r[0]: return r
        return False, [[]]
    return fits(G, P, a, panchor, [], [])
CFG = {}
for name, c in functional_group_config.items():
    CFG[name] = ([graph(p) for p in c.pattern], [graph(g) for g in c.groups], [graph(x) for x in c.anti_pattern], c.pattern, c.groups, c.anti_pattern)
def isfg(G, name, idx):
    pats, grps, antis, *_ = CFG[name]
    r = False
    for p, g in zip(pats, grps):
        if pmatch(G, idx, p)[0]:
            r = r or pmatch(G, idx, g)[0]
    for ap in sorted(antis, key=lambda x: len(x[0]), reverse=True):
        if not r: break
        r = r and not pmatch(G, idx, ap)[0]
    return r
rows = json.load(open('/tmp/explore/val_all.json'))
mols = sorted({s for r in rows for side in r['input_reaction'].split('>>') for s in side.split('.')})
rnd = random.Random(3); rnd.shuffle(mols)
n=0; bad=0; t=time.time(); pos=collections.Counter(); nonref=collections.Counter()
for smi in mols[:400]:
    m = Chem.MolFromSmiles(smi)
    if m is None or m.GetNumAtoms() > 40: continue
    G = graph(m)
    for a in m.GetAtoms():
        if a.GetSymbol() in ('C','H'): continue
        for name in CFG:
            real = is_functional_group(m, name, a.GetIdx()); mine = isfg(G, name, a.GetIdx()); n+=1
            if real != mine: bad+=1; print('DIFF', smi, name, a.GetIdx(), real, mine)
            if real:
                pos[name]+=1
print('calls', n, 'bad', bad, 'time', round(time.time()-t), dict(pos))
# renumbering invariance on the real implementation
bad2=0; n2=0
for smi in mols[:150]:
    m = Chem.MolFromSmiles(smi)
    if m is None or m.GetNumAtoms() > 40: continue
    order = list(range(m.GetNumAtoms())); rnd.shuffle(order)
    m2 = Chem.RenumberAtoms(m, order)   # new atom i = old atom order[i]
    for newi, oldi in enumerate(order):
        if m.GetAtomWithIdx(oldi).GetSymbol() in ('C','H'): continue
        for name in CFG:
            n2+=1
            if is_functional_group(m, name, oldi) != is_functional_group(m2, name, newi):
                bad2+=1; print('RENUM DIFF', smi, name, oldi)
print('renumber calls', n2, 'diffs', bad2)
