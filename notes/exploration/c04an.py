import json, glob, collections
from rdkit import Chem, RDLogger
RDLogger.DisableLog('rdApp.*')
import re
def strip(s):
    s = re.sub(r":\d+", "", s); return re.sub(r"\[(?P<atom>(B|C|N|O|P|S|F|Cl|Br|I){1,2})(?:H\d?)?\]", r"\g<atom>", s)
def comp(smi):
    m = Chem.MolFromSmiles(smi)
    if m is None: return None
    m = Chem.AddHs(m)
    c = collections.Counter(a.GetAtomicNum() for a in m.GetAtoms())
    c['q'] = sum(a.GetFormalCharge() for a in m.GetAtoms())
    return {k:v for k,v in c.items() if v}
def bal(rx):
    r,p = rx.split('>>'); a,b = comp(r), comp(p)
    return None if a is None or b is None else a==b
tot = collections.Counter()
for f in sorted(glob.glob('/tmp/explore/c04_*.json')):
    d = json.load(open(f))
    for name, v in d.items():
        rows = v['rows']; ins = v['in']
        byin = collections.defaultdict(list)
        for r in rows: byin[r['input_reaction']].append(r)
        for x in ins:
            sx = strip(x)
            b0 = bal(x); b1 = bal(sx)
            tot[(name,'n')]+=1
            if b0 is None: tot[(name,'orig-unparsable')]+=1
            if b1 is None: tot[(name,'stripped-unparsable')]+=1
            if b0 != b1: tot[(name,'strip-changes-balance')]+=1; 
            rs = byin.get(sx)
            if not rs: tot[(name,'row-missing')]+=1; 
            else:
                r = rs[0]
                if b1 and not (r['solved'] and r['solved_by']=='input-balanced' and r['reaction']==sx):
                    tot[(name,'C04-viol-fwd')]+=1; print('FWD', name, x[:100], r['solved_by'])
                if r.get('solved_by')=='input-balanced' and not b1:
                    tot[(name,'C04-viol-conv')]+=1; print('CONV', name, x[:100])
                if b1: tot[(name,'balanced')]+=1
print(sorted(tot.items()))

print('---- strip-changes-balance examples')
import pandas as pd
df = pd.read_csv('/repo/Data/Validation_set/validation_set.csv')
n=0; kinds=collections.Counter()
for x in df['expected_reaction'].dropna():
    sx = strip(x)
    if bal(x) != bal(sx):
        # find differing molecules
        for a,b in zip(x.replace('>>','.').split('.'), sx.replace('>>','.').split('.')):
            ca, cb = comp(a), comp(b)
            if ca != cb:
                ma = Chem.MolFromSmiles(a)
                rad = sum(at.GetNumRadicalElectrons() for at in ma.GetAtoms()) if ma else None
                kinds[('radicals' if rad else 'closed-shell')]+=1
                if n < 12: print(a[:90], '->', b[:90], ca, cb, 'radicals', rad); n+=1
print(kinds)
